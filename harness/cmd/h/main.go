// h: the harness binary. `h check <ID> --tier quick|thorough [--replay f]`,
// `h worker` (internal, job in $VERIF_WJOB), `h list`.
package main

import (
	"encoding/json"
	"fmt"
	"io"
	"os"
	"sort"

	_ "verif/harness/checks"
	"verif/harness/vf"
)

func main() {
	if len(os.Args) < 2 {
		fmt.Fprintln(os.Stderr, "usage: h check <ID> --tier quick|thorough [--replay file] | worker | list")
		os.Exit(2)
	}
	switch os.Args[1] {
	case "worker":
		os.Exit(vf.WorkerMain())
	case "mlr":
		// debugging aid: run one invocation in-process, stdin from the real stdin
		in, _ := io.ReadAll(os.Stdin)
		sin := string(in)
		r := vf.RunMlr(os.Args[2:], vf.MlrOpts{Stdin: &sin})
		fmt.Printf("exit=%d exited=%v err=%q panic=%q\n--- stdout\n%s--- stderr\n%s", r.Exit, r.Exited, r.Err, r.Panic, r.Stdout, r.Stderr)
	case "list":
		var ids []string
		for id := range vf.Registry {
			ids = append(ids, id)
		}
		sort.Strings(ids)
		for _, id := range ids {
			fmt.Println(id, vf.Registry[id].Level)
		}
	case "check":
		if len(os.Args) < 3 {
			os.Exit(2)
		}
		id := os.Args[2]
		tier := os.Getenv("VERIF_TIER")
		if tier == "" {
			tier = "quick"
		}
		replay := ""
		var rest []string
		for i := 3; i < len(os.Args); i++ {
			switch os.Args[i] {
			case "--tier":
				i++
				tier = os.Args[i]
			case "--replay":
				i++
				replay = os.Args[i]
			default:
				rest = append(rest, os.Args[i])
			}
		}
		def := vf.Registry[id]
		if def == nil {
			fmt.Printf("BROKEN: property=%s no such check\n", id)
			os.Exit(2)
		}
		c := vf.NewCtx(id, tier)
		c.Level = def.Level
		c.Args = rest
		if replay != "" {
			c.Only = replay
			b, err := os.ReadFile(replay)
			if err != nil {
				fmt.Printf("BROKEN: property=%s cannot read replay: %v\n", id, err)
				os.Exit(2)
			}
			var doc struct {
				Replay json.RawMessage `json:"replay"`
			}
			json.Unmarshal(b, &doc)
			if def.Replay == nil {
				vf.GenericReplay(c, b)
				os.Exit(0)
			}
			def.Replay(c, doc.Replay)
			os.Exit(0)
		} else {
			def.Run(c)
		}
		os.Exit(c.Finish())
	default:
		os.Exit(2)
	}
}
