#!/usr/bin/env python3
"""Reference for property C15 (string / regex / formatting / hash functions).

Reads one JSON request per line on stdin, prints one JSON answer per line.
Python stdlib only (str, re, hashlib, base64, binascii, %-formatting, json):
shares no code with Go's unicode/utf8, regexp, crypto/*, encoding/* or fmt.

Byte strings travel hex-encoded.  An answer is built from "wants":

  s:<hex>      a string (or void) with exactly these bytes
  i:<n>        the int n
  b:true|false a boolean
  A[w,w,..]    an array of wants
  y:<hex>      a bytes value
  M{k=want;..} a map, ordered
  ws:<hex>     a string equal to this one after mapping every whitespace
               character to a space, with no two adjacent whitespace characters
  e            an error value
  a            absent
  u            unconstrained: the documentation does not determine the result
  w1|w2        either alternative

Everything is written from the function help texts and docs/src/*.md, not from
Miller's code.
"""
import sys, json, re, hashlib, base64, binascii


def S(b):
    if isinstance(b, str):
        b = b.encode("utf-8")
    return "s:" + b.hex()


def L(items):
    return "A[" + ",".join(S(x) for x in items) + "]"


def utf8(b):
    try:
        return b.decode("utf-8")
    except UnicodeDecodeError:
        return None


WS = " \t\n\r\f\v"

# ---------------------------------------------------------------- unary string functions


def k_unary(req):
    b = bytes.fromhex(req["s"])
    u = utf8(b)
    out = {}
    # byte-exact functions: defined for every byte string
    out["md5"] = S(hashlib.md5(b).hexdigest())
    out["sha1"] = S(hashlib.sha1(b).hexdigest())
    out["sha256"] = S(hashlib.sha256(b).hexdigest())
    out["sha512"] = S(hashlib.sha512(b).hexdigest())
    out["base64_encode"] = S(base64.b64encode(b))
    out["hex_encode"] = S(binascii.hexlify(b))
    out["latin1_to_utf8"] = S(b.decode("latin-1").encode("utf-8"))
    if u is None:
        # the docs say nothing about malformed UTF-8 for the character-aware functions
        for f in ("strlen", "toupper", "tolower", "capitalize", "lstrip", "rstrip", "strip",
                  "collapse_whitespace", "clean_whitespace", "utf8_to_latin1"):
            out[f] = "u"
        return out
    out["strlen"] = "i:%d" % len(u)
    out["toupper"] = S(u.upper())
    out["tolower"] = S(u.lower())
    out["capitalize"] = S(u[:1].upper() + u[1:])
    out["lstrip"] = S(u.lstrip(WS))
    out["rstrip"] = S(u.rstrip(WS))
    out["strip"] = S(u.strip(WS))
    coll = re.sub("[" + WS + "]+", " ", u)
    out["collapse_whitespace"] = "ws:" + coll.encode("utf-8").hex()
    out["clean_whitespace"] = "ws:" + coll.strip(" ").encode("utf-8").hex()
    try:
        out["utf8_to_latin1"] = S(u.encode("latin-1"))
    except UnicodeEncodeError:
        out["utf8_to_latin1"] = "e"
    return out


# ---------------------------------------------------------------- substr / slices / index


def pos1(m, n):
    """1-up position (possibly out of 1..n) named by Miller index m for length n; 0 stays 0."""
    if m < 0:
        return m + n + 1
    return m


def slice_1up(u, m, n):
    """[m:n] with 1-up inclusive bounds, -len..-1 aliasing, out-of-bounds trimmed (reference-main-strings.md)."""
    ln = len(u)
    lo, hi = pos1(m, ln), pos1(n, ln)
    inb = 1 <= lo <= ln and 1 <= hi <= ln
    lo2, hi2 = max(lo, 1), min(hi, ln)
    res = u[lo2 - 1:hi2] if lo2 <= hi2 else ""
    return res, inb, lo <= hi


def k_substr(req):
    b = bytes.fromhex(req["s"])
    u = utf8(b)
    lo, hi = req["lo"], req["hi"]
    pairs, singles = [], []
    for m in range(lo, hi + 1):
        for n in range(lo, hi + 1):
            if u is None:
                pairs.append(["u", "u", "u"])
                continue
            ln = len(u)
            # s[m:n]: documented incl. trimming
            r, inb, ordered = slice_1up(u, m, n)
            w_slice = S(r)
            # substr1: help fixes in-bounds behaviour; out-of-bounds or m>n: trimmed result or error
            w_s1 = S(r) if (inb and ordered) else S(r) + "|e"
            # substr0: 0-up m..n inclusive, negatives alias -len..-1 -> 0..len-1
            m1 = m + 1 if m >= 0 else m
            n1 = n + 1 if n >= 0 else n
            r0, inb0, ord0 = slice_1up(u, m1, n1)
            w_s0 = S(r0) if (inb0 and ord0) else S(r0) + "|e"
            pairs.append([w_s1, w_s0, w_slice])
    for k in range(lo, hi + 1):
        if u is None:
            singles.append("u")
            continue
        ln = len(u)
        p = pos1(k, ln)
        if 1 <= p <= ln:
            singles.append(S(u[p - 1]))
        else:
            singles.append("e")  # "Out-of-bounds index accesses are errors"
    return {"pairs": pairs, "singles": singles}


def k_pad(req):
    b = bytes.fromhex(req["s"])
    u = utf8(b)
    pads = [bytes.fromhex(p) for p in req["pads"]]
    trunc, padded = [], []
    for n in req["ns"]:
        if u is None or n < 0:
            trunc.append("u")
        else:
            trunc.append(S(u[:n]))
        for pb in pads:
            p = utf8(pb)
            if u is None or p is None or len(p) == 0:
                padded.append(["u", "u"])
                continue
            # "pads ... to at most the specified length": whole copies of the pad while they fit
            k = 0
            while len(u) + (k + 1) * len(p) <= n:
                k += 1
            padded.append([S(p * k + u), S(u + p * k)])
    return {"truncate": trunc, "pad": padded}


def k_index(req):
    b = bytes.fromhex(req["s"])
    u = utf8(b)
    out = []
    for th in req["ts"]:
        tb = bytes.fromhex(th)
        t = utf8(tb)
        w_contains = "b:true" if tb in b else "b:false"
        if len(tb) == 0 or len(b) == 0:
            out.append(["u", "u"])  # empty needle / empty haystack: not documented
            continue
        if u is None or t is None:
            out.append(["u", w_contains])
            continue
        i = u.find(t)
        out.append(["i:%d" % (i + 1 if i >= 0 else -1), w_contains])
    return out


# ---------------------------------------------------------------- regex


def go_style_matches(r, s):
    """All matches, scanning left to right, where an empty match abutting the preceding match is
    skipped (the convention of Go's regexp 'All' routines, which the Miller docs point to)."""
    pos, prev_end, out = 0, -1, []
    n = len(s)
    while pos <= n:
        m = r.search(s, pos)
        if m is None:
            break
        accept = True
        if m.end() == pos:
            # empty match at pos
            if m.start() == prev_end:
                accept = False
            pos += 1
        else:
            pos = m.end()
        prev_end = m.end()
        if accept:
            out.append(m)
    return out


def interp(repl, m):
    """\\0..\\9 -> whole match / capture group ("" when the group does not exist or did not take part)."""
    out, i = [], 0
    while i < len(repl):
        c = repl[i]
        if c == "\\" and i + 1 < len(repl) and repl[i + 1].isdigit():
            g = int(repl[i + 1])
            if g <= m.re.groups and m.group(g) is not None:
                out.append(m.group(g))
            i += 2
            continue
        out.append(c)
        i += 1
    return "".join(out)


def subst(s, matches, repl):
    out, last = [], 0
    for m in matches:
        out.append(s[last:m.start()])
        out.append(interp(repl, m))
        last = m.end()
    out.append(s[last:])
    return "".join(out)


def mapwant(pairs):
    return "M{" + ";".join(k + "=" + v for k, v in pairs) + "}"


def k_regex(req):
    flags = re.IGNORECASE if req.get("ci") else 0
    r = re.compile(req["p"], flags)
    repls = req["repl"]
    orelse = req["orelse"]
    out = []
    for s in req["subj"]:
        m = r.search(s)
        row = {}
        row["strmatch"] = "b:true" if m else "b:false"
        if m is None:
            row["strmatchx"] = mapwant([("matched", "b:false")])
            row["regextract"] = "a"
            row["regextract_or_else"] = S(orelse)
            row["captures"] = None
        else:
            pairs = [("matched", "b:true"), ("full_capture", S(m.group(0))),
                     ("full_start", "i:%d" % (m.start() + 1)), ("full_end", "i:%d" % m.end())]
            unconstrained = False
            if r.groups > 0:
                caps, starts, ends = [], [], []
                for g in range(1, r.groups + 1):
                    if m.group(g) is None:
                        unconstrained = True  # a group that took no part: rendering not documented
                        break
                    caps.append(m.group(g))
                    starts.append(m.start(g) + 1)
                    ends.append(m.end(g))
                pairs.append(("captures", L(caps)))
                pairs.append(("starts", "A[" + ",".join("i:%d" % x for x in starts) + "]"))
                pairs.append(("ends", "A[" + ",".join("i:%d" % x for x in ends) + "]"))
            row["strmatchx"] = "u" if unconstrained else mapwant(pairs)
            row["regextract"] = S(m.group(0))
            row["regextract_or_else"] = S(m.group(0))
            caps = []
            for g in range(0, 10):
                caps.append(m.group(g) if g <= r.groups and m.group(g) is not None else "")
            row["captures"] = caps
        if s == "":
            # regextract on an empty (void) first argument: not a string per the typing rules; not asserted
            row["regextract"] = "u"
            row["regextract_or_else"] = "u"
        first = [m] if m else []
        allgo = go_style_matches(r, s)
        allpy = list(r.finditer(s))
        row["sub"] = [S(subst(s, first, rp)) for rp in repls]
        g = []
        for rp in repls:
            a, b2 = S(subst(s, allgo, rp)), S(subst(s, allpy, rp))
            g.append(a if a == b2 else a + "|" + b2)
        row["gsub"] = g
        out.append(row)
    return out


def k_ssub(req):
    s = bytes.fromhex(req["s"])
    out = []
    for oh in req["olds"]:
        o = bytes.fromhex(oh)
        for nh in req["news"]:
            nw = bytes.fromhex(nh)
            if len(o) == 0:
                out.append(["u", "u"])
                continue
            out.append([S(s.replace(o, nw, 1)), S(s.replace(o, nw))])
    return out


def k_split(req):
    s = bytes.fromhex(req["s"])
    out = []
    for dh in req["ds"]:
        d = bytes.fromhex(dh)
        if len(s) == 0:
            out.append("u")  # splitting the empty string: [] or [""] -- not documented
        else:
            out.append(L(s.split(d)))
    return out


# ---------------------------------------------------------------- decoders


def k_decode(req):
    out = []
    for sh in req["ss"]:
        s = bytes.fromhex(sh)
        # base64: "Returns error if the input is not valid base64" (standard alphabet, padded)
        try:
            txt = s.decode("ascii")
            if any(c in "\r\n" for c in txt):
                raise ValueError("newline")
            w64 = "y:" + base64.b64decode(txt, validate=True).hex()
            if len(txt) % 4 != 0:
                w64 = "e"
        except Exception:
            w64 = "e"
        try:
            whex = "y:" + binascii.unhexlify(s).hex()
            if not re.fullmatch(rb"[0-9a-fA-F]*", s):
                whex = "e"
        except Exception:
            whex = "e"
        if len(s) == 0:
            w64, whex = "u", "u"
        out.append([w64, whex])
    return out


# ---------------------------------------------------------------- printf


# C99 7.19.6.1: zero or more flags (in any order), an optional minimum field width (a decimal integer
# which cannot start with 0: "0 is taken as a flag, not as the beginning of a field width"), an optional
# precision (a period followed by an optional decimal integer; "if only the period is specified, the
# precision is taken as zero"), an optional length modifier, the conversion specifier.
FMT_RE = re.compile(r"^%([-0+ #]*)(\d*)(?:\.(\d*))?(ll|l)?([a-zA-Z])$")


def c_int(flags, width, prec, verb, v):
    """C99 7.19.6.1 for d, x, X, o (+ b with the same rules as x) on a non-negative or (d only) negative integer."""
    neg = v < 0
    a = -v if neg else v
    if verb == "d":
        digits = "%d" % a
    elif verb == "x":
        digits = "%x" % a
    elif verb == "X":
        digits = "%X" % a
    elif verb == "o":
        digits = "%o" % a
    elif verb == "b":
        digits = bin(a)[2:]
    if prec is not None:
        if prec == 0 and a == 0:
            digits = ""
        else:
            digits = digits.rjust(prec, "0")
    prefix = ""
    if verb == "d":
        if neg:
            prefix = "-"
        elif "+" in flags:
            prefix = "+"
        elif " " in flags:
            prefix = " "
    if "#" in flags:
        if verb == "x" and a != 0:
            prefix = "0x"
        elif verb == "X" and a != 0:
            prefix = "0X"
        elif verb == "o" and not digits.startswith("0"):
            digits = "0" + digits
    body = prefix + digits
    if width is not None and len(body) < width:
        if "-" in flags:
            body = body.ljust(width)
        elif "0" in flags and prec is None:
            body = prefix + digits.rjust(width - len(prefix), "0")
        else:
            body = body.rjust(width)
    return body


def sigdigits(v):
    """number of significant decimal digits of the shortest representation that round-trips"""
    r = repr(abs(v)).lower()
    mant = r.split("e")[0].replace(".", "").lstrip("0").rstrip("0")
    return len(mant)


def k_hexfmt(req):
    """hexfmt: 'Convert int to hex string, e.g. 255 to "0xff"'. Negative: two's complement or signed, not documented which."""
    out = []
    for val in req["vals"]:
        v = int(val)
        if v >= 0:
            out.append(S("0x%x" % v))
        else:
            out.append(S("0x%x" % (v + 2 ** 64)) + "|" + S("-0x%x" % -v))
    return out


def k_fmt(req):
    f = req["fmt"]
    m = FMT_RE.match(f)
    out = []
    if not m:
        return ["u"] * len(req["vals"])
    flags, width, prec, lmod, verb = m.groups()
    width = int(width) if width else None
    prec = (int(prec) if prec else 0) if prec is not None else None
    fset = set(flags)
    # the result is a function of the flag SET: order and repetition do not matter
    flags = "".join(ch for ch in "-0+ #" if ch in fset)
    for kind, val in req["vals"]:
        w = "u"
        try:
            if kind == "s":
                # a non-numeric string: fmtnum -> error, fmtifnum -> the input
                w = "E"
            elif kind == "v":
                w = "u"  # empty
            elif kind == "b":
                w = "N"  # boolean: accepted input (not an error), rendering not documented
            elif verb in "dxXob":
                if kind == "i":
                    v = int(val)
                    ok = True
                    if verb == "d":
                        ok = "#" not in fset
                    else:
                        ok = v >= 0 and not (fset & set("+ "))
                        if "#" in fset and (v == 0 or verb == "b"):
                            ok = False  # '#' with zero differs between C and Go's fmt; %#b is not C
                    if prec == 0 and v == 0 and (fset & set("+ ")):
                        ok = False  # C prints the sign alone, Go's fmt (to which the Miller docs defer) prints nothing
                    if "#" in fset and "0" in fset and verb in "xX":
                        ok = False  # C counts the 0x prefix in the width, Go's fmt pads the digits to the width first
                    # l / ll: "Miller integers are long long so you must use formats which apply to long
                    # long, e.g. with ll in them" (format-values usage): every integer conversion takes them
                    if ok:
                        w = S(c_int(fset, width, prec, verb, v))
                else:
                    w = "u"  # float through an integer conversion: undefined in C
            elif verb in "eEfgG":
                if lmod == "ll":
                    w = "u"
                else:
                    v = float(val)
                    if v != v or v in (float("inf"), float("-inf")):
                        w = "u"
                    elif verb in "gG" and prec is None and sigdigits(v) > 6:
                        w = "u"  # C: 6 significant digits; Go's fmt: shortest unique representation
                    else:
                        pf = "%" + flags + (str(width) if width is not None else "") + ("." + str(prec) if prec is not None else "") + verb
                        w = S(pf % v)
            elif verb == "s":
                if lmod or (fset - set("-")):
                    w = "u"
                elif kind == "i":
                    txt = str(int(val))
                    pf = "%" + flags + (str(width) if width is not None else "") + ("." + str(prec) if prec is not None else "") + "s"
                    w = S(pf % txt)
                else:
                    w = "u"
        except Exception as e:  # pragma: no cover
            w = "u"
        out.append(w)
    return out


def k_fmtstr(req):
    """format-values -s on string fields: %[-][width][.prec]s with optional literal prefix/suffix text."""
    f = req["fmt"]
    m = re.match(r"^([^%]*)%(-?)(\d*)(?:\.(\d+))?s([^%]*)$", f)
    out = []
    for sh in req["ss"]:
        b = bytes.fromhex(sh)
        u = utf8(b)
        if not m or u is None:
            out.append("u")
            continue
        pre, minus, width, prec, post = m.groups()
        if (width or prec is not None) and not u.isascii():
            out.append("u")  # C counts bytes, Go counts characters
            continue
        if width.startswith("0"):
            out.append("u")  # the 0 flag with %s is undefined in C
            continue
        pf = "%" + minus + width + ("." + prec if prec is not None else "") + "s"
        out.append(S(pre + (pf % u) + post))
    return out


# ---------------------------------------------------------------- json


def k_json(req):
    """Validate Miller's json_stringify output for a document against the original text with an independent parser."""
    orig = bytes.fromhex(req["orig"])
    got = bytes.fromhex(req["got"])
    try:
        a = json.loads(orig.decode("utf-8"))
    except Exception as e:
        return "u"
    try:
        g = json.loads(got.decode("utf-8"))
    except Exception as e:
        return "bad:not JSON: %s" % e
    if a != g or json.dumps(a) != json.dumps(g):
        return "bad:value changed: %s -> %s" % (json.dumps(a), json.dumps(g))
    return "ok"


def k_jsonenc(req):
    """JSON texts (two spellings) for a string, to feed json_parse."""
    b = bytes.fromhex(req["s"])
    u = utf8(b)
    if u is None:
        return None
    return [json.dumps(u, ensure_ascii=True).encode("utf-8").hex(), json.dumps(u, ensure_ascii=False).encode("utf-8").hex()]


def k_format(req):
    """format(): help text. '{}' consumes the next argument, '{N}' (N>=1) is positional, missing -> empty, '{0}' -> error."""
    t = req["t"]
    args = [bytes.fromhex(a).decode("utf-8") for a in req["args"]]
    out, pos, i = [], 0, 0
    for m in re.finditer(r"\{([0-9]*)\}", t):
        out.append(t[i:m.start()])
        i = m.end()
        if m.group(1) == "":
            idx = pos
            pos += 1
        else:
            n = int(m.group(1))
            if n < 1:
                return "e"
            idx = n - 1
        if idx < len(args):
            out.append(args[idx])
    out.append(t[i:])
    return S("".join(out))


# ---------------------------------------------------------------- string-literal escapes


SIMPLE = {"a": 7, "b": 8, "f": 12, "n": 10, "r": 13, "t": 9, "v": 11, "\\": 92, '"': 34}
OCT = "01234567"
HEXD = "0123456789abcdefABCDEF"


def k_unb(req):
    """reference-main-strings.md, 'Escape sequences for string literals'."""
    lit = req["lit"]
    out = bytearray()
    i, n = 0, len(lit)
    while i < n:
        c = lit[i]
        if c != "\\":
            out += c.encode("utf-8")
            i += 1
            continue
        if i + 1 >= n:
            return "u"
        d = lit[i + 1]
        if d in SIMPLE:
            out.append(SIMPLE[d])
            i += 2
        elif d in OCT:
            if i + 3 < n + 0 and lit[i + 2] in OCT and lit[i + 3] in OCT and d in "0123":
                out.append(int(lit[i + 1:i + 4], 8))
                i += 4
            else:
                return "u"  # \0..\9 are capture references / not a documented escape
        elif d in "89":
            return "u"
        elif d == "x":
            if i + 3 < n + 0 and lit[i + 2] in HEXD and lit[i + 3] in HEXD:
                out.append(int(lit[i + 2:i + 4], 16))
                i += 4
            else:
                return "u"
        elif d == "u":
            h = lit[i + 2:i + 6]
            if len(h) == 4 and all(x in HEXD for x in h) and not (0xD800 <= int(h, 16) <= 0xDFFF):
                out += chr(int(h, 16)).encode("utf-8")
                i += 6
            else:
                return "u"
        elif d == "U":
            h = lit[i + 2:i + 10]
            if len(h) == 8 and all(x in HEXD for x in h) and int(h, 16) <= 0x10FFFF and not (0xD800 <= int(h, 16) <= 0xDFFF):
                out += chr(int(h, 16)).encode("utf-8")
                i += 10
            else:
                return "u"
        else:
            return "u"
    return S(bytes(out))


def k_unbblock(req):
    return [k_unb({"lit": l}) for l in req["lits"]]


# ---------------------------------------------------------------- capture-state sequences


def k_capseq(req):
    """reference-main-regular-expressions.md, 'Regex captures for the =~ operator' and 'Resetting captures'.
    steps: ["m", subject, regex, ci, negate] | ["l", literal] | ["r"] (match against null) |
           ["f", subject, regex, ci, literal] (a user-defined function that matches and returns the literal: own frame)."""
    state = None  # None: never matched / reset; else list of 10 strings
    out = []

    def domatch(subject, regex, ci):
        r = re.compile(regex, re.IGNORECASE if ci else 0)
        m = r.search(subject)
        if m is None:
            return False, [""] * 10
        return True, [(m.group(g) if g <= r.groups and m.group(g) is not None else "") for g in range(10)]

    def lit(state, text):
        if state is None:
            return S(text)
        res, i = [], 0
        while i < len(text):
            if text[i] == "\\" and i + 1 < len(text) and text[i + 1].isdigit():
                res.append(state[int(text[i + 1])])
                i += 2
            else:
                res.append(text[i])
                i += 1
        return S("".join(res))

    for st in req["steps"]:
        if st[0] == "m":
            ok, state = domatch(st[1], st[2], st[3])
            if st[4]:
                ok = not ok
            out.append("b:true" if ok else "b:false")
        elif st[0] == "r":
            state = None
            out.append("-")
        elif st[0] == "f":
            ok, inner = domatch(st[1], st[2], st[3])
            out.append(lit(inner, st[4]))  # the caller's captures are untouched
        else:
            out.append(lit(state, st[1]))
    return out


KINDS = {"unary": k_unary, "substr": k_substr, "pad": k_pad, "index": k_index, "regex": k_regex, "ssub": k_ssub,
         "split": k_split, "decode": k_decode, "fmt": k_fmt, "hexfmt": k_hexfmt, "fmtstr": k_fmtstr, "format": k_format, "json": k_json, "jsonenc": k_jsonenc,
         "unb": k_unb, "unbblock": k_unbblock, "capseq": k_capseq}


def main():
    out = sys.stdout
    for line in sys.stdin:
        line = line.strip()
        if not line:
            continue
        req = json.loads(line)
        ans = KINDS[req["k"]](req)
        out.write(json.dumps(ans, separators=(",", ":")))
        out.write("\n")


if __name__ == "__main__":
    main()
