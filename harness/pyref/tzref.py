#!/usr/bin/env python3
"""Reference for property C16: IANA zone rules through Python's zoneinfo on the
system tzdata. Run as a batch subprocess.

  tzref.py transitions LO HI ZONE...   -> JSON {zone: {"initial":[off,name,dst], "transitions":[[t,off_before,off_after,name_before,name_after,dst_before,dst_after],...]}}
                                           every instant t in [LO,HI) at which (utcoffset, tzname, dst) changes
                                           (t = first second with the new rule); found by probing every 6 h and bisecting.
  tzref.py batch < requests > answers   one answer line per request line:
      F <zone> <epoch>                  -> y m d H M S wday(0=Sun) yday off dst fold tzname
      P <zone> y m d H M S              -> t0 v0 t1 v1   (t_i: epoch of the wall time read with fold=i; v_i=1 iff t_i maps back to that wall time)
      G <epoch>                         -> y m d H M S wday yday      (UTC; cross-check of the Go civil reference)
"""
import sys, json
from datetime import datetime, timedelta, timezone
from zoneinfo import ZoneInfo

UTC = timezone.utc
EPOCH_NAIVE = datetime(1970, 1, 1)
EPOCH_UTC = datetime(1970, 1, 1, tzinfo=UTC)


def at(t, z):
    return (EPOCH_UTC + timedelta(seconds=t)).astimezone(z)


def sig(t, z):
    d = at(t, z)
    return (int(d.utcoffset().total_seconds()), d.tzname(), int(d.dst().total_seconds()) if d.dst() is not None else 0)


def first_change(z, l, r, sl):
    # sig(l) == sl and sig(r) != sl: smallest x in (l, r] with sig(x) != sl
    while r - l > 1:
        m = (l + r) // 2
        if sig(m, z) == sl:
            l = m
        else:
            r = m
    return r


def transitions(lo, hi, names):
    out = {}
    step = 6 * 3600
    for name in names:
        z = ZoneInfo(name)
        res = []
        a = lo
        sa = sig(a, z)
        initial = sa
        while a < hi:
            b = min(a + step, hi)
            sb = sig(b, z)
            if sb == sa:
                a = b
                continue
            x = first_change(z, a, b, sa)
            sx = sig(x, z)
            res.append([x, sa[0], sx[0], sa[1], sx[1], sa[2], sx[2]])
            a, sa = x, sx
        out[name] = {"initial": list(initial), "transitions": res}
    json.dump(out, sys.stdout)
    sys.stdout.write("\n")


def batch():
    zones = {}
    out = []
    w = sys.stdout.write
    for line in sys.stdin:
        p = line.split()
        if not p:
            continue
        k = p[0]
        if k == "F":
            z = zones.get(p[1])
            if z is None:
                z = zones[p[1]] = ZoneInfo(p[1])
            t = int(p[2])
            d = at(t, z)
            off = d.utcoffset()
            offs = off.days * 86400 + off.seconds
            dst = d.dst()
            tt = d.timetuple()
            w("%d %d %d %d %d %d %d %d %d %d %d %s\n" % (d.year, d.month, d.day, d.hour, d.minute, d.second,
                                                       (d.weekday() + 1) % 7, tt.tm_yday, offs,
                                                       1 if dst else 0, d.fold, d.tzname()))
        elif k == "P":
            z = zones.get(p[1])
            if z is None:
                z = zones[p[1]] = ZoneInfo(p[1])
            y, mo, dd, hh, mi, ss = (int(x) for x in p[2:8])
            naive = datetime(y, mo, dd, hh, mi, ss)
            base = naive - EPOCH_NAIVE
            secs = base.days * 86400 + base.seconds
            ans = []
            for fold in (0, 1):
                d = naive.replace(tzinfo=z, fold=fold)
                off = d.utcoffset()
                t = secs - (off.days * 86400 + off.seconds)
                back = at(t, z).replace(tzinfo=None)
                ans.append("%d %d" % (t, 1 if back == naive else 0))
            w(" ".join(ans) + "\n")
        elif k == "G":
            t = int(p[1])
            d = EPOCH_NAIVE + timedelta(seconds=t)
            w("%d %d %d %d %d %d %d %d\n" % (d.year, d.month, d.day, d.hour, d.minute, d.second,
                                           (d.weekday() + 1) % 7, d.timetuple().tm_yday))
        else:
            w("?\n")


def main():
    if len(sys.argv) >= 2 and sys.argv[1] == "transitions":
        transitions(int(sys.argv[2]), int(sys.argv[3]), sys.argv[4:])
    elif len(sys.argv) >= 2 and sys.argv[1] == "batch":
        batch()
    else:
        sys.stderr.write(__doc__)
        sys.exit(2)


if __name__ == "__main__":
    main()
