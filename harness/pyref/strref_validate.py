#!/usr/bin/env python3
"""Offline validation of strref.py's printf reference against glibc printf (not run by the check).

usage: python3 strref_validate.py      (needs gcc)
Compiles a small C program, feeds it every asserted cell of the quick format grid AND of the quick
directive-syntax families (every width numeral 1..120, every precision numeral .0...40 plus the bare
period / leading-zero / three-digit spellings, every non-canonical flag sequence of <= 2 flags; the
same enumeration as checks/c15/fmtw.go fmtSyntaxGrid) and compares with strref.k_fmt. The C program
gets the directive exactly as spelled (only the length modifier is normalised to ll for integers).
Expected output: "compared N mismatches 0". %b is skipped when the C library does not know it.
"""
import os, shutil, subprocess, sys, tempfile, itertools
sys.path.insert(0, os.path.dirname(os.path.abspath(__file__)))
import strref

C_SRC = r'''
#include <stdio.h>
#include <string.h>
#include <stdlib.h>
/* reads: fmt \t kind \t value ; prints result in [] ; fmt uses ll/l forms suitable for long long / double */
int main() {
  char line[1024];
  while (fgets(line, sizeof line, stdin)) {
    line[strcspn(line, "\n")] = 0;
    char *f = strtok(line, "\t"); char *k = strtok(NULL, "\t"); char *v = strtok(NULL, "\t");
    char out[8192];
    if (k[0] == 'i') { long long x = strtoll(v, NULL, 10); snprintf(out, sizeof out, f, x); }
    else if (k[0] == 'f') { double x = strtod(v, NULL); snprintf(out, sizeof out, f, x); }
    else { snprintf(out, sizeof out, f, v); }
    printf("[%s]\n", out);
  }
  return 0;
}
'''

def main():
    d = tempfile.mkdtemp(prefix="strref-validate-")
    src = os.path.join(d, "cfmt.c")
    exe = os.path.join(d, "cfmt")
    open(src, "w").write(C_SRC)
    subprocess.check_call(["gcc", "-w", "-o", exe, src])
    fl1 = [""] + list("-0+ #")
    flagsets = fl1 + ["".join(c) for c in itertools.combinations("-0+ #", 2)]
    widths = ["", "1", "5", "8"]
    precs = ["", ".0", ".3"]
    verbs = ["d", "x", "X", "o", "b", "e", "E", "f", "g", "G", "s", "lf", "le", "lg", "lld", "llx", "ld", "lx",
             "lX", "llX", "lo", "llo", "lb", "llb", "lE", "lG"]
    ivals = ["0", "1", "-1", "17", "255", "9223372036854775807", "-9223372036854775808"]
    fvals = ["0.0", "3.25", "-0.5", "1e10", "0.1", "2.5", "1e-5", "123456789.125", "0.5", "1234567.0"]
    has_b = subprocess.run([exe], input="%llb\ti\t5\n", capture_output=True, text=True).stdout.strip() == "[101]"
    specs = []  # (flags as spelled, width numeral, precision as spelled)
    for fl in flagsets:
        for w in widths:
            for p in precs:
                specs.append((fl, w, p))
    for w in range(1, 121):
        for fl in fl1:
            for p in ["", ".0", ".3", ".10"]:
                specs.append((fl, str(w), p))
    for p in ["." + str(k) for k in range(0, 41)] + [".", ".00", ".03", ".010", ".100"]:
        for fl in fl1:
            for w in ["", "5", "10"]:
                specs.append((fl, w, p))
    canon = set(flagsets)
    seqs = [a for a in "-0+ #" if a not in canon] + [a + b for a in "-0+ #" for b in "-0+ #" if a + b not in canon]
    for fl in seqs:
        for w in ["", "5", "10", "100"]:
            for p in ["", ".3"]:
                specs.append((fl, w, p))
    seen = set()
    lines, exp = [], []
    for fl, w, p in specs:
        if (fl, w, p) in seen:
            continue
        seen.add((fl, w, p))
        for v in verbs:
            fmt = "%" + fl + w + p + v
            vals = [["i", x] for x in ivals] + [["f", x] for x in fvals]
            ans = strref.k_fmt({"fmt": fmt, "vals": vals})
            for (kind, val), a in zip(vals, ans):
                if not a.startswith("s:"):
                    continue
                base = v[-1]
                if kind == "i" and base in "dxXob":
                    if base == "b" and not has_b:
                        continue
                    ckind, cf = "i", "%" + fl + w + p + "ll" + base
                elif kind == "i" and base == "s":
                    ckind, cf = "s", fmt
                else:
                    ckind, cf = "f", fmt  # ints through float verbs are converted to double
                lines.append("%s\t%s\t%s" % (cf, ckind, val))
                exp.append((fmt, kind, val, bytes.fromhex(a[2:]).decode()))
    r = subprocess.run([exe], input="\n".join(lines) + "\n", capture_output=True, text=True)
    shutil.rmtree(d, ignore_errors=True)
    outs = r.stdout.split("\n")
    print("C library knows %b:", has_b)
    bad = 0
    for (fmt, kind, val, e), o in zip(exp, outs):
        if "[" + e + "]" != o:
            bad += 1
            if bad < 40:
                print("MISMATCH", fmt, kind, val, "reference", repr(e), "C", o)
    print("compared", len(exp), "mismatches", bad)
    return 1 if bad else 0


if __name__ == "__main__":
    sys.exit(main())
