#!/usr/bin/env python3
"""Offline validation of strref.py's printf reference against glibc printf (not run by the check).

usage: python3 strref_validate.py      (needs gcc)
Compiles a small C program, feeds it every asserted cell of the quick format grid and compares
with strref.k_fmt. Expected output: "compared N mismatches 0".
"""
import os, subprocess, sys, tempfile, itertools
sys.path.insert(0, os.path.dirname(os.path.abspath(__file__)))
import strref

C_SRC = r'''
#include <stdio.h>
#include <string.h>
#include <stdlib.h>
/* reads: fmt \t kind \t value ; prints result in [] ; fmt uses ll/l forms suitable for long long / double */
int main() {
  char line[512];
  while (fgets(line, sizeof line, stdin)) {
    line[strcspn(line, "\n")] = 0;
    char *f = strtok(line, "\t"); char *k = strtok(NULL, "\t"); char *v = strtok(NULL, "\t");
    char out[512];
    if (k[0] == 'i') { long long x = strtoll(v, NULL, 10); snprintf(out, sizeof out, f, x); }
    else if (k[0] == 'f') { double x = strtod(v, NULL); snprintf(out, sizeof out, f, x); }
    else { snprintf(out, sizeof out, f, v); }
    printf("[%s]\n", out);
  }
  return 0;
}
'''

def main():
    d = tempfile.mkdtemp(prefix="strref-validate-")
    src = os.path.join(d, "cfmt.c")
    exe = os.path.join(d, "cfmt")
    open(src, "w").write(C_SRC)
    subprocess.check_call(["gcc", "-w", "-o", exe, src])
    flagsets = [""] + list("-0+ #") + ["".join(c) for c in itertools.combinations("-0+ #", 2)]
    widths = ["", "1", "5", "8"]
    precs = ["", ".0", ".3"]
    verbs = ["d", "x", "X", "o", "e", "E", "f", "g", "G", "s", "lf", "le", "lg", "lld", "llx", "ld", "lx"]
    ivals = ["0", "1", "-1", "17", "255", "9223372036854775807", "-9223372036854775808"]
    fvals = ["0.0", "3.25", "-0.5", "1e10", "0.1", "2.5", "1e-5", "123456789.125", "0.5", "1234567.0"]
    lines, exp = [], []
    for fl in flagsets:
        for w in widths:
            for p in precs:
                for v in verbs:
                    fmt = "%" + fl + w + p + v
                    vals = [["i", x] for x in ivals] + [["f", x] for x in fvals]
                    ans = strref.k_fmt({"fmt": fmt, "vals": vals})
                    for (kind, val), a in zip(vals, ans):
                        if not a.startswith("s:"):
                            continue
                        base = v[-1]
                        if kind == "i" and base in "dxXo":
                            ckind, cf = "i", "%" + fl + w + p + "ll" + base
                        elif kind == "i" and base == "s":
                            ckind, cf = "s", fmt
                        else:
                            ckind, cf = "f", fmt  # ints through float verbs are converted to double
                        lines.append("%s\t%s\t%s" % (cf, ckind, val))
                        exp.append((fmt, kind, val, bytes.fromhex(a[2:]).decode()))
    r = subprocess.run([exe], input="\n".join(lines) + "\n", capture_output=True, text=True)
    outs = r.stdout.split("\n")
    bad = 0
    for (fmt, kind, val, e), o in zip(exp, outs):
        if "[" + e + "]" != o:
            bad += 1
            if bad < 40:
                print("MISMATCH", fmt, kind, val, "reference", repr(e), "C", o)
    print("compared", len(exp), "mismatches", bad)
    return 1 if bad else 0


if __name__ == "__main__":
    sys.exit(main())
