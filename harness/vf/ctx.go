// Package vf is the check framework: evidence, violations, known findings,
// replay files.
package vf

import (
	"encoding/json"
	"fmt"
	"os"
	"path/filepath"
	"regexp"
	"sort"
	"strconv"
	"strings"
	"sync"
	"time"
)

const Root = "/verif"

func EvidenceDir() string {
	if d := os.Getenv("VERIF_EVIDENCE_DIR"); d != "" {
		return d
	}
	return filepath.Join(Root, "evidence")
}

func ReplayDir() string {
	if d := os.Getenv("VERIF_REPLAY_DIR"); d != "" {
		return d
	}
	return filepath.Join(Root, "replays")
}

// RepoRoot is the tree the harness was built against.
func RepoRoot() string {
	if d := os.Getenv("VERIF_REPO_ROOT"); d != "" {
		return d
	}
	return "/repo"
}

// MlrBin is a plain (uninstrumented) mlr built from the same tree, when the driver built one.
func MlrBin() string { return os.Getenv("VERIF_BIN_MLR") }

type Violation struct {
	Key    string `json:"key"`  // canonical, specific identification
	What   string `json:"what"` // one line, human readable
	Replay any    `json:"replay,omitempty"`
	Count  int    `json:"count,omitempty"`
}

type Finding struct {
	Property string `json:"property"`
	Status   string `json:"status"` // "known" | "fixed"
	Key      string `json:"key,omitempty"`
	Match    string `json:"match,omitempty"` // anchored regexp over keys (used sparingly, specific)
	What     string `json:"what"`
	Commit   string `json:"commit,omitempty"`
	re       *regexp.Regexp
}

type Ctx struct {
	ID    string
	Tier  string
	Seed  int64
	Level string // evidence level
	Only  string // --replay file
	Args  []string

	start time.Time
	mu    sync.Mutex

	Evaluations        int64
	DistinctNontrivial int64
	Rule               string
	Samples            []any
	States             int64
	Transitions        int64
	TracesValidated    int64
	Exhaustive         bool
	Extra              map[string]any
	Assumptions        []string
	Counters           map[string]int64

	viol     map[string]*Violation
	findings []*Finding
	broken   []string
	deadline time.Time
}

func NewCtx(id, tier string) *Ctx {
	c := &Ctx{ID: id, Tier: tier, start: time.Now(), Extra: map[string]any{}, Counters: map[string]int64{}, viol: map[string]*Violation{}, Exhaustive: true}
	if s := os.Getenv("VERIF_SEED"); s != "" {
		c.Seed, _ = strconv.ParseInt(s, 10, 64)
	}
	c.loadFindings()
	return c
}

func (c *Ctx) Quick() bool { return c.Tier != "thorough" }

func (c *Ctx) loadFindings() {
	b, err := os.ReadFile(filepath.Join(Root, "known-findings.json"))
	if err != nil {
		return
	}
	var all []*Finding
	if err := json.Unmarshal(b, &all); err != nil {
		c.Broken("known-findings.json does not parse: %v", err)
		return
	}
	for _, f := range all {
		if f.Property != c.ID || f.Status != "known" {
			continue
		}
		if f.Match != "" {
			re, err := regexp.Compile("^(?:" + f.Match + ")$")
			if err != nil {
				c.Broken("known-findings.json: bad match %q", f.Match)
				continue
			}
			f.re = re
		}
		c.findings = append(c.findings, f)
	}
}

// Broken records an infrastructure failure: the check exits 2 and reports no
// verdict.
func (c *Ctx) Broken(format string, a ...any) {
	c.mu.Lock()
	defer c.mu.Unlock()
	c.broken = append(c.broken, fmt.Sprintf(format, a...))
}

func (c *Ctx) Count(name string, n int64) {
	c.mu.Lock()
	c.Counters[name] += n
	c.mu.Unlock()
}

func (c *Ctx) Sample(s any) {
	c.mu.Lock()
	if len(c.Samples) < 12 {
		c.Samples = append(c.Samples, s)
	}
	c.mu.Unlock()
}

func (c *Ctx) Assume(s string) {
	c.mu.Lock()
	for _, a := range c.Assumptions {
		if a == s {
			c.mu.Unlock()
			return
		}
	}
	c.Assumptions = append(c.Assumptions, s)
	c.mu.Unlock()
}

// Violation records one violation under a canonical key. Repeats of a key are
// counted, not duplicated.
func (c *Ctx) Violation(key, what string, replay any) {
	c.mu.Lock()
	defer c.mu.Unlock()
	if v, ok := c.viol[key]; ok {
		v.Count++
		return
	}
	if len(c.viol) >= 100000 {
		c.Counters["violations_beyond_cap"]++
		return
	}
	c.viol[key] = &Violation{Key: key, What: what, Replay: replay, Count: 1}
}

func (c *Ctx) NumViolations() int {
	c.mu.Lock()
	defer c.mu.Unlock()
	return len(c.viol)
}

func (c *Ctx) known(key string) *Finding {
	for _, f := range c.findings {
		if f.Key != "" && f.Key == key {
			return f
		}
		if f.re != nil && f.re.MatchString(key) {
			return f
		}
	}
	return nil
}

// SetBudget sets a soft wall-clock budget; checks poll OverBudget and stop
// enumerating (exhaustive:false), never turning a timeout into a verdict.
func (c *Ctx) SetBudget(d time.Duration) { c.deadline = c.start.Add(d) }
func (c *Ctx) OverBudget() bool {
	return !c.deadline.IsZero() && time.Now().After(c.deadline)
}

var safeRe = regexp.MustCompile(`[^A-Za-z0-9_.-]+`)

// Finish writes the evidence file, prints KNOWN-FINDING / VIOLATION lines and
// returns the exit status.
func (c *Ctx) Finish() int {
	c.mu.Lock()
	defer c.mu.Unlock()
	isBroken := len(c.broken) > 0
	for _, b := range c.broken {
		fmt.Printf("BROKEN: property=%s %s\n", c.ID, b)
	}
	keys := make([]string, 0, len(c.viol))
	for k := range c.viol {
		keys = append(keys, k)
	}
	sort.Strings(keys)
	os.MkdirAll(ReplayDir(), 0755)
	nUnknown, nKnown := 0, 0
	seenFinding := map[*Finding]int{}
	var unknownLines []string
	groupOf := func(k string) string {
		if i := strings.IndexAny(k, "(:"); i > 0 {
			return k[:i]
		}
		return k
	}
	perGroup := map[string]int{}
	for _, k := range keys {
		v := c.viol[k]
		if f := c.known(k); f != nil {
			seenFinding[f] += v.Count
			nKnown++
			continue
		}
		nUnknown++
		g := groupOf(k)
		perGroup[g]++
		if perGroup[g] <= 4 && len(unknownLines) < 60 {
			safe := safeRe.ReplaceAllString(k, "_")
			if len(safe) > 80 {
				safe = safe[:80]
			}
			name := fmt.Sprintf("%s-%s-%08x.json", c.ID, safe, fnv32(k))
			p := filepath.Join(ReplayDir(), name)
			b, _ := json.MarshalIndent(map[string]any{"property": c.ID, "key": v.Key, "what": v.What, "count": v.Count, "replay": v.Replay}, "", " ")
			os.WriteFile(p, b, 0644)
			unknownLines = append(unknownLines, fmt.Sprintf("VIOLATION property=%s replay=%s", c.ID, p))
			fmt.Printf("  violation key=%s :: %s\n", v.Key, trunc(v.What, 600))
		}
	}
	os.Remove(filepath.Join(ReplayDir(), c.ID+"-summary.txt"))
	if nUnknown > 0 {
		var sb strings.Builder
		for _, k := range keys {
			if c.known(k) == nil {
				fmt.Fprintf(&sb, "%s\t%d\t%s\n", k, c.viol[k].Count, trunc(c.viol[k].What, 300))
			}
		}
		os.WriteFile(filepath.Join(ReplayDir(), c.ID+"-summary.txt"), []byte(sb.String()), 0644)
		groups := map[string]int{}
		for _, k := range keys {
			if c.known(k) != nil {
				continue
			}
			groups[groupOf(k)]++
		}
		var gs []string
		for g, n := range groups {
			gs = append(gs, fmt.Sprintf("%s=%d", g, n))
		}
		sort.Strings(gs)
		fmt.Printf("  violation groups: %s\n", strings.Join(gs, " "))
	}
	for _, f := range c.findings {
		if n := seenFinding[f]; n > 0 {
			fmt.Printf("KNOWN-FINDING: property=%s %s (re-observed in %d case(s))\n", c.ID, f.What, n)
		}
	}
	for _, l := range unknownLines {
		fmt.Println(l)
	}
	if nUnknown > len(unknownLines) {
		fmt.Printf("  (%d further distinct violations not written out)\n", nUnknown-len(unknownLines))
	}
	cov := map[string]any{}
	for k, v := range c.Extra {
		cov[k] = v
	}
	cov["evaluations"] = c.Evaluations
	cov["distinct_nontrivial"] = c.DistinctNontrivial
	cov["rule"] = c.Rule
	if len(c.Samples) == 0 {
		c.Samples = []any{"(no sample recorded)"}
	}
	cov["samples"] = c.Samples
	cov["exhaustive"] = c.Exhaustive
	if c.States > 0 {
		cov["states"] = c.States
		cov["transitions"] = c.Transitions
		cov["traces_validated_against_impl"] = c.TracesValidated
	}
	if len(c.Counters) > 0 {
		cov["counters"] = c.Counters
	}
	cov["known_findings_reobserved"] = nKnown
	ev := map[string]any{
		"property_id": c.ID,
		"tier":        c.Tier,
		"seed":        c.Seed,
		"level":       c.Level,
		"coverage":    cov,
		"assumptions": c.Assumptions,
		"wall_s":      time.Since(c.start).Seconds(),
		"violations":  nUnknown,
	}
	if c.Assumptions == nil {
		ev["assumptions"] = []string{}
	}
	b, _ := json.MarshalIndent(ev, "", " ")
	os.MkdirAll(EvidenceDir(), 0755)
	if c.Only == "" {
		if err := os.WriteFile(filepath.Join(EvidenceDir(), c.ID+".json"), append(b, '\n'), 0644); err != nil {
			fmt.Printf("BROKEN: property=%s cannot write evidence: %v\n", c.ID, err)
			return 2
		}
	}
	fmt.Printf("%s %s: evaluations=%d distinct_nontrivial=%d states=%d transitions=%d exhaustive=%v violations=%d known=%d wall=%.1fs\n",
		c.ID, c.Tier, c.Evaluations, c.DistinctNontrivial, c.States, c.Transitions, c.Exhaustive, nUnknown, nKnown, time.Since(c.start).Seconds())
	if isBroken {
		return 2
	}
	if nUnknown > 0 {
		return 1
	}
	return 0
}

func fnv32(s string) uint32 {
	h := uint32(2166136261)
	for i := 0; i < len(s); i++ {
		h ^= uint32(s[i])
		h *= 16777619
	}
	return h
}

func trunc(s string, n int) string {
	s = strings.ReplaceAll(s, "\n", "\\n")
	if len(s) > n {
		return s[:n] + "..."
	}
	return s
}

// Check registry.
type CheckFunc func(c *Ctx)
type WorkerFunc func(w *Worker)

type CheckDef struct {
	ID      string
	Level   string
	Run     CheckFunc
	Workers map[string]WorkerFunc
	Replay  func(c *Ctx, replay json.RawMessage)
}

var Registry = map[string]*CheckDef{}

func Register(d *CheckDef) { Registry[d.ID] = d }
