package vf

// E1: stateless DFS by re-execution over the schedules of one configuration,
// with state caching (verifrt.Sched.Key). Runs only in the sched-instrumented
// binary.

import (
	"fmt"
	"sort"

	"github.com/johnkerl/miller/v6/pkg/verifrt"
)

type ExploreSpec struct {
	// Body runs one complete execution (called on the controlled main
	// goroutine) and returns its canonical outcome. It must build everything
	// it touches afresh.
	Body func() string
	// After is called after each execution (outside the scheduler) with the
	// outcome (may be "" if the execution did not complete) and may amend it,
	// e.g. with file contents. Optional.
	After     func(outcome string, r *verifrt.Result) string
	Before    func() // reset external state (files) before each execution
	MaxExecs  int    // budget; 0 = 20000
	MaxSteps  int
	StallSecs int
	Trace     bool
}

type ExploreResult struct {
	Execs       int
	Completed   int
	Cut         int
	States      int64 // distinct global states at branching points
	Transitions int64 // scheduler steps executed over all executions
	Branchings  int
	MaxDepth    int
	MaxSteps    int
	Outcomes    map[string]int   // completed executions by outcome
	Witness     map[string][]int // first schedule producing each outcome
	Deadlocks   int
	DeadlockAt  []int
	Blocked     []string
	Horizons    int
	HorizonAt   []int
	Faults      map[string]int // goroutine panics / trapped exits, by text
	FaultAt     map[string][]int
	Stalled     bool
	StalledAt   []int
	Exhaustive  bool
	BoundDone   int // preemption bound completed when not exhaustive (-1: none)
}

func (r *ExploreResult) OutcomeList() []string {
	var l []string
	for k := range r.Outcomes {
		l = append(l, k)
	}
	sort.Strings(l)
	return l
}

// Explore enumerates all schedules of spec.Body.
func Explore(spec ExploreSpec) *ExploreResult {
	if !verifrt.Instrumented {
		panic("vf.Explore needs the sched-instrumented build")
	}
	if spec.MaxExecs == 0 {
		spec.MaxExecs = 20000
	}
	res := &ExploreResult{Outcomes: map[string]int{}, Witness: map[string][]int{}, Faults: map[string]int{}, FaultAt: map[string][]int{}, Exhaustive: true, BoundDone: -1}
	expanded := map[uint64]bool{}
	// a pending alternative shares its parent execution's choice list: prefix = base[:n] + [alt]
	type pending struct {
		base []int
		n    int
		alt  int
	}
	stack := []pending{{nil, 0, -1}}
	for len(stack) > 0 {
		if res.Execs >= spec.MaxExecs {
			res.Exhaustive = false
			break
		}
		pd := stack[len(stack)-1]
		stack = stack[:len(stack)-1]
		var prefix []int
		if pd.alt >= 0 {
			prefix = make([]int, pd.n+1)
			copy(prefix, pd.base[:pd.n])
			prefix[pd.n] = pd.alt
		}
		if spec.Before != nil {
			spec.Before()
		}
		var outcome string
		completed := false
		r := verifrt.Run(func() {
			outcome = spec.Body()
			completed = true
		}, verifrt.RunConfig{Prefix: prefix, MaxSteps: spec.MaxSteps, Trace: spec.Trace, StallSecs: spec.StallSecs,
			Seen: func(step int, key uint64, nopts int) bool { return expanded[key] }})
		res.Execs++
		res.Transitions += int64(r.Steps)
		if r.Steps > res.MaxSteps {
			res.MaxSteps = r.Steps
		}
		if len(r.Choices) > res.MaxDepth {
			res.MaxDepth = len(r.Choices)
		}
		if r.Stalled {
			res.Stalled = true
			res.StalledAt = append([]int{}, r.Choices...)
			res.Exhaustive = false
			return res // the process must be abandoned
		}
		for i := len(prefix); i < len(r.Choices); i++ {
			if expanded[r.Keys[i]] {
				continue
			}
			expanded[r.Keys[i]] = true
			res.Branchings++
			for alt := r.NOpts[i] - 1; alt >= 1; alt-- {
				stack = append(stack, pending{r.Choices, i, alt})
			}
		}
		sched := append([]int{}, r.Choices...)
		switch {
		case r.Cut:
			res.Cut++
			continue
		case r.Deadlock:
			res.Deadlocks++
			if res.DeadlockAt == nil {
				res.DeadlockAt, res.Blocked = sched, r.Blocked
			}
			continue
		case r.Horizon:
			res.Horizons++
			if res.HorizonAt == nil {
				res.HorizonAt = sched
			}
			// Non-termination is established by the first overrun of a generous horizon, and every
			// further execution of this configuration would cost a full horizon: stop here.
			res.Exhaustive = false
			res.States = int64(len(expanded))
			return res
		case r.Fault != nil:
			t := ""
			if r.Fault.Exit {
				t = fmt.Sprintf("exit(%d) in goroutine %s", r.Fault.Code, r.Fault.Goroutine)
			} else {
				t = fmt.Sprintf("panic in goroutine %s: %s", r.Fault.Goroutine, r.Fault.Panic)
			}
			if spec.After != nil {
				t = spec.After("FAULT "+t, &r)
			}
			res.Faults[t]++
			if res.FaultAt[t] == nil {
				res.FaultAt[t] = sched
			}
			continue
		}
		if !completed {
			continue
		}
		if spec.After != nil {
			outcome = spec.After(outcome, &r)
		}
		res.Completed++
		res.Outcomes[outcome]++
		if res.Witness[outcome] == nil {
			res.Witness[outcome] = sched
		}
	}
	res.States = int64(len(expanded))
	return res
}

// ReplaySchedule re-executes one schedule (with trace) and returns the outcome.
func ReplaySchedule(spec ExploreSpec, sched []int) (string, verifrt.Result) {
	if spec.Before != nil {
		spec.Before()
	}
	var outcome string
	r := verifrt.Run(func() { outcome = spec.Body() }, verifrt.RunConfig{Prefix: sched, MaxSteps: spec.MaxSteps, Trace: true})
	if spec.After != nil {
		outcome = spec.After(outcome, &r)
	}
	return outcome, r
}
