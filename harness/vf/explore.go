package vf

// E1: stateless DFS by re-execution over the schedules of one configuration,
// with state caching (verifrt.Sched.Key). Runs only in the sched-instrumented
// binary.

import (
	"fmt"
	"os"
	"sort"

	"github.com/johnkerl/miller/v6/pkg/types"
	"github.com/johnkerl/miller/v6/pkg/verifrt"
)

func init() {
	// content digests of channel messages refine the state key (see verifrt.DigestFn); VERIF_NODIGEST=1 switches them
	// off (debugging / measuring only)
	if verifrt.Instrumented && os.Getenv("VERIF_NODIGEST") == "" {
		verifrt.DigestFn = messageDigest
	}
}

// messageDigest: fast paths for the message types of Miller's pipeline channels, the reflective digest for the rest.
func messageDigest(v any) uint64 {
	const off, prime = 14695981039346656037, 1099511628211
	h := uint64(off)
	str := func(s string) {
		for i := 0; i < len(s); i++ {
			h = (h ^ uint64(s[i])) * prime
		}
		h = (h ^ 0xff) * prime
	}
	switch x := v.(type) {
	case nil:
		return 1
	case bool:
		if x {
			return 3
		}
		return 2
	case []*types.RecordAndContext:
		h = (h ^ uint64(len(x))) * prime
		for _, rc := range x {
			if rc == nil {
				str("nil")
				continue
			}
			h = rc.Record.VerifDigest(h)
			str(rc.Context.FILENAME)
			h = (h ^ uint64(rc.Context.FILENUM)) * prime
			h = (h ^ uint64(rc.Context.NR)) * prime
			h = (h ^ uint64(rc.Context.FNR)) * prime
			if rc.Context.JSONHadBrackets {
				h = (h ^ 5) * prime
			}
			str(rc.OutputString)
			if rc.EndOfStream {
				h = (h ^ 7) * prime
			}
		}
		return h
	case []string:
		h = (h ^ uint64(len(x))) * prime
		for _, s := range x {
			str(s)
		}
		return h
	case [][]string:
		h = (h ^ uint64(len(x))) * prime
		for _, r := range x {
			h = (h ^ uint64(len(r))) * prime
			for _, s := range r {
				str(s)
			}
		}
		return h
	case string:
		str(x)
		return h
	case error:
		str(x.Error())
		return h
	}
	return verifrt.ReflectDigest(v)
}

type ExploreSpec struct {
	// Body runs one complete execution (called on the controlled main
	// goroutine) and returns its canonical outcome. It must build everything
	// it touches afresh.
	Body func() string
	// After is called after each execution (outside the scheduler) with the
	// outcome (may be "" if the execution did not complete) and may amend it,
	// e.g. with file contents. Optional.
	After     func(outcome string, r *verifrt.Result) string
	Before    func() // reset external state (files) before each execution
	MaxExecs  int    // budget; 0 = 20000
	MaxSteps  int
	StallSecs int
	Trace     bool
}

type ExploreResult struct {
	Execs       int
	Completed   int
	Cut         int
	States      int64 // distinct global states at branching points
	Transitions int64 // scheduler steps executed over all executions
	Branchings  int
	MaxDepth    int
	MaxSteps    int
	Outcomes    map[string]int   // completed executions by outcome
	Witness     map[string][]int // first schedule producing each outcome
	Deadlocks   int
	DeadlockAt  []int
	Blocked     []string
	Horizons    int
	HorizonAt   []int
	Faults      map[string]int // goroutine panics / trapped exits, by text
	FaultAt     map[string][]int
	Stalled     bool
	StalledAt   []int
	Exhaustive  bool
	BoundDone   int // preemption bound completed when not exhaustive (-1: none)
}

func (r *ExploreResult) OutcomeList() []string {
	var l []string
	for k := range r.Outcomes {
		l = append(l, k)
	}
	sort.Strings(l)
	return l
}

// Explore enumerates all schedules of spec.Body.
func Explore(spec ExploreSpec) *ExploreResult {
	if !verifrt.Instrumented {
		panic("vf.Explore needs the sched-instrumented build")
	}
	if spec.MaxExecs == 0 {
		spec.MaxExecs = 20000
	}
	res := &ExploreResult{Outcomes: map[string]int{}, Witness: map[string][]int{}, Faults: map[string]int{}, FaultAt: map[string][]int{}, Exhaustive: true, BoundDone: -1}
	expanded := map[uint64]bool{}
	noCache := os.Getenv("VERIF_NOCACHE") != "" // debugging aid: plain DFS without state caching
	// a pending alternative shares its parent execution's choice list: prefix = base[:n] + [alt]
	type pending struct {
		base []int
		n    int
		alt  int
	}
	stack := []pending{{nil, 0, -1}}
	for len(stack) > 0 {
		if res.Execs >= spec.MaxExecs {
			res.Exhaustive = false
			break
		}
		pd := stack[len(stack)-1]
		stack = stack[:len(stack)-1]
		var prefix []int
		if pd.alt >= 0 {
			prefix = make([]int, pd.n+1)
			copy(prefix, pd.base[:pd.n])
			prefix[pd.n] = pd.alt
		}
		if spec.Before != nil {
			spec.Before()
		}
		var outcome string
		completed := false
		r := verifrt.Run(func() {
			outcome = spec.Body()
			completed = true
		}, verifrt.RunConfig{Prefix: prefix, MaxSteps: spec.MaxSteps, Trace: spec.Trace, StallSecs: stallSecs(spec.StallSecs),
			Seen: func(step int, key uint64, nopts int) bool { return !noCache && expanded[key] }})
		res.Execs++
		res.Transitions += int64(r.Steps)
		if r.Steps > res.MaxSteps {
			res.MaxSteps = r.Steps
		}
		if len(r.Choices) > res.MaxDepth {
			res.MaxDepth = len(r.Choices)
		}
		if r.Stalled {
			res.Stalled = true
			res.StalledAt = append([]int{}, r.Choices...)
			res.Exhaustive = false
			return res // the process must be abandoned
		}
		for i := len(prefix); i < len(r.Choices); i++ {
			if expanded[r.Keys[i]] && !noCache {
				continue
			}
			expanded[r.Keys[i]] = true
			res.Branchings++
			for alt := r.NOpts[i] - 1; alt >= 1; alt-- {
				stack = append(stack, pending{r.Choices, i, alt})
			}
		}
		sched := append([]int{}, r.Choices...)
		switch {
		case r.Cut:
			res.Cut++
			continue
		case r.Deadlock:
			res.Deadlocks++
			if res.DeadlockAt == nil {
				res.DeadlockAt, res.Blocked = sched, r.Blocked
			}
			continue
		case r.Horizon:
			res.Horizons++
			if res.HorizonAt == nil {
				res.HorizonAt = sched
			}
			// Non-termination is established by the first overrun of a generous horizon, and every
			// further execution of this configuration would cost a full horizon: stop here.
			res.Exhaustive = false
			res.States = int64(len(expanded))
			return res
		case r.Fault != nil:
			t := ""
			if r.Fault.Exit {
				t = fmt.Sprintf("exit(%d) in goroutine %s", r.Fault.Code, r.Fault.Goroutine)
			} else {
				t = fmt.Sprintf("panic in goroutine %s: %s", r.Fault.Goroutine, r.Fault.Panic)
			}
			if spec.After != nil {
				t = spec.After("FAULT "+t, &r)
			}
			res.Faults[t]++
			if res.FaultAt[t] == nil {
				res.FaultAt[t] = sched
			}
			continue
		}
		if !completed {
			continue
		}
		if spec.After != nil {
			outcome = spec.After(outcome, &r)
		}
		res.Completed++
		res.Outcomes[outcome]++
		if res.Witness[outcome] == nil {
			res.Witness[outcome] = sched
		}
	}
	res.States = int64(len(expanded))
	return res
}

// ReplaySchedule re-executes one schedule (with trace) and returns the outcome.
func ReplaySchedule(spec ExploreSpec, sched []int) (string, verifrt.Result) {
	if spec.Before != nil {
		spec.Before()
	}
	var outcome string
	r := verifrt.Run(func() { outcome = spec.Body() }, verifrt.RunConfig{Prefix: sched, MaxSteps: spec.MaxSteps, Trace: true})
	if spec.After != nil {
		outcome = spec.After(outcome, &r)
	}
	return outcome, r
}

func stallSecs(n int) int {
	if n == 0 {
		n = 60
	}
	return n * StallScale()
}

// RandomWalks runs n executions with uniformly random choices (a diagnostic: it decides nothing, it is used to
// cross-examine the exhaustive search) and returns the outcome histogram.
func RandomWalks(spec ExploreSpec, n int, seed int64) map[string]int {
	out := map[string]int{}
	x := uint64(seed)*2862933555777941757 + 3037000493
	for k := 0; k < n; k++ {
		if spec.Before != nil {
			spec.Before()
		}
		var outcome string
		done := false
		r := verifrt.Run(func() { outcome = spec.Body(); done = true }, verifrt.RunConfig{MaxSteps: spec.MaxSteps, StallSecs: stallSecs(spec.StallSecs),
			Chooser: func(step, nopts int) int {
				x ^= x << 13
				x ^= x >> 7
				x ^= x << 17
				return int(x % uint64(nopts))
			}})
		switch {
		case r.Deadlock:
			outcome = "DEADLOCK"
		case r.Horizon:
			outcome = "HORIZON"
		case r.Fault != nil:
			outcome = "FAULT"
		case !done:
			outcome = "INCOMPLETE"
		}
		if spec.After != nil && done {
			outcome = spec.After(outcome, &r)
		}
		out[outcome]++
	}
	return out
}

// AuditCaching cross-examines the state caching: it runs the cached DFS recording, for every expanded state key, the
// set of options seen at its first expansion, then runs n random walks and reports every branching point whose state
// key was expanded with a DIFFERENT option set (equal keys must imply equal futures, in particular equal options).
func AuditCaching(spec ExploreSpec, n int) []string {
	first := map[uint64]string{}
	expanded := map[uint64]bool{}
	type pending struct {
		base []int
		n    int
		alt  int
	}
	stack := []pending{{nil, 0, -1}}
	execs := 0
	for len(stack) > 0 && execs < 400000 {
		pd := stack[len(stack)-1]
		stack = stack[:len(stack)-1]
		var prefix []int
		if pd.alt >= 0 {
			prefix = make([]int, pd.n+1)
			copy(prefix, pd.base[:pd.n])
			prefix[pd.n] = pd.alt
		}
		if spec.Before != nil {
			spec.Before()
		}
		r := verifrt.Run(func() { spec.Body() }, verifrt.RunConfig{Prefix: prefix, MaxSteps: spec.MaxSteps, Audit: true,
			Seen: func(step int, key uint64, nopts int) bool { return expanded[key] }})
		execs++
		for i := len(prefix); i < len(r.Choices); i++ {
			if expanded[r.Keys[i]] {
				continue
			}
			expanded[r.Keys[i]] = true
			ds := append([]string{}, r.OptDescs[i]...)
			sort.Strings(ds)
			first[r.Keys[i]] = fmt.Sprint(ds)
			for alt := r.NOpts[i] - 1; alt >= 1; alt-- {
				stack = append(stack, pending{r.Choices, i, alt})
			}
		}
	}
	var findings []string
	x := uint64(88172645463325252)
	for k := 0; k < n && len(findings) < 5; k++ {
		if spec.Before != nil {
			spec.Before()
		}
		r := verifrt.Run(func() { spec.Body() }, verifrt.RunConfig{MaxSteps: spec.MaxSteps, Audit: true,
			Chooser: func(step, nopts int) int {
				x ^= x << 13
				x ^= x >> 7
				x ^= x << 17
				return int(x % uint64(nopts))
			}})
		for i := range r.Choices {
			ds := append([]string{}, r.OptDescs[i]...)
			sort.Strings(ds)
			f, ok := first[r.Keys[i]]
			if !ok {
				findings = append(findings, fmt.Sprintf("walk %d point %d: state %x was never expanded by the DFS (options %v); previous step options %v", k, i, r.Keys[i], ds, prev(r.OptDescs, i)))
				break
			}
			if f != fmt.Sprint(ds) {
				findings = append(findings, fmt.Sprintf("walk %d point %d: state %x has options %v here but %s at its first expansion", k, i, r.Keys[i], ds, f))
				break
			}
		}
	}
	return append([]string{fmt.Sprintf("dfs executions %d, expanded states %d", execs, len(expanded))}, findings...)
}

func prev(d [][]string, i int) []string {
	if i == 0 {
		return nil
	}
	return d[i-1]
}
