package vf

// Helpers for free-running -race passes (a separate binary built with -race runs harness bodies uninstrumented; the
// detector's reports are read back from its log files and keyed by the racing site).

import (
	"os"
	"path/filepath"
	"regexp"
	"strings"
)

var raceBlockRe = regexp.MustCompile(`(?s)WARNING: DATA RACE\n(.*?)\n==================`)
var raceFrameRe = regexp.MustCompile(`\n\s+(github\.com/johnkerl/miller/v6/pkg/\S+?)\(\)\n`)

// RaceEnv is the environment of a -race worker pool whose reports go to files under dir.
func RaceEnv(dir string) []string {
	return []string{"VERIF_AS_GB=24", "VERIF_RACE_LOG=" + filepath.Join(dir, "race"), "GORACE=halt_on_error=0 exitcode=0 log_path=" + filepath.Join(dir, "race")}
}

// TakeRaceLogs returns and truncates what the detector has written so far.
func TakeRaceLogs() string {
	base := os.Getenv("VERIF_RACE_LOG")
	var all strings.Builder
	matches, _ := filepath.Glob(base + ".*")
	for _, m := range matches {
		b, _ := os.ReadFile(m)
		all.Write(b)
		os.Truncate(m, 0)
	}
	return all.String()
}

type RaceSite struct {
	Site   string // top Miller frames of the first access, joined by |
	Report string
}

// RaceSites extracts the distinct racing sites from detector output.
func RaceSites(logs string) []RaceSite {
	var out []RaceSite
	seen := map[string]bool{}
	for _, m := range raceBlockRe.FindAllStringSubmatch(logs, -1) {
		frames := raceFrameRe.FindAllStringSubmatch("\n"+m[1]+"\n", 3)
		var top []string
		for _, f := range frames {
			top = append(top, strings.TrimPrefix(f[1], "github.com/johnkerl/miller/v6/pkg/"))
		}
		site := strings.Join(top, "|")
		if seen[site] {
			continue
		}
		seen[site] = true
		rep := m[1]
		if len(rep) > 1500 {
			rep = rep[:1500]
		}
		out = append(out, RaceSite{site, rep})
	}
	return out
}
