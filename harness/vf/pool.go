package vf

// Crash-attributing worker pool. Cases are sharded over worker processes of
// the same binary (or the sched-instrumented sibling). A worker keeps the index
// of the case it is executing in an mmap'd /dev/shm file (a plain store, no
// syscall), so that when it dies (panic in a foreign goroutine, fatal error,
// os.Exit from library code, OOM) or stops making progress, the parent knows
// the exact case, re-runs it alone, classifies it, and resumes the shard after
// it.

import (
	"encoding/binary"
	"encoding/json"
	"fmt"
	"os"
	"os/exec"
	"path/filepath"
	"runtime"
	"sort"
	"strconv"
	"strings"
	"sync"
	"syscall"
	"time"
)

type ShardReport struct {
	Evaluations int64               `json:"evaluations"`
	Nontrivial  int64               `json:"nontrivial"`
	States      int64               `json:"states"`
	Transitions int64               `json:"transitions"`
	Counters    map[string]int64    `json:"counters"`
	Sets        map[string][]string `json:"sets"`
	Violations  []Violation         `json:"violations"`
	Samples     []any               `json:"samples"`
	Inexhaust   []string            `json:"inexhaustive"`
	Broken      []string            `json:"broken"`
	Suspect     string              `json:"suspect"` // set when the worker abandoned the process because of an unconfirmed stall
}

type wjob struct {
	Check    string          `json:"check"`
	Worker   string          `json:"worker"`
	Tier     string          `json:"tier"`
	Seed     int64           `json:"seed"`
	Shard    int             `json:"shard"`
	NShards  int             `json:"nshards"`
	From     uint64          `json:"from"`
	Only     int64           `json:"only"`
	Args     json.RawMessage `json:"args"`
	Progress string          `json:"progress"`
	Out      string          `json:"out"`
}

type Worker struct {
	Check   string
	Name    string
	Tier    string
	Seed    int64
	Shard   int
	NShards int
	From    uint64
	Only    int64
	Args    json.RawMessage
	Rep     ShardReport
	prog    []byte
	job     wjob
	sets    map[string]map[string]bool
	vkeys   map[string]int
	vgroups map[string]int
}

func (w *Worker) Quick() bool { return w.Tier != "thorough" }

// Mine reports whether case idx belongs to this worker invocation.
func (w *Worker) Mine(idx uint64) bool {
	if w.Only >= 0 {
		return idx == uint64(w.Only)
	}
	return idx%uint64(w.NShards) == uint64(w.Shard) && idx >= w.From
}

// Begin announces the case about to run.
func (w *Worker) Begin(idx uint64) {
	if w.prog != nil {
		binary.LittleEndian.PutUint64(w.prog[0:8], idx+1)
		binary.LittleEndian.PutUint64(w.prog[8:16], uint64(time.Now().UnixNano()))
	}
}

// Heartbeat tells the parent that a long-running case is still making progress.
func (w *Worker) Heartbeat() {
	if w.prog != nil {
		binary.LittleEndian.PutUint64(w.prog[8:16], uint64(time.Now().UnixNano()))
	}
}

// Label records a human-readable description of the current case; evaluated
// only when a single case is being re-run for attribution.
func (w *Worker) Label(f func() string) {
	if w.Only >= 0 && w.job.Progress != "" {
		os.WriteFile(w.job.Progress+".label", []byte(f()), 0644)
	}
}

func (w *Worker) Eval(n int64)       { w.Rep.Evaluations += n }
func (w *Worker) Nontrivial(n int64) { w.Rep.Nontrivial += n }
func (w *Worker) Count(name string, n int64) {
	if w.Rep.Counters == nil {
		w.Rep.Counters = map[string]int64{}
	}
	w.Rep.Counters[name] += n
}
func (w *Worker) AddSet(set, member string) {
	if w.sets == nil {
		w.sets = map[string]map[string]bool{}
	}
	m := w.sets[set]
	if m == nil {
		m = map[string]bool{}
		w.sets[set] = m
	}
	if len(m) < 20000 {
		m[member] = true
	}
}
func (w *Worker) Sample(s any) {
	if len(w.Rep.Samples) < 4 {
		w.Rep.Samples = append(w.Rep.Samples, s)
	}
}
func (w *Worker) Violation(key, what string, replay any) {
	if w.vkeys == nil {
		w.vkeys = map[string]int{}
	}
	if i, ok := w.vkeys[key]; ok {
		w.Rep.Violations[i].Count++
		return
	}
	g := key
	if i := strings.IndexAny(key, "(:"); i > 0 {
		g = key[:i]
	}
	if w.vgroups == nil {
		w.vgroups = map[string]int{}
	}
	w.vgroups[g]++
	if w.vgroups[g] > 200 || len(w.Rep.Violations) >= 5000 {
		w.Count("violations_beyond_cap:"+g, 1)
		return
	}
	w.vkeys[key] = len(w.Rep.Violations)
	w.Rep.Violations = append(w.Rep.Violations, Violation{Key: key, What: what, Replay: replay, Count: 1})
}

// HasViolationPrefix reports whether a violation whose key contains sub was already recorded by this worker.
func (w *Worker) HasViolationPrefix(sub string) bool {
	for k := range w.vkeys {
		if strings.Contains(k, sub) {
			return true
		}
	}
	return false
}

func (w *Worker) Inexhaustive(why string) { w.Rep.Inexhaust = append(w.Rep.Inexhaust, why) }
func (w *Worker) Broken(format string, a ...any) {
	w.Rep.Broken = append(w.Rep.Broken, fmt.Sprintf(format, a...))
}

// Stalled is called when a controlled execution contains a goroutine that ran for the stall deadline without reaching
// a scheduling point. Wall-clock observations are never believed at once (the machine may be overloaded): the first
// time, the process is abandoned with the case marked as a suspect; the parent re-runs that case alone with a three
// times longer deadline, and only a stall in that confirmation run is recorded as a violation.
func (w *Worker) Stalled(key, what string, replay any) {
	if os.Getenv("VERIF_STALL_CONFIRM") != "" {
		w.Violation(key, what+" (confirmed in a second, isolated run with a three times longer deadline)", replay)
	} else {
		w.Rep.Suspect = key
		w.Count("stall_suspects", 1)
	}
	w.Abandon()
}

// StallScale is the factor by which stall deadlines are stretched in a confirmation run.
func StallScale() int {
	if os.Getenv("VERIF_STALL_CONFIRM") != "" {
		return 3
	}
	return 1
}

// Abandon writes the report gathered so far and leaves the process with status
// 3: used when a runaway goroutine (a stalled controlled execution) makes the
// process unusable. The parent merges the report and resumes the shard after
// the announced case.
func (w *Worker) Abandon() {
	w.finish()
	os.Exit(3)
}

func (w *Worker) finish() bool {
	if w.sets != nil {
		w.Rep.Sets = map[string][]string{}
		for k, m := range w.sets {
			for s := range m {
				w.Rep.Sets[k] = append(w.Rep.Sets[k], s)
			}
		}
	}
	b, _ := json.Marshal(&w.Rep)
	if err := os.WriteFile(w.job.Out+".tmp", b, 0644); err != nil {
		fmt.Fprintln(os.Stderr, "worker: cannot write report:", err)
		return false
	}
	os.Rename(w.job.Out+".tmp", w.job.Out)
	return true
}

// Try runs f and converts a Go panic on this goroutine into a value.
func Try(f func()) (p any, stack string) {
	defer func() {
		if r := recover(); r != nil {
			p = r
			buf := make([]byte, 1<<14)
			stack = string(buf[:runtime.Stack(buf, false)])
		}
	}()
	f()
	return nil, ""
}

// WorkerMain is the entry point of `h worker`.
func WorkerMain() int {
	var j wjob
	if err := json.Unmarshal([]byte(os.Getenv("VERIF_WJOB")), &j); err != nil {
		fmt.Fprintln(os.Stderr, "worker: bad VERIF_WJOB:", err)
		return 2
	}
	def := Registry[j.Check]
	if def == nil || def.Workers[j.Worker] == nil {
		fmt.Fprintln(os.Stderr, "worker: unknown", j.Check, j.Worker)
		return 2
	}
	// address-space cap: a runaway allocation must kill this worker, not the sandbox
	var lim syscall.Rlimit
	lim.Cur, lim.Max = 10<<30, 10<<30
	if g, err := strconv.Atoi(os.Getenv("VERIF_AS_GB")); err == nil && g > 0 {
		lim.Cur, lim.Max = uint64(g)<<30, uint64(g)<<30 // -race workers: the shadow memory counts against the address space
	}
	syscall.Setrlimit(syscall.RLIMIT_AS, &lim)
	w := &Worker{Check: j.Check, Name: j.Worker, Tier: j.Tier, Seed: j.Seed, Shard: j.Shard, NShards: j.NShards, From: j.From, Only: j.Only, Args: j.Args, job: j}
	if j.Progress != "" {
		f, err := os.OpenFile(j.Progress, os.O_RDWR|os.O_CREATE, 0644)
		if err == nil {
			f.Truncate(16)
			if m, err := syscall.Mmap(int(f.Fd()), 0, 16, syscall.PROT_READ|syscall.PROT_WRITE, syscall.MAP_SHARED); err == nil {
				w.prog = m
			}
			f.Close()
		}
	}
	def.Workers[j.Worker](w)
	if !w.finish() {
		return 2
	}
	return 0
}

type PoolSpec struct {
	Worker    string
	Sched     bool // run the sched-instrumented sibling binary
	Bin       string
	Shards    int
	Procs     int
	Args      any
	Env       []string
	StallSecs int // a worker whose current case does not change for this long is treated as hung (generous; re-run before believed)
	// CrashKey turns an attributed crash/hang into a violation key and text. When
	// nil, crashes are infrastructure failures (BROKEN).
	CrashKey func(idx uint64, label, kind, stderrTail string) (key, what string)
}

type PoolResult struct {
	Sets map[string]map[string]bool
}

func binFor(sched bool) string {
	if sched {
		return os.Getenv("VERIF_BIN_SCHED")
	}
	exe, _ := os.Executable()
	return exe
}

func (c *Ctx) runOne(spec *PoolSpec, j wjob, dir string, tag string) (rep *ShardReport, kind string, idx uint64, stderrTail string) {
	j.Progress = filepath.Join(dir, tag+".prog")
	j.Out = filepath.Join(dir, tag+".out")
	os.Remove(j.Progress)
	os.Remove(j.Out)
	os.Remove(j.Progress + ".label")
	jb, _ := json.Marshal(&j)
	bin := spec.Bin
	if bin == "" {
		bin = binFor(spec.Sched)
	}
	cmd := exec.Command(bin, "worker")
	cmd.Env = append(os.Environ(), "VERIF_WJOB="+string(jb), "MLRRC=__none__", "GOTRACEBACK=single")
	cmd.Env = append(cmd.Env, spec.Env...)
	errPath := filepath.Join(dir, tag+".err")
	ef, _ := os.Create(errPath)
	cmd.Stderr = ef
	cmd.Stdout = ef
	cmd.SysProcAttr = &syscall.SysProcAttr{Setpgid: true}
	if err := cmd.Start(); err != nil {
		ef.Close()
		return nil, "spawn:" + err.Error(), 0, ""
	}
	done := make(chan error, 1)
	go func() { done <- cmd.Wait() }()
	stall := time.Duration(spec.StallSecs) * time.Second
	var lastIdx uint64
	lastChange := time.Now()
	readProg := func() uint64 {
		b, err := os.ReadFile(j.Progress)
		if err != nil || len(b) < 8 {
			return 0
		}
		return binary.LittleEndian.Uint64(b[0:8])
	}
	readBeat := func() uint64 {
		b, err := os.ReadFile(j.Progress)
		if err != nil || len(b) < 16 {
			return 0
		}
		return binary.LittleEndian.Uint64(b[8:16])
	}
	var lastBeat uint64
	tick := time.NewTicker(500 * time.Millisecond)
	defer tick.Stop()
	var werr error
	hung := false
loop:
	for {
		select {
		case werr = <-done:
			break loop
		case <-tick.C:
			p, bt := readProg(), readBeat()
			if p != lastIdx || bt != lastBeat {
				lastIdx, lastBeat, lastChange = p, bt, time.Now()
			} else if time.Since(lastChange) > stall {
				hung = true
				syscall.Kill(-cmd.Process.Pid, syscall.SIGQUIT)
				time.Sleep(300 * time.Millisecond)
				syscall.Kill(-cmd.Process.Pid, syscall.SIGKILL)
				werr = <-done
				break loop
			}
		}
	}
	ef.Close()
	p := readProg()
	if p > 0 {
		idx = p - 1
	}
	if b, err := os.ReadFile(errPath); err == nil {
		s := string(b)
		if len(s) > 3000 {
			s = s[:1500] + "\n...\n" + s[len(s)-1500:]
		}
		stderrTail = s
	}
	if hung {
		return nil, "hang", idx, stderrTail
	}
	if werr != nil {
		if ee, ok := werr.(*exec.ExitError); ok && ee.ExitCode() == 3 {
			if b, err := os.ReadFile(j.Out); err == nil {
				rep = &ShardReport{}
				if json.Unmarshal(b, rep) == nil {
					os.Remove(j.Out)
					return rep, "abandoned", idx, stderrTail
				}
			}
		}
		k := "exit:" + werr.Error()
		if strings.Contains(stderrTail, "fatal error:") {
			k = "fatal"
		} else if strings.Contains(stderrTail, "panic:") {
			k = "panic"
		}
		if p == 0 {
			k = "early-" + k
		}
		return nil, k, idx, stderrTail
	}
	b, err := os.ReadFile(j.Out)
	if err != nil {
		return nil, "noreport", idx, stderrTail
	}
	rep = &ShardReport{}
	if err := json.Unmarshal(b, rep); err != nil {
		return nil, "badreport", idx, stderrTail
	}
	os.Remove(j.Out)
	os.Remove(errPath)
	os.Remove(j.Progress)
	return rep, "", idx, stderrTail
}

// RunPool shards the named worker over processes and merges the reports into c.
func (c *Ctx) RunPool(spec PoolSpec) *PoolResult {
	if spec.Procs == 0 {
		spec.Procs = runtime.NumCPU()
	}
	if spec.Shards == 0 {
		spec.Shards = spec.Procs
	}
	if spec.StallSecs == 0 {
		spec.StallSecs = 300
	}
	argb, _ := json.Marshal(spec.Args)
	dir, err := os.MkdirTemp("/dev/shm", "verif-"+c.ID+"-")
	if err != nil {
		dir, _ = os.MkdirTemp("", "verif-"+c.ID+"-")
	}
	defer os.RemoveAll(dir)
	res := &PoolResult{Sets: map[string]map[string]bool{}}
	var mu sync.Mutex
	merge := func(r *ShardReport) {
		mu.Lock()
		defer mu.Unlock()
		c.mu.Lock()
		c.Evaluations += r.Evaluations
		c.DistinctNontrivial += r.Nontrivial
		c.States += r.States
		c.Transitions += r.Transitions
		for k, v := range r.Counters {
			c.Counters[k] += v
		}
		for _, s := range r.Samples {
			if len(c.Samples) < 12 {
				c.Samples = append(c.Samples, s)
			}
		}
		if len(r.Inexhaust) > 0 {
			c.Exhaustive = false
			ex, _ := c.Extra["inexhaustive"].([]string)
			for _, s := range r.Inexhaust {
				if len(ex) < 50 {
					ex = append(ex, s)
				}
			}
			c.Extra["inexhaustive"] = ex
		}
		c.broken = append(c.broken, r.Broken...)
		c.mu.Unlock()
		for _, v := range r.Violations {
			c.Violation(v.Key, v.What, v.Replay)
			if v.Count > 1 {
				c.mu.Lock()
				if e := c.viol[v.Key]; e != nil {
					e.Count += v.Count - 1
				}
				c.mu.Unlock()
			}
		}
		for k, l := range r.Sets {
			m := res.Sets[k]
			if m == nil {
				m = map[string]bool{}
				res.Sets[k] = m
			}
			for _, s := range l {
				m[s] = true
			}
		}
	}
	jobs := make(chan int, spec.Shards)
	for i := 0; i < spec.Shards; i++ {
		jobs <- i
	}
	close(jobs)
	var wg sync.WaitGroup
	for p := 0; p < spec.Procs; p++ {
		wg.Add(1)
		go func(p int) {
			defer wg.Done()
			for shard := range jobs {
				from := uint64(0)
				shardStart := uint64(0)
				for attempts := 0; ; attempts++ {
					shardStart = from
					j := wjob{Check: c.ID, Worker: spec.Worker, Tier: c.Tier, Seed: c.Seed, Shard: shard, NShards: spec.Shards, From: from, Only: -1, Args: argb}
					t0 := time.Now()
					rep, kind, idx, tail := c.runOne(&spec, j, dir, fmt.Sprintf("s%d", shard))
					if os.Getenv("VERIF_POOL_TRACE") != "" {
						fmt.Fprintf(os.Stderr, "pool %s shard %d from %d: %.1fs kind=%q idx=%d rep=%v\n", spec.Worker, shard, from, time.Since(t0).Seconds(), kind, idx, rep != nil)
					}
					if rep != nil && kind == "abandoned" {
						// the worker reported the case itself and left; carry on after it
						if rep.Suspect != "" {
							// unconfirmed stall: re-run the case alone, stretched deadline
							j1 := j
							j1.Only = int64(idx)
							j1.From = 0
							spec2 := spec
							spec2.Env = append(append([]string{}, spec.Env...), "VERIF_STALL_CONFIRM=1")
							if r1, _, _, _ := c.runOne(&spec2, j1, dir, fmt.Sprintf("s%d-confirm", shard)); r1 != nil {
								r1.Evaluations, r1.Nontrivial, r1.States, r1.Transitions = 0, 0, 0, 0
								merge(r1)
							}
						}
						merge(rep)
						from = idx + 1
						if attempts > 500 {
							c.Broken("worker %s shard %d: abandoned too often", spec.Worker, shard)
							break
						}
						continue
					}
					if rep != nil {
						merge(rep)
						break
					}
					if strings.HasPrefix(kind, "early-") || strings.HasPrefix(kind, "spawn") || kind == "noreport" || kind == "badreport" {
						c.Broken("worker %s shard %d failed before its first case (%s): %s", spec.Worker, shard, kind, trunc(tail, 800))
						break
					}
					// attribute: re-run the announced case alone
					repro, label := 0, ""
					var lastKind, lastTail string
					for k := 0; k < 3; k++ {
						j1 := j
						j1.Only = int64(idx)
						j1.From = 0
						r1, k1, _, t1 := c.runOne(&spec, j1, dir, fmt.Sprintf("s%d-only", shard))
						if b, err := os.ReadFile(filepath.Join(dir, fmt.Sprintf("s%d-only.prog.label", shard))); err == nil {
							label = string(b)
						}
						if r1 == nil {
							repro++
							lastKind, lastTail = k1, t1
						} else {
							merge(r1)
						}
					}
					if repro == 3 {
						if spec.CrashKey != nil {
							key, what := spec.CrashKey(idx, label, lastKind, lastTail)
							c.Violation(key, what, map[string]any{"worker": spec.Worker, "case_index": idx, "label": label, "kind": lastKind, "stderr": lastTail})
						} else {
							c.Broken("worker %s case %d (%s) crashes reproducibly (%s): %s", spec.Worker, idx, label, lastKind, trunc(lastTail, 800))
						}
					} else if repro == 0 && kind != "hang" {
						c.Broken("worker %s shard %d died at case %d (%s) but the case passes alone: uncontrolled nondeterminism or cross-case state: %s", spec.Worker, shard, idx, kind, trunc(tail, 800))
						break
					} else if repro > 0 {
						c.Broken("worker %s case %d (%s) fails %d of 3 re-runs (%s): flaky", spec.Worker, idx, label, repro, lastKind)
					} else {
						// a stall that did not reproduce (machine load): run the shard again from this case
						c.Count("stall_retries", 1)
						from = shardStart // the killed worker's partial results are gone: redo the shard from where this run began
						if attempts > 3 {
							c.Broken("worker %s shard %d stalls repeatedly at case %d without reproducing alone", spec.Worker, shard, idx)
							break
						}
						continue
					}
					from = idx + 1
					if attempts > 200 {
						c.Broken("worker %s shard %d: too many crashes", spec.Worker, shard)
						break
					}
				}
			}
		}(p)
	}
	wg.Wait()
	return res
}

func SetSize(r *PoolResult, name string) int {
	return len(r.Sets[name])
}

func SortedSet(r *PoolResult, name string) []string {
	var out []string
	for k := range r.Sets[name] {
		out = append(out, k)
	}
	sort.Strings(out)
	return out
}
