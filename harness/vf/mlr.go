package vf

// In-process execution of a whole Miller invocation: the same
// climain.ParseCommandLine + stream.Stream pair that entrypoint.Main uses.

import (
	"bytes"
	"errors"
	"fmt"
	"io"
	"os"
	"strings"
	"sync"
	"syscall"

	"github.com/johnkerl/miller/v6/pkg/cli"
	"github.com/johnkerl/miller/v6/pkg/climain"
	"github.com/johnkerl/miller/v6/pkg/lib"
	"github.com/johnkerl/miller/v6/pkg/mlrval"
	"github.com/johnkerl/miller/v6/pkg/stream"
	"github.com/johnkerl/miller/v6/pkg/verifrt"
)

type MlrResult struct {
	Stdout string
	Stderr string
	Err    string // error returned by ParseCommandLine/Stream ("" = nil)
	Exit   int    // process exit status the real main would produce
	Exited bool   // a library os.Exit was trapped
	Panic  string // Go panic (not an exit)
	Stack  string
	Leaked bool // goroutines were abandoned (exit/panic in a child goroutine)
}

func (r MlrResult) OK() bool { return r.Exit == 0 && r.Panic == "" }

func (r MlrResult) String() string {
	return fmt.Sprintf("exit=%d err=%q panic=%q stdout=%q stderr=%q", r.Exit, r.Err, r.Panic, trunc(r.Stdout, 400), trunc(r.Stderr, 300))
}

type nopWC struct{ io.Writer }

func (nopWC) Close() error { return nil }

// Files served to Miller's readers by name instead of the file system.
type VFS map[string]string

type bytesRC struct{ *bytes.Reader }

func (bytesRC) Close() error { return nil }

var (
	stderrOnce sync.Once
	stderrFile *os.File
	realStderr *os.File
)

// CaptureStderr redirects the process's fd 2 / os.Stderr into an unlinked
// file in /dev/shm that RunMlr reads back per invocation.
func CaptureStderr() {
	stderrOnce.Do(func() {
		f, err := os.CreateTemp("/dev/shm", "verif-stderr-")
		if err != nil {
			return
		}
		os.Remove(f.Name())
		realStderr = os.Stderr
		stderrFile = f
		os.Stderr = f
	})
}

// RealStderr is where harness diagnostics go once capture is on.
func RealStderr() *os.File {
	if realStderr != nil {
		return realStderr
	}
	return os.Stderr
}

func takeStderr() string {
	if stderrFile == nil {
		return ""
	}
	n, _ := stderrFile.Seek(0, io.SeekCurrent)
	if n == 0 {
		return ""
	}
	if n > 1<<16 {
		n = 1 << 16
	}
	b := make([]byte, n)
	stderrFile.ReadAt(b, 0)
	stderrFile.Truncate(0)
	stderrFile.Seek(0, io.SeekStart)
	return string(b)
}

type MlrOpts struct {
	Stdin  *string                                        // nil: empty stdin
	Files  VFS                                            // virtual input files
	Reader func() io.ReadCloser                           // custom stdin
	Open   func(path string) (io.ReadCloser, error, bool) // custom open hook, consulted before Files
	Out    io.WriteCloser                                 // custom output sink (default: buffer)
}

var runMu sync.Mutex

// InvokeMlr runs one invocation on the calling goroutine, with no helper
// goroutines: the form used under the scheduler (sched build), where library
// exits and panics surface as verifrt.Result.Fault. Returns stdout and the
// error ParseCommandLine/Stream returned.
func InvokeMlr(args []string, o MlrOpts) (string, error) {
	CaptureStderr()
	mlrval.VerifResetGlobals()
	os.Unsetenv("TZ")
	verifrt.TrapExits(true)
	verifrt.OpenHookFn = func(path string) (io.ReadCloser, error, bool) {
		if o.Open != nil {
			if h, err, ok := o.Open(path); ok {
				return h, err, true
			}
		}
		if s, ok := o.Files[path]; ok {
			return bytesRC{bytes.NewReader([]byte(s))}, nil, true
		}
		return nil, nil, false
	}
	verifrt.StdinFn = func() io.ReadCloser {
		if o.Reader != nil {
			return o.Reader()
		}
		if o.Stdin != nil {
			return bytesRC{bytes.NewReader([]byte(*o.Stdin))}
		}
		return bytesRC{bytes.NewReader(nil)}
	}
	var buf bytes.Buffer
	argv := append([]string{"mlr"}, args...)
	options, xf, err := climain.ParseCommandLine(argv)
	if err != nil {
		return "", err
	}
	if options.DoInPlace {
		return "", fmt.Errorf("verif: -I is not run in-process")
	}
	var out io.WriteCloser = nopWC{&buf}
	if o.Out != nil {
		out = o.Out
	}
	err = stream.Stream(options.FileNames, options, xf, out, true)
	return buf.String(), err
}

// TakeStderr returns and clears what the invocation(s) since the last call wrote to stderr.
func TakeStderr() string { return takeStderr() }

// RunMlr runs `mlr args...` in-process. args excludes argv[0].
func RunMlr(args []string, o MlrOpts) (res MlrResult) {
	runMu.Lock()
	defer runMu.Unlock()
	CaptureStderr()
	mlrval.VerifResetGlobals()
	os.Unsetenv("TZ")
	verifrt.TrapExits(true)
	verifrt.OpenHookFn = func(path string) (io.ReadCloser, error, bool) {
		if o.Open != nil {
			if h, err, ok := o.Open(path); ok {
				return h, err, true
			}
		}
		if s, ok := o.Files[path]; ok {
			return bytesRC{bytes.NewReader([]byte(s))}, nil, true
		}
		return nil, nil, false
	}
	verifrt.StdinFn = func() io.ReadCloser {
		if o.Reader != nil {
			return o.Reader()
		}
		if o.Stdin != nil {
			return bytesRC{bytes.NewReader([]byte(*o.Stdin))}
		}
		return bytesRC{bytes.NewReader(nil)}
	}
	childCh := make(chan verifrt.ChildPanic, 8)
	cb := func(p verifrt.ChildPanic) {
		select {
		case childCh <- p:
		default:
		}
	}
	verifrt.OnChildPanic.Store(&cb)
	defer verifrt.OnChildPanic.Store(nil)

	var buf bytes.Buffer
	type mainRet struct {
		err   error
		panic any
		stack string
	}
	done := make(chan mainRet, 1)
	go func() {
		var mr mainRet
		mr.panic, mr.stack = Try(func() {
			argv := append([]string{"mlr"}, args...)
			options, xf, err := climain.ParseCommandLine(argv)
			if err != nil {
				mr.err = err
				return
			}
			if options.DoInPlace {
				mr.err = fmt.Errorf("verif: -I is not run in-process")
				return
			}
			var out io.WriteCloser = nopWC{&buf}
			if o.Out != nil {
				out = o.Out
			}
			mr.err = stream.Stream(options.FileNames, options, xf, out, true)
		})
		done <- mr
	}()
	classify := func(p any, stack string) {
		if e, ok := p.(verifrt.ExitPanic); ok {
			res.Exited = true
			res.Exit = e.Code
		} else {
			res.Panic = fmt.Sprint(p)
			res.Stack = stack
			res.Exit = 2
		}
	}
	printErr := false
	select {
	case mr := <-done:
		if mr.panic != nil {
			classify(mr.panic, mr.stack)
		} else if mr.err != nil {
			res.Err = mr.err.Error()
			res.Exit, printErr = exitCodeFor(mr.err)
		}
	case cp := <-childCh:
		classify(cp.Value, string(cp.Stack))
		res.Leaked = true
	}
	res.Stdout = buf.String()
	res.Stderr = takeStderr()
	if res.Err != "" && printErr {
		// what entrypoint.exitOnError prints
		msg := res.Err
		if !strings.HasPrefix(msg, "mlr") {
			msg = "mlr: " + msg
		}
		res.Stderr += msg + "\n"
	}
	return res
}

// exitCodeFor mirrors entrypoint.exitOnError. The second result says whether
// exitOnError would print the error text.
func exitCodeFor(err error) (int, bool) {
	var er *lib.ExitRequest
	switch {
	case errors.Is(err, cli.ErrHelpRequested):
		return 0, false
	case errors.Is(err, cli.ErrUsagePrinted):
		return 1, false
	case errors.As(err, &er):
		return er.Code, false
	}
	return 1, true
}

// Pipe-safe environment for in-process runs.
func init() {
	os.Setenv("MLRRC", "__none__")
	os.Unsetenv("TZ")
	_ = syscall.Getpid
}
