package vf

import (
	"encoding/json"
	"fmt"
	"os"
	"os/exec"
	"strings"
)

// GenericReplay prints a replay file and, when it carries an argv (and optionally an input / virtual files),
// re-runs that invocation in-process without any explorer and prints what it does now.
func GenericReplay(c *Ctx, file []byte) {
	var doc struct {
		Key    string         `json:"key"`
		What   string         `json:"what"`
		Replay map[string]any `json:"replay"`
	}
	json.Unmarshal(file, &doc)
	fmt.Printf("replay of %s\n  key:  %s\n  what: %s\n", c.ID, doc.Key, doc.What)
	argvAny, ok := doc.Replay["argv"].([]any)
	if !ok {
		b, _ := json.MarshalIndent(doc.Replay, "  ", " ")
		fmt.Printf("  case: %s\n  (no argv recorded: re-run the check to re-evaluate this case)\n", b)
		return
	}
	var argv []string
	for _, a := range argvAny {
		argv = append(argv, fmt.Sprint(a))
	}
	o := MlrOpts{Files: VFS{}}
	if in, ok := doc.Replay["input"].(string); ok {
		o.Stdin = &in
	}
	if fs, ok := doc.Replay["files"].(map[string]any); ok {
		for k, v := range fs {
			o.Files[k] = fmt.Sprint(v)
		}
	}
	r := RunMlr(argv, o)
	fmt.Printf("  now:  mlr %s\n        -> %s\n", strings.Join(argv, " "), r.String())
}

// ExecSchedReplay hands a replay over to the sched-instrumented sibling binary.
func ExecSchedReplay(id, path string) {
	bin := os.Getenv("VERIF_BIN_SCHED")
	cmd := exec.Command(bin, "check", id, "--replay", path)
	cmd.Stdout, cmd.Stderr = os.Stdout, os.Stderr
	cmd.Run()
}
