package c18

// Family 1: readers x bytes. For every reader format, all strings of length
// <= L over a per-format token alphabet taken from the reader's own branch
// conditions, x reader option variants; plus every prefix and every
// single-symbol mutation of a set of valid documents per format.

import (
	"fmt"
	"strings"
	"time"

	"verif/harness/vf"
)

const bom = "\xef\xbb\xbf"

type variant struct {
	name  string
	flags []string
	tier  int // 0: base (longest strings), 1: option variant (one symbol shorter), 2: writer sweep (two shorter)
}

type readerFmt struct {
	name     string
	flags    []string // input-format flags
	alphabet []string
	variants []variant
	docs     []string // valid documents (truncation / mutation seeds)
}

func v0(name string, flags ...string) variant { return variant{name, flags, 0} }
func v1(name string, flags ...string) variant { return variant{name, flags, 1} }
func v2(name string, flags ...string) variant { return variant{name, flags, 2} }

// writerSweep: the same reader feeding each writer (records of odd shapes must
// not crash a writer either).
func writerSweep() []variant {
	return []variant{
		v2("ocsv", "--ocsv"), v2("otsv", "--otsv"), v2("opprint", "--opprint"), v2("opprint-barred", "--opprint", "--barred"),
		v2("opprint-right", "--opprint", "--right"), v2("oxtab", "--oxtab"), v2("onidx", "--onidx"), v2("odkvp", "--odkvp"), v2("omd", "--omd"),
		v2("oyaml", "--oyaml"), v2("ojsonl", "--ojsonl"), v2("ocsvlite", "--ocsvlite"), v2("odcf", "--odcf"), v2("orecutils", "--orecutils"),
		v2("ocsv-unsparsify-off", "--ocsv", "--no-auto-unsparsify"), v2("oxtab-right", "--oxtab", "--xvright"), v2("ojson-noflat", "--ojson", "--no-auto-unflatten"),
	}
}

func commonVariants() []variant {
	return []variant{
		v0("base"),
		v1("implicit-header", "--implicit-csv-header"),
		v1("ragged", "--allow-ragged-csv-input"),
		v1("pass-comments", "--pass-comments"),
		v1("skip-comments", "--skip-comments"),
		v1("pass-comments-with-2", "--pass-comments-with", "##"),
		v1("batch1", "--records-per-batch", "1"),
		v1("no-dedupe", "--no-dedupe-field-names"),
		v1("infer-none", "-S"),
		v1("infer-octal", "-O"),
		// an empty separator must be refused or handled, never loop
		v1("ifs-empty", "--ifs", ""),
		v1("ips-empty", "--ips", ""),
		v1("irs-empty", "--irs", ""),
		// malformed backslash escapes in separator options (the option parser un-backslashes them)
		v1("ifs-bad-hex-escape", "--ifs", `\xZ`),
		v1("ifs-bare-hex-escape", "--ifs", `\x`),
		v1("ips-short-unicode-escape", "--ips", `\u12`),
		v1("irs-windows-path", "--irs", `C:\Users`),
		v1("ifs-bare-backslash", "--ifs", `\`),
		v1("ifs-octal-escape", "--ifs", `\1`),
	}
}

func readerFormats() []readerFmt {
	sepVariants := func(multi string) []variant {
		return []variant{
			v1("ifs-multichar", "--ifs", multi),
			v1("ifs-multichar-repifs", "--ifs", multi, "--repifs"),
			v1("repifs", "--repifs"),
			v1("ifs-a", "--ifs", "a"),
			v1("irs-semicolon", "--irs", ";"),
			v1("irs-crlf", "--irs", "\r\n"),
		}
	}
	cat := func(vs ...[]variant) []variant {
		var out []variant
		for _, v := range vs {
			out = append(out, v...)
		}
		return out
	}
	fs := []readerFmt{
		{name: "csv", flags: []string{"--icsv"},
			alphabet: []string{"a", ",", `"`, "\n", "\r", " ", "#", bom, "\xff"},
			variants: cat(commonVariants(), sepVariants(",,"), []variant{
				v1("lazy-quotes", "--lazy-quotes"),
				v1("trim-leading-space", "--csv-trim-leading-space"),
				v1("lazy+ragged+implicit", "--lazy-quotes", "--allow-ragged-csv-input", "--implicit-csv-header"),
				v1("headerless-N", "-N"),
				v1("quote-original", "--quote-original", "--ocsv"),
				v1("skip-trivial", "--icsv", "--ojson", "skip-trivial-records", "then"),
			}, writerSweep()),
			docs: []string{
				"a,b,c\n1,2,3\n4,5,6\n",
				"a,b\r\n1,2\r\n",
				"a,b\n\"x,y\",\"p\"\"q\"\n",
				"a,b\n\"line1\nline2\",2\n",
				bom + "a,b\n1,2\n",
				bom + "\"a\",\"b\"\n1,2\n",
				"a,b\n1,2\n\nc\n3\n",
				"a,a,a\n1,2,3\n",
				"a,b\n#c,d\n1,2\n",
				"a,b\n\"#c\",d\n#e\n",
				"a, b\n1, \"2\"\n",
				"a\n\"\"\n",
				"a,b\n1,\n,2\n,\n",
				"\"a\nb\",c\n1,2",
			}},
		{name: "csvlite", flags: []string{"--icsvlite"},
			alphabet: []string{"a", ",", `"`, "\n", "\r", " ", "#", bom},
			variants: cat(commonVariants(), sepVariants(",,"), []variant{v1("lazy-quotes", "--lazy-quotes"), v1("headerless-N", "-N")}, writerSweep()),
			docs: []string{
				"a,b,c\n1,2,3\n4,5,6\n",
				"a,b\r\n1,2\r\n",
				"a,b\n1,2\n\nc,d\n3,4\n",
				"a,b\n\"x,y\",\"pq\"\n",
				bom + "a,b\n1,2\n",
				"a,b\n1,2\n\n\n\nc\n3\n",
				"a,b\n#x\n1,2\n",
				"a,a\n1,2\n",
				"a\n\n\nb\n",
				"a,b\n1,2",
			}},
		{name: "tsv", flags: []string{"--itsv"},
			alphabet: []string{"a", "\t", `\`, "t", "n", "\n", "\r", "#"},
			variants: cat(commonVariants(), sepVariants("\t\t"), []variant{v1("headerless-N", "-N"), v1("lazy-quotes", "--lazy-quotes")}, writerSweep()),
			docs: []string{
				"a\tb\tc\n1\t2\t3\n",
				"a\tb\r\n1\t2\r\n",
				"a\tb\nx\\ty\tp\\nq\n",
				"a\tb\nx\\\\y\t\\\n",
				"a\tb\n1\t2\n\nc\n3\n",
				"a\ta\n1\t2\n",
				"a\tb\n#c\n1\t2\n",
				"a\tb\n\t\n",
				"a\\tb\tc\n1\t2",
			}},
		{name: "json", flags: []string{"--ijson"},
			alphabet: []string{"{", "}", "[", "]", ":", ",", `"a"`, "1", "null", `\`, `"`, " "},
			variants: []variant{
				v0("base"),
				v1("batch1", "--records-per-batch", "1"),
				v1("no-dedupe", "--no-dedupe-field-names"),
				v1("infer-none", "-S"),
				v1("pass-comments", "--pass-comments"),
				v1("skip-comments", "--skip-comments"),
				v1("jvstack-off", "--no-jvstack"),
				v1("jlistwrap-off", "--no-jlistwrap"),
				v1("jvquoteall", "--jvquoteall"),
				v1("noflat-ocsv", "--ocsv", "--no-auto-flatten"),
				v1("oflatsep", "--ocsv", "--flatsep", ""),
				v1("sort-within-records", "--ijson", "--ojson", "sort-within-records", "-r", "then"),
				v1("flatten-unflatten", "--ijson", "--ojson", "flatten", "then", "unflatten", "then"),
			},
			docs: []string{
				`{"a":1,"b":"x"}`,
				`[{"a":1},{"a":2}]`,
				`{"a":{"b":[1,{"c":null}]},"d":true}`,
				`{"a":"\u00e9\n\"q\"","b":-1.5e+3}`,
				`{"a":1}{"a":2} {"a":3}`,
				`[ ]`,
				`{"a":[],"b":{}}`,
				`{"a":1,"a":2}`,
				`# c` + "\n" + `{"a":1}`,
				`{"":"","a.b":{"c.d":1}}`,
				`[{"a":[[1,2],[3]]}]`,
				`{"a":0x1F,"b":1e400,"c":-0}`,
			}},
		{name: "jsonl", flags: []string{"--ijsonl"},
			alphabet: []string{"{", "}", "[", "]", ":", ",", `"a"`, "1", "\n", `"`, " "},
			variants: []variant{v0("base"), v1("batch1", "--records-per-batch", "1"), v1("pass-comments", "--pass-comments"), v1("skip-comments", "--skip-comments"), v1("ocsv", "--ocsv")},
			docs: []string{
				"{\"a\":1}\n{\"a\":2}\n",
				"{\"a\":{\"b\":[1,2]}}\n\n{\"c\":null}\n",
				"{\"a\":1}\r\n{\"a\":2}",
				"#c\n{\"a\":\"x\"}\n",
				"{\"a\":1} {\"b\":2}\n",
				"[1,2]\n",
			}},
		{name: "yaml", flags: []string{"--iyaml"},
			alphabet: []string{"-", ":", "a", "{", "[", "]", `"`, "#", " ", "\n", "&", "*"},
			variants: []variant{v0("base"), v1("batch1", "--records-per-batch", "1"), v1("infer-none", "-S"), v1("ocsv", "--ocsv"), v1("oyaml", "--oyaml"), v1("oyaml-noarray", "--oyaml", "--no-yarray")},
			docs: []string{
				"a: 1\nb: x\n",
				"- a: 1\n  b: 2\n- a: 3\n",
				"a:\n  b:\n    - 1\n    - c: null\n",
				"---\na: 1\n---\na: 2\n...\n",
				"{a: 1, b: [1, 2]}\n",
				"a: &x 1\nb: *x\n",
				"a: |\n  line1\n  line2\nb: \"q\\n\"\n",
				"? a\n: 1\n",
				"a: !!str 1\nb: ~\nc: 0x1F\nd: .inf\ne: 2001-01-01\n",
				"# c\na: 1 # d\n",
				"- 1\n- 2\n",
				"a: {b: {c: {d: 1}}}\n",
			}},
		{name: "dkvp", flags: []string{"--idkvp"},
			alphabet: []string{"a", "=", ",", "\n", " ", `"`, ".", "#", "\r"},
			variants: cat(commonVariants(), sepVariants(",,"), []variant{
				v1("ips-multichar", "--ips", "=="),
				v1("ifs-regex", "--ifs-regex", "[,a]+"),
				v1("ips-regex", "--ips-regex", "=+"),
				v1("ifs-regex-empty-match", "--ifs-regex", "a*"),
				v1("ips-regex-empty-match", "--ips-regex", "=*"),
				v1("ifs=ips", "--ifs", "=", "--ips", "="),
				v1("incr-key", "--incr-key"),
				v1("oflatsep", "--oflatsep", ":"),
				v1("flatsep-empty", "--flatsep", ""),
				v1("unflatten-all", "--idkvp", "--ojson", "unflatten", "-s", ".", "then"),
			}, writerSweep()),
			docs: []string{
				"a=1,b=2,c=3\n",
				"a=1,b=2\r\nc=3\r\n",
				"a=1,,b=,=3\n",
				"abc,def\n",
				"a.b=1,a.c=2,d.=3,.e=4\n",
				"a=1,a=2\n",
				"#c\na=1\n",
				"a==1,b=2=3\n",
				"x=\"a,b\",y=2\n",
				"a=1",
			}},
		{name: "dkvpx", flags: []string{"-i", "dkvpx"},
			alphabet: []string{"a", "=", ",", "\n", " ", `"`, `\`, "\r", "#"},
			variants: cat(commonVariants(), sepVariants(",,"), []variant{v1("ips-multichar", "--ips", "=="), v1("lazy-quotes", "--lazy-quotes")}, writerSweep()[:6]),
			docs: []string{
				"a=1,b=2,c=3\n",
				"a=\"x,y\",b=\"p\"\"q\"\n",
				"\"a=b\"=1,c=\"line1\nline2\"\n",
				"a=1,,b=,=3\n",
				"a=\"x\\\"y\",b=2\n",
				"a=1\r\nb=2\r\n",
				"#c\na=1\n",
				"abc\n",
				"a=\"\"\n",
				"a=1",
			}},
		{name: "nidx", flags: []string{"--inidx", "--ifs", " "},
			alphabet: []string{"a", " ", "\n", "\t", "\r", "#", `"`},
			variants: cat(commonVariants(), []variant{v1("ifs-comma", "--ifs", ","), v1("no-repifs", "--ifs", " ", "--repifs"), v1("ifs-regex", "--ifs-regex", "[ \t]+"), v1("ifs-regex-empty-match", "--ifs-regex", " *"), v1("irs-semicolon", "--irs", ";")}, writerSweep()),
			docs: []string{
				"a b c\n",
				"a   b\tc\n",
				"  a b  \n",
				"a b\r\nc d\r\n",
				"#c\na b\n",
				"\n\na\n\n",
				"a b",
			}},
		{name: "xtab", flags: []string{"--ixtab"},
			alphabet: []string{"a", " ", "\n", "\r", "#", "\t"},
			variants: cat(commonVariants(), []variant{v1("ips-multichar", "--ips", "::"), v1("ips-a", "--ips", "a"), v1("ips-regex", "--ips-regex", " +"), v1("ips-regex-empty-match", "--ips-regex", " *"), v1("irs-semicolon", "--irs", ";")}, writerSweep()),
			docs: []string{
				"a 1\nb 2\n\na 3\nb 4\n",
				"a    1\nbcd  2\n",
				"a 1\r\nb 2\r\n\r\na 3\r\n",
				"a\nb 2\n",
				"a 1 2 3\n",
				"#c\na 1\n",
				"\n\n\na 1\n\n\n",
				" a 1\n",
				"a 1",
			}},
		{name: "pprint", flags: []string{"--ipprint"},
			alphabet: []string{"a", "-", "|", "+", " ", "\n", "\r", "#"},
			variants: cat(commonVariants(), []variant{
				v1("barred-input", "--barred-input"),
				v1("barred-input-implicit", "--barred-input", "--implicit-csv-header"),
				v1("barred-input-ragged", "--barred-input", "--allow-ragged-csv-input"),
				v1("barred-input-pass-comments", "--barred-input", "--pass-comments"),
				v1("fixed-widths", "--fixed", "widths:1,2"),
				v1("fixed-widths-0", "--fixed", "widths:0,1"),
				v1("fixed-left", "--fixed", "left-align"),
				v1("fixed-left-multi", "--fw", "left-align-multi-word"),
				v1("fixed-right", "--fixed", "right-align"),
				v1("fixed-right-multi", "--fixed", "right-align-multi-word"),
				v1("fixed-left-implicit", "--fixed", "left-align", "--implicit-csv-header"),
				v1("fixed-right-ragged", "--fixed", "right-align", "--allow-ragged-csv-input"),
				v1("ifs-multichar", "--ifs", "||"),
			}, writerSweep()),
			docs: []string{
				"a   b   c\n1   2   3\n4   5   6\n",
				"a b\n1 -\n- 2\n",
				"a b\n1 2\n\nc\n3\n",
				"+---+---+\n| a | b |\n+---+---+\n| 1 | 2 |\n+---+---+\n",
				"| a | b |\n| 1 | 2 |\n",
				"a   b\r\n1   2\r\n",
				"#c\na b\n1 2\n",
				"a  bb ccc\n-  -- ---\n1  22 333\n",
				"  a    b\n  1    2\n",
				"+-+\n|a|\n+-+\n\n+-+\n|b|\n+-+\n",
				"a b\n1 2",
			}},
		{name: "markdown", flags: []string{"--imd"},
			alphabet: []string{"|", "-", "a", " ", "\n", "\r", ":", "#"},
			variants: cat(commonVariants(), writerSweep()[:6]),
			docs: []string{
				"| a | b |\n| --- | --- |\n| 1 | 2 |\n| 3 | 4 |\n",
				"|a|b|\n|-|-|\n|1|2|\n",
				"| a | b |\n| :-- | --: |\n| 1 | 2 |\n\n| c |\n| --- |\n| 3 |\n",
				"| a |\r\n| --- |\r\n| 1 |\r\n",
				"| a | b |\n| --- | --- |\n| 1 |\n",
				"a | b\n--- | ---\n1 | 2\n",
				"| a\\|b | c |\n| --- | --- |\n| 1 | 2 |\n",
				"| a |\n| --- |\n| 1 |",
			}},
		{name: "dcf", flags: []string{"--idcf"},
			alphabet: []string{"a", ":", "+", " ", "\n", "\r", "#", ".", ","},
			variants: []variant{v0("base"), v1("batch1", "--records-per-batch", "1"), v1("pass-comments", "--pass-comments"), v1("skip-comments", "--skip-comments"), v1("ocsv", "--ocsv"), v1("odcf", "--odcf"), v1("no-dedupe", "--no-dedupe-field-names")},
			docs: []string{
				"Package: a\nVersion: 1\n\nPackage: b\nVersion: 2\n",
				"Package: a\nDescription: x\n more\n .\n last\n",
				"Depends: a (>= 1), b | c\n",
				"a: 1\r\nb: 2\r\n\r\na: 3\r\n",
				"a:1\nb:\n c\n",
				"# c\na: 1\n",
				" a: 1\n",
				"a: 1\na: 2\n",
				"a: 1",
			}},
		{name: "recutils", flags: []string{"--irecutils"},
			alphabet: []string{"a", ":", "+", " ", "\n", "\r", "#", "%", `\`},
			variants: []variant{v0("base"), v1("batch1", "--records-per-batch", "1"), v1("pass-comments", "--pass-comments"), v1("skip-comments", "--skip-comments"), v1("ocsv", "--ocsv"), v1("orecutils", "--orecutils"), v1("no-dedupe", "--no-dedupe-field-names")},
			docs: []string{
				"a: 1\nb: 2\n\na: 3\nb: 4\n",
				"a: line1\n+ line2\n+\n+ line4\n",
				"%rec: T\n%key: a\n\na: 1\n",
				"# c\na: 1\n",
				"a: x \\\ny\n",
				"a:1\nb:\n",
				"a: 1\r\nb: 2\r\n\r\na: 3\r\n",
				"a: 1\na: 2\n",
				"+ x\n",
				"a: 1",
			}},
		{name: "gz", flags: []string{"--icsv", "--gzin"},
			alphabet: []string{"\x1f\x8b\x08", "\x00", "\x01", "\xff", "a", "\x03", "\x1f\x8b"},
			variants: []variant{v0("base"),
				v0("zin", "--zin"), v0("bz2in", "--bz2in"), v0("zstdin", "--zstdin"),
				v1("gz-dkvp", "--idkvp"), v1("bz2-json", "--bz2in", "--ijson"), v1("zstd-json", "--zstdin", "--ijson"), v1("zlib-nidx", "--zin", "--inidx")},
			docs: nil},
	}
	return fs
}

// The compressed-input family gets format-specific magic tokens appended per variant.
func alphabetFor(f *readerFmt, v *variant) []string {
	if f.name != "gz" {
		return f.alphabet
	}
	a := append([]string{}, f.alphabet...)
	for _, fl := range v.flags {
		switch fl {
		case "--zin":
			a = append(a, "\x78\x9c", "\x78")
		case "--bz2in":
			a = append(a, "BZh9", "\x31\x41\x59\x26\x53\x59", "\x17\x72\x45\x38\x50\x90")
		case "--zstdin":
			a = append(a, "\x28\xb5\x2f\xfd", "\x50\x2a\x4d\x18", "\x20")
		}
	}
	return a
}

func lengthsFor(quick bool, k int) [3]int {
	// chosen so that each (format, variant) costs <= ~6*10^4 (quick) / ~6*10^5 (thorough) runs at tier 0
	pick := func(budget uint64) int {
		L := 1
		for countUpTo(k, L+1) <= budget {
			L++
		}
		return L
	}
	var b0, b1, b2 uint64 = 70000, 5000, 600
	if !quick {
		b0, b1, b2 = 2500000, 70000, 5000
	}
	return [3]int{pick(b0), pick(b1), pick(b2)}
}

func readerArgs(f *readerFmt, v *variant) []string {
	args := append([]string{}, f.flags...)
	// a variant that carries its own verb chain ends with "then"
	if n := len(v.flags); n > 0 && v.flags[n-1] == "then" {
		args = append(args, v.flags...)
		args = append(args, "cat")
		return args
	}
	hasOut := false
	for _, fl := range v.flags {
		if strings.HasPrefix(fl, "--o") && fl != "--oflatsep" {
			hasOut = true
		}
	}
	args = append(args, v.flags...)
	if !hasOut {
		args = append(args, "--ojson")
	}
	args = append(args, "cat")
	return args
}

func isNontrivial(oc outcome) bool {
	return oc.class != ocOK || strings.ContainsAny(oc.stdout, "{=|") || len(strings.TrimSpace(oc.stdout)) > 2
}

func readersWorker(w *vf.Worker) {
	x := newRunner(w, 4, 6*time.Second)
	var idx uint64
	buf := make([]int, 0, 16)
	fmts := readerFormats()
	for fi := range fmts {
		f := &fmts[fi]
		for vi := range f.variants {
			v := &f.variants[vi]
			alpha := alphabetFor(f, v)
			k := len(alpha)
			L := lengthsFor(w.Quick(), k)[v.tier]
			total := countUpTo(k, L)
			args := readerArgs(f, v)
			cfg := f.name + "/" + v.name
			symHits := make([]int64, k)
			var nRun int64
			var sb strings.Builder
			for n := uint64(0); n < total; n++ {
				idx++
				if !w.Mine(idx) {
					continue
				}
				w.Begin(idx)
				buf = nth(k, n, buf)
				sb.Reset()
				for _, s := range buf {
					sb.WriteString(alpha[s])
					symHits[s]++
				}
				in := sb.String()
				m := &mcase{Fam: "reader", Cfg: cfg, Size: len(buf), Desc: `"` + vis(in) + `"`, Args: args, Stdin: in}
				if x.poisoned(m) {
					continue
				}
				oc := x.run(m)
				nRun++
				if isNontrivial(oc) {
					w.Nontrivial(1)
				}
				w.AddSet("reader-outcomes", f.name+":"+oc.class)
				if oc.class == ocBareErr || oc.class == ocSilentNZ {
					w.AddSet("bare-error-texts", "reader/"+f.name+": "+short(strings.TrimSpace(firstLines(oc.stderr, 1)), 100))
				}
			}
			w.Count("cases:reader:"+f.name, nRun)
			w.Count("variant:"+cfg, nRun)
			for s, h := range symHits {
				w.Count("sym:"+f.name+":"+vis(alpha[s]), h)
			}
			// --- the same bytes arriving in two reads, split at every byte position (base variants, shorter strings)
			if v.tier == 0 {
				L2 := lengthsFor(w.Quick(), k)[2]
				total2 := countUpTo(k, L2)
				var nSplit int64
				for n := uint64(0); n < total2; n++ {
					buf = nth(k, n, buf)
					sb.Reset()
					for _, s := range buf {
						sb.WriteString(alpha[s])
					}
					in := sb.String()
					for sp := 1; sp < len(in); sp++ {
						idx++
						if !w.Mine(idx) {
							continue
						}
						w.Begin(idx)
						m := &mcase{Fam: "reader2", Cfg: cfg, Size: len(buf), Desc: `"` + vis(in[:sp]) + `"+"` + vis(in[sp:]) + `"`, Args: args, Stdin: in, Split: sp}
						if x.poisoned(m) {
							continue
						}
						oc := x.run(m)
						nSplit++
						if isNontrivial(oc) {
							w.Nontrivial(1)
						}
						w.AddSet("reader-outcomes", f.name+":two-reads:"+oc.class)
					}
				}
				w.Count("cases:reader-two-reads:"+f.name, nSplit)
			}
			if vi == 0 && fi == 0 && w.Shard == 0 {
				w.Sample(map[string]any{"family": "reader", "config": cfg, "alphabet": visAll(alpha), "max_len": L, "cases": total, "args": args})
			}
		}
	}
}

func visAll(a []string) []string {
	out := make([]string, len(a))
	for i, s := range a {
		out[i] = vis(s)
	}
	return out
}

// docsWorker: every prefix (truncation) and every single-symbol mutation
// (replace / insert / delete at every position, every alphabet symbol) of the
// valid documents, under the base variant and the tier-1 reader variants.
func docsWorker(w *vf.Worker) {
	x := newRunner(w, 4, 6*time.Second)
	var idx uint64
	fmts := readerFormats()
	for fi := range fmts {
		f := &fmts[fi]
		if len(f.docs) == 0 {
			continue
		}
		var nTrunc, nMut int64
		one := func(m *mcase, kind string) {
			idx++
			if !w.Mine(idx) {
				return
			}
			w.Begin(idx)
			if x.poisoned(m) {
				return
			}
			oc := x.run(m)
			if isNontrivial(oc) {
				w.Nontrivial(1)
			}
			w.AddSet("reader-outcomes", f.name+":"+kind+":"+oc.class)
			if kind == "trunc" {
				nTrunc++
			} else {
				nMut++
			}
		}
		// variants used for documents: base + reader-side options (tier <= 1)
		for vi := range f.variants {
			v := &f.variants[vi]
			if v.tier > 1 {
				continue
			}
			args := readerArgs(f, v)
			cfg := f.name + "/" + v.name
			for di, doc := range f.docs {
				// --- truncations: all variants
				for cut := 0; cut <= len(doc); cut++ {
					one(&mcase{Fam: "trunc", Cfg: cfg, Size: cut, Desc: fmt.Sprintf("doc%d[:%d]", di, cut), Args: args, Stdin: doc[:cut]}, "trunc")
				}
				// --- mutations: base variant always; option variants in the thorough tier
				if v.tier == 1 && w.Quick() {
					continue
				}
				if w.Quick() && di >= 6 {
					continue
				}
				for pos := 0; pos <= len(doc); pos++ {
					try := func(op string, in string, sym string) {
						one(&mcase{Fam: "mut", Cfg: cfg, Size: len(in), Desc: fmt.Sprintf("doc%d:%s@%d:%s", di, op, pos, vis(sym)), Args: args, Stdin: in}, "mut")
					}
					for _, sym := range f.alphabet {
						try("ins", doc[:pos]+sym+doc[pos:], sym)
						if pos < len(doc) {
							try("rep", doc[:pos]+sym+doc[pos+1:], sym)
						}
					}
					if pos < len(doc) {
						try("del", doc[:pos]+doc[pos+1:], "")
						// duplicate the byte, and swap with the next one
						try("dup", doc[:pos+1]+doc[pos:], "")
						if pos+1 < len(doc) {
							try("swap", doc[:pos]+doc[pos+1:pos+2]+doc[pos:pos+1]+doc[pos+2:], "")
						}
					}
				}
			}
		}
		w.Count("cases:trunc:"+f.name, nTrunc)
		w.Count("cases:mut:"+f.name, nMut)
	}
	if w.Shard == 0 {
		w.Sample(map[string]any{"family": "trunc+mut", "formats": len(fmts), "docs_per_format": len(fmts[0].docs)})
	}
}
