package c18

// Family 2: every built-in function and operator x every tuple of witness
// values up to arity 3 (walked from Miller's own builtin table), plus
// indexing / slicing / assignment / control-flow statement templates over
// the same witnesses. Each tuple is one `mlr -n put 'end{...}'` run.

import (
	"fmt"
	"os"
	"strings"
	"time"

	"github.com/johnkerl/miller/v6/pkg/dsl/cst"

	"verif/harness/vf"
)

type witness struct {
	name string // label used in keys
	expr string // DSL expression
	rank int    // simplicity rank (for sizes)
	core bool   // member of the reduced set used for arity 3 in the quick tier
	lvl1 bool   // member of the set used for arity 2 in the quick tier (the thorough tier uses all for arity 2 and 3)
}

// The kinds named by the property, boundary numbers, and strings that are
// meaningful to the parsers inside functions (regex, format, time, JSON).
func witnesses() []witness {
	ws := []witness{
		{"0", `0`, 0, true, true},
		{"1", `1`, 0, false, true},
		{"-1", `-1`, 0, true, true},
		{"minint", `(-9223372036854775807 - 1)`, 1, false, true},
		{"maxint", `9223372036854775807`, 1, true, true},
		{"0.5", `0.5`, 0, true, true},
		{"NaN", `(0/0)`, 1, true, true},
		{"+Inf", `(1/0)`, 1, false, true},
		{"true", `true`, 0, true, true},
		{"empty", `""`, 0, true, true},
		{"abc", `"abc"`, 0, true, true},
		{"[]", `[]`, 0, false, true},
		{"[1,2]", `[1,2]`, 0, true, true},
		{"{}", `{}`, 0, false, true},
		{"map", `{"a":1,"b":2}`, 0, true, true},
		{"funct1", `func(a) {return a}`, 1, true, true},
		{"funct2", `func(a,b) {return 1}`, 1, false, true},
		{"error", `(1+true)`, 1, true, true},
		{"null", `null`, 0, false, true},
		{"absent", `@nosuch`, 0, true, true},
		// option maps: every key that some built-in documents for its options argument (percentile/percentiles, exec), once
		// with values of the documented type and once with a wrong type
		{"opts", `{"interpolate_linearly":true,"output_array_not_map":true,"array_is_final_sorted":true,"combined_output":true,"env":[],"dir":"/","stdin_string":""}`, 1, true, true},
		{"opts-badtype", `{"interpolate_linearly":1,"output_array_not_map":"x","array_is_final_sorted":[],"combined_output":1,"env":1,"dir":1,"stdin_string":1}`, 2, true, true},
		// ---- beyond the property's list: more kinds and parser-relevant strings
		{"bytes", `b"a\xff"`, 2, false, true},
		{"-0.0", `-0.0`, 2, false, false},
		{"1e300", `1e300`, 2, false, false},
		{"64", `64`, 2, false, false},
		{"nested", `[[1,{"a":[]}],"x"]`, 2, false, true},
		{"mapmap", `{"a":{"b":1},"c":[1]}`, 2, false, false},
		{"functkv", `func(k,v) {return {k:v}}`, 2, false, false},
		{"funct4", `func(a,b,c,d) {return {a:b}}`, 2, false, false},
		{"functbool", `func(a) {return true}`, 2, false, false},
		{"s:(", `"("`, 2, false, true},
		{"s:%d", `"%d"`, 2, false, true},
		{"s:%", `"%"`, 2, false, false},
		{"s:%08.3lf", `"%08.3lf"`, 2, false, false},
		{"s:%s%s", `"%s:%s"`, 2, false, false},
		{"s:{}", `"{}:{}"`, 2, false, false},
		// positional placeholders one and two past the arguments that can follow at arity 1..3
		{"s:{1}", `"{1}"`, 2, false, true},
		{"s:{2}", `"{2}:{1}"`, 2, false, true},
		{"s:{3}", `"{3}{}"`, 2, false, true},
		{"s:\\1", `"\1"`, 2, false, true},
		{"s:(a)(b)?", `"(a)(b)?"`, 2, false, false},
		{"s:a*", `"a*"`, 2, false, false},
		{"s:.", `"."`, 2, false, false},
		{"s:timefmt", `"%Y-%m-%dT%H:%M:%SZ"`, 2, false, true},
		{"s:%j%", `"%j %1S %N %"`, 2, false, false},
		{"s:time", `"1970-01-01T00:00:00Z"`, 2, false, true},
		{"s:dhms", `"1d2h3m4s"`, 2, false, false},
		{"s:-", `"-"`, 2, false, true},
		{"s:0x", `"0x"`, 2, false, false},
		{"s:tz", `"Asia/Tokyo"`, 2, false, true},
		{"s:badutf8", `"\xffé"`, 2, false, true},
		{"s:json", `"{\"a\":[1,"`, 2, false, false},
		{"s:flags", `"nrfcvt"`, 2, false, false},
		{"s:,", `","`, 2, false, false},
	}
	return ws
}

var funcDeny = map[string]string{
	"system": "shell-out", "os": "host fact", "hostname": "host fact", "version": "host fact",
	"urand": "unseeded randomness", "urand32": "unseeded randomness", "urandint": "unseeded randomness", "urandrange": "unseeded randomness", "urandelement": "unseeded randomness",
	"systime": "clock", "systimeint": "clock", "sysntime": "clock", "uptime": "clock", "upntime": "clock",
}

// callable is one thing to apply to a tuple: a table function at an arity, or a statement template.
type callable struct {
	fam    string // "func" or "stmt"
	name   string
	arity  int
	accept bool                    // false: the table says this arity is not accepted (one tuple only: exercises the arity check)
	render func(a []string) string // the put expression
	main   bool                    // needs a record (main block) rather than -n end{}
	heavy  bool                    // arity-3 statement templates use the reduced witness set in both tiers
}

func isLetterStart(s string) bool {
	c := s[0]
	return (c >= 'a' && c <= 'z') || (c >= 'A' && c <= 'Z')
}

func par(s string) string { return "(" + s + ")" }

func funcCallables() (out []callable, denied []string) {
	for _, b := range cst.VerifC18BuiltinTable() {
		if why, ok := funcDeny[b.Name]; ok {
			denied = append(denied, b.Name+" ("+why+")")
			continue
		}
		name := b.Name
		for arity := 0; arity <= 3; arity++ {
			accept := false
			switch arity {
			case 0:
				accept = b.Zary
			case 1:
				accept = b.Unary
			case 2:
				accept = b.Binary
			case 3:
				accept = b.Ternary
			}
			if b.Variadic && arity >= b.MinVar && (b.MaxVar == 0 || arity <= b.MaxVar) {
				accept = true
			}
			var render func(a []string) string
			if isLetterStart(name) {
				render = func(a []string) string {
					call := name + "(" + strings.Join(a, ", ") + ")"
					return "end{print typeof(" + call + "); print " + call + "}"
				}
			} else {
				// operators: infix / prefix syntax exists only for the arities the grammar has
				switch {
				case arity == 1 && b.Unary:
					render = func(a []string) string {
						e := name + " " + par(a[0])
						return "end{print typeof(" + e + "); print " + e + "}"
					}
				case arity == 2 && b.Binary:
					render = func(a []string) string {
						e := par(a[0]) + " " + name + " " + par(a[1])
						return "end{print typeof(" + e + "); print " + e + "}"
					}
				case arity == 3 && name == "?:":
					render = func(a []string) string {
						e := par(a[0]) + " ? " + par(a[1]) + " : " + par(a[2])
						return "end{print typeof(" + e + "); print " + e + "}"
					}
				default:
					continue
				}
			}
			out = append(out, callable{fam: "func", name: name, arity: arity, accept: accept, render: render})
		}
	}
	return
}

func stmtCallables() []callable {
	var out []callable
	add := func(name string, arity int, main bool, tmpl string) {
		t := tmpl
		out = append(out, callable{fam: "stmt", name: name, arity: arity, accept: true, main: main, heavy: arity == 3,
			render: func(a []string) string {
				s := t
				for i, ph := range []string{"§A", "§B", "§C"} {
					if i < len(a) {
						s = strings.ReplaceAll(s, ph, a[i])
					}
				}
				return s
			}})
	}
	// ---- arity 1
	add("field-assign", 1, true, `$new = §A`)
	add("field-assign-existing", 1, true, `$x = §A; $y .= "s"`)
	add("srec-assign", 1, true, `$* = §A`)
	add("oosvar-assign-emit", 1, true, `@r = §A; emit @r`)
	add("oosvar-assign-emitp", 1, true, `@r = §A; emitp @r`)
	add("oosvar-assign-emit-by", 1, true, `@r = §A; emit @r, "a", "b"`)
	add("oosvar-assign-emitp-by", 1, true, `@r = §A; emitp @r, "a"`)
	add("emit-lashed", 1, true, `@r = §A; @s = {"a":{"x":1}}; emit (@r, @s), "a"`)
	add("emitp-lashed", 1, true, `@r = §A; @s = {"a":{"x":1}}; emitp (@s, @r), "a"`)
	add("emit-by-name", 1, true, `@r = {"a":{"b":1},"c":2}; emit @r, §A`)
	add("emitp-by-name", 1, true, `@r = {"a":{"b":1},"c":2}; emitp @r, §A`)
	add("emit-mapexpr", 1, true, `emit mapsum({"a":1}, §A)`)
	add("emit1", 1, true, `emit1 mapsum({"a":1}, §A)`)
	add("emitf", 1, true, `@r = §A; emitf @r`)
	add("emit-all", 1, true, `@r = §A; @s = 1; emit @*`)
	add("emitp-all", 1, true, `@r = §A; emitp @*`)
	add("fulloosvar-assign", 1, true, `@* = §A; emit @*`)
	add("dump", 1, true, `@r = §A; dump; edump; dump @r; print §A; printn §A; eprint §A; eprintn §A`)
	add("filter-stmt", 1, true, `filter §A`)
	add("if-chain", 1, true, `if (§A) {$new=1} elif (§A) {$new=2} else {$new=3}`)
	add("while", 1, true, `while (§A) {break}`)
	add("do-while", 1, true, `do {$new=1; break} while (§A)`)
	add("for-kv", 1, true, `for (k,v in §A) {$[k]=v}`)
	add("for-e", 1, true, `for (e in §A) {$new=e}`)
	add("for-multikey2", 1, true, `for ((k1,k2),v in §A) {$new=v}`)
	add("for-multikey3", 1, true, `for ((k1,k2,k3),v in §A) {$new=k3}`)
	add("for-triple-cond", 1, true, `for (i=0; §A; i+=1) {break}`)
	add("typed-local-str", 1, true, `str t = §A; $new = t`)
	add("typed-local-int", 1, true, `int t = §A; $new = t`)
	add("typed-local-num", 1, true, `num t = §A; $new = t`)
	add("typed-local-float", 1, true, `float t = §A; $new = t`)
	add("typed-local-bool", 1, true, `bool t = §A; $new = t`)
	add("typed-local-map", 1, true, `map t = §A; $new = t`)
	add("typed-local-arr", 1, true, `arr t = §A; $new = t`)
	add("typed-local-funct", 1, true, `funct t = §A; $new = 1`)
	add("typed-local-var", 1, true, `var t = §A; $new = t`)
	add("udf-typed-param", 1, true, `func f(str a): str { return a } $new = f(§A)`)
	add("udf-typed-return", 1, true, `func f(a): int { return a } $new = f(§A)`)
	add("udf-no-return", 1, true, `func f(a) { if (false) {return 1} } $new = f(§A)`)
	add("subr-call", 1, true, `subr s(map a) { print a } call s(§A)`)
	add("local-funct-call", 1, true, `f = §A; $new = apply([1,2], f)`)
	add("indirect-field-read", 1, true, `$new = $[§A]`)
	add("indirect-field-write", 1, true, `$[§A] = "v"`)
	add("positional-name-read", 1, true, `$new = $[[§A]]`)
	add("positional-value-read", 1, true, `$new = $[[[§A]]]`)
	add("positional-name-write", 1, true, `$[[§A]] = "renamed"`)
	add("positional-value-write", 1, true, `$[[[§A]]] = "revalued"`)
	add("positional-name-write-rhs", 1, true, `$[[1]] = §A`)
	add("positional-value-write-rhs", 1, true, `$[[[1]]] = §A`)
	add("indirect-oosvar", 1, true, `@[§A] = 1; $new = @[§A]`)
	add("env-read", 1, true, `$new = ENV[§A]`)
	add("unset-indirect-field", 1, true, `unset $[§A]`)
	add("unset-indirect-oosvar", 1, true, `@r = 1; unset @[§A]`)
	add("srec-index", 1, true, `$new = $*[§A]`)
	add("field-index-assign", 1, true, `$y[§A] = 1`)
	add("field-index2-assign", 1, true, `$new[§A][§A] = 1`)
	add("map-literal-key", 1, true, `$new = {§A: 1}`)
	add("map-literal-value", 1, true, `$new = {"k": §A, "l": [§A]}`)
	add("string-interp-captures", 1, true, `if ("abc" =~ "(a)(b)?(x)?") { $new = §A . "\1\2\3\4" }`)
	add("nr-compare", 1, true, `$new = NR == §A || FILENAME == §A || M_PI < §A`)
	add("begin-end", 1, true, `begin{@b = §A} $new = @b; end{emit @b}`)
	add("tee-stdout-cond", 1, true, `if (is_present(§A)) {tee > stdout, $*}`)
	add("print-redirect-stderr", 1, true, `print > stderr, §A`)
	add("emit-redirect-stdout", 1, true, `@r = §A; emit > stdout, @r`)
	add("dump-redirect-stderr", 1, true, `@r = §A; dump > stderr, @r`)
	add("nested-collections", 1, true, `$new = [§A, {"k": §A}, [[§A]]]`)
	add("json-roundtrip", 1, true, `$new = json_parse(json_stringify(§A)) . json_stringify(§A, "multiline")`)
	add("sort-by-funct", 1, true, `$new = sort([3,1,2], §A)`)
	add("sort-map-by-funct", 1, true, `$new = sort({"b":1,"a":2}, §A)`)
	add("fold-with", 1, true, `$new = fold([1,2,3], func(acc,e) {return acc . e}, §A)`)
	add("reduce-over", 1, true, `$new = reduce(§A, func(acc,e) {return acc . e})`)
	add("apply-over", 1, true, `$new = apply(§A, func(e) {return e . "s"})`)
	add("select-over", 1, true, `$new = select(§A, func(e) {return true})`)
	add("any-every-over", 1, true, `$new = any(§A, func(e) {return e == 1}) || every(§A, func(e) {return e == 1})`)
	add("apply-returning", 1, true, `$new = apply([1,2], func(e) {return §A})`)
	add("select-returning", 1, true, `$new = select([1,2], func(e) {return §A})`)
	add("sort-cmp-returning", 1, true, `$new = sort([2,1,3], func(a,b) {return §A})`)
	add("reduce-returning", 1, true, `$new = reduce([1,2], func(acc,e) {return §A})`)
	add("apply-map-returning", 1, true, `$new = apply({"a":1}, func(k,v) {return §A})`)
	add("select-map-returning", 1, true, `$new = select({"a":1}, func(k,v) {return §A})`)
	add("sort-map-cmp-returning", 1, true, `$new = sort({"a":1,"b":2}, func(ak,av,bk,bv) {return §A})`)
	add("fold-map-returning", 1, true, `$new = fold({"a":1,"b":2}, func(acck,accv,ek,ev) {return §A}, {"s":0})`)
	// ---- arity 2
	add("index", 2, true, `t = §A; $new = t[§B]`)
	add("index-direct", 2, true, `$new = §A[§B]`)
	add("index-assign", 2, true, `t = §A; t[§B] = "v"; $new = t`)
	add("unset-index", 2, true, `t = §A; unset t[§B]; $new = t`)
	add("oosvar-index-assign", 2, true, `@r = §A; @r[§B] = "v"; emit @r`)
	add("oosvar-unset-index", 2, true, `@r = §A; unset @r[§B]; emit @r`)
	add("slice-lo", 2, true, `t = §A; $new = t[§B:]`)
	add("slice-hi", 2, true, `t = §A; $new = t[:§B]`)
	add("field-slice", 2, true, `$y = §A; $new = $y[§B:§B]`)
	add("dot-assign", 2, true, `t = §A; t .= §B; $new = t`)
	add("coalesce-assign", 2, true, `t = §A; t ??= §B; t ???= §B; $new = t`)
	add("plus-minus-times-assign", 2, true, `t = §A; t += §B; u = §A; u -= §B; v = §A; v *= §B; w = §A; w /= §B; $new = t . u . v . w`)
	add("shift-assign", 2, true, `t = §A; t <<= §B; u = §A; u >>>= §B; $new = t . u`)
	add("arith-assign", 2, true, `t = §A; t //= §B; u = §A; u %= §B; v = §A; v **= §B; $new = t . u . v`)
	add("logic-assign", 2, true, `t = §A; t &&= §B; u = §A; u ||= §B; v = §A; v ^^= §B; $new = t . u . v`)
	add("bit-assign", 2, true, `t = §A; t &= §B; u = §A; u |= §B; v = §A; v ^= §B; $new = t . u . v`)
	add("regex-captures", 2, true, `if (§A =~ §B) { $new = "\0:\1:\2:\9" } else { $new = "no:\1" }`)
	add("regex-not-match", 2, true, `$new = §A !=~ §B`)
	add("regexi-literal", 2, true, `$new = sub(§A, "(A)(b)?"i, §B)`)
	add("emit-lashed-2", 2, true, `@r = §A; @s = §B; emit (@r, @s), "a"`)
	add("emitp-by-2", 2, true, `@r = {"a":{"b":{"c":1}}}; emitp @r, §A, §B`)
	add("emit-by-2", 2, true, `@r = {"a":{"b":{"c":1}}}; emit @r, §A, §B`)
	add("emit-indexed", 2, true, `@r = §A; emit @r[§B]`)
	add("emitp-indexed", 2, true, `@r = §A; emitp @r[§B], "a"`)
	add("for-kv-mutate", 2, true, `t = §A; for (k,v in t) { t[§B] = v } $new = t`)
	add("positional-both", 2, true, `$[[§A]] = §B`)
	add("positional-value-both", 2, true, `$[[[§A]]] = §B`)
	add("indirect-both", 2, true, `$[§A] = §B`)
	add("map-literal-kv", 2, true, `$new = {§A: §B}`)
	add("udf-2", 2, true, `func f(map a, arr b): map { return mapsum(a, {"k": b}) } $new = f(§A, §B)`)
	add("funct-call-args", 2, true, `f = func(str a, int b): str { return a . b }; $new = apply([§A], func(e) {return f(e, §B)})`)
	add("absent-rules", 2, true, `$new = §A . §B; $new2 = min(§A, §B) . max(§A, §B); $new3 = §A < §B ? §A : §B`)
	add("ofmt", 2, false, `end{print fmtnum(§A, §B) . fmtifnum(§A, §B) . hexfmt(§A)}`)
	// ---- arity 3
	add("slice", 3, true, `t = §A; $new = t[§B:§C]`)
	add("slice-direct", 3, true, `$new = §A[§B:§C]`)
	add("index2", 3, true, `t = §A; $new = t[§B][§C]`)
	add("index-assign-3", 3, true, `t = §A; t[§B] = §C; $new = t`)
	add("index2-assign", 3, true, `t = §A; t[§B][§C] = "v"; $new = t`)
	add("oosvar-index2-assign", 3, true, `@r = §A; @r[§B][§C] = "v"; emit @r`)
	add("unset-index2", 3, true, `t = §A; unset t[§B][§C]; $new = t`)
	add("field-index-assign-3", 3, true, `$y = §A; $y[§B] = §C`)
	add("emit-lashed-by", 3, true, `@r = §A; @s = §B; emitp (@r, @s), §C`)
	return out
}

func funcsWorker(w *vf.Worker) {
	x := newRunner(w, 3, 6*time.Second)
	ws := witnesses()
	var core, lvl1 []int
	all := make([]int, len(ws))
	for i := range ws {
		all[i] = i
		if ws[i].core {
			core = append(core, i)
		}
		if ws[i].lvl1 {
			lvl1 = append(lvl1, i)
		}
	}
	fcs, denied := funcCallables()
	calls := append(fcs, stmtCallables()...)
	only := strings.TrimSpace(envOr("VERIF_C18_FUNC", ""))
	// Sharding is per callable (all tuples of one function/arity run in one
	// shard, in order), so that a function whose tuples kill workers holds up
	// one shard instead of all of them: idx = (block*M + n)*NShards + shard.
	NS := uint64(w.NShards)
	const M = 1 << 18
	witHits := make([]int64, len(ws))
	tup := make([]int, 0, 3)
	for ci := range calls {
		cl := &calls[ci]
		if only != "" && cl.name != only {
			continue
		}
		shard, base := uint64(ci)%NS, (uint64(ci)/NS)*M
		if w.Only < 0 && shard != uint64(w.Shard) {
			continue
		}
		// witness set for this callable
		set := all
		if cl.arity == 3 && (w.Quick() || cl.heavy) {
			set = core
		} else if cl.arity == 2 && w.Quick() {
			set = lvl1
		}
		k := len(set)
		total := uint64(1)
		for i := 0; i < cl.arity; i++ {
			total *= uint64(k)
		}
		if !cl.accept {
			total = 1
		}
		cfg := cl.name + "/" + fmt.Sprint(cl.arity)
		var nEvaluated, nRuns int64
		for n := uint64(0); n < total; n++ {
			idx := (base+n)*NS + shard
			if !w.Mine(idx) {
				continue
			}
			w.Begin(idx)
			tup = tup[:0]
			r := n
			for i := 0; i < cl.arity; i++ {
				tup = append(tup, 0)
			}
			for i := cl.arity - 1; i >= 0; i-- {
				tup[i] = set[int(r%uint64(k))]
				r /= uint64(k)
			}
			if !cl.accept {
				for i := range tup {
					tup[i] = 1 // the int 1
				}
			}
			exprs := make([]string, cl.arity)
			names := make([]string, cl.arity)
			size := cl.arity * 100
			for i, wi := range tup {
				exprs[i] = ws[wi].expr
				names[i] = ws[wi].name
				size += ws[wi].rank*10 + 1
			}
			prog := cl.render(exprs)
			m := &mcase{Fam: cl.fam, Cfg: cfg, Size: size, Desc: "<" + strings.Join(names, " ; ") + ">", Tuple: names}
			if cl.main {
				m.Args = []string{"--ojson", "put", prog}
				m.Stdin = "x=3,y=abc,z=\n"
			} else {
				m.Args = []string{"-n", "put", prog}
			}
			if x.poisoned(m) {
				continue
			}
			for _, wi := range tup {
				witHits[wi]++
			}
			oc := x.run(m)
			nRuns++
			past := !(oc.class == ocMlrErr && (strings.Contains(oc.stderr, "cannot parse DSL") || strings.Contains(oc.stderr, "function name not found") || strings.Contains(oc.stderr, "invoked with")))
			if past {
				nEvaluated++
				w.Nontrivial(1)
			}
			res := oc.class
			if oc.class == ocOK && cl.fam == "func" {
				if i := strings.IndexByte(oc.stdout, '\n'); i > 0 {
					res = "returns-" + oc.stdout[:i]
				}
			}
			if cl.fam == "func" {
				w.AddSet("func-outcomes", cl.name+":"+res)
			} else {
				w.AddSet("func-outcomes", "stmt:"+cl.name+":"+oc.class)
			}
			if oc.class == ocBareErr || oc.class == ocSilentNZ {
				w.AddSet("bare-error-texts", cl.fam+"/"+cl.name+": "+short(strings.TrimSpace(firstLines(oc.stderr, 1)), 100))
			}
		}
		if nRuns > 0 {
			w.Count("cases:"+cl.fam, nRuns)
			w.Count("fn:"+cfg, nRuns)
			if cl.accept {
				w.Count("fn-evaluated:"+cfg, nEvaluated)
			}
		}
	}
	for i, h := range witHits {
		w.Count("witness:"+ws[i].name, h)
	}
	if w.Shard == 0 {
		w.Sample(map[string]any{"family": "func", "table_entries_x_arities": len(fcs), "statement_templates": len(calls) - len(fcs), "witnesses": len(ws), "core_witnesses_for_arity3_quick": len(core), "witnesses_for_arity2_quick": len(lvl1), "denied": denied,
			"example": calls[len(fcs)/2].render([]string{ws[3].expr, ws[12].expr, ws[10].expr}[:calls[len(fcs)/2].arity])})
	}
	_ = vf.Root
}

func envOr(k, d string) string {
	if v := os.Getenv(k); v != "" {
		return v
	}
	return d
}
