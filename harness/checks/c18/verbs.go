package c18

// Extension of family 1: what the readers deliver must not crash a verb
// either. Every verb (with representative option sets naming fields that are
// present, absent, empty or non-numeric in the input) x all record streams
// that are strings of length <= L over a token alphabet of small DKVP pieces:
// this contains the empty input, empty lines, records lacking the named
// fields, duplicate keys, empty keys and values, heterogeneous streams.
// Verbs that write files (split, tee, case -o...) or run commands are excluded.

import (
	"strings"
	"time"

	"verif/harness/vf"
)

var verbTokens = []string{"a=1", "a=", "b=x", "a=-0.5", "=", "b=2", ",", "\n"}

func verbInvocations() [][]string {
	s := func(x string) []string { return strings.Fields(x) }
	return [][]string{
		s("altkv"), s("bar -f a --lo 0 --hi 1"), s("bar -f a,b --lo 0 --hi 1 --auto"), s("bootstrap"), s("bootstrap -n 1"), s("bootstrap -n 0"),
		s("bootstrap-ci -f a"), s("bootstrap-ci -f a,b -n 3"),
		s("bottom -f a"), s("bottom -f a,b -g b -n 2 -a"), s("bottom -f c"), s("case -u -f a,b"), s("case -k -s -f a"), s("case -t -v -f b"),
		s("cat -n -g a"), s("cat -N idx -g b,c"), s("check"), s("clean-whitespace"), s("clean-whitespace -k"), s("count"), s("count -d -f a"), s("count -n -f a,b"), s("count -g a -o N"),
		s("count-distinct -f a"), s("count-distinct -f a,b -u"), s("count-distinct -n -f b"), s("count-distinct -f a,c"), s("count-similar -g a"), s("count-similar -g a,b -o N"),
		s("cut -f a"), s("cut -o -f b,a"), s("cut -x -f a"), {"cut", "-r", "-f", "^[ab]"}, {"cut", "-r", "-f", `"A"i`}, s("decimate -n 2"), s("decimate -n 1 -b -g a"), s("decimate -n 2 -e -g b"),
		s("describe"), s("fill-down -f a"), s("fill-down -a"), s("fill-down --only-if-blank -f a,b"), s("fill-empty"), s("fill-empty -v X --only-if-blank"), s("fill-empty -S"),
		{"filter", "$a > 0"}, {"filter", "-x", "is_present($b)"}, s("flatten"), s("flatten -f a -s :"), s("format-values"), s("format-values -n -f %.3lf"), s("format-values -i %08llx -s [%s]"),
		s("fraction -f a"), s("fraction -f a,b"), s("fraction -f a -g b -p -c"), s("fraction -f c"), s("gap -n 1"), s("gap -g a"), s("grep -i X"), s("grep -v -a 1"), s("group-by a"), s("group-by a,b"), s("group-like"),
		{"gsub", "-f", "a,b", "1", "2"}, {"gsub", "-a", "", "x"}, s("having-fields --at-least a"), s("having-fields --all-defined a,b"), {"having-fields", "--any-matching", "^a"}, s("having-fields --which-are a,b"),
		s("head -n 1"), s("head -n 0 -g a"), s("head -n 1 -g a,b"), s("histogram -f a --lo 0 --hi 2 --nbins 2"), s("histogram -f a,b --auto --nbins 2"), s("histogram -f a --lo 0 --hi 0 --nbins 1"), s("histogram -f c --lo 0 --hi 1 --nbins 1"),
		s("json-parse"), s("json-parse -f a"), s("json-parse -k"), s("json-stringify"), s("json-stringify -f b --jvstack"), s("join -f /dev/null -j a"), s("join --np --ul --ur -f /dev/null -j a"), s("join -u -f /dev/null -j a,b"),
		s("label x"), s("label x,y,z"), s("label b,a"), s("latin1-to-utf8"), s("least-frequent -f a"), s("least-frequent -f a,b -b"), s("merge-fields -a sum,count -f a,b -o ab"), s("merge-fields -k -a p50,min,max,antimode -c a,b"), s("merge-fields -a var,meaneb,skewness,kurtosis -c a -o o"),
		s("most-frequent -f a"), s("most-frequent -f a,b -n 1 -o N"), s("nest --ivar ; -f a"), s("nest --explode --values --across-records -f a --nested-fs 1"), s("nest --explode --values --across-fields -f b --nested-fs x"),
		s("nest --explode --pairs --across-records -f a --nested-fs . --nested-ps ="), s("nest --explode --pairs --across-fields -f a --nested-fs 0 --nested-ps ."), s("nest --evar , -f b"), s("nothing"),
		{"put", "$c = $a . $b"}, {"put", "-q", "tee > stdout, $*"}, {"put", "-S", "$a = sub($a, \"1\", \"2\")"}, s("rank -f a"), s("rank -f a,b -g b"), s("regularize"), s("remove-empty-columns"), s("rename a,c"), s("rename a,b"), {"rename", "-r", "^(.)$,x_\\1"}, {"rename", "-g", "-r", "a,"},
		s("reorder -f b"), s("reorder -e -f a,b"), s("repeat -n 2"), s("repeat -f a"), s("repeat -n 0"), s("reshape -l2w -k a -v b"), s("reshape -w2l -i a,b -o k,v"), {"reshape", "-w2l", "-r", "^[ab]", "-o", "k,v"}, s("reshape -l2w -k c -v a"),
		s("sample -k 1"), s("sample -k 2 -g a"), s("sec2gmt a"), s("sec2gmt -3 a,b"), s("sec2gmt --millis2gmt -6 a"), s("sec2gmtdate a,b"), s("seqgen --start 1 --stop 3"), s("seqgen -f i --start 1 --stop 1 --step 0"), s("seqgen --start 3 --stop 1 --step -1"),
		s("shuffle"), s("skip-trivial-records"), s("sort -f a"), s("sort -nr a -f b"), s("sort -c a -cr b"), s("sort -t a -tr b"), s("sort -f c"), s("sort-within-records"), s("sort-within-records -r"), s("sort-within-records-values"), s("sparkline -f a"),
		s("sparsify"), s("sparsify -s 1 -f a"), {"ssub", "-f", "a", "1", ""}, {"ssub", "-a", ".", "x"}, s("stats1 -a count,sum,mean,min,max,mode,antimode,first,last -f a"), s("stats1 -a p10,p50,median,p90,iqr,lof,lif,uif,uof -f a,b"), s("stats1 -i -a p50,p25 -f a -g b"),
		s("stats1 -a var,stddev,meaneb,skewness,kurtosis,minlen,maxlen,null_count,distinct_count -f a,b -g a"), {"stats1", "--fr", "^[ab]", "-a", "sum,count"}, {"stats1", "--gr", "^b", "--fr", "a", "-a", "max"}, s("stats1 -a p50 -f c"), s("stats1 -s -a sum -f a"),
		s("stats2 -a linreg-ols,r2,cov,corr -f a,b"), s("stats2 -a linreg-pca -f a,b -v"), s("stats2 --fit -a linreg-ols,linreg-pca -f a,b"), s("stats2 -a cov -f a,a -g b"), s("stats2 -a logireg -f a,b"),
		s("step -a shift,shift_lag,shift_lead,delta,ratio,counter,count,rsum,rprod -f a"), s("step -a ewma -d 0.1,0.9 -f a,b -g b"), s("step -a slwin_2_2,from-first -f a"), s("step -a shift -f c"),
		{"sub", "-f", "a,b", "1", "2"}, {"sub", "-a", "(", "x"}, s("summary"), s("summary --transpose -a mean,median,mode,minlen,null_count"), s("summary -x mean"), s("surv -d a -s b"), s("tac"), s("tail -n 1"), s("tail -n 0 -g a"), s("tail -n 1 -g a,b"),
		s("template -f b,a,c"), s("template -f a --fill-with X"), s("top -f a"), s("top -f a,b -g b -n 2 -a"), s("top -f a --min -o best"), s("top -f c"), s("unflatten"), s("unflatten -f a -s ="), s("uniq -g a"), s("uniq -g a,b -c"), s("uniq -g a -n"), s("uniq -a"), s("uniq -a -c"), s("uniq -a -n"), s("uniq -d -g a"), s("uniq -u -g b"), s("uniq -a -d"),
		s("unspace"), s("unspace -k -f ."), s("unsparsify"), s("unsparsify --fill-with X -f a,b,c"), s("utf8-to-latin1"),
		// chains where one verb's odd output feeds another
		s("nest --ivar ; -f a then unsparsify then sort -nr a"), s("count-similar -g a then head -n 1 -g a then tac"), s("reorder -e -f a then fill-down -a then uniq -a -c"), s("stats1 -a p50,count -f a -g b then merge-fields -a sum -f a_ -o s"),
	}
}

func verbsWorker(w *vf.Worker) {
	x := newRunner(w, 4, 6*time.Second)
	k := len(verbTokens)
	L := 3
	if !w.Quick() {
		L = 4
	}
	total := countUpTo(k, L)
	invs := verbInvocations()
	var idx uint64
	buf := make([]int, 0, 8)
	hits := make([]int64, k)
	for _, inv := range invs {
		cfg := strings.Join(inv, " ")
		var nRun int64
		for n := uint64(0); n < total; n++ {
			idx++
			if !w.Mine(idx) {
				continue
			}
			w.Begin(idx)
			buf = nth(k, n, buf)
			var sb strings.Builder
			for _, s := range buf {
				sb.WriteString(verbTokens[s])
				hits[s]++
			}
			in := sb.String()
			args := append([]string{"--ojson", "--seed", "1"}, inv...)
			m := &mcase{Fam: "verb", Cfg: cfg, Size: len(buf), Desc: `"` + vis(in) + `"`, Args: args, Stdin: in}
			if x.poisoned(m) {
				continue
			}
			oc := x.run(m)
			nRun++
			if isNontrivial(oc) {
				w.Nontrivial(1)
			}
			w.AddSet("verb-outcomes", inv[0]+":"+oc.class)
			if oc.class == ocBareErr || oc.class == ocSilentNZ {
				w.AddSet("bare-error-texts", "verb/"+inv[0]+": "+short(strings.TrimSpace(firstLines(oc.stderr, 1)), 100))
			}
		}
		w.Count("cases:verb", nRun)
		w.Count("verb:"+inv[0], nRun)
	}
	for s, h := range hits {
		w.Count("sym:verb-input:"+vis(verbTokens[s]), h)
	}
	if w.Shard == 0 {
		w.Sample(map[string]any{"family": "verb", "invocations": len(invs), "input_tokens": visAll(verbTokens), "max_len": L, "inputs": total})
	}
}
