package c18

// Family 3: DSL text near the grammar. (a) all token sequences of length <= L
// over the design's 24 tokens, through parse + CST build by a direct call of
// the same cst.RootNode.Build that `mlr put` uses, then executed on records
// through the CLI when they build; (b) all sequences of statement-structure
// chunks (block openers/closers, loop and function keywords, statements) up to
// a smaller length; (c) deep nesting / huge-size ladders for the DSL and for
// the readers and writers.

import (
	"fmt"
	"os"
	"runtime"
	"runtime/debug"
	"strings"
	"sync/atomic"
	"time"

	"github.com/johnkerl/miller/v6/pkg/cli"
	"github.com/johnkerl/miller/v6/pkg/dsl/cst"
	"github.com/johnkerl/miller/v6/pkg/verifrt"

	"verif/harness/vf"
)

var dslTokens = []string{`$x`, `@y`, `z`, `1`, `"s"`, `=`, `+`, `*`, `(`, `)`, `{`, `}`, `[`, `]`, `,`, `;`, `if`, `for`, `in`, `func`, `return`, `emit`, `:`, `?`}

// a second alphabet of the remaining lexical classes (same treatment, one symbol shorter)
var dslTokens2 = []string{`$*`, `@*`, `${a b}`, `$[`, `$[[`, `$[[[`, `]]`, `]]]`, `.`, `-`, `!`, `&&`, `??`, `=~`, `**`, `.+`, `<<=`, `min=`, `0x`, `1e5`, `.5`, `"\1"`, `"a"i`, `b"x"`, `M_PI`, `NR`, `ENV`, `true`, `null`, `unset`, `var`, `str`, `map`, `funct`, `begin`, `end`, `while`, `do`, `break`, `elif`, `else`, `call`, `subr`, `emit1`, `emitp`, `emitf`, `tee`, `>`, `>>`, `|`, `stdout`, `print`, `dump`, `filter`, `all`, `#`, "\n", `'`, `$`, `@`, `\`, `"`, "\xff", `é`, `strlen`, `splitax`, `E`}

var dslChunks = []string{
	`func g(a) {`, `subr s(a) {`, `if (true) {`, `} elif (true) {`, `} else {`, `elif (true) {`, `else {`,
	`for (k,v in $*) {`, `for (e in [1,2]) {`, `for (i=0;i<2;i+=1) {`, `for ((a,b),c in @*) {`, `while (false) {`, `do {`, `} while (false)`, `}`, `{`,
	`begin {`, `end {`, `return 1;`, `return;`, `break;`, `continue;`,
	`$x = 1;`, `@y[1] = $x;`, `var z = f(1);`, `str z = 1;`, `z = 2;`, `var w = g(1);`, `call p(1);`, `call s(1);`,
	`emit @y;`, `emitp (@y, @y), "a";`, `tee > stdout, $*;`, `unset $x;`, `unset @*;`, `filter false;`, `print z;`, `$* = @*;`, `@* = $*;`, `;`,
	`func f(a) { return a }`, `subr p(a) { print a }`,
}

func opens(s string) int  { return strings.Count(s, "{") }
func closes(s string) int { return strings.Count(s, "}") }

// recursive reports whether the chunk sequence calls g (or s) from inside its
// own still-open definition: unbounded user-level recursion, which is covered
// by one explicit ladder case instead of by hundreds of identical crashes.
func recursive(seq []string) bool {
	for _, pair := range [][2]string{{`func g(a) {`, `var w = g(1);`}, {`subr s(a) {`, `call s(1);`}} {
		in, depth := false, 0
		for _, ch := range seq {
			if ch == pair[0] && !in {
				in, depth = true, 1
				continue
			}
			if in {
				if ch == pair[1] {
					return true
				}
				// closers before openers within a chunk such as "} else {"
				for i := 0; i < len(ch); i++ {
					if ch[i] == '}' {
						depth--
						if depth <= 0 {
							in = false
							break
						}
					} else if ch[i] == '{' {
						depth++
					}
				}
			}
		}
	}
	return false
}

var dslDefaultOpts = cli.DefaultOptions()

// buildDirect parses and builds the CST exactly as `mlr put` does, without
// running anything. built: no error.
func buildDirect(text string) (built bool, perr any, stack string) {
	var err error
	perr, stack = vf.Try(func() {
		root := cst.NewEmptyRoot(&dslDefaultOpts.WriterOptions, cst.DSLInstanceTypePut)
		_, err = root.Build([]string{text}, cst.DSLInstanceTypePut, false, false, nil)
	})
	if perr != nil {
		if _, ok := perr.(verifrt.ExitPanic); ok {
			return false, nil, "" // a library exit with a diagnostic: the error path
		}
		return false, perr, stack
	}
	return err == nil, nil, ""
}

const dslStdin = "x=3,y=abc\nx=,z=0.5\n"

func dslWorker(w *vf.Worker) {
	x := newRunner(w, 4, 6*time.Second)
	var idx uint64
	type alpha struct {
		name string
		toks []string
		L    int
		sep  string
	}
	q := w.Quick()
	pick := func(a, b int) int {
		if q {
			return a
		}
		return b
	}
	alphas := []alpha{
		{"tokens", dslTokens, pick(4, 5), " "},
		{"tokens2", dslTokens2, pick(2, 3), " "},
		{"chunks", dslChunks, pick(3, 4), "\n"},
	}
	buf := make([]int, 0, 8)
	seq := make([]string, 0, 8)
	for _, a := range alphas {
		k := len(a.toks)
		total := countUpTo(k, a.L)
		hits := make([]int64, k)
		var nBuilt, nSkipped, nRun int64
		for n := uint64(0); n < total; n++ {
			idx++
			if !w.Mine(idx) {
				continue
			}
			w.Begin(idx)
			buf = nth(k, n, buf)
			seq = seq[:0]
			for _, s := range buf {
				seq = append(seq, a.toks[s])
				hits[s]++
			}
			if a.name == "chunks" && recursive(seq) {
				nSkipped++
				continue
			}
			nRun++
			text := strings.Join(seq, a.sep)
			m := &mcase{Fam: "dsl", Cfg: a.name, Size: len(buf), Desc: "`" + vis(text) + "`", Args: []string{"--ojson", "put", text}, Stdin: dslStdin}
			if x.only {
				x.w.Label(m.label)
			}
			built, perr, stack := buildDirect(text)
			w.Eval(1)
			if nRun%16 == 0 {
				vf.TakeStderr()
			}
			if perr != nil {
				// re-run through the CLI so that the standard oracle, reproducer and plain-binary confirmation apply
				oc := x.run(m)
				if oc.class != ocPanic {
					w.Violation("panic-direct-build["+strings.ReplaceAll(panicSite(stack), ":", "#")+"]:"+m.keyTail(),
						fmt.Sprintf("cst.RootNode.Build panics (%v) on %s but `mlr put` does not", perr, m.Desc), map[string]any{"text": text, "stack": short(stack, 2000)})
				}
				w.AddSet("dsl-outcomes", a.name+":"+ocPanic)
				continue
			}
			if !built {
				w.AddSet("dsl-outcomes", a.name+":rejected-at-parse-or-build")
				continue
			}
			nBuilt++
			w.Nontrivial(1)
			vf.TakeStderr()
			oc := x.run(m)
			w.AddSet("dsl-outcomes", a.name+":built:"+oc.class)
			if oc.class == ocBareErr || oc.class == ocSilentNZ {
				w.AddSet("bare-error-texts", "dsl: "+short(strings.TrimSpace(firstLines(oc.stderr, 1)), 100))
			}
		}
		w.Count("cases:dsl:"+a.name, nRun)
		w.Count("dsl-built-and-executed:"+a.name, nBuilt)
		w.Count("dsl-skipped-unbounded-recursion", nSkipped)
		for s, h := range hits {
			w.Count("tok:"+a.name+":"+vis(a.toks[s]), h)
		}
	}
	if w.Shard == 0 {
		w.Sample(map[string]any{"family": "dsl", "tokens": dslTokens, "max_len": alphas[0].L, "tokens2": len(dslTokens2), "max_len2": alphas[1].L, "chunks": len(dslChunks), "max_len_chunks": alphas[2].L})
	}
}

// ---------------------------------------------------------------- ladders

type ladder struct {
	name   string
	max    int // largest depth at which the shape is generated (quadratic-size shapes stop early)
	build  func(d int) (args []string, stdin string)
	depths []int // when set: these sizes instead of the tier's powers of ten
}

// sizes around every boundary of the number scanners: 18/19/20 decimal digits, 15/16/17 hex digits, 63/64/65
// binary digits, 21/22 octal digits, exponents 308/309/310 and 323/324/325
var lexemeSizes = func() []int {
	var l []int
	for i := 1; i <= 26; i++ {
		l = append(l, i)
	}
	return append(l, 30, 40, 62, 63, 64, 65, 66, 100, 307, 308, 309, 310, 323, 324, 325, 400, 1000, 5000)
}()

func lexemeLadders() []ladder {
	arith := `$p = $x + 1; $m = $x * $x; $d = $x .+ 1; $n = -$x; $s = $x . ""; $b = $x & 1; $q = $x // 3; $f = fmtnum($x, "%d"); $h = hexfmt($x); $t = typeof($x); $i = int($x); $l = $x << 1`
	dsl := func(name string, lit func(d int) string) ladder {
		return ladder{name: name, max: 5000, depths: lexemeSizes, build: func(d int) ([]string, string) {
			l := lit(d)
			return endProg("x = " + l + "; print typeof(x); print x; print x + 1; print -x; print x * x; print x . \"\"; print fmtnum(x, \"%d\"); print x // 3; print x & 1"), ""
		}}
	}
	data := func(name string, flags []string, lit func(d int) string) ladder {
		return ladder{name: name, max: 5000, depths: lexemeSizes, build: func(d int) ([]string, string) {
			return append(append([]string{}, flags...), "--ojson", "put", arith), "x=" + lit(d) + "\n"
		}}
	}
	var out []ladder
	lits := []struct {
		name string
		f    func(d int) string
	}{
		{"int-9s", func(d int) string { return rep("9", d) }},
		{"int-1-0s", func(d int) string { return "1" + rep("0", d) }},
		{"int-leading-0s", func(d int) string { return rep("0", d) + "7" }},
		{"hex-fs", func(d int) string { return "0x" + rep("f", d) }},
		{"hex-8-0s", func(d int) string { return "0x8" + rep("0", d) }},
		{"hex-1-fs", func(d int) string { return "0x1" + rep("f", d) }},
		{"bin-1s", func(d int) string { return "0b" + rep("1", d) }},
		{"oct-7s", func(d int) string { return "0o" + rep("7", d) }},
		{"float-exp", func(d int) string { return fmt.Sprintf("1e%d", d) }},
		{"float-negexp", func(d int) string { return fmt.Sprintf("1e-%d", d) }},
		{"float-frac-digits", func(d int) string { return "0." + rep("3", d) }},
		{"float-int-digits", func(d int) string { return rep("9", d) + ".5" }},
		{"float-dot-exp", func(d int) string { return fmt.Sprintf(".%se+%d", rep("1", 1+d%7), d) }},
	}
	for _, l := range lits {
		l := l
		out = append(out, dsl("lexeme-dsl-"+l.name, l.f))
		out = append(out, dsl("lexeme-dsl-neg-"+l.name, func(d int) string { return "-" + l.f(d) }))
		out = append(out, data("lexeme-data-"+l.name, nil, l.f))
		out = append(out, data("lexeme-data-neg-"+l.name, nil, func(d int) string { return "-" + l.f(d) }))
		out = append(out, data("lexeme-data-octal-flag-"+l.name, []string{"-O"}, l.f))
		out = append(out, data("lexeme-data-int-as-float-"+l.name, []string{"-A"}, l.f))
	}
	return out
}

func rep(s string, n int) string { return strings.Repeat(s, n) }

func endProg(body string) []string { return []string{"-n", "put", "end{" + body + "}"} }

func ladders() []ladder {
	return append(structuralLadders(), lexemeLadders()...)
}

func structuralLadders() []ladder {
	big := 1000000
	type ladder3 struct {
		name  string
		max   int
		build func(d int) (args []string, stdin string)
	}
	L := []ladder3{
		// ---- DSL expression nesting
		{"dsl-parens", big, func(d int) ([]string, string) {
			return endProg("x = " + rep("(", d) + "1" + rep(")", d) + "; print x"), ""
		}},
		{"dsl-array-literal", big, func(d int) ([]string, string) {
			return endProg("x = " + rep("[", d) + "1" + rep("]", d) + "; print depth(x)"), ""
		}},
		{"dsl-map-literal", big, func(d int) ([]string, string) {
			return endProg("x = " + rep(`{"a":`, d) + "1" + rep("}", d) + "; print depth(x)"), ""
		}},
		{"dsl-unary-minus", big, func(d int) ([]string, string) { return endProg("x = " + rep("- ", d) + "1; print x"), "" }},
		{"dsl-unary-minus-nospace", big, func(d int) ([]string, string) { return endProg("x = " + rep("-", d) + "1; print x"), "" }},
		{"dsl-not", big, func(d int) ([]string, string) { return endProg("x = " + rep("!", d) + "true; print x"), "" }},
		{"dsl-bitnot", big, func(d int) ([]string, string) { return endProg("x = " + rep("~", d) + "1; print x"), "" }},
		{"dsl-function-nest", big, func(d int) ([]string, string) {
			return endProg("x = " + rep("abs(", d) + "1" + rep(")", d) + "; print x"), ""
		}},
		{"dsl-plus-chain", big, func(d int) ([]string, string) { return endProg("x = 1" + rep("+1", d) + "; print x"), "" }},
		{"dsl-pow-chain", big, func(d int) ([]string, string) { return endProg("x = 1" + rep("**1", d) + "; print x"), "" }},
		{"dsl-dot-chain", big, func(d int) ([]string, string) { return endProg(`x = "a"` + rep(`."a"`, d) + "; print strlen(x)"), "" }},
		{"dsl-ternary-chain", big, func(d int) ([]string, string) { return endProg("x = " + rep("false ? 0 : ", d) + "1; print x"), "" }},
		{"dsl-coalesce-chain", big, func(d int) ([]string, string) { return endProg("x = " + rep("@a ?? ", d) + "1; print x"), "" }},
		{"dsl-and-chain", big, func(d int) ([]string, string) { return endProg("x = true" + rep(" && true", d) + "; print x"), "" }},
		{"dsl-index-chain", big, func(d int) ([]string, string) { return endProg("y = [1]; x = y" + rep("[1]", d) + "; print x"), "" }},
		{"dsl-index-assign-autocreate", big, func(d int) ([]string, string) { return endProg("@y" + rep("[1]", d) + " = 1; print depth(@y)"), "" }},
		{"dsl-index-assign-dump", 100000, func(d int) ([]string, string) { return endProg("@y" + rep(`["k"]`, d) + " = 1; dump"), "" }},
		// ---- statement nesting / length
		{"dsl-if-nest", big, func(d int) ([]string, string) { return endProg(rep("if (true) {", d) + "print 1" + rep("}", d)), "" }},
		{"dsl-elif-chain", big, func(d int) ([]string, string) {
			return endProg("if (false) {}" + rep(" elif (false) {}", d) + " else {print 1}"), ""
		}},
		{"dsl-for-nest", big, func(d int) ([]string, string) {
			return endProg(rep("for (e in [1]) {", d) + "print 1" + rep("}", d)), ""
		}},
		{"dsl-while-nest", big, func(d int) ([]string, string) {
			return endProg(rep("while (true) {", d) + "print 1;" + rep("break}", d)), ""
		}},
		{"dsl-statements", big, func(d int) ([]string, string) { return endProg(rep("x=1;", d) + "print x"), "" }},
		{"dsl-semicolons", big, func(d int) ([]string, string) { return endProg(rep(";", d)), "" }},
		{"dsl-begin-blocks", big, func(d int) ([]string, string) {
			return []string{"-n", "put", rep("begin{@c[1]=1}", d) + "end{print @c[1]}"}, ""
		}},
		{"dsl-udfs", 100000, func(d int) ([]string, string) {
			var sb strings.Builder
			for i := 0; i < d; i++ {
				fmt.Fprintf(&sb, "func f%d(a) {return a+%d}\n", i, i)
			}
			return []string{"-n", "put", sb.String() + "end{print f0(1)}"}, ""
		}},
		{"dsl-udf-call-chain", 100000, func(d int) ([]string, string) {
			// f0 calls f1 calls ... f{d-1}: finite call depth d
			var sb strings.Builder
			for i := 0; i < d-1; i++ {
				fmt.Fprintf(&sb, "func f%d(a) {return f%d(a)}\n", i, i+1)
			}
			fmt.Fprintf(&sb, "func f%d(a) {return a}\n", d-1)
			return []string{"-n", "put", sb.String() + "end{print f0(1)}"}, ""
		}},
		{"dsl-udf-bounded-recursion", big, func(d int) ([]string, string) {
			return []string{"-n", "put", fmt.Sprintf("func f(n) { return n <= 0 ? 0 : 1 + f(n-1) } end{print f(%d)}", d)}, ""
		}},
		{"dsl-subr-bounded-recursion", big, func(d int) ([]string, string) {
			return []string{"-n", "put", fmt.Sprintf("subr s(n) { if (n > 0) { call s(n-1) } else { print n } } end{call s(%d)}", d)}, ""
		}},
		{"dsl-funct-literal-nest", 100000, func(d int) ([]string, string) {
			return endProg("f = " + rep("func(a) { return apply([a], ", d) + "func(b) {return b}" + rep(")}", d) + "; print 1"), ""
		}},
		// ---- long lexemes
		{"dsl-long-string-literal", big, func(d int) ([]string, string) { return endProg(`x = "` + rep("a", d*10) + `"; print strlen(x)`), "" }},
		{"dsl-long-int-literal", big, func(d int) ([]string, string) { return endProg("x = " + rep("7", d) + "; print typeof(x)"), "" }},
		{"dsl-long-hex-literal", big, func(d int) ([]string, string) { return endProg("x = 0x" + rep("f", d) + "; print typeof(x)"), "" }},
		{"dsl-long-float-literal", big, func(d int) ([]string, string) {
			return endProg("x = 0." + rep("3", d) + "e" + rep("9", 1+d/1000) + "; print typeof(x)"), ""
		}},
		{"dsl-long-identifier", big, func(d int) ([]string, string) { return endProg(rep("v", d) + " = 1; print " + rep("v", d)), "" }},
		{"dsl-long-field-name", big, func(d int) ([]string, string) { return []string{"put", "${" + rep("k", d) + "} = $x"}, "x=1\n" }},
		{"dsl-long-comment", big, func(d int) ([]string, string) { return endProg("x = 1; # " + rep("c", d*10) + "\nprint x"), "" }},
		{"dsl-many-args", big, func(d int) ([]string, string) { return endProg("x = max(" + rep("1,", d) + "1); print x"), "" }},
		{"dsl-wide-array-literal", big, func(d int) ([]string, string) { return endProg("x = [" + rep("1,", d) + "1]; print length(x)"), "" }},
		{"dsl-wide-map-literal", 100000, func(d int) ([]string, string) {
			var sb strings.Builder
			for i := 0; i < d; i++ {
				fmt.Fprintf(&sb, `"%d":1,`, i)
			}
			return endProg("x = {" + sb.String() + `"z":1}; print length(x)`), ""
		}},
		{"dsl-backslashes", big, func(d int) ([]string, string) { return endProg(`x = "` + rep(`\\`, d) + `"; print strlen(x)`), "" }},
		{"dsl-regex-nest", big, func(d int) ([]string, string) {
			return endProg(`print "a" =~ "` + rep("(", d) + "a" + rep(")", d) + `"`), ""
		}},
		{"dsl-regex-repeat", 1000, func(d int) ([]string, string) {
			return endProg(`print sub("aaa", "` + rep("(a{1,1000})", d) + `", "b")`), ""
		}},
		{"dsl-regex-captures", big, func(d int) ([]string, string) {
			return endProg(`if ("` + rep("a", d) + `" =~ "` + rep("(a)", d) + `") {print "\1\9"}`), ""
		}},
		{"dsl-gsub-empty-regex", big, func(d int) ([]string, string) {
			return endProg(`print strlen(gsub("` + rep("a", d) + `", "", "x"))`), ""
		}},
		{"dsl-format-values-wide", 100000, func(d int) ([]string, string) { return endProg(`print strlen(format("` + rep("{}", d) + `", 1))`), "" }},
		{"dsl-strrepeat-like", 1000, func(d int) ([]string, string) {
			return endProg(fmt.Sprintf(`print strlen(leftpad("a", %d, "x"))`, d*1000)), ""
		}},
		{"dsl-json-parse-nest", big, func(d int) ([]string, string) {
			return endProg(`print depth(json_parse("` + rep("[", d) + rep("]", d) + `"))`), ""
		}},
		{"dsl-splitax-wide", big, func(d int) ([]string, string) {
			return endProg(`print length(splitax("` + rep("a,", d) + `", ","))`), ""
		}},
		// ---- readers: nesting and size
		{"json-array-nest", big, func(d int) ([]string, string) {
			return []string{"--ijson", "--ojsonl", "cat"}, `{"a":` + rep("[", d) + "1" + rep("]", d) + "}"
		}},
		{"json-map-nest", big, func(d int) ([]string, string) {
			return []string{"--ijson", "--ojsonl", "cat"}, rep(`{"a":`, d) + "1" + rep("}", d)
		}},
		{"json-array-unclosed", big, func(d int) ([]string, string) { return []string{"--ijson", "--ojsonl", "cat"}, `{"a":` + rep("[", d) }},
		{"json-map-unclosed", big, func(d int) ([]string, string) { return []string{"--ijson", "--ojsonl", "cat"}, rep(`{"a":`, d) }},
		{"json-writer-multiline-array-nest", big, func(d int) ([]string, string) {
			return []string{"--ijson", "--ojson", "cat"}, `{"a":` + rep("[", d) + "1" + rep("]", d) + "}"
		}},
		{"json-writer-multiline-map-nest", big, func(d int) ([]string, string) {
			return []string{"--ijson", "--ojson", "cat"}, rep(`{"a":`, d) + "1" + rep("}", d)
		}},
		{"json-reader-only-array-nest", 10000000, func(d int) ([]string, string) {
			return []string{"--ijson", "--ojson", "nothing"}, `{"a":` + rep("[", d) + "1" + rep("]", d) + "}"
		}},
		{"json-reader-only-map-nest", 10000000, func(d int) ([]string, string) {
			return []string{"--ijson", "--ojson", "nothing"}, rep(`{"a":`, d) + "1" + rep("}", d)
		}},
		{"yaml-reader-only-flow-nest", 10000000, func(d int) ([]string, string) {
			return []string{"--iyaml", "--ojson", "nothing"}, "a: " + rep("[", d) + "1" + rep("]", d) + "\n"
		}},
		{"json-top-array-nest", big, func(d int) ([]string, string) {
			return []string{"--ijson", "--ojsonl", "cat"}, rep("[", d) + rep("]", d)
		}},
		{"json-closers-only", big, func(d int) ([]string, string) {
			return []string{"--ijson", "--ojsonl", "cat"}, rep("]", d) + rep("}", d)
		}},
		{"json-map-nest-to-csv", big, func(d int) ([]string, string) {
			return []string{"--ijson", "--ocsv", "cat"}, rep(`{"a":`, d) + "1" + rep("}", d)
		}},
		{"json-map-nest-to-xtab", 100000, func(d int) ([]string, string) {
			return []string{"--ijson", "--oxtab", "cat"}, rep(`{"a":`, d) + "1" + rep("}", d)
		}},
		{"json-array-nest-to-pprint", 100000, func(d int) ([]string, string) {
			return []string{"--ijson", "--opprint", "cat"}, `{"a":` + rep("[", d) + "1" + rep("]", d) + "}"
		}},
		{"json-long-string", big, func(d int) ([]string, string) {
			return []string{"--ijson", "--ojsonl", "cat"}, `{"a":"` + rep("s", d*10) + `"}`
		}},
		{"json-long-key", big, func(d int) ([]string, string) {
			return []string{"--ijson", "--ojsonl", "cat"}, `{"` + rep("k", d*10) + `":1}`
		}},
		{"json-long-number", big, func(d int) ([]string, string) {
			return []string{"--ijson", "--ojsonl", "cat"}, `{"a":` + rep("7", d) + `}`
		}},
		{"json-long-escapes", big, func(d int) ([]string, string) {
			return []string{"--ijson", "--ojsonl", "cat"}, `{"a":"` + rep(`\u00e9\\`, d) + `"}`
		}},
		{"json-many-records", big, func(d int) ([]string, string) { return []string{"--ijson", "--ojson", "tac"}, rep(`{"a":1}`, d) }},
		{"json-many-keys", 100000, func(d int) ([]string, string) {
			var sb strings.Builder
			sb.WriteString("{")
			for i := 0; i < d; i++ {
				fmt.Fprintf(&sb, `"k%d":%d,`, i, i)
			}
			sb.WriteString(`"z":0}`)
			return []string{"--ijson", "--ojsonl", "cat"}, sb.String()
		}},
		{"json-many-dup-keys", 100000, func(d int) ([]string, string) {
			return []string{"--ijson", "--ojsonl", "cat"}, "{" + rep(`"a":1,`, d) + `"a":2}`
		}},
		{"json-whitespace", big, func(d int) ([]string, string) {
			return []string{"--ijson", "--ojsonl", "cat"}, rep(" \n\t", d) + `{"a":1}` + rep(" ", d)
		}},
		{"jsonl-long-line", big, func(d int) ([]string, string) {
			return []string{"--ijsonl", "--ojsonl", "cat"}, `{"a":"` + rep("s", d*10) + `"}` + "\n"
		}},
		{"yaml-flow-nest", big, func(d int) ([]string, string) {
			return []string{"--iyaml", "--ojsonl", "cat"}, "a: " + rep("[", d) + "1" + rep("]", d) + "\n"
		}},
		{"yaml-flow-map-nest", big, func(d int) ([]string, string) {
			return []string{"--iyaml", "--ojsonl", "cat"}, rep("{a: ", d) + "1" + rep("}", d) + "\n"
		}},
		{"yaml-flow-unclosed", big, func(d int) ([]string, string) {
			return []string{"--iyaml", "--ojsonl", "cat"}, "a: " + rep("[", d) + "\n"
		}},
		{"yaml-dash-nest", big, func(d int) ([]string, string) {
			return []string{"--iyaml", "--ojsonl", "cat"}, "a:\n  " + rep("- ", d) + "1\n"
		}},
		{"yaml-block-nest", 1000, func(d int) ([]string, string) {
			var sb strings.Builder
			for i := 0; i < d; i++ {
				sb.WriteString(rep(" ", i) + "a:\n")
			}
			sb.WriteString(rep(" ", d) + "b: 1\n")
			return []string{"--iyaml", "--ojsonl", "cat"}, sb.String()
		}},
		{"yaml-alias-doubling", 30, func(d int) ([]string, string) {
			// each level references the previous one twice: 2^d leaves from a d-line document
			var sb strings.Builder
			sb.WriteString("a0: &a0 [x, x]\n")
			for i := 1; i < d; i++ {
				fmt.Fprintf(&sb, "a%d: &a%d [*a%d, *a%d]\n", i, i, i-1, i-1)
			}
			return []string{"--iyaml", "--ojson", "put", "-q", `end{print "done"}`}, sb.String()
		}},
		{"yaml-many-docs", 100000, func(d int) ([]string, string) { return []string{"--iyaml", "--ojson", "tac"}, rep("---\na: 1\n", d) }},
		{"yaml-long-scalar", big, func(d int) ([]string, string) {
			return []string{"--iyaml", "--ojsonl", "cat"}, "a: " + rep("s", d*10) + "\n"
		}},
		{"csv-long-quoted-field", big, func(d int) ([]string, string) {
			return []string{"--icsv", "--ojsonl", "cat"}, "a\n\"" + rep("x", d*10) + "\"\n"
		}},
		{"csv-long-unquoted-line", big, func(d int) ([]string, string) {
			return []string{"--icsv", "--ojsonl", "cat"}, "a\n" + rep("x", d*10) + "\n"
		}},
		{"csv-unterminated-quote", big, func(d int) ([]string, string) {
			return []string{"--icsv", "--ojsonl", "cat"}, "a\n\"" + rep("x\n", d*5)
		}},
		{"csv-many-columns", 100000, func(d int) ([]string, string) {
			var h, r strings.Builder
			for i := 0; i < d; i++ {
				fmt.Fprintf(&h, "c%d,", i)
				r.WriteString("1,")
			}
			return []string{"--icsv", "--ojsonl", "cat"}, h.String() + "z\n" + r.String() + "1\n"
		}},
		{"csv-many-dup-columns", 10000, func(d int) ([]string, string) {
			return []string{"--icsv", "--ojsonl", "cat"}, rep("a,", d) + "a\n" + rep("1,", d) + "1\n"
		}},
		{"csv-many-quotes", big, func(d int) ([]string, string) {
			return []string{"--icsv", "--ojsonl", "cat"}, "a\n\"" + rep(`""`, d) + "\"\n"
		}},
		{"csv-many-blank-lines", big, func(d int) ([]string, string) {
			return []string{"--icsv", "--ojsonl", "cat"}, "a\n" + rep("\n", d) + "1\n"
		}},
		{"csvlite-many-schema-changes", 100000, func(d int) ([]string, string) {
			return []string{"--icsvlite", "--ocsvlite", "cat"}, rep("a\n1\n\nb\n2\n\n", d)
		}},
		{"csv-ragged-to-csv-unsparsify", 1000, func(d int) ([]string, string) {
			var sb strings.Builder
			for i := 0; i < d; i++ {
				fmt.Fprintf(&sb, "k%d=%d\n", i, i)
			}
			return []string{"--idkvp", "--ocsv", "unsparsify"}, sb.String()
		}},
		{"tsv-long-line", big, func(d int) ([]string, string) {
			return []string{"--itsv", "--ojsonl", "cat"}, "a\n" + rep("x", d*10) + "\n"
		}},
		{"tsv-many-escapes", big, func(d int) ([]string, string) {
			return []string{"--itsv", "--ojsonl", "cat"}, "a\n" + rep(`\t\n\\`, d) + `\` + "\n"
		}},
		{"dkvp-long-line-no-newline", big, func(d int) ([]string, string) { return []string{"--idkvp", "--ojsonl", "cat"}, "a=" + rep("x", d*10) }},
		{"dkvp-many-fields", 100000, func(d int) ([]string, string) {
			var sb strings.Builder
			for i := 0; i < d; i++ {
				fmt.Fprintf(&sb, "k%d=%d,", i, i)
			}
			return []string{"--idkvp", "--ojsonl", "cat"}, sb.String() + "z=0\n"
		}},
		{"dkvp-many-positional-fields", 100000, func(d int) ([]string, string) { return []string{"--idkvp", "--ojsonl", "cat"}, rep("v,", d) + "v\n" }},
		{"dkvp-unflatten-deep", big, func(d int) ([]string, string) {
			return []string{"--idkvp", "--ojsonl", "cat"}, "a" + rep(".a", d) + "=1\n"
		}},
		{"dkvp-unflatten-dots-only", big, func(d int) ([]string, string) { return []string{"--idkvp", "--ojsonl", "cat"}, rep(".", d) + "=1\n" }},
		{"dkvp-unflatten-wide-numeric", 100000, func(d int) ([]string, string) {
			var sb strings.Builder
			for i := d; i >= 1; i -= 1 + d/50 {
				fmt.Fprintf(&sb, "a.%d=%d,", i, i)
			}
			return []string{"--idkvp", "--ojsonl", "cat"}, sb.String() + "z=0\n"
		}},
		{"dkvp-many-equals", big, func(d int) ([]string, string) { return []string{"--idkvp", "--ojsonl", "cat"}, rep("=", d) + "\n" }},
		{"dkvpx-long-quoted", big, func(d int) ([]string, string) {
			return []string{"-i", "dkvpx", "--ojsonl", "cat"}, `a="` + rep("x", d*10) + "\"\n"
		}},
		{"dkvpx-unterminated-quote", big, func(d int) ([]string, string) {
			return []string{"-i", "dkvpx", "--ojsonl", "cat"}, `a="` + rep("x\n", d*5)
		}},
		{"nidx-many-fields", 100000, func(d int) ([]string, string) {
			return []string{"--inidx", "--ifs", " ", "--ojsonl", "cat"}, rep("v ", d) + "\n"
		}},
		{"nidx-many-spaces", big, func(d int) ([]string, string) {
			return []string{"--inidx", "--ifs", " ", "--ojsonl", "cat"}, "a" + rep(" ", d*10) + "b\n"
		}},
		{"xtab-long-key", big, func(d int) ([]string, string) { return []string{"--ixtab", "--ojsonl", "cat"}, rep("k", d*10) + " 1\n" }},
		{"xtab-many-lines", 100000, func(d int) ([]string, string) {
			var sb strings.Builder
			for i := 0; i < d; i++ {
				fmt.Fprintf(&sb, "k%d %d\n", i, i)
			}
			return []string{"--ixtab", "--oxtab", "cat"}, sb.String()
		}},
		{"pprint-many-columns-barred-out", 10000, func(d int) ([]string, string) {
			return []string{"--ipprint", "--opprint", "--barred", "cat"}, rep("h ", d) + "\n" + rep("1 ", d) + "\n"
		}},
		{"pprint-barred-in-long-separator", big, func(d int) ([]string, string) {
			return []string{"--ipprint", "--barred-input", "--ojsonl", "cat"}, "+" + rep("-", d*10) + "+\n| a |\n+" + rep("-+", d) + "\n| 1 |\n"
		}},
		{"markdown-many-columns", 10000, func(d int) ([]string, string) {
			return []string{"--imd", "--ojsonl", "cat"}, "|" + rep(" h |", d) + "\n|" + rep(" --- |", d) + "\n|" + rep(" 1 |", d) + "\n"
		}},
		{"dcf-many-continuations", big, func(d int) ([]string, string) {
			return []string{"--idcf", "--ojsonl", "cat"}, "Description: x\n" + rep(" more\n", d)
		}},
		{"recutils-many-continuations", big, func(d int) ([]string, string) {
			return []string{"--irecutils", "--ojsonl", "cat"}, "a: x\n" + rep("+ more\n", d)
		}},
		{"many-blank-records", big, func(d int) ([]string, string) {
			return []string{"--ixtab", "--ojsonl", "cat"}, rep("\n", d) + "a 1\n" + rep("\n", d)
		}},
		{"gz-truncated-stream", 1000, func(d int) ([]string, string) {
			return []string{"--icsv", "--gzin", "--ojsonl", "cat"}, "\x1f\x8b\x08\x00\x00\x00\x00\x00\x00\x03" + rep("\x00", d)
		}},
		{"nul-bytes", big, func(d int) ([]string, string) {
			return []string{"--icsv", "--ojsonl", "cat"}, "a\n" + rep("\x00", d) + "\n"
		}},
		{"invalid-utf8-run", big, func(d int) ([]string, string) {
			return []string{"--icsv", "--opprint", "--barred", "cat"}, "a\n" + rep("\xff\xc0\x80", d) + "\n"
		}},
		// ---- verbs fed from a ladder (cheap, and the shapes above reach them)
		{"nest-explode-wide", 100000, func(d int) ([]string, string) { return []string{"nest", "--ivar", ";", "-f", "x"}, rep("x=a\n", d) }},
		{"sec2gmt-verb-wide", 10000, func(d int) ([]string, string) {
			return []string{"--ojson", "sec2gmt", "-9", "t"}, "t=" + rep("9", d) + "\n"
		}},
		{"split-join-wide", 100000, func(d int) ([]string, string) {
			return []string{"--ojson", "put", `$y = joink(splitax($x, ";"), ",")`}, "x=" + rep("a;", d) + "\n"
		}},
	}
	out := make([]ladder, len(L))
	for i, l := range L {
		out[i] = ladder{name: l.name, max: l.max, build: l.build}
	}
	// Depths BEYOND the decoder's documented nesting limit (10000): on a tree that enforces the limit these are cheap
	// (an mlr: error after 10001 levels), so they are climbed directly instead of through the budgeted powers of ten -
	// a limit that is not enforced for one kind of collection shows as a stack overflow around 2*10^6 levels.
	// (largest first: where the limit is NOT enforced a rung just above it is parsed in full and exhausts the budget,
	// which would stop the climb before the depth that overflows the stack)
	beyond := []int{3000000, 300000, 30000, 10001}
	out = append(out,
		ladder{name: "json-map-nest-beyond-limit", max: 3000000, depths: beyond, build: func(d int) ([]string, string) {
			return []string{"--ijson", "--ojsonl", "cat"}, rep(`{"a":`, d) + "1" + rep("}", d)
		}},
		ladder{name: "json-map-unclosed-beyond-limit", max: 3000000, depths: beyond, build: func(d int) ([]string, string) {
			return []string{"--ijson", "--ojsonl", "cat"}, rep(`{"a":`, d)
		}},
		ladder{name: "json-array-nest-beyond-limit", max: 3000000, depths: beyond, build: func(d int) ([]string, string) {
			return []string{"--ijson", "--ojsonl", "cat"}, `{"a":` + rep("[", d) + "1" + rep("]", d) + "}"
		}},
		ladder{name: "json-alternating-nest-beyond-limit", max: 3000000, depths: beyond, build: func(d int) ([]string, string) {
			return []string{"--ijson", "--ojsonl", "cat"}, rep(`{"a":[`, d) + "1" + rep("]}", d)
		}},
		ladder{name: "jsonl-map-nest-beyond-limit", max: 3000000, depths: beyond, build: func(d int) ([]string, string) {
			return []string{"--ijsonl", "--ojsonl", "cat"}, rep(`{"a":`, d) + "1" + rep("}", d) + "\n"
		}},
		ladder{name: "json-decode-map-nest-beyond-limit", max: 3000000, depths: beyond, build: func(d int) ([]string, string) {
			return []string{"--inidx", "--ifs", "\x01", "--ojsonl", "put", "-q", `print typeof(json_decode($1))`}, rep(`{"a":`, d) + "1" + rep("}", d) + "\n"
		}},
	)
	return out
}

func ladderDepths(quick bool) []int {
	if quick {
		return []int{10, 30, 100, 300, 1000, 3000, 10000}
	}
	return []int{10, 30, 100, 300, 1000, 3000, 10000, 30000, 100000, 300000, 1000000, 3000000, 10000000}
}

// laddersWorker: one Mine index per shape; depths ascend and the ascent stops
// (recorded, exhaustive=false) once a depth has cost more CPU or allocation
// than the tier's budget: the next one would cost 3x..30x more. That is a
// budget cut, never a verdict. A watchdog keeps the pool's stall detector
// quiet while the current case has used less than 150 CPU-seconds, so that a
// slow machine cannot turn a slow case into a "hang".
func laddersWorker(w *vf.Worker) {
	x := newRunner(w, 8, 0)
	var idx uint64
	ls := ladders()
	only := envOr("VERIF_C18_LADDER", "")
	cpuBudget, allocBudget := 400*time.Millisecond, uint64(512<<20)
	if !w.Quick() {
		cpuBudget, allocBudget = 2*time.Second, uint64(4<<30)
	}
	var caseStart atomic.Int64 // cpu at case start, ns; 0 = idle
	go func() {
		for {
			time.Sleep(2 * time.Second)
			if s := caseStart.Load(); s != 0 && cpuNow()-time.Duration(s) < 150*time.Second {
				w.Heartbeat()
			}
		}
	}()
	for li := range ls {
		l := &ls[li]
		if only != "" && l.name != only {
			continue
		}
		idx++
		if !w.Mine(idx) {
			continue
		}
		w.Begin(idx)
		depths := ladderDepths(w.Quick())
		if l.depths != nil {
			depths = l.depths
		}
		if l.name == "yaml-alias-doubling" {
			depths = []int{2, 4, 6, 8, 10, 12, 14, 16, 18, 20, 22, 24, 26, 28, 30}
		}
		reached := 0
		// In an attribution re-run (the shape killed its worker) start at the rung that was being climbed.
		rungFile := ""
		startAt := 0
		if p := poisonPath(); p != "" {
			rungFile = p + ".rung." + l.name
			if w.Only >= 0 {
				if b, err := os.ReadFile(rungFile); err == nil {
					fmt.Sscan(string(b), &startAt)
				}
			}
		}
		for _, d := range depths {
			if d > l.max {
				break
			}
			if d < startAt {
				continue
			}
			if rungFile != "" && w.Only < 0 {
				os.WriteFile(rungFile, []byte(fmt.Sprint(d)), 0644)
			}
			args, stdin := l.build(d)
			args, cleanup := spillLongProgram(args)
			m := &mcase{Fam: "ladder", Cfg: l.name, Size: d, Desc: fmt.Sprintf("depth=%d", d), Args: args, Stdin: stdin, outCap: 1 << 30, regen: true}
			var ms0, ms1 runtime.MemStats
			runtime.ReadMemStats(&ms0)
			c0 := cpuNow()
			caseStart.Store(int64(c0) | 1)
			oc := x.run(m)
			caseStart.Store(0)
			cpu := cpuNow() - c0
			runtime.ReadMemStats(&ms1)
			alloc := ms1.TotalAlloc - ms0.TotalAlloc
			cleanup()
			args, stdin, m = nil, "", nil
			debug.FreeOSMemory()
			reached = d
			w.Nontrivial(1)
			w.AddSet("ladder-outcomes", fmt.Sprintf("%s@%d:%s", l.name, d, oc.class))
			w.Count("cases:ladder", 1)
			if oc.class == ocBareErr || oc.class == ocSilentNZ {
				w.AddSet("bare-error-texts", "ladder/"+l.name+": "+short(strings.TrimSpace(firstLines(oc.stderr, 1)), 100))
			}
			if cpu > cpuBudget || alloc > allocBudget {
				if d != depths[len(depths)-1] && d < l.max {
					w.Inexhaustive(fmt.Sprintf("ladder %s stopped after depth %d (cpu %.2fs, allocated %d MiB there): deeper rungs are beyond the tier's budget", l.name, d, cpu.Seconds(), alloc>>20))
				}
				break
			}
		}
		if rungFile != "" && w.Only < 0 {
			os.Remove(rungFile)
		}
		w.AddSet("ladder-reached", fmt.Sprintf("%s:%d", l.name, reached))
	}
	// The one deliberately unbounded program: user-level infinite recursion. It needs minutes of CPU and gigabytes
	// before the Go stack limit is reached, so it is given to the plain binary only (address space capped at
	// 4 GiB, cut off after 60 s of CPU time) instead of being run in-process and re-run three times by the pool.
	if !w.Quick() {
		idx++
		if w.Mine(idx) {
			w.Begin(idx)
			m := &mcase{Fam: "ladder", Cfg: "dsl-udf-unbounded-recursion", Size: 1, Desc: "func f(n) {return f(n+1)}", Args: []string{"-n", "put", "func f(n) { return f(n+1) } end{print f(1)}"}}
			stop := make(chan bool)
			go func() {
				for {
					select {
					case <-stop:
						return
					case <-time.After(2 * time.Second):
						w.Heartbeat()
					}
				}
			}()
			v := plainVerdict(m, 60*time.Second)
			close(stop)
			w.Eval(1)
			w.Nontrivial(1)
			w.Count("cases:ladder", 1)
			kind := ""
			switch {
			case strings.HasPrefix(v, "FATAL") && strings.Contains(v, "stack overflow"):
				kind = "fatal#stack-overflow"
			case strings.HasPrefix(v, "FATAL"):
				kind = "fatal#out-of-memory"
			case strings.HasPrefix(v, "PANIC"):
				kind = "panic"
			case strings.HasPrefix(v, "STILL RUNNING"):
				kind = "hang"
			}
			w.AddSet("ladder-outcomes", "dsl-udf-unbounded-recursion:"+firstWord(v))
			if kind != "" {
				w.Violation("crash["+kind+"]:"+m.keyTail(), "unbounded user-level recursion: "+m.shell()+" || plain binary: "+v, map[string]any{"args": m.Args, "plain_binary": v})
			}
		}
	}
	if w.Shard == 0 {
		w.Sample(map[string]any{"family": "ladder", "shapes": len(ls), "depths": ladderDepths(w.Quick())})
	}
}

func firstWord(s string) string {
	if i := strings.IndexByte(s, ' '); i > 0 {
		return s[:i]
	}
	return s
}

// regenLadder rebuilds the text of a ladder case from its (cfg, size) label.
// The caller removes the spilled program file (if any) through the returned function.
func regenLadder(m *mcase) func() {
	for _, l := range ladders() {
		if l.name == m.Cfg {
			m.Args, m.Stdin = l.build(m.Size)
			var cleanup func()
			m.Args, cleanup = spillLongProgram(m.Args)
			return cleanup
		}
	}
	return func() {}
}

// spillLongProgram: a single command-line argument cannot exceed 128 KiB on
// Linux, so a DSL program beyond 100 kB is given the way a user would have to
// give it: in a file, through `put -f`.
func spillLongProgram(args []string) ([]string, func()) {
	for i, a := range args {
		if len(a) > 100000 && i > 0 && args[i-1] == "put" {
			f, err := os.CreateTemp("/dev/shm", "verif-c18-prog-*.mlr")
			if err != nil {
				break
			}
			f.WriteString(a)
			f.Close()
			out := append(append(append([]string{}, args[:i]...), "-f", f.Name()), args[i+1:]...)
			return out, func() { os.Remove(f.Name()) }
		}
	}
	return args, func() {}
}
