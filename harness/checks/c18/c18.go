// Package c18: no input, program or argument makes Miller panic or hang.
//
// Bounded exhaustive enumeration of (1) byte/token strings x reader options for
// every reader, (2) every built-in function/operator x every tuple of witness
// values up to arity 3, (3) token sequences near the DSL grammar and deep
// nesting ladders. Every case runs the real Miller code in-process
// (vf.RunMlr) inside the crash-attributing pool. Oracle: the run ends with
// output, or with a non-zero exit and a diagnostic; never a Go panic, a fatal
// runtime error (worker death), an unbounded output, or a stall. Each
// in-process violation is re-run against the plain mlr binary and the
// binary's verdict is attached.
package c18

import (
	"bytes"
	"encoding/json"
	"errors"
	"fmt"
	"os"
	"os/exec"
	"regexp"
	"sort"
	"strings"
	"syscall"
	"time"

	"github.com/johnkerl/miller/v6/pkg/verifrt"

	"verif/harness/vf"
)

func init() {
	vf.Register(&vf.CheckDef{ID: "C18", Level: "model_checking", Run: run,
		Workers: map[string]vf.WorkerFunc{
			"readers": readersWorker,
			"docs":    docsWorker,
			"funcs":   funcsWorker,
			"dsl":     dslWorker,
			"ladders": laddersWorker,
		}})
}

// ---------------------------------------------------------------- one case

// mcase is one Miller invocation: `mlr args...` with stdin.
type mcase struct {
	Fam   string   `json:"fam"`   // family: reader, trunc, mut, func, stmt, dsl, chunk, ladder
	Cfg   string   `json:"cfg"`   // configuration label (format/variant, function name, ladder shape)
	Size  int      `json:"size"`  // size of the case (symbols / tuple weight / depth)
	Desc  string   `json:"desc"`  // canonical short description of the varying part
	Args  []string `json:"args"`  // mlr arguments (without argv[0])
	Stdin string   `json:"stdin"` // bytes on standard input
	// not serialised
	outCap int64
	regen  bool // ladder: the label carries (cfg,size) only; the orchestrator regenerates the text
}

// label is what the pool shows when the worker dies in this case.
func (m *mcase) label() string {
	if m.regen {
		b, _ := json.Marshal(&mcase{Fam: m.Fam, Cfg: m.Cfg, Size: m.Size, Desc: m.Desc})
		return string(b)
	}
	b, _ := json.Marshal(m)
	return string(b)
}

func (m *mcase) keyTail() string {
	return fmt.Sprintf("%05d:%s:%s:%s", m.Size, m.Fam, m.Cfg, m.Desc)
}

// shell renders a reproducer for the plain binary.
func (m *mcase) shell() string {
	var sb strings.Builder
	if len(m.Stdin) > 400 {
		fmt.Fprintf(&sb, "(%d bytes on stdin, see desc) | ", len(m.Stdin))
	} else if m.Stdin != "" {
		sb.WriteString("printf '")
		for i := 0; i < len(m.Stdin); i++ {
			b := m.Stdin[i]
			switch {
			case b == '\'':
				sb.WriteString(`'\''`)
			case b == '\\':
				sb.WriteString(`\\`)
			case b == '%':
				sb.WriteString(`%%`)
			case b == '\n':
				sb.WriteString(`\n`)
			case b == '\t':
				sb.WriteString(`\t`)
			case b == '\r':
				sb.WriteString(`\r`)
			case b < 0x20 || b >= 0x7f:
				fmt.Fprintf(&sb, `\%03o`, b)
			default:
				sb.WriteByte(b)
			}
		}
		sb.WriteString("' | ")
	} else {
		sb.WriteString("true | ")
	}
	sb.WriteString("mlr")
	for _, a := range m.Args {
		sb.WriteByte(' ')
		if len(a) > 600 {
			fmt.Fprintf(&sb, "'<%d bytes: %s...>'", len(a), shq(a[:80]))
			continue
		}
		sb.WriteString(shq(a))
	}
	return sb.String()
}

var shSafe = regexp.MustCompile(`^[A-Za-z0-9_./:=,+-]+$`)

func shq(s string) string {
	if shSafe.MatchString(s) {
		return s
	}
	if !strings.ContainsAny(s, "\n\r\t") && isPrintable(s) {
		return "'" + strings.ReplaceAll(s, "'", `'\''`) + "'"
	}
	// $'...' quoting for control bytes
	var sb strings.Builder
	sb.WriteString("$'")
	for i := 0; i < len(s); i++ {
		b := s[i]
		switch {
		case b == '\'':
			sb.WriteString(`\'`)
		case b == '\\':
			sb.WriteString(`\\`)
		case b == '\n':
			sb.WriteString(`\n`)
		case b == '\t':
			sb.WriteString(`\t`)
		case b == '\r':
			sb.WriteString(`\r`)
		case b < 0x20 || b >= 0x7f:
			fmt.Fprintf(&sb, `\x%02x`, b)
		default:
			sb.WriteByte(b)
		}
	}
	sb.WriteString("'")
	return sb.String()
}

func isPrintable(s string) bool {
	for i := 0; i < len(s); i++ {
		if s[i] < 0x20 || s[i] >= 0x7f {
			return false
		}
	}
	return true
}

// vis renders bytes for keys: printable ASCII as is, the rest escaped.
func vis(s string) string {
	var sb strings.Builder
	for i := 0; i < len(s); i++ {
		b := s[i]
		switch {
		case b == '\n':
			sb.WriteString(`\n`)
		case b == '\r':
			sb.WriteString(`\r`)
		case b == '\t':
			sb.WriteString(`\t`)
		case b == '\\':
			sb.WriteString(`\\`)
		case b < 0x20 || b >= 0x7f:
			fmt.Fprintf(&sb, `\x%02x`, b)
		default:
			sb.WriteByte(b)
		}
	}
	return sb.String()
}

// capWriter bounds what a run may print: inputs are tiny, so an output beyond
// the cap means Miller is looping. The write error also stops the run.
type capWriter struct {
	buf  bytes.Buffer
	n    int64
	max  int64
	over bool
}

var errRunaway = errors.New("verif: output cap exceeded")

func (c *capWriter) Write(p []byte) (int, error) {
	c.n += int64(len(p))
	if c.n > c.max {
		c.over = true
		return 0, errRunaway
	}
	c.buf.Write(p)
	return len(p), nil
}
func (c *capWriter) Close() error { return nil }

// runner holds per-worker state.
type runner struct {
	w        *vf.Worker
	confirms map[string]int // plain-binary confirmations spent per violation group
	only     bool
}

func newRunner(w *vf.Worker) *runner {
	verifrt.TrapExits(true)
	vf.CaptureStderr()
	// A runaway allocation must end this worker long before it hurts the machine.
	var lim syscall.Rlimit
	lim.Cur, lim.Max = 10<<30, 10<<30
	syscall.Setrlimit(syscall.RLIMIT_AS, &lim)
	return &runner{w: w, confirms: map[string]int{}, only: w.Only >= 0}
}

var (
	iceRe      = regexp.MustCompile(`Internal coding error detected at file (\S+) line (\d+)`)
	mlrLineRe  = regexp.MustCompile(`(?m)^mlr[: ]`)
	frameRe    = regexp.MustCompile(`(?m)^\s+(\S+/pkg/\S+\.go|\S+/v6/\S+\.go|\S+\.go):(\d+)`)
	millerFrRe = regexp.MustCompile(`(?m)^\s+\S*(?:/repo|miller/v6|/wt-[^/]+)/(pkg/\S+\.go):(\d+)`)
	anyGoFrRe  = regexp.MustCompile(`(?m)^\s+(\S+\.go):(\d+)`)
)

// panicSite extracts the first Miller source frame below the panic from a
// stack trace ("pkg/input/record_reader_pprint.go:582"); falls back to the
// first non-runtime frame.
func panicSite(stack string) string {
	// skip the frames of the recover/Try machinery: start after the last "panic(" line
	if i := strings.LastIndex(stack, "\npanic("); i >= 0 {
		stack = stack[i+1:]
	}
	if m := millerFrRe.FindStringSubmatch(stack); m != nil && !strings.Contains(m[1], "verifrt") {
		return m[1] + ":" + m[2]
	}
	for _, m := range millerFrRe.FindAllStringSubmatch(stack, -1) {
		if !strings.Contains(m[1], "verifrt") {
			return m[1] + ":" + m[2]
		}
	}
	for _, m := range anyGoFrRe.FindAllStringSubmatch(stack, -1) {
		if strings.Contains(m[1], "/runtime/") || strings.Contains(m[1], "verifrt") || strings.Contains(m[1], "/vf/") {
			continue
		}
		p := m[1]
		if i := strings.LastIndex(p, "/pkg/mod/"); i >= 0 {
			p = p[i+9:]
		} else if i := strings.LastIndex(p, "/src/"); i >= 0 {
			p = "go:" + p[i+5:]
		}
		return p + ":" + m[2]
	}
	return "unknown-site"
}

func short(s string, n int) string {
	if len(s) > n {
		return s[:n] + "..."
	}
	return s
}

// Outcome classes (evidence sets).
const (
	ocOK       = "exit0"
	ocMlrErr   = "mlr-error"
	ocBareErr  = "nonzero-exit-without-mlr-prefix"
	ocICE      = "internal-coding-error"
	ocPanic    = "PANIC"
	ocRunaway  = "RUNAWAY-OUTPUT"
	ocSilentNZ = "nonzero-exit-empty-stderr"
)

type outcome struct {
	class  string
	stdout string
	stderr string
	exit   int
}

// run executes one case in-process and applies the oracle.
func (x *runner) run(m *mcase) outcome {
	if x.only {
		x.w.Label(m.label)
	}
	max := m.outCap
	if max == 0 {
		max = 4 << 20
	}
	cw := &capWriter{max: max}
	stdin := m.Stdin
	r := vf.RunMlr(m.Args, vf.MlrOpts{Stdin: &stdin, Out: cw})
	x.w.Eval(1)
	x.w.Heartbeat()
	oc := outcome{stdout: cw.buf.String(), stderr: r.Stderr, exit: r.Exit}
	replay := func() map[string]any {
		return map[string]any{"family": m.Fam, "config": m.Cfg, "args": m.Args, "stdin": short(m.Stdin, 2000), "stdin_len": len(m.Stdin), "shell": m.shell()}
	}
	switch {
	case r.Panic != "":
		oc.class = ocPanic
		site := panicSite(r.Stack)
		g := "panic[" + strings.ReplaceAll(site, ":", "#") + "]"
		rp := replay()
		rp["panic"] = r.Panic
		rp["stack"] = short(r.Stack, 3000)
		what := fmt.Sprintf("Go panic %q at %s; reproduce: %s", short(r.Panic, 200), site, m.shell())
		x.confirm(g, m, rp, &what)
		x.w.Violation(g+":"+m.keyTail(), what, rp)
	case cw.over:
		oc.class = ocRunaway
		g := "runaway-output[" + m.Fam + "/" + cfgHead(m.Cfg) + "]"
		rp := replay()
		what := fmt.Sprintf("output exceeded %d bytes on a %d-byte input (endless loop); reproduce: %s", max, len(m.Stdin), m.shell())
		x.confirm(g, m, rp, &what)
		x.w.Violation(g+":"+m.keyTail(), what, rp)
	case r.Exit != 0:
		if mm := iceRe.FindStringSubmatch(r.Stderr); mm != nil {
			oc.class = ocICE
			g := "internal-coding-error[" + mm[1] + "#" + mm[2] + "]"
			rp := replay()
			rp["stderr"] = short(r.Stderr, 600)
			what := fmt.Sprintf("aborts with %q (no `mlr:` error); reproduce: %s", strings.TrimSpace(short(r.Stderr, 160)), m.shell())
			x.confirm(g, m, rp, &what)
			x.w.Violation(g+":"+m.keyTail(), what, rp)
		} else if mlrLineRe.MatchString(r.Stderr) {
			oc.class = ocMlrErr
		} else if strings.TrimSpace(r.Stderr) == "" {
			oc.class = ocSilentNZ
		} else {
			oc.class = ocBareErr
		}
	default:
		oc.class = ocOK
	}
	return oc
}

func cfgHead(cfg string) string {
	if i := strings.IndexAny(cfg, "/ "); i > 0 {
		return cfg[:i]
	}
	return cfg
}

// confirm re-runs a violating case against the plain mlr binary (at most a few
// times per violation group and worker) and records the binary's verdict.
func (x *runner) confirm(group string, m *mcase, rp map[string]any, what *string) {
	if x.confirms[group] >= 2 {
		return
	}
	x.confirms[group]++
	v := plainVerdict(m, 60*time.Second)
	rp["plain_binary"] = v
	*what += " || plain binary: " + v
	x.w.Heartbeat()
}

// plainVerdict runs the case with the uninstrumented binary.
func plainVerdict(m *mcase, timeout time.Duration) string {
	bin := vf.MlrBin()
	if bin == "" {
		return "(no plain binary available)"
	}
	cmd := exec.Command(bin, m.Args...)
	cmd.Stdin = strings.NewReader(m.Stdin)
	var so, se limitedBuf
	so.max, se.max = 1<<16, 1<<16
	cmd.Stdout, cmd.Stderr = &so, &se
	cmd.Env = append(os.Environ(), "MLRRC=__none__", "GOTRACEBACK=single", "GOMEMLIMIT=6GiB")
	cmd.SysProcAttr = &syscall.SysProcAttr{Setpgid: true}
	dir, err := os.MkdirTemp("/dev/shm", "verif-c18-cwd-")
	if err == nil {
		cmd.Dir = dir
		defer os.RemoveAll(dir)
	}
	if err := cmd.Start(); err != nil {
		return "(cannot start: " + err.Error() + ")"
	}
	done := make(chan error, 1)
	go func() { done <- cmd.Wait() }()
	var werr error
	timedOut := false
	select {
	case werr = <-done:
	case <-time.After(timeout):
		timedOut = true
		syscall.Kill(-cmd.Process.Pid, syscall.SIGKILL)
		werr = <-done
	}
	cpu := time.Duration(0)
	if cmd.ProcessState != nil {
		cpu = cmd.ProcessState.UserTime() + cmd.ProcessState.SystemTime()
	}
	if timedOut {
		return fmt.Sprintf("STILL RUNNING after %s (cpu %.1fs, %d bytes of output so far)", timeout, cpu.Seconds(), so.n)
	}
	code := 0
	if ee, ok := werr.(*exec.ExitError); ok {
		code = ee.ExitCode()
	} else if werr != nil {
		return "(wait: " + werr.Error() + ")"
	}
	st := se.String()
	tag := "no-crash"
	switch {
	case strings.Contains(st, "fatal error:"):
		tag = "FATAL"
	case strings.Contains(st, "panic:") || strings.Contains(st, "goroutine "):
		tag = "PANIC"
	case strings.Contains(st, "Internal coding error"):
		tag = "INTERNAL-CODING-ERROR"
	}
	return fmt.Sprintf("%s exit=%d stderr=%q", tag, code, short(firstLines(st, 3), 300))
}

func firstLines(s string, n int) string {
	l := strings.SplitN(s, "\n", n+1)
	if len(l) > n {
		l = l[:n]
	}
	return strings.Join(l, "\n")
}

type limitedBuf struct {
	bytes.Buffer
	n   int64
	max int64
}

func (b *limitedBuf) Write(p []byte) (int, error) {
	b.n += int64(len(p))
	if int64(b.Len()) < b.max {
		k := int64(len(p))
		if room := b.max - int64(b.Len()); k > room {
			k = room
		}
		b.Buffer.Write(p[:k])
	}
	return len(p), nil
}

// ---------------------------------------------------------------- enumeration helpers

// countUpTo is the number of strings of length <= L over k symbols.
func countUpTo(k, L int) uint64 {
	var n, p uint64 = 0, 1
	for l := 0; l <= L; l++ {
		n += p
		p *= uint64(k)
	}
	return n
}

// nth returns the n-th string (as symbol indices) in the canonical order:
// shorter first, then lexicographic by symbol index.
func nth(k int, n uint64, buf []int) []int {
	l := 0
	p := uint64(1)
	for n >= p {
		n -= p
		p *= uint64(k)
		l++
	}
	buf = buf[:0]
	for i := 0; i < l; i++ {
		buf = append(buf, 0)
	}
	for i := l - 1; i >= 0; i-- {
		buf[i] = int(n % uint64(k))
		n /= uint64(k)
	}
	return buf
}

// ---------------------------------------------------------------- orchestrator

type crashLabel struct {
	mcase
}

func run(c *vf.Ctx) {
	c.Rule = "every enumerated case is a distinct (configuration, input) pair by construction; a case is non-trivial when Miller got past option parsing and either emitted at least one record/printed value or rejected the input/program/arguments with a diagnostic (i.e. anything but an empty success); distinct_nontrivial counts those"
	c.Assume("in-process execution (vf.RunMlr: climain.ParseCommandLine + stream.Stream, library os.Exit trapped) stands for the binary; every in-process violation is re-run against the plain mlr binary and that verdict is attached to the violation text")
	c.Assume("a non-zero exit counts as the property's error path when stderr has a line starting with `mlr:`/`mlr `; `Internal coding error detected` aborts carry no `mlr:` line and are reported (group internal-coding-error[file:line], lower severity); other non-zero exits whose diagnostics lack the prefix are counted in evidence (nonzero-exit-without-mlr-prefix), not flagged")
	c.Assume("hangs are decided by the pool: no case completing for 120 s (3 isolated re-runs must all stall) or output beyond 4 MiB for inputs of a few bytes; slowness alone is never a verdict")
	c.Assume("functions excluded (host facts, shell-outs, clocks, unseeded randomness): system exec os hostname version urand urand32 urandint urandrange urandelement systime systimeint sysntime uptime upntime; statements with output redirection are excluded (they create files)")
	c.Assume("the deliberate test token %%%panic%%% of the DSL grammar (panics by design when evaluated) is not part of the token alphabets")
	c.Assume("reader formats asv/usv (csvlite with other separators), gen (no input bytes) and the --prepipe family (shell-outs) are not enumerated")

	crash := func(idx uint64, label, kind, tail string) (string, string) {
		var m mcase
		cause := kind
		if kind == "fatal" {
			if i := strings.Index(tail, "fatal error:"); i >= 0 {
				cause = "fatal:" + strings.ReplaceAll(strings.TrimSpace(firstLines(tail[i+12:], 1)), " ", "-")
			}
		} else if kind == "panic" {
			cause = "panic-uncaught:" + panicSite(tail)
		} else if strings.HasPrefix(kind, "exit:") {
			cause = "worker-died:" + strings.ReplaceAll(strings.TrimPrefix(kind, "exit:"), " ", "-")
		}
		cause = strings.NewReplacer(":", "#", "(", "", ")", "").Replace(cause)
		c.Exhaustive = false
		c.Count("blocks_cut_short_by_worker_death", 1)
		if json.Unmarshal([]byte(label), &m) == nil && m.Fam == "ladder" && len(m.Args) == 0 {
			regenLadder(&m)
		}
		if json.Unmarshal([]byte(label), &mcase{}) != nil {
			return fmt.Sprintf("crash[%s]:99999:unlabelled:case-index-%d", cause, idx), fmt.Sprintf("worker %s at case %d (no label): %s", kind, idx, short(tail, 400))
		}
		to := 60 * time.Second
		if kind == "hang" {
			to = 150 * time.Second
		}
		v := plainVerdict(&m, to)
		what := fmt.Sprintf("worker %s (%s) while running: %s || plain binary: %s", kind, cause, m.shell(), v)
		return "crash[" + cause + "]:" + m.keyTail(), what
	}

	t0 := time.Now()
	stage := func(name string, spec vf.PoolSpec) *vf.PoolResult {
		spec.CrashKey = crash
		if spec.StallSecs == 0 {
			spec.StallSecs = 120
		}
		t := time.Now()
		r := c.RunPool(spec)
		c.Extra["wall_s_"+name] = fmt.Sprintf("%.1f", time.Since(t).Seconds())
		return r
	}
	only := os.Getenv("VERIF_C18_ONLY") // debugging aid: run a single stage
	want := func(s string) bool { return only == "" || strings.Contains(","+only+",", ","+s+",") }
	sets := map[string]map[string]bool{}
	merge := func(r *vf.PoolResult) {
		for k, m := range r.Sets {
			if sets[k] == nil {
				sets[k] = map[string]bool{}
			}
			for s := range m {
				sets[k][s] = true
			}
		}
	}
	if want("ladders") {
		merge(stage("ladders", vf.PoolSpec{Worker: "ladders", Shards: 160}))
	}
	if want("funcs") {
		merge(stage("funcs", vf.PoolSpec{Worker: "funcs", Shards: 128}))
	}
	if want("readers") {
		merge(stage("readers", vf.PoolSpec{Worker: "readers", Shards: 128}))
	}
	if want("docs") {
		merge(stage("docs", vf.PoolSpec{Worker: "docs", Shards: 64}))
	}
	if want("dsl") {
		merge(stage("dsl", vf.PoolSpec{Worker: "dsl", Shards: 128}))
	}
	_ = t0

	for _, name := range []string{"reader-outcomes", "func-outcomes", "dsl-outcomes", "ladder-outcomes", "ladder-reached", "bare-error-texts"} {
		if m := sets[name]; m != nil {
			var l []string
			for s := range m {
				l = append(l, s)
			}
			sort.Strings(l)
			if len(l) > 400 {
				c.Extra[name+"_count"] = len(l)
				l = l[:400]
			}
			c.Extra[name] = l
		}
	}
	// per-family / per-symbol hit counts live in c.Counters (prefixes cases:, sym:, fn:, tok:, witness:)
	reportVacuity(c, sets)
	if only != "" {
		c.Exhaustive = false
		c.Extra["partial_run_only"] = only
	}
}

// reportVacuity: a symbol / function / witness that was never exercised is a harness bug.
func reportVacuity(c *vf.Ctx, sets map[string]map[string]bool) {
	for k, v := range c.Counters {
		if v == 0 && (strings.HasPrefix(k, "sym:") || strings.HasPrefix(k, "tok:") || strings.HasPrefix(k, "witness:")) {
			c.Broken("vacuity: %s was never exercised", k)
		}
	}
	if m := sets["fn-never-evaluated"]; len(m) > 0 {
		var l []string
		for s := range m {
			l = append(l, s)
		}
		sort.Strings(l)
		c.Extra["functions_never_past_build"] = l
	}
}
