// Package c18: check for property C18 (see /verif/DESIGN.md §3 C18).
package c18
