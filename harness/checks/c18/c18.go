// Package c18: no input, program or argument makes Miller panic or hang.
//
// Bounded exhaustive enumeration of (1) byte/token strings x reader options for
// every reader, (2) every built-in function/operator x every tuple of witness
// values up to arity 3, (3) token sequences near the DSL grammar and deep
// nesting ladders. Every case runs the real Miller code in-process
// (vf.RunMlr) inside the crash-attributing pool. Oracle: the run ends with
// output, or with a non-zero exit and a diagnostic; never a Go panic, a fatal
// runtime error (worker death), an unbounded output, or a stall. Each
// in-process violation is re-run against the plain mlr binary and the
// binary's verdict is attached.
package c18

import (
	"bytes"
	"encoding/json"
	"errors"
	"fmt"
	"io"
	"os"
	"os/exec"
	"path/filepath"
	"regexp"
	"runtime"
	"runtime/debug"
	"sort"
	"strings"
	"sync"
	"sync/atomic"
	"syscall"
	"time"

	"github.com/johnkerl/miller/v6/pkg/mlrval"
	"github.com/johnkerl/miller/v6/pkg/verifrt"

	"verif/harness/vf"
)

func init() {
	vf.Register(&vf.CheckDef{ID: "C18", Level: "model_checking", Run: run,
		Workers: map[string]vf.WorkerFunc{
			"readers": readersWorker,
			"docs":    docsWorker,
			"funcs":   funcsWorker,
			"dsl":     dslWorker,
			"ladders": laddersWorker,
			"seq":     seqWorker,
			"verbs":   verbsWorker,
		}})
}

// ---------------------------------------------------------------- one case

// mcase is one Miller invocation: `mlr args...` with stdin.
type mcase struct {
	Fam   string   `json:"fam"`             // family: reader, trunc, mut, func, stmt, dsl, chunk, ladder
	Cfg   string   `json:"cfg"`             // configuration label (format/variant, function name, ladder shape)
	Size  int      `json:"size"`            // size of the case (symbols / tuple weight / depth)
	Desc  string   `json:"desc"`            // canonical short description of the varying part
	Args  []string `json:"args"`            // mlr arguments (without argv[0])
	Stdin string   `json:"stdin"`           // bytes on standard input
	Tuple []string `json:"tuple,omitempty"` // func/stmt: witness names, for the poison rule
	Split int      `json:"split,omitempty"` // > 0: stdin arrives in two reads, the first of this many bytes
	// not serialised
	outCap int64
	regen  bool // ladder: the label carries (cfg,size) only; the orchestrator regenerates the text
}

// label is what the pool shows when the worker dies in this case.
func (m *mcase) label() string {
	if m.regen {
		b, _ := json.Marshal(&mcase{Fam: m.Fam, Cfg: m.Cfg, Size: m.Size, Desc: m.Desc, Args: []string{}})
		return string(b)
	}
	b, _ := json.Marshal(m)
	return string(b)
}

func (m *mcase) keyTail() string {
	return fmt.Sprintf("%05d:%s:%s:%s", m.Size, m.Fam, m.Cfg, m.Desc)
}

// shell renders a reproducer for the plain binary.
func (m *mcase) shell() string {
	var sb strings.Builder
	if len(m.Stdin) > 400 {
		fmt.Fprintf(&sb, "(%d bytes on stdin, see desc) | ", len(m.Stdin))
	} else if m.Split > 0 && m.Split < len(m.Stdin) {
		a, b := &mcase{Stdin: m.Stdin[:m.Split]}, &mcase{Stdin: m.Stdin[m.Split:]}
		pa, pb := a.shell(), b.shell()
		sb.WriteString("(" + strings.TrimSuffix(pa, " | mlr") + "; sleep 0.3; " + strings.TrimSuffix(pb, " | mlr") + ") | ")
	} else if m.Stdin != "" {
		sb.WriteString("printf '")
		for i := 0; i < len(m.Stdin); i++ {
			b := m.Stdin[i]
			switch {
			case b == '\'':
				sb.WriteString(`'\''`)
			case b == '\\':
				sb.WriteString(`\\`)
			case b == '%':
				sb.WriteString(`%%`)
			case b == '\n':
				sb.WriteString(`\n`)
			case b == '\t':
				sb.WriteString(`\t`)
			case b == '\r':
				sb.WriteString(`\r`)
			case b < 0x20 || b >= 0x7f:
				fmt.Fprintf(&sb, `\%03o`, b)
			default:
				sb.WriteByte(b)
			}
		}
		sb.WriteString("' | ")
	} else {
		sb.WriteString("true | ")
	}
	sb.WriteString("mlr")
	for _, a := range m.Args {
		sb.WriteByte(' ')
		if len(a) > 600 {
			fmt.Fprintf(&sb, "'<%d bytes: %s...>'", len(a), shq(a[:80]))
			continue
		}
		sb.WriteString(shq(a))
	}
	return sb.String()
}

var shSafe = regexp.MustCompile(`^[A-Za-z0-9_./:=,+-]+$`)

func shq(s string) string {
	if shSafe.MatchString(s) {
		return s
	}
	if !strings.ContainsAny(s, "\n\r\t") && isPrintable(s) {
		return "'" + strings.ReplaceAll(s, "'", `'\''`) + "'"
	}
	// $'...' quoting for control bytes
	var sb strings.Builder
	sb.WriteString("$'")
	for i := 0; i < len(s); i++ {
		b := s[i]
		switch {
		case b == '\'':
			sb.WriteString(`\'`)
		case b == '\\':
			sb.WriteString(`\\`)
		case b == '\n':
			sb.WriteString(`\n`)
		case b == '\t':
			sb.WriteString(`\t`)
		case b == '\r':
			sb.WriteString(`\r`)
		case b < 0x20 || b >= 0x7f:
			fmt.Fprintf(&sb, `\x%02x`, b)
		default:
			sb.WriteByte(b)
		}
	}
	sb.WriteString("'")
	return sb.String()
}

func isPrintable(s string) bool {
	for i := 0; i < len(s); i++ {
		if s[i] < 0x20 || s[i] >= 0x7f {
			return false
		}
	}
	return true
}

// vis renders bytes for keys: printable ASCII as is, the rest escaped.
func vis(s string) string {
	var sb strings.Builder
	for i := 0; i < len(s); i++ {
		b := s[i]
		switch {
		case b == '\n':
			sb.WriteString(`\n`)
		case b == '\r':
			sb.WriteString(`\r`)
		case b == '\t':
			sb.WriteString(`\t`)
		case b == '\\':
			sb.WriteString(`\\`)
		case b < 0x20 || b >= 0x7f:
			fmt.Fprintf(&sb, `\x%02x`, b)
		default:
			sb.WriteByte(b)
		}
	}
	return sb.String()
}

// capWriter bounds what a run may print: inputs are tiny, so an output beyond
// the cap means Miller is looping. The write error also stops the run.
type capWriter struct {
	buf  bytes.Buffer
	n    int64
	max  int64
	over bool
}

var errRunaway = errors.New("verif: output cap exceeded")

func (c *capWriter) Write(p []byte) (int, error) {
	c.n += int64(len(p))
	if c.n > c.max {
		c.over = true
		return 0, errRunaway
	}
	c.buf.Write(p)
	return len(p), nil
}
func (c *capWriter) Close() error { return nil }

// chunkReader delivers its parts one per Read call (never merging two parts).
type chunkReader struct{ parts [][]byte }

func (c *chunkReader) Read(p []byte) (int, error) {
	for len(c.parts) > 0 && len(c.parts[0]) == 0 {
		c.parts = c.parts[1:]
	}
	if len(c.parts) == 0 {
		return 0, io.EOF
	}
	n := copy(p, c.parts[0])
	c.parts[0] = c.parts[0][n:]
	return n, nil
}
func (c *chunkReader) Close() error { return nil }

// runner holds per-worker state.
type runner struct {
	w        *vf.Worker
	confirms map[string]int // plain-binary confirmations spent per violation group
	seen     map[string]int // violations seen per group
	only     bool

	// watchdog state (written by the case goroutine, read by the watchdog)
	cur       atomic.Pointer[mcase]
	curCPU    atomic.Int64 // process cpu at case start (ns)
	curWall   atomic.Int64 // wall clock at case start (unix ns)
	spinLimit time.Duration

	nSide      int
	nRuns      int
	nLeaked    int
	poison     *poisonDB
	poisonStat string
	poisonTick int
	warned     map[string]bool
}

// newRunner prepares a worker process. asGiB caps the address space: a runaway
// allocation must end this worker long before it hurts the machine (Go
// reserves ~1-2 GiB of address space up front). spin is the CPU time after
// which an unfinished case of this family is declared a hang (>= 10^4 x the
// normal duration of a case; 0 = no in-worker detection, the pool's stall
// detector applies).
func newRunner(w *vf.Worker, asGiB uint64, spin time.Duration) *runner {
	// enumerated programs may contain redirects to relative names (tee > "a"i, $*): keep such files out of /verif
	if os.MkdirAll("/dev/shm/verif-c18-cwd", 0755) == nil {
		os.Chdir("/dev/shm/verif-c18-cwd")
	}
	verifrt.TrapExits(true)
	vf.CaptureStderr()
	var lim syscall.Rlimit
	if syscall.Getrlimit(syscall.RLIMIT_AS, &lim) == nil {
		lim.Cur = asGiB << 30 // soft limit only: the plain-binary confirmation sets its own
		syscall.Setrlimit(syscall.RLIMIT_AS, &lim)
	}
	x := &runner{w: w, confirms: map[string]int{}, seen: map[string]int{}, only: w.Only >= 0, spinLimit: spin, warned: map[string]bool{}}
	if spin > 0 {
		// enumeration families: cases are tiny, so runaway recursion should die after 64 MiB of stack (milliseconds)
		// rather than after the default 1 GiB (seconds); the plain binary then shows the real thing
		debug.SetMaxStack(64 << 20)
		go x.watchdog()
	}
	return x
}

func cpuNow() time.Duration {
	var ru syscall.Rusage
	syscall.Getrusage(syscall.RUSAGE_SELF, &ru)
	return time.Duration(ru.Utime.Nano() + ru.Stime.Nano())
}

// watchdog: a case of an enumeration family normally takes well under a
// millisecond. One that has burnt spinLimit of CPU time without finishing
// (spin), or has sat for 100 s of wall time using no CPU at all (deadlock), is
// reported as a hang: the violation is recorded, the plain binary is asked
// for a second opinion, and the worker leaves (the stuck goroutine cannot be
// stopped); the pool resumes the shard after this case. CPU time, not wall
// time, decides the spin case, so machine load cannot produce a verdict.
func (x *runner) watchdog() {
	for {
		time.Sleep(500 * time.Millisecond)
		m := x.cur.Load()
		if m == nil {
			continue
		}
		cpu := cpuNow() - time.Duration(x.curCPU.Load())
		wall := time.Duration(time.Now().UnixNano() - x.curWall.Load())
		kind := ""
		switch {
		case cpu > x.spinLimit:
			kind = "spin"
		case wall > 100*time.Second && cpu < 500*time.Millisecond:
			kind = "deadlock"
		default:
			continue
		}
		if x.cur.Load() != m {
			continue
		}
		v := plainVerdict(m, 8*time.Second)
		if !strings.HasPrefix(v, "STILL RUNNING") {
			// the binary finishes: the stall is an artefact of running thousands of cases in one process
			// (goroutines abandoned by earlier failing cases); not a verdict. Leave so that the state is fresh.
			x.w.Count("inprocess-stall-not-reproduced-by-binary", 1)
			x.w.Abandon()
		}
		g := "hang[" + kind + "#" + m.Fam + "/" + cfgHead(m.Cfg) + "]"
		what := fmt.Sprintf("case not finished after %.1fs of CPU time / %.0fs wall (%s; a normal case takes < 1 ms); reproduce: %s || plain binary: %s", cpu.Seconds(), wall.Seconds(), kind, m.shell(), v)
		x.w.Violation(g+":"+m.keyTail(), what, map[string]any{"family": m.Fam, "config": m.Cfg, "args": m.Args, "stdin": short(m.Stdin, 2000), "shell": m.shell(), "plain_binary": v})
		addPoison(m, "hang")
		x.w.Count("worker-abandoned-after-hang", 1)
		x.w.Abandon()
	}
}

var (
	iceRe      = regexp.MustCompile(`Internal coding error detected at file (\S+) line (\d+)`)
	mlrLineRe  = regexp.MustCompile(`(?m)^mlr[: ]`)
	millerFrRe = regexp.MustCompile(`(?m)^\s+\S*(?:/repo|miller/v6|/wt-[^/]+)/(pkg/\S+\.go):(\d+)`)
	anyGoFrRe  = regexp.MustCompile(`(?m)^\s+(\S+\.go):(\d+)`)
)

// The harness binary is built through an overlay whose instrumented copies of
// some Miller files have shifted line numbers. trueLine maps a line of the
// overlay copy back to the line with the same text in the tree's own file.
var (
	lineMapMu sync.Mutex
	lineMaps  = map[string]func(int) int{}
)

func overlayDir() string {
	exe, err := os.Executable()
	if err != nil {
		return ""
	}
	return filepath.Join(vf.Root, ".cache", "overlay", strings.TrimPrefix(filepath.Base(exe), "h-"))
}

// trueLine: rel is like "pkg/input/record_reader_pprint.go".
func trueLine(rel string, line int) int {
	lineMapMu.Lock()
	defer lineMapMu.Unlock()
	f, ok := lineMaps[rel]
	if !ok {
		f = func(l int) int { return l }
		ob, err1 := os.ReadFile(filepath.Join(overlayDir(), strings.ReplaceAll(rel, "/", "__")))
		rb, err2 := os.ReadFile(filepath.Join(vf.RepoRoot(), rel))
		if err1 == nil && err2 == nil {
			ol := strings.Split(string(ob), "\n")
			rl := strings.Split(string(rb), "\n")
			f = func(l int) int {
				if l < 1 || l > len(ol) {
					return l
				}
				want := strings.Join(strings.Fields(ol[l-1]), "")
				// the k-th occurrence of this text in the overlay copy is the k-th occurrence in the original
				k := 0
				for i := 0; i < l; i++ {
					if strings.Join(strings.Fields(ol[i]), "") == want {
						k++
					}
				}
				for i, t := range rl {
					if strings.Join(strings.Fields(t), "") == want {
						k--
						if k == 0 {
							return i + 1
						}
					}
				}
				return l
			}
		}
		lineMaps[rel] = f
	}
	return f(line)
}

// relForBase finds the repo-relative path of an overlaid file from its base name (ICE messages carry only that).
func relForBase(base string) string {
	m, _ := filepath.Glob(filepath.Join(overlayDir(), "*__"+base))
	if len(m) == 1 {
		return strings.ReplaceAll(filepath.Base(m[0]), "__", "/")
	}
	return ""
}

func siteString(rel, line string) string {
	n := 0
	fmt.Sscan(line, &n)
	return fmt.Sprintf("%s:%d", rel, trueLine(rel, n))
}

// panicSite extracts the first Miller source frame below the panic from a
// stack trace ("pkg/input/record_reader_pprint.go:582"); falls back to the
// first non-runtime frame.
func panicSite(stack string) string {
	// skip the frames of the recover/Try machinery: start after the last "panic(" line
	if i := strings.LastIndex(stack, "\npanic("); i >= 0 {
		stack = stack[i+1:]
	}
	for _, m := range millerFrRe.FindAllStringSubmatch(stack, -1) {
		if !strings.Contains(m[1], "verifrt") {
			return siteString(m[1], m[2])
		}
	}
	for _, m := range anyGoFrRe.FindAllStringSubmatch(stack, -1) {
		if strings.Contains(m[1], "/runtime/") || strings.Contains(m[1], "verifrt") || strings.Contains(m[1], "/vf/") {
			continue
		}
		p := m[1]
		if i := strings.LastIndex(p, "/pkg/mod/"); i >= 0 {
			p = p[i+9:]
		} else if i := strings.LastIndex(p, "/src/"); i >= 0 {
			p = "go:" + p[i+5:]
		}
		return p + ":" + m[2]
	}
	return "unknown-site"
}

func short(s string, n int) string {
	if len(s) > n {
		return s[:n] + "..."
	}
	return s
}

// Outcome classes (evidence sets).
const (
	ocOK       = "exit0"
	ocMlrErr   = "mlr-error"
	ocBareErr  = "nonzero-exit-without-mlr-prefix"
	ocICE      = "internal-coding-error"
	ocPanic    = "PANIC"
	ocRunaway  = "RUNAWAY-OUTPUT"
	ocSilentNZ = "nonzero-exit-empty-stderr"
)

type outcome struct {
	class  string
	stdout string
	stderr string
	exit   int
}

// run executes one case in-process and applies the oracle.
func (x *runner) run(m *mcase) outcome {
	if x.only {
		x.w.Label(m.label)
	}
	max := m.outCap
	if max == 0 {
		max = 4 << 20
	}
	cw := &capWriter{max: max}
	stdin := m.Stdin
	if x.spinLimit > 0 {
		x.curCPU.Store(int64(cpuNow()))
		x.curWall.Store(time.Now().UnixNano())
		x.cur.Store(m)
	}
	opts := vf.MlrOpts{Stdin: &stdin, Out: cw}
	if m.Split > 0 && m.Split < len(stdin) {
		opts.Reader = func() io.ReadCloser {
			return &chunkReader{parts: [][]byte{[]byte(stdin[:m.Split]), []byte(stdin[m.Split:])}}
		}
	}
	r := vf.RunMlr(m.Args, opts)
	if x.spinLimit > 0 {
		x.cur.Store(nil)
	}
	if d := mlrval.VerifC18DirtySingleton(); d != "" {
		// The program overwrote a process-wide literal singleton in place (`t = true; t[1] = 5` makes every later
		// `true` an array). Not a C18 matter (no crash), recorded as a side finding; restored so that the
		// following cases of this worker see what a fresh process would.
		x.w.Count("side-finding:literal-singleton-overwritten:"+d, 1)
		if x.nSide < 6 {
			x.nSide++
			x.w.AddSet("side-finding-singleton-mutators", d+" overwritten by: "+m.shell())
		}
		mlrval.VerifC18RestoreSingletons()
	}
	if r.Leaked {
		// goroutines of this run were abandoned (exit or panic in a child goroutine). Give the runnable ones a
		// harmless run to finish in, so that a late exit of theirs is not attributed to the next case.
		vf.RunMlr([]string{"-n", "put", "end{}"}, vf.MlrOpts{})
		x.w.Count("settle-runs-after-abandoned-goroutines", 1)
		x.nLeaked++
	}
	x.w.Eval(1)
	x.w.Heartbeat()
	defer x.maybeRecycle()
	oc := outcome{stdout: cw.buf.String(), stderr: r.Stderr, exit: r.Exit}
	replay := func() map[string]any {
		return map[string]any{"family": m.Fam, "config": m.Cfg, "args": m.Args, "stdin": short(m.Stdin, 2000), "stdin_len": len(m.Stdin), "shell": m.shell()}
	}
	switch {
	case r.Panic != "":
		oc.class = ocPanic
		site := panicSite(r.Stack)
		g := "panic[" + strings.ReplaceAll(site, ":", "#") + "]"
		rp := replay()
		rp["panic"] = r.Panic
		rp["stack"] = short(r.Stack, 3000)
		what := fmt.Sprintf("Go panic %q at %s; reproduce: %s", short(r.Panic, 200), site, m.shell())
		if x.confirm(g, m, rp, &what) {
			x.w.Violation(g+":"+m.keyTail(), what, rp)
		}
	case cw.over:
		oc.class = ocRunaway
		g := "runaway-output[" + m.Fam + "/" + cfgHead(m.Cfg) + "]"
		rp := replay()
		what := fmt.Sprintf("output exceeded %d bytes on a %d-byte input (endless loop); reproduce: %s", max, len(m.Stdin), m.shell())
		if x.confirmRunaway(g, m, rp, &what) {
			x.w.Violation(g+":"+m.keyTail(), what, rp)
		}
	case r.Exit != 0:
		if mm := iceRe.FindStringSubmatch(r.Stderr); mm != nil {
			oc.class = ocICE
			site := mm[1] + "#" + mm[2]
			if rel := relForBase(mm[1]); rel != "" {
				site = strings.ReplaceAll(siteString(rel, mm[2]), ":", "#")
			}
			g := "internal-coding-error[" + site + "]"
			rp := replay()
			rp["stderr"] = short(r.Stderr, 600)
			what := fmt.Sprintf("aborts with %q (no `mlr:` error); reproduce: %s", strings.TrimSpace(short(r.Stderr, 160)), m.shell())
			if x.confirm(g, m, rp, &what) {
				x.w.Violation(g+":"+m.keyTail(), what, rp)
			}
		} else if mlrLineRe.MatchString(r.Stderr) {
			oc.class = ocMlrErr
		} else if strings.TrimSpace(r.Stderr) == "" {
			oc.class = ocSilentNZ
		} else {
			oc.class = ocBareErr
		}
	default:
		oc.class = ocOK
	}
	if traceCases {
		fmt.Fprintf(vf.RealStderr(), "TRACE %s %s -> %s exit=%d leaked=%v stderr=%q\n", m.Cfg, m.Desc, oc.class, oc.exit, r.Leaked, short(oc.stderr, 120))
	}
	return oc
}

var traceCases = os.Getenv("VERIF_C18_TRACE") != ""

// confirmRunaway: the binary must also print more than the cap (or still be printing after the timeout).
func (x *runner) confirmRunaway(group string, m *mcase, rp map[string]any, what *string) bool {
	v := plainVerdict(m, 20*time.Second)
	x.w.Heartbeat()
	rp["plain_binary"] = v
	*what += " || plain binary: " + v
	if strings.HasPrefix(v, "no-crash") && !strings.Contains(v, "output-bytes>cap") {
		x.w.Count("inprocess-anomaly-not-reproduced-by-binary", 1)
		return false
	}
	return true
}

// maybeRecycle: goroutines abandoned by failing cases (and what they hold) pile up over millions of cases. Once
// the process has grown beyond 1.2 GiB, or has abandoned 20000 runs, the worker reports and leaves; the pool
// starts a fresh process at the next case. (Runs after the case has been fully evaluated and recorded.)
func (x *runner) maybeRecycle() {
	if x.spinLimit == 0 || x.only {
		return
	}
	x.nRuns++
	if x.nRuns%2048 != 0 {
		return
	}
	var ms runtime.MemStats
	runtime.ReadMemStats(&ms)
	if ms.Sys > 1200<<20 || x.nLeaked > 20000 {
		x.w.Count("worker-recycled", 1)
		x.w.Abandon()
	}
}

func cfgHead(cfg string) string {
	if i := strings.IndexAny(cfg, "/ "); i > 0 {
		return cfg[:i]
	}
	return cfg
}

// confirm re-runs a violating case against the plain mlr binary (at most a few
// times per violation group and worker) and records the binary's verdict.
// It returns false when the binary contradicts the in-process observation (no
// crash there): the case is then counted as an in-process anomaly, not reported.
func (x *runner) confirm(group string, m *mcase, rp map[string]any, what *string) bool {
	// the first three cases of a group in this worker, then every 50th (each confirmation is an exec of a 30 MB binary)
	ck := group
	x.seen[ck]++
	if x.confirms[ck] >= 3 && x.seen[ck]%50 != 0 {
		return true
	}
	v := plainVerdict(m, 20*time.Second)
	x.w.Heartbeat()
	if strings.HasPrefix(v, "no-crash") {
		x.w.Count("inprocess-anomaly-not-reproduced-by-binary", 1)
		x.w.AddSet("inprocess-anomalies", group+" "+m.keyTail())
		return false
	}
	x.confirms[ck]++
	rp["plain_binary"] = v
	*what += " || plain binary: " + v
	return true
}

// plainVerdict runs the case with the uninstrumented binary.
// procCPU reads the CPU time (user+system, all threads) a live process has used so far.
func procCPU(pid int) time.Duration {
	b, err := os.ReadFile(fmt.Sprintf("/proc/%d/stat", pid))
	if err != nil {
		return 0
	}
	s := string(b)
	if i := strings.LastIndexByte(s, ')'); i >= 0 {
		s = s[i+1:]
	}
	f := strings.Fields(s)
	if len(f) < 13 {
		return 0
	}
	var ut, st int64
	fmt.Sscan(f[11], &ut)
	fmt.Sscan(f[12], &st)
	return time.Duration(ut+st) * (time.Second / 100)
}

// plainVerdict runs the case with the uninstrumented binary. The run is cut
// off once it has used cpuLimit of CPU time ("STILL RUNNING": that is how a
// spin shows) or, on a starved machine, after a generous wall time without
// having had that much CPU ("STARVED": inconclusive). Wall time alone never
// produces "STILL RUNNING" unless the process uses no CPU at all (deadlock).
func plainVerdict(m *mcase, cpuLimit time.Duration) string {
	bin := vf.MlrBin()
	if bin == "" {
		return "(no plain binary available)"
	}
	// address-space cap through the shell: a memory blow-up must not take the machine down
	cmd := exec.Command("/bin/sh", append([]string{"-c", `ulimit -S -v 4194304; exec "$0" "$@"`, bin}, m.Args...)...)
	if m.Split > 0 && m.Split < len(m.Stdin) {
		pr, pw, err := os.Pipe()
		if err != nil {
			return "(pipe: " + err.Error() + ")"
		}
		cmd.Stdin = pr
		go func() {
			pw.Write([]byte(m.Stdin[:m.Split]))
			time.Sleep(300 * time.Millisecond)
			pw.Write([]byte(m.Stdin[m.Split:]))
			pw.Close()
		}()
		defer pr.Close()
	} else {
		cmd.Stdin = strings.NewReader(m.Stdin)
	}
	var so, se limitedBuf
	so.max, se.max = 1<<16, 1<<16
	cmd.Stdout, cmd.Stderr = &so, &se
	cmd.Env = append(os.Environ(), "MLRRC=__none__", "GOTRACEBACK=single", "GOMAXPROCS=2")
	cmd.SysProcAttr = &syscall.SysProcAttr{Setpgid: true}
	dir, err := os.MkdirTemp("/dev/shm", "verif-c18-cwd-")
	if err == nil {
		cmd.Dir = dir
		defer os.RemoveAll(dir)
	}
	if err := cmd.Start(); err != nil {
		return "(cannot start: " + err.Error() + ")"
	}
	done := make(chan error, 1)
	go func() { done <- cmd.Wait() }()
	var werr error
	start := time.Now()
	wallCap := 20*cpuLimit + 2*time.Minute
	cut := ""
	var cpuSeen time.Duration
loop:
	for {
		select {
		case werr = <-done:
			break loop
		case <-time.After(200 * time.Millisecond):
			cpuSeen = procCPU(cmd.Process.Pid)
			wall := time.Since(start)
			switch {
			case cpuSeen > cpuLimit:
				cut = fmt.Sprintf("STILL RUNNING after %.1fs of CPU time (%.0fs wall, %d bytes of output so far)", cpuSeen.Seconds(), wall.Seconds(), so.n)
			case wall > wallCap && cpuSeen < 300*time.Millisecond:
				cut = fmt.Sprintf("STILL RUNNING after %.0fs wall with %.2fs of CPU time used: blocked (%d bytes of output so far)", wall.Seconds(), cpuSeen.Seconds(), so.n)
			case wall > wallCap:
				cut = fmt.Sprintf("STARVED (only %.1fs of CPU time in %.0fs wall): inconclusive", cpuSeen.Seconds(), wall.Seconds())
			}
			if cut != "" {
				syscall.Kill(-cmd.Process.Pid, syscall.SIGKILL)
				werr = <-done
				break loop
			}
		}
	}
	if cut != "" {
		return cut
	}
	code := 0
	if ee, ok := werr.(*exec.ExitError); ok {
		code = ee.ExitCode()
	} else if werr != nil {
		return "(wait: " + werr.Error() + ")"
	}
	st := se.String()
	tag := "no-crash"
	switch {
	case strings.Contains(st, "fatal error:"):
		tag = "FATAL"
	case strings.Contains(st, "panic:") || strings.Contains(st, "goroutine "):
		tag = "PANIC"
	case strings.Contains(st, "Internal coding error"):
		tag = "INTERNAL-CODING-ERROR"
	}
	extra := ""
	if so.n > 4<<20 {
		extra = fmt.Sprintf(" output-bytes>cap (%d)", so.n)
	}
	return fmt.Sprintf("%s exit=%d%s stderr=%q", tag, code, extra, short(firstLines(st, 3), 300))
}

func firstLines(s string, n int) string {
	l := strings.SplitN(s, "\n", n+1)
	if len(l) > n {
		l = l[:n]
	}
	return strings.Join(l, "\n")
}

type limitedBuf struct {
	bytes.Buffer
	n   int64
	max int64
}

func (b *limitedBuf) Write(p []byte) (int, error) {
	b.n += int64(len(p))
	if int64(b.Len()) < b.max {
		k := int64(len(p))
		if room := b.max - int64(b.Len()); k > room {
			k = room
		}
		b.Buffer.Write(p[:k])
	}
	return len(p), nil
}

// ---------------------------------------------------------------- poison list

// A case that kills its worker (fatal error, hang) costs seconds instead of
// microseconds. One defect typically poisons hundreds of neighbouring cases
// (leftpad(*, maxint, *)). The poison list is shared between the orchestrator
// and the workers through a file: once a (family, config, kind) has two
// worker-killing cases, further cases that agree with all of them in the
// argument positions they have in common are skipped (counted, and the run is
// marked not exhaustive). Nothing is ever skipped before it has been observed
// to kill a worker at least twice.
type poisonDB struct {
	Entries map[string][][]string `json:"entries"` // fam|cfg|kind -> tuples
}

func poisonPath() string { return os.Getenv("VERIF_C18_POISON") }

func poisonKey(m *mcase, kind string) string { return m.Fam + "|" + m.Cfg + "|" + kind }

func addPoison(m *mcase, kind string) {
	p := poisonPath()
	if p == "" {
		return
	}
	f, err := os.OpenFile(p, os.O_RDWR|os.O_CREATE, 0644)
	if err != nil {
		return
	}
	defer f.Close()
	syscall.Flock(int(f.Fd()), syscall.LOCK_EX)
	defer syscall.Flock(int(f.Fd()), syscall.LOCK_UN)
	var db poisonDB
	b, _ := os.ReadFile(p)
	json.Unmarshal(b, &db)
	if db.Entries == nil {
		db.Entries = map[string][][]string{}
	}
	t := m.Tuple
	if t == nil {
		t = []string{m.Desc}
	}
	k := poisonKey(m, kind)
	if len(db.Entries[k]) < 64 {
		db.Entries[k] = append(db.Entries[k], t)
	}
	nb, _ := json.Marshal(&db)
	f.Truncate(0)
	f.WriteAt(nb, 0)
}

// poisoned reports whether the case is to be skipped under the rule above.
func (x *runner) poisoned(m *mcase) bool {
	p := poisonPath()
	if p == "" {
		return false
	}
	x.poisonTick++
	if x.poison == nil || x.poisonTick%64 == 0 {
		st, err := os.Stat(p)
		sig := ""
		if err == nil {
			sig = fmt.Sprint(st.Size(), st.ModTime().UnixNano())
		}
		if x.poison == nil || sig != x.poisonStat {
			x.poisonStat = sig
			db := &poisonDB{}
			if f, err := os.Open(p); err == nil {
				syscall.Flock(int(f.Fd()), syscall.LOCK_SH)
				b, _ := os.ReadFile(p)
				syscall.Flock(int(f.Fd()), syscall.LOCK_UN)
				f.Close()
				json.Unmarshal(b, db)
			}
			x.poison = db
		}
	}
	if len(x.poison.Entries) == 0 {
		return false
	}
	for _, kind := range []string{"hang", "fatal", "died"} {
		l := x.poison.Entries[poisonKey(m, kind)]
		if len(l) < 2 {
			continue
		}
		skip := false
		if m.Tuple == nil || len(l[0]) != len(m.Tuple) {
			skip = len(l) >= 4
		} else {
			common := 0
			match := true
			for i := range m.Tuple {
				same := true
				for _, t := range l[1:] {
					if t[i] != l[0][i] {
						same = false
						break
					}
				}
				if same {
					common++
					if m.Tuple[i] != l[0][i] {
						match = false
					}
				}
			}
			skip = (common > 0 && match) || (common == 0 && len(l) >= 8)
		}
		if skip {
			x.w.Count("skipped-poisoned:"+m.Fam+":"+m.Cfg, 1)
			if !x.warned[m.Cfg+kind] {
				x.warned[m.Cfg+kind] = true
				x.w.Inexhaustive(fmt.Sprintf("%s %s: cases agreeing with %d earlier worker-killing (%s) cases were skipped, e.g. %v", m.Fam, m.Cfg, len(l), kind, l[0]))
			}
			return true
		}
	}
	return false
}

// ---------------------------------------------------------------- enumeration helpers

// countUpTo is the number of strings of length <= L over k symbols.
func countUpTo(k, L int) uint64 {
	var n, p uint64 = 0, 1
	for l := 0; l <= L; l++ {
		n += p
		p *= uint64(k)
	}
	return n
}

// nth returns the n-th string (as symbol indices) in the canonical order:
// shorter first, then lexicographic by symbol index.
func nth(k int, n uint64, buf []int) []int {
	l := 0
	p := uint64(1)
	for n >= p {
		n -= p
		p *= uint64(k)
		l++
	}
	buf = buf[:0]
	for i := 0; i < l; i++ {
		buf = append(buf, 0)
	}
	for i := l - 1; i >= 0; i-- {
		buf[i] = int(n % uint64(k))
		n /= uint64(k)
	}
	return buf
}

// ---------------------------------------------------------------- orchestrator

func run(c *vf.Ctx) {
	c.Rule = "every enumerated case is a distinct (configuration, input) pair by construction; a case is non-trivial when Miller got past option parsing and either emitted at least one record/printed value or rejected the input/program/arguments with a diagnostic (i.e. anything but an empty success); distinct_nontrivial counts those"
	c.Assume("in-process execution (vf.RunMlr: climain.ParseCommandLine + stream.Stream, library os.Exit trapped) stands for the binary; every in-process violation is re-run against the plain mlr binary and that verdict is attached to the violation text")
	c.Assume("a non-zero exit counts as the property's error path when stderr has a line starting with `mlr:`/`mlr `; `Internal coding error detected` aborts carry no `mlr:` line and are reported (group internal-coding-error[file:line], lower severity); other non-zero exits whose diagnostics lack the prefix are counted in evidence (nonzero-exit-without-mlr-prefix), not flagged")
	c.Assume("hangs: a case of an enumeration family (normal duration < 1 ms) that has used 6 s of CPU time without finishing, or has been blocked for 100 s using no CPU, is re-run against the plain binary, which must still be running after 8 s of CPU time; the pool's 120 s stall detector (3 isolated re-runs) is the backstop; output beyond 4 MiB for an input of a few bytes counts as an endless loop when the binary does the same. Wall-clock slowness alone is never a verdict; ladders stop ascending when a rung exceeds the tier's CPU/allocation budget (recorded as not exhaustive)")
	c.Assume("a case that kills its worker (fatal error, hang) is reported; after two such cases of one function/configuration, further cases that agree with them in the argument positions they share are skipped and counted (poison rule), so that one defect cannot cost hours")
	c.Assume("goroutines abandoned by a failing in-process run may still execute during the next case; a settle run after each such case and the plain-binary confirmation of every violation class guard against misattribution; a crash masked by such interference would be missed")
	c.Assume("functions excluded (host facts, shell-outs, clocks, unseeded randomness): system os hostname version urand urand32 urandint urandrange urandelement systime systimeint sysntime uptime upntime; statements with output redirection are excluded (they create files); exec IS included: its command argument is a witness value, none of which names an executable other than `true`")
	c.Assume("the deliberate test token %%%panic%%% of the DSL grammar (panics by design when evaluated) is not part of the token alphabets")
	c.Assume("reader formats asv/usv (csvlite with other separators), gen (no input bytes) and the --prepipe family (shell-outs) are not enumerated")

	crash := func(idx uint64, label, kind, tail string) (string, string) {
		var m mcase
		cause := kind
		if kind == "fatal" {
			if i := strings.Index(tail, "fatal error:"); i >= 0 {
				cause = "fatal:" + strings.ReplaceAll(strings.TrimSpace(firstLines(tail[i+12:], 1)), " ", "-")
			}
		} else if kind == "panic" {
			cause = "panic-uncaught:" + panicSite(tail)
		} else if strings.HasPrefix(kind, "exit:") {
			cause = "worker-died:" + strings.ReplaceAll(strings.TrimPrefix(kind, "exit:"), " ", "-")
		}
		c.Count("worker_deaths_attributed", 1)
		if json.Unmarshal([]byte(label), &m) == nil && m.Fam == "ladder" && len(m.Args) == 0 {
			defer regenLadder(&m)()
		}
		clean := func(s string) string { return strings.NewReplacer(":", "#", "(", "", ")", "", " ", "-").Replace(s) }
		if json.Unmarshal([]byte(label), &mcase{}) != nil {
			return fmt.Sprintf("crash[%s]:99999:unlabelled:case-index-%d", clean(cause), idx), fmt.Sprintf("worker %s at case %d (no label): %s", kind, idx, short(tail, 400))
		}
		to := 30 * time.Second
		pk := "died"
		if kind == "hang" {
			pk = "hang"
		} else if kind == "fatal" {
			pk = "fatal"
		}
		addPoison(&m, pk)
		v := plainVerdict(&m, to)
		what := fmt.Sprintf("worker %s (%s) while running: %s || plain binary: %s", kind, cause, m.shell(), v)
		// name the group after what the plain binary does (an address-space cap can turn a stack overflow into an
		// out-of-memory inside the worker)
		grp := "crash[" + clean(cause) + "]"
		switch {
		case strings.HasPrefix(v, "FATAL"):
			if i := strings.Index(v, "fatal error: "); i >= 0 {
				grp = "crash[fatal#" + clean(strings.Trim(firstLines(strings.ReplaceAll(v[i+13:], `\n`, "\n"), 1), `" `)) + "]"
			}
		case strings.HasPrefix(v, "PANIC"):
			grp = "crash[panic-in-binary-too#" + clean(cause) + "]"
		case strings.HasPrefix(v, "STILL RUNNING"):
			grp = "crash[hang]"
		case strings.HasPrefix(v, "no-crash"), strings.HasPrefix(v, "INTERNAL"):
			grp = "crash-inprocess-only[" + clean(cause) + "]"
		case strings.HasPrefix(v, "STARVED"), strings.HasPrefix(v, "("):
			grp = "crash-unconfirmed[" + clean(cause) + "]"
		}
		return grp + ":" + m.keyTail(), what
	}

	pf, _ := os.CreateTemp("/dev/shm", "verif-c18-poison-")
	if pf != nil {
		pf.Close()
		os.Setenv("VERIF_C18_POISON", pf.Name())
		defer func() {
			os.Remove(pf.Name())
			if l, _ := filepath.Glob(pf.Name() + ".rung.*"); l != nil {
				for _, f := range l {
					os.Remove(f)
				}
			}
		}()
	}
	var smu sync.Mutex
	walls := map[string]string{}
	stage := func(name string, spec vf.PoolSpec) *vf.PoolResult {
		spec.CrashKey = crash
		if spec.Env == nil {
			// one P per worker: a Miller run is a handful of goroutines handing batches to each other, and 16
			// workers x 16 Ps spend most of their time in futex wake-ups
			spec.Env = []string{"GOMAXPROCS=1"}
		}
		if spec.StallSecs == 0 {
			spec.StallSecs = 120
		}
		t := time.Now()
		r := c.RunPool(spec)
		smu.Lock()
		walls["wall_s_"+name] = fmt.Sprintf("%.1f", time.Since(t).Seconds())
		smu.Unlock()
		return r
	}
	only := os.Getenv("VERIF_C18_ONLY") // debugging aid: run a single stage
	want := func(s string) bool { return only == "" || strings.Contains(","+only+",", ","+s+",") }
	sets := map[string]map[string]bool{}
	merge := func(r *vf.PoolResult) {
		for k, m := range r.Sets {
			if sets[k] == nil {
				sets[k] = map[string]bool{}
			}
			for s := range m {
				sets[k][s] = true
			}
		}
	}
	// The stages run side by side with a static split of the 16 processes: the slow tails of one stage (a
	// poisoned function being cut off, a deep ladder) overlap with the bulk work of the others.
	var wg sync.WaitGroup
	launch := func(name string, spec vf.PoolSpec) {
		if !want(name) {
			return
		}
		wg.Add(1)
		go func() {
			defer wg.Done()
			r := stage(name, spec)
			smu.Lock()
			merge(r)
			smu.Unlock()
		}()
	}
	procs := map[string]int{"ladders": 4, "funcs": 6, "readers": 5, "docs": 2, "verbs": 2, "dsl": 2}
	if !c.Quick() {
		// the bulk is in the readers and the ladders' top rungs
		procs = map[string]int{"ladders": 5, "funcs": 5, "readers": 7, "docs": 1, "verbs": 1, "dsl": 2}
	}
	launch("ladders", vf.PoolSpec{Worker: "ladders", Shards: 256, Procs: procs["ladders"], Env: []string{"GOMAXPROCS=4", "GOMEMLIMIT=3GiB"}})
	launch("funcs", vf.PoolSpec{Worker: "funcs", Shards: 192, Procs: procs["funcs"]})
	launch("readers", vf.PoolSpec{Worker: "readers", Shards: 128, Procs: procs["readers"]})
	launch("docs", vf.PoolSpec{Worker: "docs", Shards: 32, Procs: procs["docs"]})
	launch("verbs", vf.PoolSpec{Worker: "verbs", Shards: 64, Procs: procs["verbs"]})
	launch("dsl", vf.PoolSpec{Worker: "dsl", Shards: 64, Procs: procs["dsl"]})
	wg.Wait()
	for k, v := range walls {
		c.Extra[k] = v
	}

	for _, name := range []string{"side-finding-singleton-mutators", "inprocess-anomalies", "reader-outcomes", "verb-outcomes", "func-outcomes", "dsl-outcomes", "ladder-outcomes", "ladder-reached", "bare-error-texts"} {
		if m := sets[name]; m != nil {
			var l []string
			for s := range m {
				l = append(l, s)
			}
			sort.Strings(l)
			if len(l) > 400 {
				c.Extra[name+"_count"] = len(l)
				l = l[:400]
			}
			c.Extra[name] = l
		}
	}
	// per-family / per-symbol hit counts live in c.Counters (prefixes cases:, sym:, fn:, tok:, witness:)
	reportVacuity(c, sets)
	if only != "" {
		c.Exhaustive = false
		c.Extra["partial_run_only"] = only
	}
}

// reportVacuity: a symbol / function / witness that was never exercised is a harness bug.
func reportVacuity(c *vf.Ctx, sets map[string]map[string]bool) {
	if os.Getenv("VERIF_C18_FUNC") != "" || os.Getenv("VERIF_C18_ONLY") != "" {
		return
	}
	for k, v := range c.Counters {
		if v == 0 && (strings.HasPrefix(k, "sym:") || strings.HasPrefix(k, "tok:") || strings.HasPrefix(k, "witness:")) {
			c.Broken("vacuity: %s was never exercised", k)
		}
	}
	// accepted (function, arity) pairs none of whose tuples got past parsing/arity checking: a rendering bug in the harness
	var never []string
	for k, v := range c.Counters {
		if strings.HasPrefix(k, "fn-evaluated:") && v == 0 {
			never = append(never, strings.TrimPrefix(k, "fn-evaluated:"))
		}
	}
	sort.Strings(never)
	if len(never) > 0 {
		c.Extra["accepted_function_arities_never_evaluated"] = never
	}
	_ = sets
}

// seqWorker is a debugging aid (not part of the check): runs the put
// expressions given as JSON in $VERIF_C18_SEQ one after the other in this
// process and prints the outcome of each, to study cross-case effects.
func seqWorker(w *vf.Worker) {
	x := newRunner(w, 4, 0)
	var progs []string
	json.Unmarshal([]byte(os.Getenv("VERIF_C18_SEQ")), &progs)
	for i, p := range progs {
		m := &mcase{Fam: "seq", Cfg: "seq", Size: i, Desc: p, Args: []string{"--ojson", "put", p}, Stdin: "x=3,y=abc,z=\n"}
		oc := x.run(m)
		fmt.Fprintf(vf.RealStderr(), "[%d] %s -> %s exit=%d stderr=%q\n", i, p, oc.class, oc.exit, short(oc.stderr, 200))
	}
}
