package c10

// Counting / selecting-by-aggregate verbs: count, count-distinct,
// count-similar, uniq, top, fraction, histogram, most-frequent,
// least-frequent, fill-down. References are naive list algorithms written from
// the usage texts.

import (
	"fmt"
	"math"
	"math/big"
	"sort"
	"strconv"
	"strings"
)

type grp struct {
	key []string
	idx []int
}

func groupKeyOf(r rec, groupBy []string) ([]string, bool) {
	key := make([]string, 0, len(groupBy))
	for _, g := range groupBy {
		v, has := r.get(g)
		if !has {
			return nil, false
		}
		key = append(key, v)
	}
	return key, true
}

// simpleGroups: groups by exact texts, first-appearance order; records lacking
// a group-by field are in no group.
func simpleGroups(in []rec, groupBy []string) []*grp {
	by := map[string]*grp{}
	var out []*grp
	for i, r := range in {
		key, ok := groupKeyOf(r, groupBy)
		if !ok {
			continue
		}
		g := by[keyText(key)]
		if g == nil {
			g = &grp{key: key}
			by[keyText(key)] = g
			out = append(out, g)
		}
		g.idx = append(g.idx, i)
	}
	return out
}

func keyRec(groupBy, key []string) rec {
	r := make(rec, len(groupBy))
	for i := range groupBy {
		r[i] = kv{groupBy[i], key[i]}
	}
	return r
}

func recsText(rs []rec) string {
	if len(rs) == 0 {
		return "(no records)"
	}
	return streamText(rs)
}

// sameFieldSet: same (key,value) pairs regardless of order.
func sameFieldSet(a, b rec) bool {
	if len(a) != len(b) {
		return false
	}
	m := map[string]string{}
	for _, e := range a {
		m[e.K] = e.V
	}
	if len(m) != len(a) {
		return false
	}
	for _, e := range b {
		v, ok := m[e.K]
		if !ok || v != e.V {
			return false
		}
	}
	return true
}

// expectRecords compares the whole output with the expected list. anyFieldOrder:
// field order inside a record is not asserted.
func expectRecords(t *T, clause string, args []string, in, out, exp []rec, anyFieldOrder bool, stdout string) bool {
	ok := len(out) == len(exp)
	if ok {
		for i := range exp {
			if anyFieldOrder {
				ok = ok && sameFieldSet(out[i], exp[i])
			} else {
				ok = ok && recEq(out[i], exp[i])
			}
		}
	}
	t.w.Count("cells", int64(len(exp))+1)
	t.w.Nontrivial(1)
	if !ok {
		t.viol(clause, args, in, fmt.Sprintf("output is %s ; recomputation gives %s", recsText(out), recsText(exp)), stdout)
	}
	return ok
}

func runVerb(t *T, clause string, args []string, in []rec) ([]rec, string, bool) {
	out, res := run1(args, in)
	t.w.Eval(1)
	t.w.Count("hit:"+args[0], 1)
	for _, a := range args[1:] {
		if strings.HasPrefix(a, "-") && !isNum(a) {
			t.w.Count("hit:"+args[0]+":"+a, 1)
		}
	}
	if !res.OK() {
		what := "verb failed: " + res.String()
		if res.Panic != "" {
			what = "verb PANICS: " + res.Panic
			clause += ".panic"
		} else {
			clause += ".fails"
		}
		t.viol(clause, args, in, what, res.Stdout)
		return nil, res.Stdout, false
	}
	if t.cases%101 == 0 {
		t.w.AddSet("outcomes", args[0]+":"+res.Stdout)
	}
	return out, res.Stdout, true
}

func joinC(l []string) string { return strings.Join(l, ",") }

// ---------------------------------------------------------------- count

func checkCount(t *T, groupBy []string, distinctOnly bool, oname string, in []rec) {
	args := []string{"count"}
	if len(groupBy) > 0 {
		args = append(args, "-g", joinC(groupBy))
	}
	if distinctOnly {
		args = append(args, "-n")
	}
	name := "count"
	if oname != "" {
		args = append(args, "-o", oname)
		name = oname
	}
	out, so, ok := runVerb(t, "count", args, in)
	if !ok {
		return
	}
	var exp []rec
	switch {
	case len(groupBy) == 0:
		exp = []rec{{kv{name, strconv.Itoa(len(in))}}}
	case distinctOnly:
		exp = []rec{{kv{name, strconv.Itoa(len(simpleGroups(in, groupBy)))}}}
	default:
		for _, g := range simpleGroups(in, groupBy) {
			exp = append(exp, append(keyRec(groupBy, g.key), kv{name, strconv.Itoa(len(g.idx))}))
		}
	}
	expectRecords(t, "count.groups", args, in, out, exp, false, so)
}

// ---------------------------------------------------------------- count-distinct / uniq

// mode: "" (values+count), "-n", "-u"
func checkCountDistinct(t *T, fields []string, mode string, oname string, in []rec) {
	args := []string{"count-distinct", "-f", joinC(fields)}
	if mode != "" {
		args = append(args, mode)
	}
	name := "count"
	if oname != "" {
		args = append(args, "-o", oname)
		if mode != "-u" {
			name = oname // "-o {name} Field name for output count. Default "count". Ignored with -u."
		}
	}
	out, so, ok := runVerb(t, "count-distinct", args, in)
	if !ok {
		return
	}
	var exp []rec
	switch mode {
	case "":
		for _, g := range simpleGroups(in, fields) {
			exp = append(exp, append(keyRec(fields, g.key), kv{name, strconv.Itoa(len(g.idx))}))
		}
	case "-n":
		exp = []rec{{kv{name, strconv.Itoa(len(simpleGroups(in, fields)))}}}
	case "-u":
		// counts for distinct values of each field separately (documented example: field=a,value=pan,count=2081)
		for _, f := range fields {
			for _, g := range simpleGroups(in, []string{f}) {
				exp = append(exp, rec{kv{"field", f}, kv{"value", g.key[0]}, kv{name, strconv.Itoa(len(g.idx))}})
			}
		}
	}
	clause := "count-distinct.groups"
	if oname != "" && mode == "-n" {
		clause = "count-distinct.-n-o-name"
	}
	expectRecords(t, clause, args, in, out, exp, false, so)
}

// uniq -g: flags subset of -c -n
func checkUniqG(t *T, fields []string, flagC, flagN bool, oname string, in []rec) {
	args := []string{"uniq", "-g", joinC(fields)}
	if flagC {
		args = append(args, "-c")
	}
	if flagN {
		args = append(args, "-n")
	}
	name := "count"
	if oname != "" {
		args = append(args, "-o", oname)
		name = oname
	}
	out, so, ok := runVerb(t, "uniq", args, in)
	if !ok {
		return
	}
	var exp []rec
	gs := simpleGroups(in, fields)
	switch {
	case flagN:
		exp = []rec{{kv{name, strconv.Itoa(len(gs))}}}
	case flagC:
		for _, g := range gs {
			exp = append(exp, append(keyRec(fields, g.key), kv{name, strconv.Itoa(len(g.idx))}))
		}
	default:
		for _, g := range gs {
			exp = append(exp, keyRec(fields, g.key))
		}
	}
	clause := "uniq.groups"
	if oname != "" && flagN {
		clause = "uniq.-n-o-name"
	}
	expectRecords(t, clause, args, in, out, exp, flagC, so) // position of the count field among the others: not asserted
}

// uniq -a [-c|-n]: distinct whole records. Records are compared as their exact
// (key,value) sequences.
func checkUniqA(t *T, flagC, flagN bool, in []rec) {
	args := []string{"uniq", "-a"}
	if flagC {
		args = append(args, "-c")
	}
	if flagN {
		args = append(args, "-n")
	}
	out, so, ok := runVerb(t, "uniq", args, in)
	if !ok {
		return
	}
	var order []string
	counts := map[string]int{}
	first := map[string]rec{}
	for _, r := range in {
		k := r.String()
		if counts[k] == 0 {
			order = append(order, k)
			first[k] = r
		}
		counts[k]++
	}
	var exp []rec
	switch {
	case flagN:
		exp = []rec{{kv{"count", strconv.Itoa(len(order))}}}
	case flagC:
		for _, k := range order {
			exp = append(exp, append(rec{kv{"count", strconv.Itoa(counts[k])}}, first[k]...))
		}
	default:
		for _, k := range order {
			exp = append(exp, first[k])
		}
	}
	expectRecords(t, "uniq.-a", args, in, out, exp, flagC, so)
}

// uniq -x / count-distinct -x: group by each record's other fields (names and values).
func checkUniqX(t *T, verb string, exclude []string, flagC bool, in []rec) {
	args := []string{verb, "-x", joinC(exclude)}
	if flagC {
		args = append(args, "-c")
	}
	out, so, ok := runVerb(t, verb, args, in)
	if !ok {
		return
	}
	var order []string
	counts := map[string]int{}
	first := map[string]rec{}
	for _, r := range in {
		o := r.without(exclude...)
		k := o.String()
		if counts[k] == 0 {
			order = append(order, k)
			first[k] = o
		}
		counts[k]++
	}
	var exp []rec
	withCount := flagC || verb == "count-distinct"
	for _, k := range order {
		e := append(rec{}, first[k]...)
		if withCount {
			e = append(e, kv{"count", strconv.Itoa(counts[k])})
		}
		exp = append(exp, e)
	}
	// a record with no other fields at all: an empty output record may or may not be printed -- compare modulo empty records
	strip := func(l []rec) []rec {
		var o []rec
		for _, r := range l {
			if len(r) > 0 && !(len(r) == 1 && r[0].K == "count") {
				o = append(o, r)
			}
		}
		return o
	}
	expectRecords(t, verb+".-x", args, in, strip(out), strip(exp), withCount, so)
}

// ---------------------------------------------------------------- count-similar

func checkCountSimilar(t *T, groupBy []string, oname string, in []rec) {
	args := []string{"count-similar", "-g", joinC(groupBy)}
	name := "count"
	if oname != "" {
		args = append(args, "-o", oname)
		name = oname
	}
	out, so, ok := runVerb(t, "count-similar", args, in)
	if !ok {
		return
	}
	var exp []rec
	for _, g := range simpleGroups(in, groupBy) {
		for _, i := range g.idx {
			exp = append(exp, append(append(rec{}, in[i]...), kv{name, strconv.Itoa(len(g.idx))}))
		}
	}
	// records lacking a group-by field: the usage text does not say whether they are passed or dropped
	var filtered []rec
	for _, o := range out {
		if _, has := o.get(name); !has {
			if _, inGroup := groupKeyOf(o, groupBy); !inGroup {
				t.w.Count("unconstrained", 1)
				continue
			}
		}
		filtered = append(filtered, o)
	}
	expectRecords(t, "count-similar.groups", args, in, filtered, exp, false, so)
}

// ---------------------------------------------------------------- most-frequent / least-frequent

func checkFrequent(t *T, verb string, fields []string, maxN int, flagB bool, oname string, in []rec) {
	args := []string{verb, "-f", joinC(fields)}
	if maxN > 0 {
		args = append(args, "-n", strconv.Itoa(maxN))
	} else {
		maxN = 10
	}
	if flagB {
		args = append(args, "-b")
	}
	name := "count"
	if oname != "" {
		args = append(args, "-o", oname)
		name = oname
	}
	out, so, ok := runVerb(t, verb, args, in)
	if !ok {
		return
	}
	gs := simpleGroups(in, fields)
	counts := map[string]int{}
	var all []int
	for _, g := range gs {
		counts[keyText(g.key)] = len(g.idx)
		all = append(all, len(g.idx))
	}
	if verb == "most-frequent" {
		sort.Sort(sort.Reverse(sort.IntSlice(all)))
	} else {
		sort.Ints(all)
	}
	want := len(all)
	if want > maxN {
		want = maxN
	}
	t.w.Count("cells", int64(want)+1)
	t.w.Nontrivial(1)
	bad := ""
	if len(out) != want {
		bad = fmt.Sprintf("%d records, expected %d", len(out), want)
	}
	seen := map[string]bool{}
	for i, o := range out {
		if bad != "" {
			break
		}
		key, rest, okk := splitOutRecord(o, fields)
		if !okk {
			bad = fmt.Sprintf("record %q does not start with fields %v", o.String(), fields)
			break
		}
		c, known := counts[keyText(key)]
		switch {
		case !known:
			bad = fmt.Sprintf("value %q does not occur in the input", strings.Join(key, ";"))
		case seen[keyText(key)]:
			bad = fmt.Sprintf("value %q listed twice", strings.Join(key, ";"))
		case c != all[i]:
			bad = fmt.Sprintf("position %d holds %q with frequency %d; the %d-th frequency in order is %d", i+1, strings.Join(key, ";"), c, i+1, all[i])
		case flagB && len(rest) != 0:
			bad = fmt.Sprintf("-b given but record has extra fields %q", rest.String())
		case !flagB && !(len(rest) == 1 && rest[0].K == name && rest[0].V == strconv.Itoa(c)):
			bad = fmt.Sprintf("record %q: expected %s=%d", o.String(), name, c)
		}
		seen[keyText(key)] = true
	}
	if bad != "" {
		t.viol(verb+".counts", args, in, bad, so)
	}
}

// ---------------------------------------------------------------- top

func numericOnly(in []rec, fields ...string) bool {
	for _, r := range in {
		for _, f := range fields {
			if v, has := r.get(f); has && !isNum(v) {
				return false
			}
		}
	}
	return true
}

func checkTop(t *T, fields, groupBy []string, n int, useMin, showAll bool, oname string, in []rec) {
	args := []string{"top", "-f", joinC(fields)}
	if len(groupBy) > 0 {
		args = append(args, "-g", joinC(groupBy))
	}
	if n > 0 {
		args = append(args, "-n", strconv.Itoa(n))
	} else {
		n = 1
	}
	if useMin {
		args = append(args, "--min")
	}
	if showAll {
		args = append(args, "-a")
	}
	idxName := "top_idx"
	if oname != "" {
		args = append(args, "-o", oname)
		idxName = oname
	}
	out, so, ok := runVerb(t, "top", args, in)
	if !ok {
		return
	}
	gs, byKey := groupsOf(in, groupBy, fields)
	// sorted contributing values per group and field
	type ent struct {
		v   *big.Rat
		txt string
		i   int
	}
	sortedVals := func(g *group, f string) []ent {
		var l []ent
		for _, i := range g.members {
			if v, has := in[i].get(f); has {
				l = append(l, ent{ratOf(v), v, i})
			}
		}
		sort.SliceStable(l, func(a, b int) bool {
			c := l[a].v.Cmp(l[b].v)
			if useMin {
				return c < 0
			}
			return c > 0
		})
		return l
	}
	t.w.Nontrivial(1)
	cells := int64(0)
	defer func() { t.w.Count("cells", cells) }()
	if showAll {
		f := fields[0]
		// predicate: per group (first-appearance), up to n input records of that group holding the top values in order
		pos := 0
		var outKeys []string
		for pos < len(out) {
			key, okk := groupKeyOf(out[pos], groupBy)
			if !okk || byKey[keyText(key)] == nil {
				t.viol("top.-a", args, in, fmt.Sprintf("output record %q belongs to no input group", out[pos].String()), so)
				return
			}
			g := byKey[keyText(key)]
			outKeys = append(outKeys, keyText(key))
			l := sortedVals(g, f)
			want := len(l)
			if want > n {
				want = n
			}
			usedIdx := map[int]bool{}
			for k := 0; k < want; k++ {
				if pos >= len(out) {
					t.viol("top.-a", args, in, fmt.Sprintf("group %q: %d records expected, output ends early", strings.Join(key, ";"), want), so)
					return
				}
				o := out[pos]
				pos++
				cells++
				found := false
				for _, e := range l {
					if !usedIdx[e.i] && recEq(in[e.i], o) && e.v.Cmp(l[k].v) == 0 {
						usedIdx[e.i] = true
						found = true
						break
					}
				}
				if !found {
					t.viol("top.-a", args, in, fmt.Sprintf("group %q position %d: record %q is not an input record of the group holding the %d-th value %s", strings.Join(key, ";"), k+1, o.String(), k+1, l[k].txt), so)
					return
				}
			}
			if want == 0 {
				t.viol("top.-a", args, in, fmt.Sprintf("group %q has no value yet a record is printed", strings.Join(key, ";")), so)
				return
			}
		}
		for _, g := range gs {
			if len(sortedVals(g, f)) > 0 {
				found := false
				for _, k := range outKeys {
					found = found || k == keyText(g.key)
				}
				if !found {
					t.viol("top.group-missing", args, in, fmt.Sprintf("group %q has values but is not emitted", strings.Join(g.key, ";")), so)
				}
			}
		}
		if !orderOK(outKeys, gs, byKey) {
			t.viol("top.group-order", args, in, "groups are not emitted in first-appearance order", so)
		}
		return
	}
	// without -a: per group n records: group-by fields, index, <f>_top per field
	pos := 0
	var outKeys []string
	seen := map[string]bool{}
	for pos < len(out) {
		key, _, okk := splitOutRecord(out[pos], groupBy)
		if !okk || byKey[keyText(key)] == nil {
			t.viol("top.shape", args, in, fmt.Sprintf("output record %q does not start with the fields of an input group", out[pos].String()), so)
			return
		}
		if seen[keyText(key)] {
			t.viol("top.group-split", args, in, fmt.Sprintf("group %q emitted in two runs", strings.Join(key, ";")), so)
			return
		}
		seen[keyText(key)] = true
		outKeys = append(outKeys, keyText(key))
		g := byKey[keyText(key)]
		vclause := "top.value"
		if len(fields) > 1 {
			vclause = "top.value-multifield"
		}
		rows := 0
		for k := 1; k <= n && pos < len(out); k++ {
			key2, rest, ok2 := splitOutRecord(out[pos], groupBy)
			if !ok2 || keyText(key2) != keyText(key) {
				break
			}
			got := map[string]string{}
			for _, e := range rest {
				got[e.K] = e.V
			}
			if iv, has := got[idxName]; !has || iv != strconv.Itoa(k) {
				t.viol("top.index", args, in, fmt.Sprintf("group %q row %d: index field %s=%q", strings.Join(key, ";"), k, idxName, iv), so)
				return
			}
			pos++
			rows++
			for _, f := range fields {
				l := sortedVals(g, f)
				v, has := got[f+"_top"]
				cells++
				if k <= len(l) {
					if !has || !cNum(l[k-1].v).match(v) {
						t.viol(vclause, args, in, fmt.Sprintf("group %q field %s: %d-th value is %q, recomputation from the records having %s gives %s", strings.Join(key, ";"), f, k, v, f, l[k-1].txt), so)
					}
				} else if has {
					if _, isnum := parseOut(v); isnum {
						t.viol(vclause, args, in, fmt.Sprintf("group %q field %s has only %d values but row %d shows %q", strings.Join(key, ";"), f, len(l), k, v), so)
					}
				}
			}
		}
		avail := 0
		for _, f := range fields {
			if a := len(sortedVals(g, f)); a > avail {
				avail = a
			}
		}
		if avail > n {
			avail = n
		}
		if rows < avail {
			t.viol("top.rows", args, in, fmt.Sprintf("group %q: %d rows emitted, %d values available", strings.Join(key, ";"), rows, avail), so)
		}
	}
	for _, g := range gs {
		has := false
		for _, f := range fields {
			has = has || len(sortedVals(g, f)) > 0
		}
		if has && !seen[keyText(g.key)] {
			cl := "top.group-missing"
			if len(fields) > 1 {
				cl = "top.group-missing-multifield"
			}
			t.viol(cl, args, in, fmt.Sprintf("group %q has values for %v but is not emitted (a record lacking one value field is to be left out of that accumulation only)", strings.Join(g.key, ";"), fields), so)
		}
	}
	if !orderOK(outKeys, gs, byKey) {
		cl := "top.group-order"
		if len(fields) > 1 {
			cl = "top.group-order-multifield"
		}
		t.viol(cl, args, in, "groups are not emitted in first-appearance order", so)
	}
}

// top --max is the documented default: law on the real code on both sides
func checkTopMaxFlag(t *T, G []string, in []rec) {
	a1 := []string{"top", "-f", "x", "-n", "2"}
	if len(G) > 0 {
		a1 = append(a1, "-g", joinC(G))
	}
	a2 := append(append([]string{}, a1...), "--max")
	o1, _, ok1 := runVerb(t, "top", a1, in)
	o2, so, ok2 := runVerb(t, "top", a2, in)
	if ok1 && ok2 {
		expectRecords(t, "top.--max-is-default", a2, in, o2, o1, false, so)
	}
}

// ---------------------------------------------------------------- fraction

func checkFraction(t *T, fields, groupBy []string, flagP, flagC bool, in []rec) {
	args := []string{"fraction", "-f", joinC(fields)}
	if len(groupBy) > 0 {
		args = append(args, "-g", joinC(groupBy))
	}
	if flagP {
		args = append(args, "-p")
	}
	if flagC {
		args = append(args, "-c")
	}
	out, so, ok := runVerb(t, "fraction", args, in)
	if !ok {
		return
	}
	if len(out) != len(in) {
		t.viol("fraction.records", args, in, fmt.Sprintf("%d output records for %d input records", len(out), len(in)), so)
		return
	}
	suffix := "_fraction"
	switch {
	case flagP && flagC:
		suffix = "_cumulative_percent"
	case flagP:
		suffix = "_percent"
	case flagC:
		suffix = "_cumulative_fraction"
	}
	gs, byKey := groupsOf(in, groupBy, fields)
	_ = gs
	cum := map[string]*big.Rat{}
	cells, uncon := int64(0), int64(0)
	for i, r := range in {
		o := out[i]
		if len(o) < len(r) || !recEq(o[:len(r)], r) {
			t.viol("fraction.record-changed", args, in, fmt.Sprintf("output record %d %q does not start with input record %q", i+1, o.String(), r.String()), so)
			return
		}
		rest := o[len(r):]
		got := map[string]string{}
		for _, e := range rest {
			got[e.K] = e.V
		}
		key, inGroup := groupKeyOf(r, groupBy)
		nExpected := 0
		for _, f := range fields {
			v, has := r.get(f)
			if !inGroup || !has {
				continue
			}
			nExpected++
			g := byKey[keyText(key)]
			total := rsum(numsOf(g.fields[f]).xs)
			ck := keyText(key) + "\x1e" + f
			if cum[ck] == nil {
				cum[ck] = new(big.Rat)
			}
			cum[ck].Add(cum[ck], ratOf(v))
			gv, hasOut := got[f+suffix]
			if !hasOut {
				t.viol("fraction.missing", args, in, fmt.Sprintf("record %d: %s%s not emitted", i+1, f, suffix), so)
				continue
			}
			if total.Sign() == 0 {
				uncon++ // division by a zero sum: not determined
				continue
			}
			num := ratOf(v)
			if flagC {
				num = cum[ck]
			}
			exp := new(big.Rat).Quo(num, total)
			if flagP {
				exp.Mul(exp, big.NewRat(100, 1))
			}
			cells++
			if !cTolR(exp, 0).match(gv) {
				t.viol("fraction.value", args, in, fmt.Sprintf("record %d: %s%s=%s, recomputation gives %s (value %s over group sum %s)", i+1, f, suffix, gv, exp.FloatString(12), v, total.RatString()), so)
			}
		}
		if len(rest) != nExpected {
			t.viol("fraction.phantom", args, in, fmt.Sprintf("record %d %q: %d fraction fields expected, got %q", i+1, r.String(), nExpected, rest.String()), so)
		}
	}
	t.w.Count("cells", cells)
	t.w.Count("unconstrained", uncon)
	if cells > 0 {
		t.w.Nontrivial(1)
	}
}

// ---------------------------------------------------------------- histogram

func checkHistogram(t *T, fields []string, lo, hi, nbins int, auto bool, prefix string, in []rec) {
	args := []string{"histogram", "-f", joinC(fields)}
	if auto {
		args = append(args, "--auto", "--nbins", strconv.Itoa(nbins))
	} else {
		args = append(args, "--lo", strconv.Itoa(lo), "--hi", strconv.Itoa(hi), "--nbins", strconv.Itoa(nbins))
	}
	if prefix != "" {
		args = append(args, "-o", prefix)
	}
	out, so, ok := runVerb(t, "histogram", args, in)
	if !ok {
		return
	}
	rlo, rhi := big.NewRat(int64(lo), 1), big.NewRat(int64(hi), 1)
	if auto {
		var all []*big.Rat
		for _, r := range in {
			for _, f := range fields {
				if v, has := r.get(f); has {
					all = append(all, ratOf(v))
				}
			}
		}
		if len(all) == 0 {
			t.w.Count("unconstrained", 1)
			return
		}
		rlo, rhi = all[0], all[0]
		for _, x := range all {
			if x.Cmp(rlo) < 0 {
				rlo = x
			}
			if x.Cmp(rhi) > 0 {
				rhi = x
			}
		}
		if rlo.Cmp(rhi) == 0 {
			t.w.Count("unconstrained", 1) // zero-width range: not determined
			return
		}
	}
	width := new(big.Rat).Sub(rhi, rlo)
	// is nbins/(hi-lo) exactly representable (dyadic)? otherwise a value exactly on an inner bin edge may fall on either side
	mul := new(big.Rat).Quo(big.NewRat(int64(nbins), 1), width)
	dyadic := new(big.Int).And(mul.Denom(), new(big.Int).Sub(mul.Denom(), big.NewInt(1))).Sign() == 0
	type cnt struct{ lo, hi int } // acceptable range of the count
	counts := map[string][]cnt{}
	for _, f := range fields {
		c := make([]cnt, nbins)
		for _, r := range in {
			v, has := r.get(f)
			if !has {
				continue
			}
			x := ratOf(v)
			if x.Cmp(rlo) < 0 || x.Cmp(rhi) > 0 {
				continue // "Input values < lo or > hi are not counted"
			}
			if x.Cmp(rhi) == 0 {
				c[nbins-1].lo++
				c[nbins-1].hi++
				continue
			}
			p := new(big.Rat).Mul(new(big.Rat).Sub(x, rlo), mul)
			k := int(new(big.Int).Div(p.Num(), p.Denom()).Int64())
			if p.IsInt() && k > 0 && !dyadic {
				c[k].hi++
				c[k-1].hi++
				t.w.Count("unconstrained", 1)
				continue
			}
			c[k].lo++
			c[k].hi++
		}
		counts[f] = c
	}
	t.w.Nontrivial(1)
	t.w.Count("cells", int64(nbins*(2+len(fields))))
	if len(out) != nbins {
		t.viol("histogram.bins", args, in, fmt.Sprintf("%d output records for %d bins", len(out), nbins), so)
		return
	}
	for b, o := range out {
		elo := new(big.Rat).Add(rlo, new(big.Rat).Mul(width, big.NewRat(int64(b), int64(nbins))))
		ehi := new(big.Rat).Add(rlo, new(big.Rat).Mul(width, big.NewRat(int64(b+1), int64(nbins))))
		glo, ok1 := o.get(prefix + "bin_lo")
		ghi, ok2 := o.get(prefix + "bin_hi")
		if !ok1 && !ok2 { // which output names the -o prefix applies to is not spelled out
			glo, ok1 = o.get("bin_lo")
			ghi, ok2 = o.get("bin_hi")
		}
		if !ok1 || !ok2 || !cTolR(elo, 1).match(glo) || !cTolR(ehi, 1).match(ghi) {
			t.viol("histogram.edges", args, in, fmt.Sprintf("bin %d: record %q, expected %sbin_lo=%s %sbin_hi=%s", b, o.String(), prefix, elo.FloatString(6), prefix, ehi.FloatString(6)), so)
			continue
		}
		for _, f := range fields {
			gv, has := o.get(prefix + f + "_count")
			n, err := strconv.Atoi(gv)
			c := counts[f][b]
			if !has || err != nil || n < c.lo || n > c.hi {
				t.viol("histogram.count", args, in, fmt.Sprintf("bin %d [%s,%s): %s%s_count=%q, recomputation gives %d", b, elo.FloatString(4), ehi.FloatString(4), prefix, f, gv, c.lo), so)
			}
		}
	}
}

// ---------------------------------------------------------------- fill-down

// mode: "" (absent or empty is missing), "-a" (only absent is missing), "--all"
func checkFillDown(t *T, fields []string, mode string, in []rec) {
	var args []string
	switch mode {
	case "--all":
		args = []string{"fill-down", "--all"}
	case "-a":
		args = []string{"fill-down", "-a", "-f", joinC(fields)}
	case "--only-if-absent":
		args = []string{"fill-down", "--only-if-absent", "-f", joinC(fields)}
	default:
		args = []string{"fill-down", "-f", joinC(fields)}
	}
	onlyAbsent := mode == "-a" || mode == "--only-if-absent"
	out, so, ok := runVerb(t, "fill-down", args, in)
	if !ok {
		return
	}
	if len(out) != len(in) {
		t.viol("fill-down.records", args, in, fmt.Sprintf("%d output records for %d input records", len(out), len(in)), so)
		return
	}
	last := map[string]string{}
	hasLast := map[string]bool{}
	cells := int64(0)
	for i, r := range in {
		o := out[i]
		fs := fields
		if mode == "--all" {
			fs = nil
			for _, e := range r {
				fs = append(fs, e.K)
			}
		}
		exp := append(rec{}, r...)
		var appended rec
		for _, f := range fs {
			v, has := r.get(f)
			missing := !has || (!onlyAbsent && v == "")
			if !missing {
				last[f], hasLast[f] = v, true
				continue
			}
			if !hasLast[f] {
				continue
			}
			if has {
				for j := range exp {
					if exp[j].K == f {
						exp[j].V = last[f]
					}
				}
			} else {
				appended = append(appended, kv{f, last[f]})
			}
		}
		cells++
		if mode == "--all" {
			// whether --all also fills fields absent from the current record is not spelled out: ignore such fields
			var kept rec
			for _, e := range o {
				if r.has(e.K) {
					kept = append(kept, e)
				} else {
					t.w.Count("unconstrained", 1)
				}
			}
			o = kept
		}
		// fields present in the input keep their positions; filled-in absent fields may be placed anywhere
		okRec := len(o) == len(exp)+len(appended)
		if okRec {
			var core rec
			extra := map[string]string{}
			for _, e := range appended {
				extra[e.K] = e.V
			}
			for _, e := range o {
				if v, isExtra := extra[e.K]; isExtra && !r.has(e.K) {
					if v != e.V {
						okRec = false
					}
					continue
				}
				core = append(core, e)
			}
			okRec = okRec && recEq(core, exp)
		}
		if !okRec {
			t.viol("fill-down.value", args, in, fmt.Sprintf("record %d: output %q, recomputation gives %q", i+1, o.String(), append(exp, appended...).String()), so)
		}
	}
	t.w.Count("cells", cells)
	if cells > 0 {
		t.w.Nontrivial(1)
	}
}

var _ = math.Abs
