// Package c10: check for property C10 (see /verif/DESIGN.md §3 C10).
package c10
