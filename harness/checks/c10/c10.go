// Package c10: aggregating verbs equal first-principles recomputation, group
// by group (see /verif/DESIGN.md §3 C10).
//
// Technique: bounded exhaustive enumeration of small record streams over a
// fixed alphabet, each run through the real verb in-process (vf.RunMlr, DKVP
// in and out with ';' as field separator so that values may contain commas),
// and every output cell compared with a reference written from the verb usage
// texts / function help: exact rational arithmetic (math/big) for sums and
// moments, the documented index rules for percentiles, naive list algorithms
// for grouping.
package c10

import (
	"fmt"
	"os"
	"sort"
	"strings"
	"time"

	"verif/harness/vf"
)

func init() {
	vf.Register(&vf.CheckDef{ID: "C10", Level: "model_checking", Run: run,
		Workers: map[string]vf.WorkerFunc{
			"stats1": stats1Worker,
			"pct":    pctWorker,
			"group":  groupWorker,
			"step":   stepWorker,
			"merge":  mergeWorker,
			"dsl":    dslWorker,
			"pctgrid": pctGridWorker,
			"join":    joinWorker,
		}})
}

// ---------------------------------------------------------------- records

type kv struct{ K, V string }
type rec []kv

func (r rec) get(k string) (string, bool) {
	for _, e := range r {
		if e.K == k {
			return e.V, true
		}
	}
	return "", false
}

func (r rec) has(k string) bool { _, ok := r.get(k); return ok }

func (r rec) String() string {
	parts := make([]string, len(r))
	for i, e := range r {
		parts[i] = e.K + "=" + e.V
	}
	return strings.Join(parts, ";")
}

func (r rec) without(keys ...string) rec {
	out := make(rec, 0, len(r))
outer:
	for _, e := range r {
		for _, k := range keys {
			if e.K == k {
				continue outer
			}
		}
		out = append(out, e)
	}
	return out
}

func recEq(a, b rec) bool {
	if len(a) != len(b) {
		return false
	}
	for i := range a {
		if a[i] != b[i] {
			return false
		}
	}
	return true
}

func encode(recs []rec) string {
	var sb strings.Builder
	for _, r := range recs {
		sb.WriteString(r.String())
		sb.WriteByte('\n')
	}
	return sb.String()
}

func streamText(recs []rec) string {
	parts := make([]string, len(recs))
	for i, r := range recs {
		parts[i] = r.String()
	}
	return strings.Join(parts, " / ")
}

// decode parses DKVP output with ';' as the field separator. An empty line is
// an empty record.
func decode(s string) []rec {
	var out []rec
	if s == "" {
		return out
	}
	s = strings.TrimSuffix(s, "\n")
	for _, line := range strings.Split(s, "\n") {
		var r rec
		if line != "" {
			for _, f := range strings.Split(line, ";") {
				k, v, ok := strings.Cut(f, "=")
				if !ok {
					// DKVP writes a key-less field for positional data; never expected here
					k, v = "\x00nokey", f
				}
				r = append(r, kv{k, v})
			}
		}
		out = append(out, r)
	}
	return out
}

var baseFlags = []string{"--ifs", ";", "--ofs", ";"}

// run1 runs `mlr --ifs ; --ofs ; <args>` on the stream.
func run1(args []string, in []rec) ([]rec, vf.MlrResult) {
	text := encode(in)
	full := append(append([]string{}, baseFlags...), args...)
	r := vf.RunMlr(full, vf.MlrOpts{Stdin: &text})
	return decode(r.Stdout), r
}

func cmdline(args []string, in []rec) string {
	q := make([]string, len(args))
	for i, a := range args {
		if a == "" || strings.ContainsAny(a, " \t$^*[](){}'\"|;<>&#~`\\!?") {
			q[i] = "'" + strings.ReplaceAll(a, "'", `'\''`) + "'"
		} else {
			q[i] = a
		}
	}
	lines := make([]string, len(in))
	for i, r := range in {
		lines[i] = r.String()
	}
	return fmt.Sprintf("printf '%%s\\n' %s | mlr --ifs ';' --ofs ';' %s", quoteEach(lines), strings.Join(q, " "))
}

func quoteEach(l []string) string {
	q := make([]string, len(l))
	for i, s := range l {
		q[i] = "'" + strings.ReplaceAll(s, "'", `'\''`) + "'"
	}
	return strings.Join(q, " ")
}

// ---------------------------------------------------------------- case driver

// T wraps a worker with block-wise sharding and violation helpers.
type T struct {
	w      *vf.Worker
	cases  uint64
	block  uint64
	curBlk uint64
	mine   bool
	base   uint64 // idx offset of this family
	label  string

	collision bool // current stream has colliding group-by joins
	perClause map[string]int
}

func newT(w *vf.Worker) *T { return &T{w: w, curBlk: ^uint64(0), block: 64} }

// family starts a new index range (so that shards stay balanced across families).
func (t *T) family(name string, block uint64) {
	t.base += t.cases/t.block + 1
	t.cases = 0
	t.block = block
	t.curBlk = ^uint64(0)
	t.label = name
}

// next reports whether the next case belongs to this worker.
func (t *T) next() bool {
	blk := t.base + t.cases/t.block
	t.cases++
	if blk != t.curBlk {
		t.curBlk = blk
		t.mine = t.w.Mine(blk)
		if t.mine {
			t.w.Begin(blk)
			name, b := t.label, blk
			t.w.Label(func() string { return fmt.Sprintf("family %s block %d", name, b) })
		}
	}
	return t.mine
}

func dumpFile() *os.File {
	if f := os.Getenv("VERIF_C10_DUMP"); f != "" {
		if fh, err := os.OpenFile(f, os.O_APPEND|os.O_CREATE|os.O_WRONLY, 0644); err == nil {
			return fh
		}
	}
	return nil
}

// perClauseCap bounds the witnesses one shard reports per clause: a defect
// that is present shows up on thousands of streams; the enumeration is
// simplest-first, so the first witnesses are the smallest ones.
const perClauseCap = 2

// ownHeading: clauses whose cause does not depend on how group keys are
// formed keep their name also on streams with colliding group-by joins.
func ownHeading(clause string) bool {
	for _, c := range []string{"step.records-lost", "step.forward-stepper-with-absent-field", "step.ewma-default-d", "stats1-w.record-dropped",
		"fraction.panic", "uniq.-n-o-name", "count-distinct.-n-o-name"} {
		if clause == c {
			return true
		}
	}
	return strings.HasSuffix(clause, "-multifield") || strings.HasSuffix(clause, ".panic") || strings.HasSuffix(clause, ".fails")
}

// viol records a violation. clause: "verb.clause"; detail: flags and stream.
func (t *T) viol(clause string, args []string, in []rec, what string, out string) {
	if t.collision && !ownHeading(clause) {
		// the stream holds two different group-by tuples whose comma-joined texts coincide: report under one heading
		clause = "group-text-collision." + strings.SplitN(clause, ".", 2)[0]
	}
	if t.perClause == nil {
		t.perClause = map[string]int{}
	}
	t.perClause[clause]++
	if f := os.Getenv("VERIF_C10_DUMP"); f != "" {
		if fh, err := os.OpenFile(f, os.O_APPEND|os.O_CREATE|os.O_WRONLY, 0644); err == nil {
			fmt.Fprintf(fh, "%s\t%s\t%s\t%s(%s|%s)\n", clause, what, cmdline(args, in), clause, strings.Join(args, " "), streamText(in))
			fh.Close()
		}
	}
	if t.perClause[clause] > perClauseCap {
		t.w.Count("further_witnesses:"+clause, 1)
		return
	}
	key := fmt.Sprintf("%s(%s|%s)", clause, strings.Join(args, " "), streamText(in))
	t.w.Violation(key, what+" :: "+cmdline(args, in), map[string]any{
		"args": args, "input": encode(in), "command": cmdline(args, in), "what": what, "stdout": out,
	})
}

// ---------------------------------------------------------------- sequences

// forEachSeq calls f with every sequence over {0..nsym-1} of length 0..maxLen,
// shortest first, lexicographic within a length.
func forEachSeq(nsym, minLen, maxLen int, f func(seq []int)) {
	for n := minLen; n <= maxLen; n++ {
		seq := make([]int, n)
		for {
			f(seq)
			i := n - 1
			for i >= 0 {
				seq[i]++
				if seq[i] < nsym {
					break
				}
				seq[i] = 0
				i--
			}
			if i < 0 {
				break
			}
		}
	}
}

const absent = "\x00absent"

// mkrec builds a record from (key, value) pairs, leaving out absent values.
func mkrec(pairs ...string) rec {
	var r rec
	for i := 0; i+1 < len(pairs); i += 2 {
		if pairs[i+1] != absent {
			r = append(r, kv{pairs[i], pairs[i+1]})
		}
	}
	return r
}

func sortedKeys(m map[string]bool) []string {
	out := make([]string, 0, len(m))
	for k := range m {
		out = append(out, k)
	}
	sort.Strings(out)
	return out
}

// ---------------------------------------------------------------- orchestrator

func run(c *vf.Ctx) {
	c.Rule = "every record stream of length <= n over the stated value/group alphabets (absent, empty, int, float, string, comma-bearing and numeric-looking group texts), simplest first, x every verb configuration in the stated lists; each (stream, configuration) pair is one evaluation and all pairs are distinct by construction; a case is non-trivial when at least one output cell was compared with a reference value (cells the documentation does not determine are counted as unconstrained and not asserted)"
	c.Assume("value alphabet is small ints, dyadic floats (exactly representable), one string, empty and absent; floating moments are compared with exact rational recomputation at relative tolerance 1e-9; cancellation on ill-conditioned data is outside the bound")
	c.Assume("an empty value is treated as 'missing' for sum/mean/var/.../min/max/percentiles (reference-main-null-data.md); for count/distinct_count/mode/antimode/minlen/maxlen the usage text does not say whether empties are counted, so both readings are accepted and such cells are counted as empty_policy_cells")
	c.Assume("non-interpolated percentiles: index int(p*n/100) clamped (function-help examples) ; where p*n/100 is an exact integer k the usage text ('like R type=1' = x[k-1]) and the function-help example median([3,4,5,6,9,10])=6 (= x[k]) disagree; no reading lets the choice depend on p or n, so the reading Miller shows on that very worked example (probed once per process on the real code) is required at EVERY exact-boundary cell whose p is exactly representable in binary (uniform index rule); for a p such as 33.3 either neighbour is accepted at an exact decimal boundary")
	c.Assume("percentile (p,n) grid: p in {0,0.25,...,100} only (p*n exact in float64, so the documented formula has one value); data are distinct integers (the index rule does not depend on the data; value kinds, ties and input orders are covered by the small-n percentile family)")
	c.Assume("name/key joins: joiner alphabet = empty string, printable ASCII non-alphanumerics except ',' (cannot occur in a name given through -f), ';' and '=' (separators of the harness's DKVP I/O), TAB, 0x1f; top with several value fields is run only on streams whose records all carry every field (known multi-field defect otherwise); step is run with the steppers that do not look forward")
	c.Assume("interpolated percentiles, sums, means and moments over data containing a non-numeric string are not asserted (usage: 'the rest require numeric input')")
	c.Assume("skewness and kurtosis follow the function-help examples: m3/(s^2)^1.5 with s^2 the (n-1)-variance, and m4/m2^2-3 with m2 the n-variance; undefined (variance 0) cells are not asserted")
	c.Assume("tie order among equally frequent values in most-frequent/least-frequent and among equal values in top -a is not asserted (predicate: counts sorted, every pair correct, multiset of counts equals the top-k)")
	c.Assume("step, positional steppers (slwin_m_n, shift/shift_lag_k, shift_lead_k, delta_k, ratio_k) are position-local: the window/source is made of the group's RECORDS (usage: 'm records back and n forward', 'from the previous record', 'n records back'); a record holding an empty value or lacking the field is missing data (reference-main-null-data.md): it keeps its place in the window, contributes neither to the sum nor to the divisor of a window average, a window without any contributing value has no average (empty, never a number), and shift_lag from it includes nothing (empty). Not asserted: a window average over a window holding a non-numeric text; delta/ratio when this record's value or the one k back is empty/text/lacking; the first ratio_k values; shift_lead onto a record lacking the field; any stepper output on a record that itself lacks the field")
	c.Assume("step, cumulative steppers: counter/rsum/rprod on a record with an empty value, ewma/from-first after an empty value, and all of them after a non-numeric text in the group, are not asserted")
	c.Assume("stats1 -s: what happens to a record lacking a group-by field is not stated and not asserted (for -w the usage text promises one output record per input record, which is asserted)")
	c.Assume("DSL: sum/mean/variance/... over a collection holding a non-numeric string, and order statistics over a collection holding an empty string, are not asserted; the sparkline function is not covered")
	c.Assume("histogram: a value exactly on an inner bin edge may fall on either side when nbins/(hi-lo) is not exactly representable; --auto on a zero-width range is not asserted; fraction over a zero group sum is not asserted")
	c.Assume("fill-down --all: whether fields absent from the current record are filled is not stated and not asserted; count-similar: whether records lacking a group-by field are passed or dropped is not stated and not asserted")
	c.Assume("per clause and worker shard only the first 2 witnesses (the simplest, enumeration is simplest-first) are listed as violations; the rest are counted in further_witnesses_per_clause_not_listed")
	c.Assume("stats2, summary, bar, sparkline, sec2gmt-style formatting and --ofmt are not covered")

	type fam struct {
		name   string
		shards int
	}
	all := map[string]*vf.PoolResult{}
	walls := map[string]float64{}
	for _, f := range []fam{{"pct", 32}, {"stats1", 128}, {"group", 256}, {"step", 128}, {"merge", 64}, {"dsl", 64}, {"pctgrid", 64}, {"join", 128}} {
		t0 := time.Now()
		spec := vf.PoolSpec{Worker: f.name, Shards: f.shards}
		if f.name == "join" || f.name == "pctgrid" {
			// in-process Miller runs in bulk: one P per worker process avoids futex churn between 16 processes x 16 Ps
			spec.Env = []string{"GOMAXPROCS=1"}
		}
		all[f.name] = c.RunPool(spec)
		walls[f.name] = time.Since(t0).Seconds()
	}
	c.Extra["pool_wall_s"] = walls
	hits := map[string]int64{}
	for k, v := range c.Counters {
		if strings.HasPrefix(k, "hit:") {
			hits[strings.TrimPrefix(k, "hit:")] = v
		}
	}
	c.Extra["hits_per_symbol_verb_flag"] = hits
	never := []string{}
	for _, name := range expectedHits() {
		if hits[name] == 0 {
			never = append(never, name)
		}
	}
	sort.Strings(never)
	c.Extra["never_exercised"] = never
	for k := range c.Counters {
		if strings.HasPrefix(k, "unknown_accumulator:") || strings.HasPrefix(k, "unknown_stepper:") {
			c.Broken("the accumulator/stepper table holds a name this check has no reference for: %s", k)
		}
	}
	further := map[string]int64{}
	for k, v := range c.Counters {
		if strings.HasPrefix(k, "further_witnesses:") {
			further[strings.TrimPrefix(k, "further_witnesses:")] = v
		}
	}
	c.Extra["further_witnesses_per_clause_not_listed"] = further
	if len(never) > 0 {
		c.Broken("vacuity guard: symbols/verbs/flags never exercised: %v", never)
	}
	outcomes := 0
	for _, r := range all {
		outcomes += vf.SetSize(r, "outcomes")
	}
	c.Extra["distinct_outcomes_sampled"] = outcomes
	c.Extra["cells_compared"] = c.Counters["cells"]
	c.Extra["cells_unconstrained"] = c.Counters["unconstrained"]
	c.Extra["empty_policy_cells"] = c.Counters["empty_policy_cells"]
	c.Extra["percentile_exact_boundary_cells_held_to_one_reading"] = c.Counters["pct_boundary"]
	if c.Quick() {
		c.Extra["bounds_added"] = "percentile grid: direct calls n=1..10000 x p in {0,0.25,..,100} (401) x {non-interpolated, interpolated}; CLI binding n=1..400 x 112 percentile names x {stats1, stats1 -i, merge-fields, merge-fields -i, DSL percentiles()/median()/percentile() with and without interpolation}; name/key joins: 33 joiners x streams n<=2 over 24 record symbols (3 group texts x {one of the 3 fields | all 3} x value 1|5) x 7-9 grouped verb configurations, plus count-distinct -u n<=2 over 18 symbols"
		c.Extra["bounds"] = "quick: value streams n<=4 over 9 symbols (stats1 incl. -i/-w 1..3/-s, step, merge-fields 4 fields / 2 records x 2 fields, DSL lists n<=4 over 8 symbols as array and map); group streams n<=3 over 6 group texts x 5 values, 9 (g,h) pairs x 3 values, 2 groups x 3 x 3 (x,y) values; percentiles p=0..100 (+11 fractional/synonym names) x n=1..8 x 3 ladders asc/desc + all tie patterns over 3 values + all permutations n<=5, both interpolation modes"
	} else {
		c.Extra["bounds_added"] = "percentile grid: direct calls n=1..100000 x 401 p x 2 modes; CLI binding n=1..2000; name/key joins: 33 joiners x (n<=2 over 45 symbols: 3 group texts x {no field | non-empty subset of 3 fields x value 1|5} + n=3 over 24 symbols: one field or all three), count-distinct -u n<=3 over 18 symbols"
		c.Extra["bounds"] = "thorough: value streams n<=5 over 9 symbols; merge-fields 4 fields, 2 records x 2 fields, 3 records over 5 symbols; DSL lists n<=5; group streams n<=3 over the full alphabets plus n=4 over thinned alphabets (one field: 5 group texts x {1,2.5,absent}; two fields: 7 pairs x {1,2.5}; two values: 2 groups x 3 x 3); percentiles n=1..10, permutations n<=6"
	}
	c.Extra["joiner_alphabet"] = joinerLabels()
	c.Extra["pct_grid_direct_cells"] = c.Counters["pct_grid_direct_cells"]
	c.Extra["pct_grid_cli_cells"] = c.Counters["pct_grid_cli_cells"]
	for k, v := range c.Counters {
		if strings.HasPrefix(k, "boundary_reading:") && v > 0 {
			c.Extra["percentile_boundary_reading_on_documented_example"] = strings.TrimPrefix(k, "boundary_reading:")
		}
	}
	c.Extra["step_missing_value_cells_asserted"] = c.Counters["step_missing_value_cells"]
	slw := map[string]int64{}
	for k, v := range c.Counters {
		if strings.HasPrefix(k, "slwin_window:") {
			slw[strings.TrimPrefix(k, "slwin_window:")] = v
		}
	}
	c.Extra["slwin_windows_with_missing_values_asserted"] = slw
	if c.Quick() {
		c.Extra["bounds_added_2"] = "step with missing values in the window: every stream n<=6 over {1,5,empty,absent} x 3 stepper lists (13 backward-only incl. slwin_0..3_0; 7 with look-forward 1 incl. slwin_0..3_1; 6 with look-forward 2-3); every stream n<=4 over {a,b} x {1,5,empty,absent} with -g g x 2 lists; backward-only window list also on the 9-symbol main streams (n<=4), the two-field streams (now {1,2.5,empty,absent}^2, n<=3) and the one-field group streams (n<=3)"
	} else {
		c.Extra["bounds_added_2"] = "step with missing values in the window: n<=8 over {1,5,empty,absent} x 3 stepper lists; n<=5 over {a,b} x {1,5,empty,absent} with -g g x 2 lists; backward-only window list on the main streams (n<=5), two-field streams ({1,2.5,empty,absent}^2, n<=4) and one-field group streams"
	}
	c.Extra["accumulator_table"] = accumulatorNames()
	c.Extra["stepper_table"] = stepperNames()
	// DistinctNontrivial is summed from the workers (Nontrivial per case with >= 1 compared cell)
}
