package c10

// Name/key joins: per-(value field, group) state must not be shared between
// two different (field, group) pairs.
//
// The grouped verbs keep their state in nested maps: group key -> value-field
// name -> accumulator (stats1, step, top, fraction), value-field name ->
// group key -> percentile store (stats1), field name -> value -> count
// (count-distinct -u). A mistake that flattens such a nesting into one map
// keyed by the two texts joined with some separator s makes two different
// pairs coincide exactly when field1+s+group1 == field2+s+group2 (or
// group1+s+field1 == group2+s+field2). No stream over plain names (x, y) and
// plain group texts (a, b) can show that. New dimension: the joiner s.
//
// For EVERY joiner s in the stated alphabet the value fields are
//     x, a, x<s>a
// and the group-by texts are
//     1, a<s>1, 1<s>x
// so that  x <s> (a<s>1) == (x<s>a) <s> 1   (field-then-group joins) and
//          (1<s>x) <s> a == 1 <s> (x<s>a)   (group-then-field joins),
// and every stream of records over {group text} x {which of the three fields
// are present} x {value 1 | 5} up to the stated length is run through every
// grouped verb configuration below, each output cell being compared with the
// same first-principles reference as everywhere else (groups = exact texts of
// the group-by field; fields = exact names).
//
// Joiner alphabet: the empty string (plain concatenation), every printable
// ASCII character that is neither a letter nor a digit (space included)
// except ',' (splits the -f/-g lists: cannot be part of a field name given on
// the command line), ';' and '=' (field and pair separators of the harness's
// DKVP I/O), plus TAB and US (0x1f).

import (
	"fmt"
	"strconv"

	"verif/harness/vf"
)

func joiners() []string {
	l := []string{""}
	for c := 0x20; c < 0x7f; c++ {
		ch := byte(c)
		switch {
		case ch >= '0' && ch <= '9', ch >= 'a' && ch <= 'z', ch >= 'A' && ch <= 'Z':
			continue
		case ch == ',' || ch == ';' || ch == '=':
			continue
		}
		l = append(l, string(ch))
	}
	return append(l, "\t", "\x1f")
}

func joinerName(s string) string {
	switch s {
	case "":
		return "(concatenation)"
	case " ":
		return "(space)"
	case "\t":
		return "(tab)"
	case "\x1f":
		return "(0x1f)"
	}
	return s
}

func joinerLabels() []string {
	var l []string
	for _, j := range joiners() {
		l = append(l, joinerName(j))
	}
	return l
}

func joinWorker(w *vf.Worker) {
	t := newT(w)
	quick := w.Quick()
	for _, s := range joiners() {
		fields := []string{"x", "a", "x" + s + "a"}
		groups := []string{"1", "a" + s + "1", "1" + s + "x"}
		G := []string{"g"}

		// record alphabet: group x (non-empty subset of the fields, value) + the record without any value field
		type sym struct {
			g    string
			mask int
			v    string
		}
		build := func(masks []int) []sym {
			var l []sym
			for _, g := range groups {
				for _, m := range masks {
					if m == 0 {
						l = append(l, sym{g, 0, ""})
						continue
					}
					for _, v := range []string{"1", "5"} {
						l = append(l, sym{g, m, v})
					}
				}
			}
			return l
		}
		mk := func(i int, sy sym) rec {
			r := rec{kv{"i", strconv.Itoa(i + 1)}, kv{"g", sy.g}}
			for fi, f := range fields {
				if sy.mask&(1<<fi) != 0 {
					r = append(r, kv{f, sy.v})
				}
			}
			return r
		}
		runAll := func(syms []sym, seq []int) {
			in := make([]rec, len(seq))
			full := true
			for i, k := range seq {
				in[i] = mk(i, syms[k])
				full = full && syms[k].mask == 7
			}
			w.Count("hit:joiner:"+joinerName(s), 1)
			// stats1: every accumulator of the table + percentiles; interpolated; sliding window; iterative
			checkStats1(t, s1cfg{accs: allAccs(), fields: fields, groupBy: G}, in)
			checkStats1(t, s1cfg{accs: []string{"p10", "p50", "p90", "count", "mean"}, fields: []string{fields[2], fields[0], fields[1]}, groupBy: G, interp: true}, in)
			checkStats1Window(t, s1cfg{accs: []string{"count", "sum", "mean", "max", "p50", "mode"}, fields: fields, groupBy: G}, 2, in)
			checkStats1Window(t, s1cfg{accs: []string{"count", "sum", "min", "median", "antimode"}, fields: fields, groupBy: G}, 0, in)
			// step: steppers that do not look forward (the forward ones have a known defect with records lacking a field)
			checkStep(t, stepCfg{steppers: []string{"shift", "delta", "rsum", "counter", "ratio", "from-first", "ewma", "shift_lag_2", "rprod"}, fields: fields, groupBy: G, alphas: []string{"0.5"}}, in)
			// fraction
			checkFraction(t, fields, G, false, false, in)
			checkFraction(t, fields, G, true, true, in)
			// top: with several value fields only on streams whose records all carry every field
			// (known defect otherwise: a record lacking one value field is ignored for all of them)
			if full {
				plain := make([]rec, len(in))
				for i, r := range in {
					plain[i] = r.without("i")
				}
				checkTop(t, fields, G, 2, false, false, "", plain)
				checkTop(t, []string{fields[2], fields[1], fields[0]}, G, 0, true, false, "", plain)
				w.Count("hit:joiner-verb:top", 2)
			}
			w.Count("hit:joiner-verb:stats1", 4)
			w.Count("hit:joiner-verb:step", 1)
			w.Count("hit:joiner-verb:fraction", 2)
		}

		// quick: one field or all three per record; thorough: every subset at n<=2, plus n=3 over the thinned alphabet
		t.family("join/"+joinerName(s), 8)
		thin := build([]int{1, 2, 4, 7})
		syms := thin
		if !quick {
			syms = build([]int{0, 1, 2, 3, 4, 5, 6, 7})
		}
		forEachSeq(len(syms), 0, 2, func(seq []int) {
			if t.next() {
				runAll(syms, seq)
			}
		})
		if !quick {
			t.family("join3/"+joinerName(s), 8)
			forEachSeq(len(thin), 3, 3, func(seq []int) {
				if t.next() {
					runAll(thin, seq)
				}
			})
		}

		// count-distinct -u keeps field -> value -> count: the texts of the other two components play the value role
		t.family("join-u/"+joinerName(s), 16)
		// per field: absent, 1, and the text(s) that would make its (field, value) join coincide with another field's
		valsOf := [][]string{{absent, "1", "a" + s + "1"}, {absent, "1", "1" + s + "x"}, {absent, "1"}}
		per := len(valsOf[0]) * len(valsOf[1]) * len(valsOf[2])
		maxU := 2
		if !quick {
			maxU = 3
		}
		forEachSeq(per, 1, maxU, func(seq []int) {
			if !t.next() {
				return
			}
			in := make([]rec, len(seq))
			for i, k := range seq {
				in[i] = mkrec("z", "0", fields[0], valsOf[0][k/6], fields[1], valsOf[1][(k/2)%3], fields[2], valsOf[2][k%2])
			}
			checkCountDistinct(t, fields, "-u", "", in)
			checkCountDistinct(t, []string{fields[2], fields[0]}, "-u", "", in)
			w.Count("hit:joiner-verb:count-distinct -u", 2)
		})
	}
	w.Sample(map[string]any{"family": "join", "joiners": len(joiners()), "example": cmdline(s1cfg{accs: []string{"p50", "count"}, fields: []string{"x", "a", "x_a"}, groupBy: []string{"g"}}.args(),
		[]rec{mkrec("i", "1", "g", "a_1", "x", "1"), mkrec("i", "2", "g", "1", "x_a", "5")})})
	_ = fmt.Sprint
}
