package c10

import (
	"fmt"
	"strconv"
	"strings"

	"github.com/johnkerl/miller/v6/pkg/transformers"
	"github.com/johnkerl/miller/v6/pkg/transformers/utils"

	"verif/harness/vf"
)

func parseFloatStrict(s string) (float64, error) { return strconv.ParseFloat(s, 64) }

func accumulatorNames() []string { return utils.VerifStats1AccumulatorNames() }
func stepperNames() []string     { return transformers.VerifStepperNames() }

// the percentile names added to every all-accumulator run
var somePercentiles = []string{"p0", "p10", "p25", "median", "p50", "p75", "p90", "p100", "p12.5", "p99.9"}

func allAccs() []string {
	return append(append([]string{}, accumulatorNames()...), somePercentiles...)
}

// ---------------------------------------------------------------- model of grouping

type group struct {
	key          []string // exact texts of the group-by fields
	firstAny     int      // index of the first record having all group-by fields
	firstContrib int      // index of the first record that also has a value field (-1: none)
	fields       map[string][]string // value field -> values of the records having it (stream order, empties included)
	members      []int
}

func keyText(k []string) string { return strings.Join(k, "\x1f") }

// groupsOf forms groups by the exact texts of the group-by fields; a record
// lacking a group-by field belongs to no group.
func groupsOf(in []rec, groupBy, valueFields []string) (gs []*group, byKey map[string]*group) {
	byKey = map[string]*group{}
	for i, r := range in {
		key := make([]string, 0, len(groupBy))
		ok := true
		for _, g := range groupBy {
			v, has := r.get(g)
			if !has {
				ok = false
				break
			}
			key = append(key, v)
		}
		if !ok {
			continue
		}
		kt := keyText(key)
		g := byKey[kt]
		if g == nil {
			g = &group{key: key, firstAny: i, firstContrib: -1, fields: map[string][]string{}}
			byKey[kt] = g
			gs = append(gs, g)
		}
		g.members = append(g.members, i)
		for _, f := range valueFields {
			if v, has := r.get(f); has {
				g.fields[f] = append(g.fields[f], v)
				if g.firstContrib < 0 {
					g.firstContrib = i
				}
			}
		}
	}
	return
}

// ---------------------------------------------------------------- stats1 (non-windowed)

type s1cfg struct {
	accs    []string
	fields  []string
	groupBy []string
	interp  bool
	extra   []string // extra flags passed through (e.g. -S -F no-ops)
}

func (c s1cfg) args() []string {
	a := []string{"stats1", "-a", strings.Join(c.accs, ","), "-f", strings.Join(c.fields, ",")}
	if len(c.groupBy) > 0 {
		a = append(a, "-g", strings.Join(c.groupBy, ","))
	}
	if c.interp {
		a = append(a, "-i")
	}
	return append(a, c.extra...)
}

// splitOutRecord separates the leading group-by fields of an output record.
func splitOutRecord(r rec, groupBy []string) (key []string, rest rec, ok bool) {
	if len(r) < len(groupBy) {
		return nil, nil, false
	}
	for i, g := range groupBy {
		if r[i].K != g {
			return nil, nil, false
		}
		key = append(key, r[i].V)
	}
	return key, r[len(groupBy):], true
}

// checkGroupOrder: the required groups must come in first-appearance order;
// when a group's first record does not contribute a value, "first appearance"
// can be read as first record or first contributing record: either accepted.
func orderOK(outKeys []string, gs []*group, byKey map[string]*group) bool {
	pos := func(useContrib bool) bool {
		last := -1
		for _, k := range outKeys {
			g := byKey[k]
			if g == nil {
				continue
			}
			p := g.firstAny
			if useContrib && g.firstContrib >= 0 {
				p = g.firstContrib
			}
			if p < last {
				return false
			}
			last = p
		}
		return true
	}
	return pos(false) || pos(true)
}

// checkStats1 runs one stats1 invocation and compares every output cell.
func checkStats1(t *T, cfg s1cfg, in []rec) {
	args := cfg.args()
	out, res := run1(args, in)
	t.w.Eval(1)
	if !res.OK() {
		t.viol("stats1.fails", args, in, "stats1 failed: "+res.String(), res.Stdout)
		return
	}
	gs, byKey := groupsOf(in, cfg.groupBy, cfg.fields)
	seen := map[string]bool{}
	var outKeys []string
	cells, uncon := int64(0), int64(0)
	for _, r := range out {
		key, rest, ok := splitOutRecord(r, cfg.groupBy)
		if !ok {
			if len(r) == 0 && len(cfg.groupBy) == 0 {
				continue // an empty record for "nothing accumulated": not determined by the documentation
			}
			t.viol("stats1.shape", args, in, fmt.Sprintf("output record %q does not start with the group-by fields %v", r.String(), cfg.groupBy), res.Stdout)
			continue
		}
		kt := keyText(key)
		g := byKey[kt]
		if g == nil {
			t.viol("stats1.group-phantom", args, in, fmt.Sprintf("output group %q does not occur in the input (groups are the exact texts of the group-by fields)", strings.Join(key, ";")), res.Stdout)
			continue
		}
		if seen[kt] {
			t.viol("stats1.group-split", args, in, fmt.Sprintf("group %q is emitted twice", strings.Join(key, ";")), res.Stdout)
			continue
		}
		seen[kt] = true
		outKeys = append(outKeys, kt)
		// cells
		got := map[string]string{}
		for _, e := range rest {
			got[e.K] = e.V
		}
		used := map[string]bool{}
		for _, f := range cfg.fields {
			all, present := g.fields[f]
			required := len(nonEmpty(all)) > 0
			for _, acc := range cfg.accs {
				name := f + "_" + acc
				v, has := got[name]
				used[name] = true
				if !present {
					if has {
						t.viol("stats1."+acc+".phantom", args, in, fmt.Sprintf("group %q has no record with field %s, yet %s=%s is emitted", strings.Join(key, ";"), f, name, v), res.Stdout)
					}
					continue
				}
				if !has {
					if required {
						t.viol("stats1."+acc+".missing", args, in, fmt.Sprintf("group %q: %s is not emitted although values %v contribute", strings.Join(key, ";"), name, all), res.Stdout)
					}
					continue
				}
				exp := accExpect(acc, all, cfg.interp)
				if !knownAccumulator(acc) {
					t.w.Count("unknown_accumulator:"+acc, 1)
				}
				if !exp.constrained() {
					uncon++
					continue
				}
				cells++
				switch exp.note {
				case "empty-policy":
					t.w.Count("empty_policy_cells", 1)
				case "boundary":
					t.w.Count("pct_boundary", 1)
				}
				if !exp.match(v) {
					t.viol("stats1."+accClass(acc), args, in, fmt.Sprintf("group %q field %s values %v: %s=%s, recomputation gives %s", strings.Join(key, ";"), f, all, name, v, exp), res.Stdout)
				}
			}
		}
		for _, e := range rest {
			if !used[e.K] {
				t.viol("stats1.extra-field", args, in, fmt.Sprintf("unexpected output field %s=%s", e.K, e.V), res.Stdout)
			}
		}
	}
	for _, g := range gs {
		required := false
		for _, f := range cfg.fields {
			if len(nonEmpty(g.fields[f])) > 0 {
				required = true
			}
		}
		if required && !seen[keyText(g.key)] {
			t.viol("stats1.group-missing", args, in, fmt.Sprintf("group %q has contributing records but is not emitted", strings.Join(g.key, ";")), res.Stdout)
		}
	}
	if !orderOK(outKeys, gs, byKey) {
		t.viol("stats1.group-order", args, in, "groups are not emitted in first-appearance order", res.Stdout)
	}
	t.w.Count("cells", cells)
	t.w.Count("unconstrained", uncon)
	if cells > 0 {
		t.w.Nontrivial(1)
	}
	if t.cases%97 == 0 {
		t.w.AddSet("outcomes", res.Stdout)
	}
}

func accClass(acc string) string {
	if _, ok := percentileOfName(acc); ok {
		return "percentile"
	}
	return acc
}

// ---------------------------------------------------------------- stats1 -w (sliding window) and -s (iterative)

// checkStats1Window: "compute statistics over a trailing window of up to n
// records (including the current one) ... Windows are kept per group ... One
// output record is emitted per input record, with the windowed statistics
// appended to it."
func checkStats1Window(t *T, cfg s1cfg, win int, in []rec) {
	args := append(cfg.args(), "-w", strconv.Itoa(win))
	if win == 0 {
		args = append(cfg.args(), "-s")
	}
	out, res := run1(args, in)
	t.w.Eval(1)
	if !res.OK() {
		t.viol("stats1-w.fails", args, in, "stats1 failed: "+res.String(), res.Stdout)
		return
	}
	cells, uncon := int64(0), int64(0)
	// expected: per input record in order
	type hist struct{ recs []rec }
	hs := map[string]*hist{}
	oi := 0
	for _, r := range in {
		key := make([]string, 0, len(cfg.groupBy))
		inGroup := true
		for _, g := range cfg.groupBy {
			v, has := r.get(g)
			if !has {
				inGroup = false
				break
			}
			key = append(key, v)
		}
		id, _ := r.get("i")
		if oi >= len(out) || func() bool { v, _ := out[oi].get("i"); return v != id }() {
			if win == 0 && !inGroup {
				uncon++ // -s: the usage text does not say what happens to a record lacking a group-by field
				continue
			}
			clause := "stats1-w.record-dropped"
			if win == 0 {
				clause = "stats1-s.record-dropped"
			}
			if inGroup {
				clause += "-ingroup"
			}
			t.viol(clause, args, in, fmt.Sprintf("input record %q has no output record in its place (documented: one output record per input record)", r.String()), res.Stdout)
			continue
		}
		o := out[oi]
		oi++
		if len(o) < len(r) || !recEq(o[:len(r)], r) {
			t.viol("stats1-w.record-changed", args, in, fmt.Sprintf("output record %q does not start with the input record %q", o.String(), r.String()), res.Stdout)
			continue
		}
		rest := o[len(r):]
		if !inGroup {
			if len(rest) > 0 {
				t.viol("stats1-w.phantom", args, in, fmt.Sprintf("record %q lacks a group-by field but received %q", r.String(), rest.String()), res.Stdout)
			}
			continue
		}
		h := hs[keyText(key)]
		if h == nil {
			h = &hist{}
			hs[keyText(key)] = h
		}
		h.recs = append(h.recs, r)
		if win > 0 && len(h.recs) > win {
			h.recs = h.recs[1:]
		}
		got := map[string]string{}
		for _, e := range rest {
			got[e.K] = e.V
		}
		used := map[string]bool{}
		for _, f := range cfg.fields {
			var all []string
			present := false
			for _, wr := range h.recs {
				if v, has := wr.get(f); has {
					all = append(all, v)
					present = true
				}
			}
			required := len(nonEmpty(all)) > 0
			for _, acc := range cfg.accs {
				name := f + "_" + acc
				v, has := got[name]
				used[name] = true
				if !present {
					// with -s (no eviction) a field that never occurred must not be reported; with -w a field
					// that has left the window is not determined by the documentation
					if has && win == 0 {
						t.viol("stats1-s.phantom", args, in, fmt.Sprintf("record %q: no record so far has field %s, yet %s=%s", r.String(), f, name, v), res.Stdout)
					} else if has {
						uncon++
					}
					continue
				}
				if !has {
					if required {
						t.viol("stats1-w."+acc+".missing", args, in, fmt.Sprintf("record %q: %s is not emitted although window values %v contribute", r.String(), name, all), res.Stdout)
					}
					continue
				}
				exp := accExpect(acc, all, cfg.interp)
				if !exp.constrained() {
					uncon++
					continue
				}
				cells++
				if exp.note == "empty-policy" {
					t.w.Count("empty_policy_cells", 1)
				} else if exp.note == "boundary" {
					t.w.Count("pct_boundary", 1)
				}
				if !exp.match(v) {
					cl := "stats1-w."
					if win == 0 {
						cl = "stats1-s."
					}
					t.viol(cl+accClass(acc), args, in, fmt.Sprintf("record %q window values of %s %v: %s=%s, recomputation gives %s", r.String(), f, all, name, v, exp), res.Stdout)
				}
			}
		}
		for _, e := range rest {
			if !used[e.K] {
				t.viol("stats1-w.extra-field", args, in, fmt.Sprintf("unexpected output field %s=%s", e.K, e.V), res.Stdout)
			}
		}
	}
	if oi < len(out) {
		t.viol("stats1-w.extra-record", args, in, fmt.Sprintf("%d output records beyond the input records", len(out)-oi), res.Stdout)
	}
	t.w.Count("cells", cells)
	t.w.Count("unconstrained", uncon)
	if cells > 0 {
		t.w.Nontrivial(1)
	}
}

// ---------------------------------------------------------------- worker: value-sequence families

type alpha struct {
	name    string
	syms    []string
	maxQ    int // max stream length, quick
	maxT    int // thorough
	accs    func() []string
	windows bool
}

func valueAlphabets() []alpha {
	return []alpha{
		{"main", []string{"1", "2", "3", "-1", "0.5", "2.5", "", "abc", absent}, 4, 5, allAccs, true},
		{"text-distinct", []string{"1", "1.0", "2", "2.0", "01x", absent}, 4, 5, allAccs, false},
		{"big-int", []string{"9007199254740993", "4611686018427387904", "-4611686018427387904", "1", "-1"}, 3, 4, func() []string {
			return []string{"count", "sum", "min", "max", "mean", "mode", "p50", "p0", "p100"}
		}, false},
		{"utf8", []string{"año", "alto", "x", "", "héé"}, 3, 4, func() []string {
			return []string{"count", "minlen", "maxlen", "mode", "antimode", "distinct_count", "null_count", "min", "max", "p50"}
		}, false},
	}
}

func symName(s string) string {
	switch s {
	case absent:
		return "(absent)"
	case "":
		return "(empty)"
	}
	return s
}

func stats1Worker(w *vf.Worker) {
	t := newT(w)
	if bad := validateRefAgainstDocs(); len(bad) > 0 && w.Shard == 0 {
		w.Broken("reference model disagrees with the documentation examples: %v", bad)
		return
	}
	for _, al := range valueAlphabets() {
		maxN := al.maxQ
		if !w.Quick() {
			maxN = al.maxT
		}
		t.family("stats1/"+al.name, 16)
		accs := al.accs()
		forEachSeq(len(al.syms), 0, maxN, func(seq []int) {
			if !t.next() {
				return
			}
			in := make([]rec, len(seq))
			for i, s := range seq {
				in[i] = mkrec("i", strconv.Itoa(i+1), "x", al.syms[s])
				w.Count("hit:value:"+symName(al.syms[s]), 1)
			}
			for _, interp := range []bool{false, true} {
				cfg := s1cfg{accs: accs, fields: []string{"x"}, interp: interp}
				checkStats1(t, cfg, in)
			}
			w.Count("hit:stats1", 2)
			w.Count("hit:stats1:-i", 1)
			for _, a := range accs {
				w.Count("hit:acc:"+a, 2)
			}
			if al.windows && len(seq) >= 1 {
				for _, win := range []int{1, 2, 3} {
					if win > len(seq) && win > 1 {
						continue
					}
					checkStats1Window(t, s1cfg{accs: accs, fields: []string{"x"}}, win, in)
					w.Count("hit:stats1:-w", 1)
				}
				checkStats1Window(t, s1cfg{accs: accs, fields: []string{"x"}}, 0, in)
				w.Count("hit:stats1:-s", 1)
			}
		})
	}
	// two value fields: -f x,y with independent presence (a record lacking y still contributes to x)
	t.family("stats1/two-fields", 16)
	two := []string{"1", "2.5", "", absent}
	maxN := 3
	if !w.Quick() {
		maxN = 4
	}
	forEachSeq(len(two)*len(two), 0, maxN, func(seq []int) {
		if !t.next() {
			return
		}
		in := make([]rec, len(seq))
		for i, s := range seq {
			in[i] = mkrec("i", strconv.Itoa(i+1), "x", two[s/len(two)], "y", two[s%len(two)])
		}
		checkStats1(t, s1cfg{accs: []string{"count", "sum", "mean", "min", "max", "p50", "mode", "null_count"}, fields: []string{"x", "y"}}, in)
		checkStats1(t, s1cfg{accs: []string{"p25", "p75", "count"}, fields: []string{"y", "x"}, extra: []string{"-S", "-F"}}, in)
		w.Count("hit:stats1:-f x,y", 2)
	})
	w.Sample(map[string]any{"family": "stats1/main", "example": cmdline(s1cfg{accs: allAccs(), fields: []string{"x"}}.args(), []rec{mkrec("i", "1", "x", "1"), mkrec("i", "2", "x", ""), mkrec("i", "3", "x", "2.5")})})
}

// ---------------------------------------------------------------- worker: exhaustive percentiles

func pctNames() []string {
	var l []string
	for p := 0; p <= 100; p++ {
		l = append(l, fmt.Sprintf("p%d", p))
	}
	return append(l, "median", "p00", "p050", "p12.5", "p37.5", "p62.5", "p87.5", "p33.3", "p66.7", "p99.9", "p0.1")
}

// nondecreasing sequences over {0..k-1} of length n (tie patterns)
func tiePatterns(k, n int, f func([]int)) {
	seq := make([]int, n)
	var rec func(pos, min int)
	rec = func(pos, min int) {
		if pos == n {
			f(seq)
			return
		}
		for v := min; v < k; v++ {
			seq[pos] = v
			rec(pos+1, v)
		}
	}
	rec(0, 0)
}

func permutations(n int, f func([]int)) {
	p := make([]int, n)
	for i := range p {
		p[i] = i
	}
	var rec func(k int)
	rec = func(k int) {
		if k == n {
			f(p)
			return
		}
		for i := k; i < n; i++ {
			p[k], p[i] = p[i], p[k]
			rec(k + 1)
			p[k], p[i] = p[i], p[k]
		}
	}
	rec(0)
}

func pctWorker(w *vf.Worker) {
	t := newT(w)
	t.family("percentiles", 1)
	names := pctNames()
	runOne := func(vals []string) {
		if !t.next() {
			return
		}
		in := make([]rec, len(vals))
		for i, v := range vals {
			in[i] = mkrec("x", v)
		}
		for _, interp := range []bool{false, true} {
			checkStats1(t, s1cfg{accs: names, fields: []string{"x"}, interp: interp}, in)
		}
		w.Count("hit:percentiles:n="+strconv.Itoa(len(vals)), 1)
	}
	maxN := 8
	if !w.Quick() {
		maxN = 10
	}
	ladders := [][]string{
		{"10", "20", "30", "40", "50", "60", "70", "80", "90", "100"},      // ints
		{"0.5", "1", "1.5", "2.5", "3", "4.25", "5", "6.5", "7", "8.75"},   // mixed int / dyadic float
		{"-3", "-1", "0", "2", "5", "abc", "abd", "b", "ba", "c"},          // numbers before strings
	}
	for n := 1; n <= maxN; n++ {
		for _, lad := range ladders {
			// sorted, reversed
			asc := append([]string{}, lad[:n]...)
			runOne(asc)
			desc := make([]string, n)
			for i := range asc {
				desc[i] = asc[n-1-i]
			}
			runOne(desc)
		}
		// every tie pattern over three distinct values (input given in a rotated order so that sorting matters)
		vals3 := []string{"1", "2.5", "7"}
		tiePatterns(3, n, func(seq []int) {
			vals := make([]string, n)
			// rotation by n/2
			for i, s := range seq {
				vals[(i+n/2)%n] = vals3[s]
			}
			runOne(vals)
		})
	}
	// all input orders of a ladder (the keeper must sort)
	maxP := 5
	if !w.Quick() {
		maxP = 6
	}
	for n := 2; n <= maxP; n++ {
		lad := []string{"3", "4", "5", "6", "9", "10"}[:n]
		permutations(n, func(p []int) {
			vals := make([]string, n)
			for i, j := range p {
				vals[i] = lad[j]
			}
			runOne(vals)
		})
	}
	w.Sample(map[string]any{"family": "percentiles", "percentile_names": len(names), "n_max": maxN})
}
