package c10

// Grouping families: streams of (group-by fields, value) records x every
// grouped verb configuration.

import (
	"strconv"

	"verif/harness/vf"
)

var groupAccs = []string{"count", "sum", "mean", "min", "max", "mode", "antimode", "distinct_count", "null_count", "var", "p25", "median", "p75", "minlen"}

func expectedHits() []string {
	l := []string{"stats1", "stats1:-i", "stats1:-w", "stats1:-s", "stats1:-g", "stats1:-g g,h", "stats1:--fr/--gr", "stats1:-f x,y",
		"count", "count:-g", "count:-n", "count:-o", "count-distinct", "count-distinct:-n", "count-distinct:-u", "count-distinct:-o", "count-distinct:-x",
		"count-similar", "count-similar:-o", "uniq", "uniq:-g", "uniq:-c", "uniq:-n", "uniq:-a", "uniq:-x", "uniq:-o",
		"top", "top:-a", "top:--min", "top:-n", "top:-o", "top:-g", "fraction", "fraction:-p", "fraction:-c", "fraction:-g",
		"histogram", "histogram:--auto", "histogram:-o", "most-frequent", "least-frequent", "most-frequent:-b", "most-frequent:-n", "most-frequent:-o",
		"fill-down", "fill-down:-a", "fill-down:--all", "fill-down:--only-if-absent",
		"step", "step:-g", "step:-o", "step:ewma-default-d", "step:-f x,y", "step:slwin-backward-only", "step:missing-window", "step:missing-window-grouped", "merge-fields", "merge-fields:-f", "merge-fields:-r", "merge-fields:-c", "merge-fields:-k", "merge-fields:-i",
		"dsl:array", "dsl:map", "group-text:comma", "group-text:1-vs-1.0", "group-text:(empty)", "group-text:(absent)"}
	l = append(l, "pct-grid:direct", "pct-grid:stats1", "pct-grid:merge-fields", "pct-grid:dsl",
		"joiner-verb:stats1", "joiner-verb:step", "joiner-verb:fraction", "joiner-verb:top", "joiner-verb:count-distinct -u")
	for _, j := range joiners() {
		l = append(l, "joiner:"+joinerName(j))
	}
	for _, a := range accumulatorNames() {
		l = append(l, "acc:"+a)
	}
	for _, a := range somePercentiles {
		l = append(l, "acc:"+a)
	}
	for _, s := range stepperNames() {
		l = append(l, "stepper:"+s)
	}
	for _, f := range dslStatsFunctions {
		l = append(l, "dsl:"+f)
	}
	for _, v := range []string{"1", "2", "3", "-1", "0.5", "2.5", "(empty)", "abc", "(absent)", "1.0", "9007199254740993"} {
		l = append(l, "value:"+v)
	}
	return l
}

// all-g-only verbs on one group-by list
func groupOnlyVerbs(t *T, G []string, in []rec, second bool) {
	checkCount(t, G, false, "", in)
	checkCount(t, G, true, "", in)
	checkCountDistinct(t, G, "", "", in)
	checkCountDistinct(t, G, "-n", "", in)
	checkCountDistinct(t, G, "-u", "", in)
	checkUniqG(t, G, false, false, "", in)
	checkUniqG(t, G, true, false, "", in)
	checkUniqG(t, G, false, true, "", in)
	checkFrequent(t, "most-frequent", G, 0, false, "", in)
	checkFrequent(t, "least-frequent", G, 2, false, "", in)
	checkFrequent(t, "most-frequent", G, 1, true, "", in)
	if second {
		checkCount(t, G, false, "N", in)
		checkCount(t, G, true, "N", in)
		checkCountDistinct(t, G, "", "N", in)
		checkCountDistinct(t, G, "-n", "N", in)
		checkCountDistinct(t, G, "-u", "N", in)
		checkUniqG(t, G, true, false, "N", in)
		checkUniqG(t, G, false, true, "N", in)
		checkFrequent(t, "most-frequent", G, 0, false, "N", in)
		checkFrequent(t, "least-frequent", G, 0, true, "", in)
	}
}

func withIDs(in []rec) []rec {
	out := make([]rec, len(in))
	for i, r := range in {
		out[i] = append(rec{kv{"i", strconv.Itoa(i + 1)}}, r...)
	}
	return out
}

func valueVerbs(t *T, G []string, in []rec, rich bool) {
	w := t.w
	gflag := "stats1:-g"
	if len(G) > 1 {
		gflag = "stats1:-g g,h"
	}
	// stats1 with groups
	checkStats1(t, s1cfg{accs: groupAccs, fields: []string{"x"}, groupBy: G}, in)
	w.Count("hit:"+gflag, 1)
	w.Count("hit:stats1", 1)
	ided := withIDs(in)
	checkCountSimilar(t, G, "", ided)
	if rich {
		checkStats1(t, s1cfg{accs: []string{"p10", "p50", "p90", "count", "mean"}, fields: []string{"x"}, groupBy: G, interp: true}, in)
		checkStats1Window(t, s1cfg{accs: []string{"count", "sum", "mean", "max", "p50", "mode"}, fields: []string{"x"}, groupBy: G}, 2, ided)
		w.Count("hit:stats1:-w", 1)
		checkStats1Window(t, s1cfg{accs: []string{"count", "sum", "mean", "min"}, fields: []string{"x"}, groupBy: G}, 0, ided)
		w.Count("hit:stats1:-s", 1)
		checkCountSimilar(t, G, "N", ided)
	}
	// step with groups
	checkStep(t, stepCfg{steppers: []string{"shift", "delta", "rsum", "counter", "ratio", "from-first", "ewma", "shift_lag_2"}, fields: []string{"x"}, groupBy: G, alphas: []string{"0.5"}}, ided)
	checkStep(t, stepCfg{steppers: []string{"shift_lead", "slwin_1_1", "rsum", "counter"}, fields: []string{"x"}, groupBy: G}, ided)
	if rich {
		checkStep(t, stepCfg{steppers: []string{"shift_lead_2", "slwin_0_2", "shift"}, fields: []string{"x"}, groupBy: G}, ided)
		// window averages without any look-forward stepper: records lacking x (or g) are outside the known finding
		checkStep(t, stepCfg{steppers: []string{"slwin_1_0", "slwin_2_0", "shift_lag", "delta"}, fields: []string{"x"}, groupBy: G}, ided)
	}
	// numeric-only verbs
	if numericOnly(in, "x") {
		checkTop(t, []string{"x"}, G, 0, false, false, "", in)
		checkTop(t, []string{"x"}, G, 2, true, false, "", in)
		checkTop(t, []string{"x"}, G, 2, false, true, "", ided)
		checkFraction(t, []string{"x"}, G, false, false, ided)
		checkFraction(t, []string{"x"}, G, false, true, ided)
		if rich {
			checkTop(t, []string{"x"}, G, 3, false, false, "rank", in)
			checkTopMaxFlag(t, G, in)
			checkTop(t, []string{"x"}, G, 1, true, true, "", ided)
			checkFraction(t, []string{"x"}, G, true, false, ided)
			checkFraction(t, []string{"x"}, G, true, true, ided)
		}
	} else {
		w.Count("domain_excluded:numeric-only-verbs", 1)
	}
}

func groupWorker(w *vf.Worker) {
	t := newT(w)
	quick := w.Quick()

	// ---- family A: one group-by field with numeric-looking, empty and absent texts
	gsyms := []string{"a", "b", "1", "1.0", "", absent}
	xsyms := []string{"1", "3", "2.5", "", absent}
	maxN := 3
	if !quick {
		maxN = 4
	}
	t.family("group/one-field", 8)
	G := []string{"g"}
	per := len(gsyms) * len(xsyms)
	famA := func(seq []int) {
		if !t.next() {
			return
		}
		in := make([]rec, len(seq))
		allFirstX := true
		has1, has10 := false, false
		for i, s := range seq {
			g, x := gsyms[s/len(xsyms)], xsyms[s%len(xsyms)]
			in[i] = mkrec("g", g, "x", x, "z", "0") // z: a record is never empty
			allFirstX = allFirstX && s%len(xsyms) == 0
			has1 = has1 || g == "1"
			has10 = has10 || g == "1.0"
			w.Count("hit:group-text:"+symName(g), 1)
		}
		if has1 && has10 {
			w.Count("hit:group-text:1-vs-1.0", 1)
		}
		if allFirstX {
			// verbs that look at the group-by field only: run once per g-sequence
			groupOnlyVerbs(t, G, in, true)
			checkUniqA(t, false, false, in)
		}
		valueVerbs(t, G, in, true)
		// whole-record verbs
		checkUniqA(t, true, false, in)
		checkUniqA(t, false, true, in)
		checkUniqX(t, "uniq", []string{"x"}, true, in)
		checkUniqX(t, "count-distinct", []string{"x"}, false, in)
		checkUniqX(t, "uniq", []string{"g"}, false, in)
		// ungrouped verbs on the value column
		checkFillDown(t, []string{"x"}, "", in)
		checkFillDown(t, []string{"x", "g"}, "-a", in)
		checkFillDown(t, nil, "--all", in)
		checkFillDown(t, []string{"g"}, "--only-if-absent", in)
		checkCount(t, nil, false, "", in)
		if numericOnly(in, "x") {
			checkHistogram(t, []string{"x"}, 0, 4, 4, false, "", in)
			checkHistogram(t, []string{"x"}, 1, 3, 2, false, "p_", in)
			checkHistogram(t, []string{"x"}, 0, 0, 2, true, "", in)
			checkHistogram(t, []string{"x"}, 0, 0, 3, true, "", in)
		}
		// law on the real code on both sides: --fr/--gr with anchored regexes == -f/-g when every record has g
		allHaveG := len(in) > 0
		for _, r := range in {
			allHaveG = allHaveG && r.has("g")
		}
		if allHaveG {
			a1 := []string{"stats1", "-a", "count,sum,p50,mode", "-f", "x", "-g", "g"}
			a2 := []string{"stats1", "-a", "count,sum,p50,mode", "--fr", "^x$", "--gr", "^g$"}
			o1, r1 := run1(a1, in)
			o2, r2 := run1(a2, in)
			w.Eval(1)
			w.Nontrivial(1)
			w.Count("hit:stats1:--fr/--gr", 1)
			same := r1.OK() == r2.OK() && len(o1) == len(o2)
			if same {
				for i := range o1 {
					same = same && recEq(o1[i], o2[i])
				}
			}
			if !same {
				t.viol("stats1.regex-law", a2, in, "stats1 --fr '^x$' --gr '^g$' differs from stats1 -f x -g g: "+recsText(o2)+" vs "+recsText(o1), r2.Stdout)
			}
		}
	}
	forEachSeq(per, 0, 3, famA)
	if !quick {
		// length 4 with the alphabets thinned to 5 group texts x {1, 2.5, absent}
		xsyms = []string{"1", "2.5", absent}
		gsyms = []string{"a", "b", "1", "1.0", absent}
		per = len(gsyms) * len(xsyms)
		t.family("group/one-field-n4", 8)
		forEachSeq(per, 4, 4, famA)
	}

	// ---- family B: two group-by fields; comma-bearing texts whose joins coincide
	pairs := [][2]string{{"a", "b"}, {"a", "c"}, {"b", "b"}, {"a,b", "c"}, {"a", "b,c"}, {absent, "a"}, {"a", absent}, {"ab", "c"}, {"a", "bc"}}
	xs2 := []string{"1", "2.5", absent}
	t.family("group/two-fields", 8)
	G2 := []string{"g", "h"}
	per2 := len(pairs) * len(xs2)
	famB := func(seq []int) {
		if !t.next() {
			return
		}
		in := make([]rec, len(seq))
		allFirstX := true
		c1, c2 := false, false
		for i, s := range seq {
			p, x := pairs[s/len(xs2)], xs2[s%len(xs2)]
			in[i] = mkrec("g", p[0], "h", p[1], "x", x, "z", "0")
			allFirstX = allFirstX && s%len(xs2) == 0
			c1 = c1 || p[0] == "a,b"
			c2 = c2 || p[1] == "b,c"
		}
		t.collision = c1 && c2
		if c1 && c2 {
			w.Count("hit:group-text:comma", 1)
		}
		if allFirstX {
			groupOnlyVerbs(t, G2, in, false)
			groupOnlyVerbs(t, []string{"h", "g"}, in, false)
			checkUniqX(t, "uniq", []string{"x"}, true, in)
		}
		valueVerbs(t, G2, in, false)
		t.collision = false
	}
	forEachSeq(per2, 0, 3, famB)
	if !quick {
		// length 4 with 7 pairs x {1, 2.5}
		pairs = [][2]string{{"a", "b"}, {"a,b", "c"}, {"a", "b,c"}, {absent, "a"}, {"a", absent}, {"ab", "c"}, {"a", "bc"}}
		xs2 = []string{"1", "2.5"}
		per2 = len(pairs) * len(xs2)
		t.family("group/two-fields-n4", 8)
		forEachSeq(per2, 4, 4, famB)
	}

	// ---- family C: two value fields with independent presence, for top / fraction / histogram
	t.family("group/two-values", 8)
	vs := []string{"1", "3", absent}
	gs3 := []string{"a", "b"}
	per3 := len(gs3) * len(vs) * len(vs)
	forEachSeq(per3, 0, maxN, func(seq []int) {
		if !t.next() {
			return
		}
		in := make([]rec, len(seq))
		for i, s := range seq {
			in[i] = mkrec("g", gs3[s/(len(vs)*len(vs))], "x", vs[(s/len(vs))%len(vs)], "y", vs[s%len(vs)], "z", "0")
		}
		ided := withIDs(in)
		checkTop(t, []string{"x", "y"}, []string{"g"}, 2, false, false, "", in)
		checkTop(t, []string{"y", "x"}, nil, 0, true, false, "", in)
		checkFraction(t, []string{"x", "y"}, []string{"g"}, false, false, ided)
		checkFraction(t, []string{"x", "y"}, nil, false, true, ided)
		checkHistogram(t, []string{"x", "y"}, 0, 4, 2, false, "", in)
		checkHistogram(t, []string{"x", "y"}, 0, 0, 2, true, "", in)
		checkStats1(t, s1cfg{accs: []string{"count", "sum", "max"}, fields: []string{"x", "y"}, groupBy: []string{"g"}}, in)
	})
	w.Sample(map[string]any{"family": "group/two-fields", "example": cmdline([]string{"count", "-g", "g,h"}, []rec{mkrec("g", "a,b", "h", "c", "x", "1"), mkrec("g", "a", "h", "b,c", "x", "1")})})
}
