package c10

// The (p, n) grid of the percentile index rule.
//
// The index of a non-interpolated percentile is a function of (p, n) only:
// int(p*n/100), clamped. A mistake in how that number is computed (operation
// order, an intermediate p/100, n-1 for n, a rounding call) does not depend on
// the data and may show up only at particular (p, n) pairs far beyond the
// stream lengths of the other families. So the grid is walked on its own:
//
//   - direct: bifs.GetPercentileNonInterpolated / GetPercentileLinearlyInterpolated
//     on the ascending ladder 1,4,9,...,n^2 for EVERY n in 1..N and EVERY p in
//     {0, 0.25, 0.5, ..., 100} (401 values, all exactly representable, all
//     integers among them); the expected element is computed in integer
//     arithmetic: k = (4p*n) div 400, exact boundary iff (4p*n) mod 400 == 0.
//   - CLI binding: for every n in 1..M the values 1..n in a scrambled order go
//     through stats1 [-i], merge-fields [-i] and the DSL percentiles() /
//     median() / percentile() functions with p0..p100 and the fractional names,
//     compared cell by cell with the reference model (ref.go).
//
// At exact boundaries the uniform-reading law of ref.go applies.

import (
	"fmt"
	"math"
	"sort"
	"strconv"
	"strings"

	"github.com/johnkerl/miller/v6/pkg/bifs"
	"github.com/johnkerl/miller/v6/pkg/mlrval"

	"verif/harness/vf"
)

const pctGridSteps = 400 // p = j/4, j = 0..400

func pctGridBounds(quick bool) (directN, cliN int) {
	if quick {
		return 10000, 400
	}
	return 100000, 2000
}

// violKey records a violation that has no record stream (direct calls, DSL programs).
func (t *T) violKey(clause, detail, what string, replay map[string]any) {
	if t.perClause == nil {
		t.perClause = map[string]int{}
	}
	t.perClause[clause]++
	if f := dumpFile(); f != nil {
		fmt.Fprintf(f, "%s\t%s\t%v\t%s(%s)\n", clause, what, replay["command"], clause, detail)
		f.Close()
	}
	if t.perClause[clause] > perClauseCap {
		t.w.Count("further_witnesses:"+clause, 1)
		return
	}
	t.w.Violation(fmt.Sprintf("%s(%s)", clause, detail), what, replay)
}

func pctLabel(j int) string {
	// j quarter-percents as a decimal: 58, 12.5, 0.25
	s := strconv.FormatFloat(float64(j)/4, 'f', -1, 64)
	return s
}

func pctGridWorker(w *vf.Worker) {
	t := newT(w)
	directN, cliN := pctGridBounds(w.Quick())
	reading := boundaryReading()
	w.Count("boundary_reading:"+map[int]string{readHigh: "sorted[k] (function-help example)", readLow: "sorted[k-1] (R type=1)", readEither: "undetermined"}[reading], 1)

	// ---- direct grid
	t.family("pct-grid/direct", 64)
	ladder := make([]*mlrval.Mlrval, directN)
	sq := make([]int64, directN)
	for i := range ladder {
		sq[i] = int64(i+1) * int64(i+1)
		ladder[i] = mlrval.FromInt(sq[i])
	}
	for n := 1; n <= directN; n++ {
		if !t.next() {
			continue
		}
		arr := ladder[:n]
		var cells, boundary int64
		for j := 0; j <= pctGridSteps; j++ {
			p := float64(j) / 4 // exact
			// ---- non-interpolated
			prod := int64(j) * int64(n)
			k := int(prod / pctGridSteps)
			exact := prod%pctGridSteps == 0
			clamp := func(i int) int {
				if i > n-1 {
					return n - 1
				}
				return i
			}
			want := []int{clamp(k)}
			if exact && k >= 1 && k <= n-1 {
				boundary++
				switch reading {
				case readLow:
					want = []int{k - 1}
				case readEither:
					want = []int{k, k - 1}
				}
			}
			var got string
			if pv, _ := vf.Try(func() { got = bifs.GetPercentileNonInterpolated(arr, n, p).String() }); pv != nil {
				got = fmt.Sprintf("(panic: %v)", pv)
			}
			ok := false
			for _, idx := range want {
				ok = ok || got == strconv.FormatInt(sq[idx], 10)
			}
			cells++
			if !ok {
				cmd := fmt.Sprintf("seq 1 %d | awk '{print \"x=\" $1*$1}' | mlr stats1 -a p%s -f x", n, pctLabel(j))
				t.violKey("pct-grid.index", fmt.Sprintf("p=%s|n=%d", pctLabel(j), n),
					fmt.Sprintf("non-interpolated percentile p=%s over the %d values 1,4,9,...,%d: got %s, the documented index int(p*n/100)=%d (p*n/100 = %d + %d/400) selects %d :: %s",
						pctLabel(j), n, sq[n-1], got, want[0], k, prod%pctGridSteps, sq[want[0]], cmd),
					map[string]any{"command": cmd, "p": p, "n": n, "got": got, "expected_sorted_index": want})
			}
			// ---- interpolated: findex = p/100*(n-1)
			prodI := int64(j) * int64(n-1)
			q, rem := int(prodI/pctGridSteps), prodI%pctGridSteps
			var exp float64
			if q >= n-1 {
				exp = float64(sq[n-1])
			} else {
				exp = float64(sq[q]) + float64(rem)/pctGridSteps*float64(sq[q+1]-sq[q])
			}
			var gotI string
			if pv, _ := vf.Try(func() { gotI = bifs.GetPercentileLinearlyInterpolated(arr, n, p).String() }); pv != nil {
				gotI = fmt.Sprintf("(panic: %v)", pv)
			}
			cells++
			g, err := strconv.ParseFloat(gotI, 64)
			if err != nil || math.IsNaN(g) || math.Abs(g-exp) > 1e-9*math.Max(math.Abs(exp), 1) {
				cmd := fmt.Sprintf("seq 1 %d | awk '{print \"x=\" $1*$1}' | mlr stats1 -i -a p%s -f x", n, pctLabel(j))
				t.violKey("pct-grid.interpolated", fmt.Sprintf("p=%s|n=%d", pctLabel(j), n),
					fmt.Sprintf("interpolated percentile p=%s over the %d values 1,4,9,...,%d: got %s, recomputation (position %d + %d/400 between %d and %d) gives %v :: %s",
						pctLabel(j), n, sq[n-1], gotI, q, rem, sq[q], sq[clamp(q+1)], exp, cmd),
					map[string]any{"command": cmd, "p": p, "n": n, "got": gotI, "expected": exp})
			}
		}
		w.Eval(2)
		w.Nontrivial(2)
		w.Count("cells", cells)
		w.Count("pct_boundary", boundary)
		w.Count("pct_grid_direct_cells", cells)
		w.Count("hit:pct-grid:direct", 1)
	}

	// ---- CLI binding
	t.family("pct-grid/cli", 1)
	names := pctNames()
	for n := 1; n <= cliN; n++ {
		if !t.next() {
			continue
		}
		checkPctRowCLI(t, n, names)
	}
	w.Sample(map[string]any{"family": "pct-grid", "direct_n_max": directN, "direct_p_values": pctGridSteps + 1, "cli_n_max": cliN, "cli_percentile_names": len(names)})
}

// scrambled returns the values 1..n in a fixed non-sorted order (a stride
// coprime to n near 0.618 n), so that the sort inside Miller matters.
func scrambled(n int) []string {
	gcd := func(a, b int) int {
		for b != 0 {
			a, b = b, a%b
		}
		return a
	}
	step := int(0.618*float64(n)) + 1
	for gcd(step, n) != 1 {
		step++
	}
	out := make([]string, n)
	for i := 0; i < n; i++ {
		out[i] = strconv.Itoa((i*step)%n + 1)
	}
	return out
}

func checkPctRowCLI(t *T, n int, names []string) {
	w := t.w
	vals := scrambled(n)
	ints := make([]int, n)
	for i, v := range vals {
		ints[i], _ = strconv.Atoi(v)
	}
	sort.Ints(ints)
	sorted := make([]string, n)
	for i, v := range ints {
		sorted[i] = strconv.Itoa(v)
	}
	reading := boundaryReading()
	cells := int64(0)
	// compare one surface's cells: get(name) returns the output for percentile name `name`
	compare := func(clause, command string, interp bool, names []string, get func(name string) (string, bool), stdout string) {
		w.Eval(1)
		w.Nontrivial(1)
		for _, name := range names {
			p, _ := percentileOfName(name)
			exp := refPercentileSorted(sorted, p, interp, reading)
			if !exp.constrained() {
				continue
			}
			cells++
			if exp.note == "boundary" {
				w.Count("pct_boundary", 1)
			}
			v, has := get(name)
			if !has || !exp.match(v) {
				mode := ""
				if interp {
					mode = " interpolated"
				}
				t.violKey(clause, fmt.Sprintf("%s|n=%d", name, n),
					fmt.Sprintf("%s%s over the values 1..%d (scrambled): got %q, recomputation gives %s :: %s", name, mode, n, v, exp, command),
					map[string]any{"command": command, "n": n, "name": name, "got": v, "stdout": trunc(stdout, 2000)})
			}
		}
	}
	seqCmd := fmt.Sprintf("(scrambled order; any order of) seq 1 %d", n)

	// stats1
	in := make([]rec, n)
	for i, v := range vals {
		in[i] = mkrec("x", v)
	}
	for _, interp := range []bool{false, true} {
		args := []string{"stats1", "-a", joinC(names), "-f", "x"}
		if interp {
			args = append(args, "-i")
		}
		out, res := run1(args, in)
		cmd := seqCmd + " | awk '{print \"x=\" $1}' | mlr " + strings.Join(args, " ")
		if !res.OK() || len(out) != 1 {
			t.violKey("pct-grid.stats1.fails", fmt.Sprintf("n=%d", n), "stats1 failed: "+res.String()+" :: "+cmd, map[string]any{"command": cmd})
			continue
		}
		compare("pct-grid.stats1", cmd, interp, names, func(name string) (string, bool) { return out[0].get("x_" + name) }, res.Stdout)
		w.Count("hit:pct-grid:stats1", 1)
	}
	// merge-fields: one record, n fields
	var wide rec
	for i, v := range vals {
		wide = append(wide, kv{"v" + strconv.Itoa(i+1), v})
	}
	for _, interp := range []bool{false, true} {
		args := []string{"merge-fields", "-a", joinC(names), "-r", "^v", "-o", "out"}
		if interp {
			args = append(args, "-i")
		}
		out, res := run1(args, []rec{wide})
		cmd := seqCmd + " | awk '{printf \"%sv%d=%d\", (NR>1?\";\":\"\"), NR, $1} END{print \"\"}' | mlr --ifs ';' --ofs ';' " + strings.Join(args, " ")
		if !res.OK() || len(out) != 1 {
			t.violKey("pct-grid.merge-fields.fails", fmt.Sprintf("n=%d", n), "merge-fields failed: "+res.String()+" :: "+cmd, map[string]any{"command": cmd})
			continue
		}
		compare("pct-grid.merge-fields", cmd, interp, names, func(name string) (string, bool) { return out[0].get("out_" + name) }, res.Stdout)
		w.Count("hit:pct-grid:merge-fields", 1)
	}
	// DSL: percentiles() as map, with and without interpolation; median(), percentile()
	var ps []string
	for _, name := range names {
		// "00" and "050" are respellings of 0 and 50: as DSL literals they would raise number-grammar questions (C06)
		if name != "median" && name != "p00" && name != "p050" {
			ps = append(ps, name[1:])
		}
	}
	// scalar entries first: emit of a map whose first value is a map splits it into one record per submap
	prog := "end{a=[" + joinC(vals) + "];ps=[" + joinC(ps) + "];@o={};" +
		`@o["median"]=median(a);@o["pct58"]=percentile(a,58);@o["pct29"]=percentile(a,29);` +
		`@o["ps"]=percentiles(a,ps);@o["psil"]=percentiles(a,ps,{"interpolate_linearly":true});emit @o}`
	args := []string{"-n", "--ofs", ";", "--flatsep", ":", "put", "-q", prog}
	r := vf.RunMlr(args, vf.MlrOpts{})
	cmd := "mlr -n --ofs ';' --flatsep : put -q '" + trunc(prog, 300) + "'"
	outs := decode(r.Stdout)
	if !r.OK() || len(outs) != 1 {
		t.violKey("pct-grid.dsl.fails", fmt.Sprintf("n=%d", n), "DSL run failed: "+r.String()+" :: "+cmd, map[string]any{"command": cmd})
	} else {
		o := outs[0]
		// the map returned by percentiles() is keyed by the percentile as written
		var dslNames []string
		for _, p := range ps {
			dslNames = append(dslNames, "p"+p)
		}
		compare("pct-grid.dsl-percentiles", cmd, false, dslNames, func(name string) (string, bool) { return o.get("ps:" + name[1:]) }, r.Stdout)
		compare("pct-grid.dsl-percentiles", cmd, true, dslNames, func(name string) (string, bool) { return o.get("psil:" + name[1:]) }, r.Stdout)
		compare("pct-grid.dsl-median", cmd, false, []string{"median", "p58", "p29"}, func(name string) (string, bool) {
			switch name {
			case "median":
				return o.get("median")
			case "p58":
				return o.get("pct58")
			}
			return o.get("pct29")
		}, r.Stdout)
		w.Count("hit:pct-grid:dsl", 1)
	}
	w.Count("cells", cells)
	w.Count("pct_grid_cli_cells", cells)
}

func trunc(s string, n int) string {
	if len(s) <= n {
		return s
	}
	return s[:n] + "..."
}
