package c10

// Reference model: every quantity from its definition over the list of
// contributing values. Exact rational arithmetic; no code shared with Miller.

import (
	"fmt"
	"math"
	"math/big"
	"sort"
	"strings"
	"sync"
	"unicode/utf8"

	"verif/harness/vf"
)

type vkind int

const (
	kEmpty vkind = iota
	kInt
	kFloat
	kString
)

// classify: the alphabets of this check only contain plain decimal ints,
// plain decimal floats and letters, so a tiny scanner is enough (number
// grammar corner cases belong to C06).
func classify(s string) vkind {
	if s == "" {
		return kEmpty
	}
	i := 0
	if s[0] == '-' {
		i = 1
	}
	digits, dots := 0, 0
	for ; i < len(s); i++ {
		switch {
		case s[i] >= '0' && s[i] <= '9':
			digits++
		case s[i] == '.':
			dots++
		default:
			return kString
		}
	}
	if digits == 0 || dots > 1 {
		return kString
	}
	if dots == 1 {
		return kFloat
	}
	return kInt
}

func isNum(s string) bool { k := classify(s); return k == kInt || k == kFloat }

func ratOf(s string) *big.Rat {
	r, ok := new(big.Rat).SetString(s)
	if !ok {
		panic("ratOf: " + s)
	}
	return r
}

var (
	bigMinI64 = big.NewInt(math.MinInt64)
	bigMaxI64 = big.NewInt(math.MaxInt64)
)

func fitsInt64(r *big.Rat) bool {
	return r.IsInt() && r.Num().Cmp(bigMinI64) >= 0 && r.Num().Cmp(bigMaxI64) <= 0
}

func ratF(r *big.Rat) float64 { f, _ := r.Float64(); return f }

// ---------------------------------------------------------------- expected cells

type cell struct {
	kind  string // int | num | tol | text | nonnum | free
	r     *big.Rat
	f     float64
	scale float64
	text  string
	alts  []cell
	note  string
}

func cFree(note string) cell         { return cell{kind: "free", note: note} }
func cInt(r *big.Rat) cell           { return cell{kind: "int", r: r} }
func cIntN(n int) cell               { return cell{kind: "int", r: big.NewRat(int64(n), 1)} }
func cNum(r *big.Rat) cell           { return cell{kind: "num", r: r} }
func cTol(f, scale float64) cell     { return cell{kind: "tol", f: f, scale: scale} }
func cText(s string) cell            { return cell{kind: "text", text: s} }
func cNonNum() cell                  { return cell{kind: "nonnum"} }
func (c cell) or(alt cell) cell      { c.alts = append(c.alts, alt); return c }
func (c cell) constrained() bool     { return c.kind != "free" }
func cTolR(r *big.Rat, s float64) cell { return cTol(ratF(r), s) }

func (c cell) String() string {
	s := ""
	switch c.kind {
	case "int":
		s = "int " + c.r.RatString()
	case "num":
		s = "number " + c.r.RatString() + fmt.Sprintf(" (=%v)", ratF(c.r))
	case "tol":
		s = fmt.Sprintf("%v (rel 1e-9)", c.f)
	case "text":
		s = fmt.Sprintf("%q", c.text)
	case "nonnum":
		s = "empty/non-numeric"
	case "free":
		s = "anything"
	}
	for _, a := range c.alts {
		s += " or " + a.String()
	}
	return s
}

func intSpelled(s string) bool { return classify(s) == kInt }

// parseOut parses a number printed by Miller.
func parseOut(s string) (*big.Rat, bool) {
	if s == "" || strings.ContainsAny(s, "nN(") && !strings.ContainsAny(s, "0123456789") {
		return nil, false
	}
	f, err := parseFloatStrict(s)
	if err != nil || math.IsNaN(f) || math.IsInf(f, 0) {
		return nil, false
	}
	r, ok := new(big.Rat).SetString(s)
	if !ok {
		return nil, false
	}
	return r, true
}

func (c cell) match(got string) bool {
	for _, a := range c.alts {
		if a.match(got) {
			return true
		}
	}
	switch c.kind {
	case "free":
		return true
	case "text":
		return got == c.text
	case "nonnum":
		_, ok := parseOut(got)
		return !ok
	case "int":
		r, ok := parseOut(got)
		return ok && intSpelled(got) && r.Cmp(c.r) == 0
	case "num":
		r, ok := parseOut(got)
		return ok && r.Cmp(c.r) == 0
	case "tol":
		r, ok := parseOut(got)
		if !ok {
			return false
		}
		g := ratF(r)
		tol := 1e-9 * math.Max(math.Abs(c.f), c.scale)
		return math.Abs(g-c.f) <= tol
	}
	return false
}

// ---------------------------------------------------------------- list statistics

type numlist struct {
	xs      []*big.Rat
	allInt  bool
	maxAbs  float64
	hasText bool // a non-numeric, non-empty string is present in the source list
}

func numsOf(vals []string) numlist {
	nl := numlist{allInt: true}
	for _, v := range vals {
		switch classify(v) {
		case kInt:
			nl.xs = append(nl.xs, ratOf(v))
		case kFloat:
			nl.xs = append(nl.xs, ratOf(v))
			nl.allInt = false
		case kString:
			nl.hasText = true
		}
	}
	for _, x := range nl.xs {
		if a := math.Abs(ratF(x)); a > nl.maxAbs {
			nl.maxAbs = a
		}
	}
	return nl
}

func rsum(xs []*big.Rat) *big.Rat {
	s := new(big.Rat)
	for _, x := range xs {
		s.Add(s, x)
	}
	return s
}

func rmean(xs []*big.Rat) *big.Rat {
	return new(big.Rat).Quo(rsum(xs), big.NewRat(int64(len(xs)), 1))
}

// central power sum: sum (x-mean)^k
func rcentral(xs []*big.Rat, k int) *big.Rat {
	m := rmean(xs)
	s := new(big.Rat)
	for _, x := range xs {
		d := new(big.Rat).Sub(x, m)
		p := big.NewRat(1, 1)
		for i := 0; i < k; i++ {
			p.Mul(p, d)
		}
		s.Add(s, p)
	}
	return s
}

func rdiv(a *big.Rat, n int) *big.Rat { return new(big.Rat).Quo(a, big.NewRat(int64(n), 1)) }

// sample variance, denominator n-1 (usage: "sample variance"; function help example variance([4,5,9,10,11]) is 9.7)
func rvar(xs []*big.Rat) *big.Rat { return rdiv(rcentral(xs, 2), len(xs)-1) }

func refSkewness(xs []*big.Rat) (float64, bool) {
	n := len(xs)
	s2 := ratF(rvar(xs))
	if s2 == 0 {
		return 0, false
	}
	return ratF(rdiv(rcentral(xs, 3), n)) / math.Pow(s2, 1.5), true
}

func refKurtosis(xs []*big.Rat) (float64, bool) {
	n := len(xs)
	m2 := ratF(rdiv(rcentral(xs, 2), n))
	if m2 == 0 {
		return 0, false
	}
	return ratF(rdiv(rcentral(xs, 4), n))/(m2*m2) - 3, true
}

func refMad(xs []*big.Rat) *big.Rat {
	m := rmean(xs)
	s := new(big.Rat)
	for _, x := range xs {
		d := new(big.Rat).Sub(x, m)
		s.Add(s, d.Abs(d))
	}
	return rdiv(s, len(xs))
}

// validateRefAgainstDocs checks the reference against the worked examples in
// the function help (so that a modelling error shows up as BROKEN, not as a
// violation).
func validateRefAgainstDocs() []string {
	var bad []string
	L := func(v ...string) []*big.Rat { return numsOf(v).xs }
	near := func(name string, got, want float64) {
		if math.Abs(got-want) > 6e-8*math.Max(1, math.Abs(want)) {
			bad = append(bad, fmt.Sprintf("%s: reference %v, documentation %v", name, got, want))
		}
	}
	a := L("4", "5", "9", "10", "11")
	near("variance([4,5,9,10,11])", ratF(rvar(a)), 9.7)
	near("stddev([4,5,9,10,11])", math.Sqrt(ratF(rvar(a))), 3.1144823)
	sk, _ := refSkewness(a)
	near("skewness([4,5,9,10,11])", sk, -0.2097285)
	ku, _ := refKurtosis(a)
	near("kurtosis([4,5,9,10,11])", ku, -1.6703688)
	b := L("4", "5", "7", "10")
	near("mean([4,5,7,10])", ratF(rmean(b)), 6.5)
	near("meaneb([4,5,7,10])", math.Sqrt(ratF(rvar(b))/4), 1.3228756)
	// percentiles([3,4,5,6,9,10], [25,75]) is 4, 9 ; interpolated 4.25, 8.25 ; percentile(...,90) is 10 / 9.5 ; median is 6 / 5.5
	v := []string{"3", "4", "5", "6", "9", "10"}
	chk := func(p string, interp bool, want string) {
		c := refPercentileSorted(sortForPercentiles(v), ratOf(p), interp, readEither)
		if !c.match(want) {
			bad = append(bad, fmt.Sprintf("percentile p=%s interp=%v: reference %s, documentation %s", p, interp, c, want))
		}
	}
	chk("25", false, "4")
	chk("75", false, "9")
	chk("90", false, "10")
	chk("50", false, "6")
	chk("25", true, "4.25")
	chk("75", true, "8.25")
	chk("90", true, "9.5")
	chk("50", true, "5.5")
	s := refPercentileSorted(sortForPercentiles([]string{"abc", "def", "ghi", "ghi"}), ratOf("25"), false, readEither)
	if !s.match("def") {
		bad = append(bad, "percentile of strings p25")
	}
	if m := refMode([]string{"3", "3", "4", "4"}, false); m != "3" {
		bad = append(bad, "mode tie")
	}
	if m := refMode([]string{"3", "3", "4", "4", "4"}, true); m != "3" {
		bad = append(bad, "antimode")
	}
	return bad
}

// sortForPercentiles: numbers before strings, numbers numerically, strings lexically
// (stats1 usage: "In case of mixed data, numbers are less than strings"; sort function help).
func sortForPercentiles(vals []string) []string {
	out := append([]string{}, vals...)
	sort.SliceStable(out, func(i, j int) bool {
		ni, nj := isNum(out[i]), isNum(out[j])
		switch {
		case ni && nj:
			return ratOf(out[i]).Cmp(ratOf(out[j])) < 0
		case ni != nj:
			return ni
		}
		return out[i] < out[j]
	})
	return out
}

func valueCell(v string) cell {
	if isNum(v) {
		return cNum(ratOf(v))
	}
	return cText(v)
}

// ---------------------------------------------------------------- percentile boundary rule
//
// Where p*n/100 is an exact integer k the shipped texts give two readings:
// the verb usage ("like R's type=1") means sorted[k-1], the function-help
// worked example median([3,4,5,6,9,10]) = 6 means sorted[k]. No reading makes
// the choice depend on p or n, so the SAME reading has to hold at every such
// cell (law: uniform index rule). Which of the two documented readings Miller
// follows is taken from that very worked example, run through the real code
// once per process; every other boundary cell is then held to it. This only
// applies when p is exactly representable in binary (integers, .5, .25, ...):
// the product p*n is then exact in float64 and the documented formula has one
// value. For a p like 33.3 the nearest double is not 33.3, and which side of
// an exact decimal boundary (n a multiple of 1000) the float product falls on
// is not determined by the documentation: either neighbour is accepted there.

const (
	readEither = 0
	readHigh   = 1  // sorted[k]   (function-help example)
	readLow    = -1 // sorted[k-1] (R type=1)
)

var (
	boundaryOnce sync.Once
	boundaryMode int
)

// boundaryReading probes the documented worked example on the real code.
func boundaryReading() int {
	boundaryOnce.Do(func() {
		r := vf.RunMlr([]string{"-n", "put", "end{print median([3,4,5,6,9,10])}"}, vf.MlrOpts{})
		switch strings.TrimSpace(r.Stdout) {
		case "6":
			boundaryMode = readHigh
		case "5":
			boundaryMode = readLow
		default:
			boundaryMode = readEither // reported by the DSL family as a wrong median
		}
	})
	return boundaryMode
}

func isDyadic(p *big.Rat) bool {
	d := p.Denom()
	return new(big.Int).And(d, new(big.Int).Sub(d, big.NewInt(1))).Sign() == 0
}

// refPercentile: vals are the contributing (non-empty) values, unsorted.
func refPercentile(vals []string, p *big.Rat, interp bool) cell {
	if len(vals) == 0 {
		return cFree("no data")
	}
	return refPercentileSorted(sortForPercentiles(vals), p, interp, boundaryReading())
}

// refPercentileSorted: sorted = the contributing values in percentile order.
func refPercentileSorted(sorted []string, p *big.Rat, interp bool, reading int) cell {
	n := len(sorted)
	if n == 0 {
		return cFree("no data")
	}
	if !interp {
		// position p*n/100
		pos := new(big.Rat).Mul(p, big.NewRat(int64(n), 100))
		fl := new(big.Int).Div(pos.Num(), pos.Denom()) // floor (denominator positive)
		k := int(fl.Int64())
		clamp := func(i int) int {
			if i < 0 {
				return 0
			}
			if i > n-1 {
				return n - 1
			}
			return i
		}
		c := valueCell(sorted[clamp(k)])
		if pos.IsInt() && k >= 1 && clamp(k-1) != clamp(k) {
			if !isDyadic(p) {
				reading = readEither
			}
			switch reading {
			case readLow:
				c = valueCell(sorted[clamp(k-1)])
			case readEither:
				// documented both ways (R type 1 vs function-help example): either neighbour
				c = c.or(valueCell(sorted[clamp(k-1)]))
			}
			c.note = "boundary"
		}
		return c
	}
	for _, v := range sorted {
		if !isNum(v) {
			return cFree("interpolation over strings")
		}
	}
	// findex = p/100*(n-1)
	pos := new(big.Rat).Mul(p, big.NewRat(int64(n-1), 100))
	fl := new(big.Int).Div(pos.Num(), pos.Denom())
	i := int(fl.Int64())
	if i < 0 {
		i = 0
	}
	if i >= n-1 {
		return cNum(ratOf(sorted[n-1]))
	}
	frac := new(big.Rat).Sub(pos, new(big.Rat).SetInt(fl))
	lo, hi := ratOf(sorted[i]), ratOf(sorted[i+1])
	v := new(big.Rat).Add(lo, new(big.Rat).Mul(frac, new(big.Rat).Sub(hi, lo)))
	scale := math.Max(math.Abs(ratF(lo)), math.Abs(ratF(hi)))
	return cTolR(v, scale)
}

// refMode: first most-frequent (or least-frequent) by text.
func refMode(vals []string, anti bool) string {
	counts := map[string]int{}
	var order []string
	for _, v := range vals {
		if counts[v] == 0 {
			order = append(order, v)
		}
		counts[v]++
	}
	best := order[0]
	for _, v := range order[1:] {
		if (!anti && counts[v] > counts[best]) || (anti && counts[v] < counts[best]) {
			best = v
		}
	}
	return best
}

func distinctCount(vals []string) int {
	m := map[string]bool{}
	for _, v := range vals {
		m[v] = true
	}
	return len(m)
}

func nonEmpty(vals []string) []string {
	var out []string
	for _, v := range vals {
		if v != "" {
			out = append(out, v)
		}
	}
	return out
}

// percentileOfName: "median", "p25", "p25.2" -> exact rational percentile.
func percentileOfName(name string) (*big.Rat, bool) {
	if name == "median" {
		return big.NewRat(50, 1), true
	}
	if len(name) > 1 && name[0] == 'p' && isNum(name[1:]) {
		return ratOf(name[1:]), true
	}
	return nil, false
}

// refMinMax over non-empty values: numbers are less than strings.
func refMinMax(vals []string, wantMax bool) cell {
	if len(vals) == 0 {
		return cFree("no data")
	}
	sorted := sortForPercentiles(vals)
	pick := sorted[0]
	if wantMax {
		pick = sorted[len(sorted)-1]
	}
	if !isNum(pick) {
		return cText(pick)
	}
	nl := numsOf(vals)
	if nl.allInt && !nl.hasText {
		return cInt(ratOf(pick)) // min/max of ints stay ints
	}
	return cNum(ratOf(pick))
}

// accExpect: the expected output of accumulator `name` over the values of
// one field in one group. all = values of the records that have the field, in
// stream order, empties included.
func accExpect(name string, all []string, interp bool) cell {
	vals := nonEmpty(all)
	empties := len(all) - len(vals)
	nl := numsOf(vals)
	n := len(nl.xs)
	withEmptyAlt := func(a, b cell) cell {
		if empties > 0 {
			c := a.or(b)
			c.note = "empty-policy"
			return c
		}
		return a
	}
	if p, ok := percentileOfName(name); ok {
		return refPercentile(vals, p, interp)
	}
	switch name {
	case "count":
		return withEmptyAlt(cIntN(len(vals)), cIntN(len(all)))
	case "null_count":
		return cIntN(empties) // "Count number of empty-string/JSON-null instances per field"
	case "distinct_count":
		return withEmptyAlt(cIntN(distinctCount(vals)), cIntN(distinctCount(all)))
	case "mode", "antimode":
		if len(vals) == 0 {
			return cFree("no data")
		}
		return withEmptyAlt(cText(refMode(vals, name == "antimode")), cText(refMode(all, name == "antimode")))
	case "minlen", "maxlen":
		if len(vals) == 0 {
			return cFree("no data")
		}
		f := func(l []string) cell {
			best := utf8.RuneCountInString(l[0])
			for _, v := range l[1:] {
				k := utf8.RuneCountInString(v)
				if (name == "minlen" && k < best) || (name == "maxlen" && k > best) {
					best = k
				}
			}
			return cIntN(best)
		}
		return withEmptyAlt(f(vals), f(all))
	case "min":
		return refMinMax(vals, false)
	case "max":
		return refMinMax(vals, true)
	}
	// arithmetic accumulators
	if nl.hasText {
		return cFree("arithmetic over text")
	}
	switch name {
	case "sum":
		if n == 0 {
			return cFree("no data")
		}
		s := rsum(nl.xs)
		if nl.allInt {
			// int sums stay ints; a running sum that leaves the 64-bit range at any point of the stream
			// overflows to float there (reference-main-arithmetic.md) and stays float
			run, fits := new(big.Rat), true
			for _, x := range nl.xs {
				run.Add(run, x)
				fits = fits && fitsInt64(run)
			}
			if fits {
				return cInt(s)
			}
			return cTolR(s, nl.maxAbs)
		}
		return cTolR(s, nl.maxAbs*float64(n))
	case "mean":
		if n == 0 {
			return cFree("no data")
		}
		return cTolR(rmean(nl.xs), nl.maxAbs)
	case "mad":
		if n == 0 {
			return cFree("no data")
		}
		return cTolR(refMad(nl.xs), nl.maxAbs)
	case "var", "stddev", "meaneb", "skewness", "kurtosis":
		if n == 0 {
			return cFree("no data")
		}
		if n < 2 {
			return cNonNum()
		}
		if nl.maxAbs > 1e6 {
			return cFree("cancellation beyond the bound")
		}
		v := ratF(rvar(nl.xs))
		sc := nl.maxAbs * nl.maxAbs
		switch name {
		case "var":
			return cTol(v, sc)
		case "stddev":
			return cTol(math.Sqrt(v), nl.maxAbs)
		case "meaneb":
			return cTol(math.Sqrt(v/float64(n)), nl.maxAbs)
		case "skewness":
			s, ok := refSkewness(nl.xs)
			if !ok {
				return cFree("zero variance")
			}
			return cTol(s, 1)
		default:
			k, ok := refKurtosis(nl.xs)
			if !ok {
				return cFree("zero variance")
			}
			return cTol(k, 1)
		}
	}
	return cFree("unknown accumulator " + name)
}

func knownAccumulator(name string) bool {
	switch name {
	case "count", "null_count", "distinct_count", "mode", "antimode", "minlen", "maxlen", "min", "max",
		"sum", "mean", "mad", "var", "stddev", "meaneb", "skewness", "kurtosis":
		return true
	}
	_, ok := percentileOfName(name)
	return ok
}
