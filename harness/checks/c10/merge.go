package c10

import (
	"fmt"
	"strings"

	"verif/harness/vf"
)

type mergeCfg struct {
	mode   string // -f | -r | -c
	accs   []string
	keep   bool
	interp bool
}

var mergeNames = []string{"a_in", "a_out", "b_in", "b_out"}

func (c mergeCfg) args() []string {
	a := []string{"merge-fields", "-a", joinC(c.accs)}
	switch c.mode {
	case "-f":
		a = append(a, "-f", joinC(mergeNames), "-o", "out")
	case "-r":
		a = append(a, "-r", "_in$,_out$", "-o", "out")
	case "-c":
		a = append(a, "-c", "_in,_out")
	}
	if c.keep {
		a = append(a, "-k")
	}
	if c.interp {
		a = append(a, "-i")
	}
	return a
}

func isMergeName(k string) bool {
	return strings.HasSuffix(k, "_in") || strings.HasSuffix(k, "_out")
}

func shortName(k string) string {
	k = strings.Replace(k, "_in", "", 1)
	if !strings.Contains(k, "_out") {
		return k
	}
	return strings.Replace(k, "_out", "", 1)
}

// checkMerge: merge-fields computes its statistics per record, across the
// named fields of that record; nothing may leak from one record to the next.
func checkMerge(t *T, cfg mergeCfg, in []rec) {
	args := cfg.args()
	out, res := run1(args, in)
	t.w.Eval(1)
	t.w.Count("hit:merge-fields", 1)
	t.w.Count("hit:merge-fields:"+cfg.mode, 1)
	if cfg.keep {
		t.w.Count("hit:merge-fields:-k", 1)
	}
	if cfg.interp {
		t.w.Count("hit:merge-fields:-i", 1)
	}
	if !res.OK() {
		cl := "merge-fields.fails"
		if res.Panic != "" {
			cl = "merge-fields.panic"
		}
		t.viol(cl, args, in, "merge-fields failed: "+res.String(), res.Stdout)
		return
	}
	if len(out) != len(in) {
		t.viol("merge-fields.records", args, in, fmt.Sprintf("%d output records for %d input records", len(out), len(in)), res.Stdout)
		return
	}
	cells, uncon := int64(0), int64(0)
	for i, r := range in {
		o := out[i]
		// contributing lists per output basename
		type bucket struct {
			name string
			all  []string
		}
		var buckets []*bucket
		find := func(n string) *bucket {
			for _, b := range buckets {
				if b.name == n {
					return b
				}
			}
			b := &bucket{name: n}
			buckets = append(buckets, b)
			return b
		}
		switch cfg.mode {
		case "-f":
			b := find("out")
			for _, n := range mergeNames {
				if v, has := r.get(n); has {
					b.all = append(b.all, v)
				}
			}
		case "-r":
			b := find("out")
			for _, e := range r {
				if isMergeName(e.K) {
					b.all = append(b.all, e.V)
				}
			}
		case "-c":
			for _, e := range r {
				if isMergeName(e.K) {
					b := find(shortName(e.K))
					b.all = append(b.all, e.V)
				}
			}
		}
		statNames := map[string]bool{}
		for _, b := range buckets {
			for _, a := range cfg.accs {
				statNames[b.name+"_"+a] = true
			}
		}
		got := map[string]string{}
		var others rec
		for _, e := range o {
			if statNames[e.K] {
				got[e.K] = e.V
			} else {
				others = append(others, e)
			}
		}
		// the non-statistics part of the record
		var expStrict, expLoose rec // strict: merged fields removed; loose: empty-valued merged fields kept
		for _, e := range r {
			merged := isMergeName(e.K)
			if cfg.keep || !merged {
				expStrict = append(expStrict, e)
				expLoose = append(expLoose, e)
			} else if e.V == "" {
				expLoose = append(expLoose, e)
			}
		}
		cells++
		if !recEq(others, expStrict) && !recEq(others, expLoose) {
			t.viol("merge-fields.passthrough", args, in, fmt.Sprintf("record %d: fields other than the statistics are %q, expected %q", i+1, others.String(), expStrict.String()), res.Stdout)
		}
		for _, b := range buckets {
			required := len(nonEmpty(b.all)) > 0
			for _, a := range cfg.accs {
				name := b.name + "_" + a
				v, has := got[name]
				if !has {
					if required {
						t.viol("merge-fields."+accClass(a)+".missing", args, in, fmt.Sprintf("record %d: %s not emitted although %v contribute", i+1, name, b.all), res.Stdout)
					}
					continue
				}
				exp := accExpect(a, b.all, cfg.interp)
				if !exp.constrained() {
					uncon++
					continue
				}
				cells++
				if exp.note == "empty-policy" {
					t.w.Count("empty_policy_cells", 1)
				} else if exp.note == "boundary" {
					t.w.Count("pct_boundary", 1)
				}
				if !exp.match(v) {
					t.viol("merge-fields."+accClass(a), args, in, fmt.Sprintf("record %d %q: %s=%s over field values %v, recomputation gives %s", i+1, r.String(), name, v, symNames(b.all), exp), res.Stdout)
				}
			}
		}
	}
	t.w.Count("cells", cells)
	t.w.Count("unconstrained", uncon)
	if cells > 0 {
		t.w.Nontrivial(1)
	}
	if t.cases%83 == 0 {
		t.w.AddSet("outcomes", "merge:"+res.Stdout)
	}
}

func mergeWorker(w *vf.Worker) {
	t := newT(w)
	syms := []string{"1", "2", "3", "-1", "0.5", "2.5", "", "abc", absent}
	accs := allAccs()
	cfgs := []mergeCfg{
		{mode: "-f", accs: accs},
		{mode: "-f", accs: accs, keep: true, interp: true},
		{mode: "-r", accs: accs},
		{mode: "-c", accs: accs},
		{mode: "-c", accs: accs, keep: true},
	}
	// one record, four fields
	t.family("merge/one-record", 16)
	k := 4
	if w.Quick() {
		k = 4
	}
	forEachSeq(len(syms), k, k, func(seq []int) {
		if !t.next() {
			return
		}
		in := []rec{mkrec("id", "7", mergeNames[0], syms[seq[0]], mergeNames[1], syms[seq[1]], "z", "keep", mergeNames[2], syms[seq[2]], mergeNames[3], syms[seq[3]])}
		for _, c := range cfgs {
			checkMerge(t, c, in)
		}
	})
	// two or three records, two fields each: no state may leak between records
	t.family("merge/state-reset", 16)
	reset := func(seq []int) {
		if !t.next() {
			return
		}
		in := make([]rec, len(seq))
		for i, s := range seq {
			in[i] = mkrec(mergeNames[0], syms[s/len(syms)], mergeNames[1], syms[s%len(syms)], "z", "w")
		}
		for _, c := range cfgs[:4] {
			checkMerge(t, c, in)
		}
	}
	forEachSeq(len(syms)*len(syms), 2, 2, reset)
	if !w.Quick() {
		// three records over a thinned alphabet
		syms = []string{"1", "2.5", "", "abc", absent}
		t.family("merge/state-reset-3", 16)
		forEachSeq(len(syms)*len(syms), 3, 3, reset)
	}
	w.Sample(map[string]any{"family": "merge/one-record", "example": cmdline(cfgs[3].args(), []rec{mkrec(mergeNames[0], "1", mergeNames[1], "", "z", "keep", mergeNames[2], "2.5")})})
}
