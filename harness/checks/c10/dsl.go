package c10

// The DSL statistics functions on the same value lists, as arrays and as maps.

import (
	"fmt"
	"math"
	"os"
	"math/big"
	"strconv"
	"strings"

	"verif/harness/vf"
)

// functions of class "stats" exercised here (sparkline is a rendering helper, not a statistic)
var dslStatsFunctions = []string{"count", "sum", "sum2", "sum3", "sum4", "mean", "median", "mode", "antimode", "minlen", "maxlen",
	"null_count", "distinct_count", "variance", "stddev", "meaneb", "skewness", "kurtosis", "percentile", "percentiles", "sort_collection"}

var dslPercentiles = []string{"0", "10", "25", "50", "75", "90", "100", "12.5"}

func dslLiteral(v string) string {
	if isNum(v) {
		return v
	}
	return `"` + v + `"`
}

func dslProgram(vals []string, asMap bool) string {
	var items []string
	for i, v := range vals {
		if asMap {
			items = append(items, fmt.Sprintf(`"k%d":%s`, i+1, dslLiteral(v)))
		} else {
			items = append(items, dslLiteral(v))
		}
	}
	lit := "[" + strings.Join(items, ",") + "]"
	if asMap {
		lit = "{" + strings.Join(items, ",") + "}"
	}
	ps := "[" + strings.Join(dslPercentiles, ",") + "]"
	var sb strings.Builder
	sb.WriteString("end{a=" + lit + ";@o={};")
	fns := []string{"count", "median", "mode", "antimode", "minlen", "maxlen", "null_count", "distinct_count"}
	if !numsOf(vals).hasText {
		// arithmetic over a non-numeric string is outside the asserted domain (and variance(["abc"]) ends the
		// process with "Internal coding error", which would hide every other result of the run)
		fns = append(fns, "sum", "sum2", "sum3", "sum4", "mean", "variance", "stddev", "meaneb", "skewness", "kurtosis")
	}
	for _, f := range fns {
		sb.WriteString(fmt.Sprintf(`@o["%s"]=%s(a);`, f, f))
	}
	sb.WriteString(`@o["median_il"]=median(a,{"interpolate_linearly":true});`)
	sb.WriteString(`@o["pct25"]=percentile(a,25);`)
	sb.WriteString(`@o["pct25_il"]=percentile(a,25,{"il":true});`)
	sb.WriteString(`@o["ps"]=percentiles(a,` + ps + `);`)
	sb.WriteString(`@o["psil"]=percentiles(a,` + ps + `,{"interpolate_linearly":true});`)
	sb.WriteString(`@o["psoa"]=percentiles(a,` + ps + `,{"output_array_not_map":true});`)
	if len(vals) > 0 {
		sb.WriteString(`@o["sorted"]=sort_collection(a);`)
		if !asMap {
			sb.WriteString(`@o["psais"]=percentiles(sort_collection(a),` + ps + `,{"array_is_sorted":true, "oa":true});`)
		}
	}
	sb.WriteString("emit @o}")
	return sb.String()
}

func checkDSL(t *T, vals []string, asMap bool) {
	prog := dslProgram(vals, asMap)
	args := []string{"-n", "--ofs", ";", "--flatsep", ":", "put", "-q", prog}
	r := vf.RunMlr(args, vf.MlrOpts{})
	t.w.Eval(1)
	hasText := numsOf(vals).hasText
	for _, f := range dslStatsFunctions {
		switch f {
		case "sum", "sum2", "sum3", "sum4", "mean", "variance", "stddev", "meaneb", "skewness", "kurtosis":
			if hasText {
				t.w.Count("domain_excluded:dsl-arithmetic-over-text", 1)
				continue
			}
		}
		t.w.Count("hit:dsl:"+f, 1)
	}
	kind := "array"
	if asMap {
		kind = "map"
	}
	t.w.Count("hit:dsl:"+kind, 1)
	key := func(clause string) string {
		return fmt.Sprintf("dsl.%s(%s|%s)", clause, kind, strings.Join(symNames(vals), ","))
	}
	viol := func(clause, what string) {
		if t.perClause == nil {
			t.perClause = map[string]int{}
		}
		t.perClause["dsl."+clause]++
		if f := os.Getenv("VERIF_C10_DUMP"); f != "" {
			if fh, err := os.OpenFile(f, os.O_APPEND|os.O_CREATE|os.O_WRONLY, 0644); err == nil {
				fmt.Fprintf(fh, "dsl.%s\t%s\tmlr -n put -q '%s'\n", clause, what, prog)
				fh.Close()
			}
		}
		if t.perClause["dsl."+clause] > perClauseCap {
			t.w.Count("further_witnesses:dsl."+clause, 1)
			return
		}
		t.w.Violation(key(clause), what+" :: mlr -n put -q '"+prog+"'", map[string]any{"args": args, "what": what, "stdout": r.Stdout, "stderr": r.Stderr})
	}
	if !r.OK() {
		viol("fails", "DSL run failed: "+r.String())
		return
	}
	outs := decode(r.Stdout)
	if len(outs) != 1 {
		viol("fails", fmt.Sprintf("expected one emitted record, got %q", r.Stdout))
		return
	}
	got := map[string]string{}
	for _, e := range outs[0] {
		got[e.K] = e.V
	}
	cells, uncon := int64(0), int64(0)
	expect := func(name string, exp cell) {
		v, has := got[name]
		if !exp.constrained() {
			uncon++
			return
		}
		cells++
		if exp.note == "boundary" {
			t.w.Count("pct_boundary", 1)
		}
		if !has {
			// an absent-valued result is not assigned; only acceptable where the expectation is non-numeric
			if exp.kind == "nonnum" || (exp.kind == "text" && exp.text == "") {
				return
			}
			viol(name, fmt.Sprintf("%s(%s) produced no value, recomputation gives %s", name, kind, exp))
			return
		}
		if !exp.match(v) {
			viol(strings.SplitN(name, ":", 2)[0], fmt.Sprintf("%s over %v = %q, recomputation gives %s", name, symNames(vals), v, exp))
		}
	}
	n := len(vals)
	ne := nonEmpty(vals)
	empties := n - len(ne)
	nl := numsOf(vals)
	pureNum := len(nl.xs) == n // no empties, no text
	expect("count", cIntN(n))  // "Returns the length of an array or map"
	expect("null_count", cIntN(empties))
	expect("distinct_count", cIntN(distinctCount(vals)))
	if n > 0 {
		expect("mode", valueCell(refMode(vals, false)))
		expect("antimode", valueCell(refMode(vals, true)))
		expect("minlen", lenCell(vals, false))
		expect("maxlen", lenCell(vals, true))
	}
	if pureNum {
		pow := func(k int) cell {
			s := new(big.Rat)
			for _, x := range nl.xs {
				p := big.NewRat(1, 1)
				for i := 0; i < k; i++ {
					p.Mul(p, x)
				}
				s.Add(s, p)
			}
			if nl.allInt {
				return cInt(s)
			}
			return cTolR(s, math.Pow(math.Max(nl.maxAbs, 1), float64(k))*float64(n))
		}
		if n > 0 {
			expect("sum", pow(1))
			expect("sum2", pow(2))
			expect("sum3", pow(3))
			expect("sum4", pow(4))
			expect("mean", cTolR(rmean(nl.xs), nl.maxAbs))
		} else {
			expect("mean", cNonNum()) // "Returns empty string AKA void for empty array/map"
		}
		for fn, acc := range map[string]string{"variance": "var", "stddev": "stddev", "meaneb": "meaneb", "skewness": "skewness", "kurtosis": "kurtosis"} {
			if n < 2 {
				expect(fn, cNonNum()) // "void for array/map of length less than two"
			} else {
				expect(fn, accExpect(acc, vals, false))
			}
		}
	} else {
		uncon += 10
	}
	// order statistics: numbers before strings; where an empty string sorts is not documented
	if empties == 0 {
		if n == 0 {
			expect("median", cNonNum())
		} else {
			expect("median", refPercentile(vals, big.NewRat(50, 1), false))
			expect("median_il", refPercentile(vals, big.NewRat(50, 1), true))
			expect("pct25", refPercentile(vals, big.NewRat(25, 1), false))
			expect("pct25_il", refPercentile(vals, big.NewRat(25, 1), true))
			for i, p := range dslPercentiles {
				expect("ps:"+p, refPercentile(vals, ratOf(p), false))
				expect("psil:"+p, refPercentile(vals, ratOf(p), true))
				expect("psoa:"+strconv.Itoa(i+1), refPercentile(vals, ratOf(p), false))
				if !asMap {
					expect("psais:"+strconv.Itoa(i+1), refPercentile(vals, ratOf(p), false))
				}
			}
			sorted := sortForPercentiles(vals)
			for i, v := range sorted {
				expect("sorted:"+strconv.Itoa(i+1), valueCell(v))
			}
		}
	} else {
		uncon += 8
	}
	t.w.Count("cells", cells)
	t.w.Count("unconstrained", uncon)
	if cells > 0 {
		t.w.Nontrivial(1)
	}
	if t.cases%61 == 0 {
		t.w.AddSet("outcomes", "dsl:"+r.Stdout)
	}
}

func lenCell(vals []string, wantMax bool) cell {
	name := "minlen"
	if wantMax {
		name = "maxlen"
	}
	// over all elements, empties included (an array element is a value like any other)
	best := -1
	for _, v := range vals {
		k := len([]rune(v))
		if best < 0 || (wantMax && k > best) || (!wantMax && k < best) {
			best = k
		}
	}
	_ = name
	return cIntN(best)
}

func dslWorker(w *vf.Worker) {
	t := newT(w)
	t.family("dsl/lists", 8)
	syms := []string{"1", "2", "3", "-1", "0.5", "2.5", "", "abc"}
	maxN := 4
	if !w.Quick() {
		maxN = 5
	}
	forEachSeq(len(syms), 0, maxN, func(seq []int) {
		if !t.next() {
			return
		}
		vals := make([]string, len(seq))
		for i, s := range seq {
			vals[i] = syms[s]
		}
		checkDSL(t, vals, false)
		checkDSL(t, vals, true)
	})
	t.family("dsl/text", 8)
	syms2 := []string{"año", "alto", "x", "abc", "abd", "7"}
	forEachSeq(len(syms2), 1, 3, func(seq []int) {
		if !t.next() {
			return
		}
		vals := make([]string, len(seq))
		for i, s := range seq {
			vals[i] = syms2[s]
		}
		checkDSL(t, vals, false)
	})
	w.Sample(map[string]any{"family": "dsl/lists", "example": "mlr -n put -q '" + dslProgram([]string{"1", "2.5", "abc"}, false) + "'"})
}
