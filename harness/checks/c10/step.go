package c10

// step and merge-fields.

import (
	"fmt"
	"math"
	"math/big"
	"strconv"
	"strings"

	"verif/harness/vf"
)

type stepCfg struct {
	steppers []string
	fields   []string
	groupBy  []string
	alphas   []string // -d
	suffixes []string // -o
}

func (c stepCfg) args() []string {
	a := []string{"step", "-a", joinC(c.steppers), "-f", joinC(c.fields)}
	if len(c.groupBy) > 0 {
		a = append(a, "-g", joinC(c.groupBy))
	}
	if len(c.alphas) > 0 {
		a = append(a, "-d", joinC(c.alphas))
	}
	if len(c.suffixes) > 0 {
		a = append(a, "-o", joinC(c.suffixes))
	}
	return a
}

// parse "delta_3" -> ("delta", 3); "delta" -> ("delta", 1)
func stepperBase(name string) (base string, k int, b, f int) {
	for _, p := range []string{"shift_lead", "shift_lag", "shift", "delta", "ratio"} {
		if name == p {
			return p, 1, 0, 0
		}
		if strings.HasPrefix(name, p+"_") {
			if n, err := strconv.Atoi(name[len(p)+1:]); err == nil {
				return p, n, 0, 0
			}
		}
	}
	if strings.HasPrefix(name, "slwin_") {
		parts := strings.Split(name, "_")
		if len(parts) == 3 {
			b, _ = strconv.Atoi(parts[1])
			f, _ = strconv.Atoi(parts[2])
			return "slwin", 0, b, f
		}
	}
	return name, 0, 0, 0
}

func isForward(name string) bool {
	base, _, _, f := stepperBase(name)
	return base == "shift_lead" || (base == "slwin" && f > 0)
}

// checkStep: every record carries a unique id field "i".
func checkStep(t *T, cfg stepCfg, in []rec) {
	args := cfg.args()
	out, res := run1(args, in)
	t.w.Eval(1)
	t.w.Count("hit:step", 1)
	for _, s := range cfg.steppers {
		base, _, _, _ := stepperBase(s)
		t.w.Count("hit:stepper:"+base, 1)
		if base != s {
			t.w.Count("hit:stepper:"+base+"_{n}", 1)
		}
	}
	if len(cfg.groupBy) > 0 {
		t.w.Count("hit:step:-g", 1)
	}
	if !res.OK() {
		cl := "step.fails"
		if res.Panic != "" {
			cl = "step.panic"
		}
		t.viol(cl, args, in, "step failed: "+res.String(), res.Stdout)
		return
	}
	forward := false
	for _, s := range cfg.steppers {
		forward = forward || isForward(s)
	}
	byID := map[string]rec{}
	for _, o := range out {
		id, _ := o.get("i")
		if _, dup := byID[id]; dup {
			t.viol("step.records", args, in, fmt.Sprintf("record i=%s is emitted twice", id), res.Stdout)
			return
		}
		byID[id] = o
	}
	if len(out) != len(in) {
		t.viol("step.records-lost", args, in, fmt.Sprintf("%d output records for %d input records", len(out), len(in)), res.Stdout)
		return
	}
	if !forward {
		for i := range in {
			a, _ := in[i].get("i")
			b, _ := out[i].get("i")
			if a != b {
				t.viol("step.order", args, in, "records are not emitted in input order although no stepper looks forward", res.Stdout)
				return
			}
		}
	}
	alphas := cfg.alphas
	if len(alphas) == 0 {
		alphas = []string{"0.5"} // usage: Default if omitted is "-d 0.5"
	}
	suffixes := cfg.suffixes
	if len(suffixes) == 0 {
		suffixes = alphas
	}
	// per (group, field) histories
	type hist struct {
		idx  []int    // indices of the group's records, in order
		vals []string // value of the field per group record (absent marker when lacking)
	}
	hists := map[string]*hist{}
	groupsIdx := map[string][]int{}
	for i, r := range in {
		key, ok := groupKeyOf(r, cfg.groupBy)
		if !ok {
			continue
		}
		groupsIdx[keyText(key)] = append(groupsIdx[keyText(key)], i)
	}
	for gk, idxs := range groupsIdx {
		for _, f := range cfg.fields {
			h := &hist{idx: idxs}
			for _, i := range idxs {
				v, has := in[i].get(f)
				if !has {
					v = absent
				}
				h.vals = append(h.vals, v)
			}
			hists[gk+"\x1e"+f] = h
		}
	}
	cells, uncon := int64(0), int64(0)
	missingCells := int64(0) // asserted cells of positional steppers whose window/source holds an empty value or a record lacking the field
	for i, r := range in {
		id, _ := r.get("i")
		o, okk := byID[id]
		if !okk {
			t.viol("step.records", args, in, fmt.Sprintf("input record i=%s is lost", id), res.Stdout)
			return
		}
		if len(o) < len(r) || !recEq(o[:len(r)], r) {
			t.viol("step.record-changed", args, in, fmt.Sprintf("output record %q does not start with input record %q", o.String(), r.String()), res.Stdout)
			continue
		}
		rest := o[len(r):]
		key, inGroup := groupKeyOf(r, cfg.groupBy)
		if !inGroup {
			if len(rest) > 0 {
				t.viol("step.phantom", args, in, fmt.Sprintf("record %q lacks a group-by field but received %q", r.String(), rest.String()), res.Stdout)
			}
			continue
		}
		got := map[string]string{}
		for _, e := range rest {
			got[e.K] = e.V
		}
		// fields the record has come first, so that the outputs of a field it lacks (not determined) are told
		// apart from those of a present field whose name merely starts with the same text (x vs x_a)
		ordered := make([]string, 0, len(cfg.fields))
		for _, f := range cfg.fields {
			if r.has(f) {
				ordered = append(ordered, f)
			}
		}
		for _, f := range cfg.fields {
			if !r.has(f) {
				ordered = append(ordered, f)
			}
		}
		for _, f := range ordered {
			h := hists[keyText(key)+"\x1e"+f]
			// position of this record within the group
			pos := 0
			for h.idx[pos] != i {
				pos++
			}
			cur := h.vals[pos]
			if cur == absent {
				// left out of the accumulation: no stepper output for this field is required; whatever a
				// forward stepper puts here is not determined
				for name := range got {
					if strings.HasPrefix(name, f+"_") {
						uncon++
						delete(got, name)
					}
				}
				continue
			}
			// cleanliness of the history, for the cumulative steppers (the positional ones are position-local, see below)
			noTextPast, noEmptyPast := true, true
			for j, v := range h.vals {
				if j <= pos && v != absent && v != "" && !isNum(v) {
					noTextPast = false
				}
				if j <= pos && v == "" {
					noEmptyPast = false
				}
			}
			// a forward-looking stepper combined with a record of the group lacking the field: one heading
			heteroFwd := false
			if forward {
				for _, v := range h.vals {
					heteroFwd = heteroFwd || v == absent
				}
			}
			cl := func(c string) string {
				if heteroFwd {
					return "step.forward-stepper-with-absent-field"
				}
				return c
			}
			// numeric values of the group so far (present, non-empty), for cumulative steppers
			var past []string
			for j := 0; j <= pos; j++ {
				if v := h.vals[j]; v != absent && v != "" {
					past = append(past, v)
				}
			}
			pnl := numsOf(past)
			for _, s := range cfg.steppers {
				base, k, wb, wf := stepperBase(s)
				var names []string
				var exps []cell
				switch base {
				case "counter":
					names = []string{f + "_counter"}
					if noTextPast && cur != "" {
						exps = []cell{cIntN(len(past))}
					}
				case "rsum":
					names = []string{f + "_rsum"}
					if noTextPast && cur != "" {
						sum := rsum(pnl.xs)
						if pnl.allInt {
							exps = []cell{cInt(sum)}
						} else {
							exps = []cell{cTolR(sum, pnl.maxAbs*float64(len(past)))}
						}
					}
				case "rprod":
					names = []string{f + "_rprod"}
					if noTextPast && cur != "" {
						p := big.NewRat(1, 1)
						for _, x := range pnl.xs {
							p.Mul(p, x)
						}
						if pnl.allInt && fitsInt64(p) {
							exps = []cell{cInt(p)}
						} else {
							exps = []cell{cTolR(p, 0)}
						}
					}
				case "from-first":
					names = []string{f + "_from-first", f + "_from_first"}
					if noTextPast && noEmptyPast {
						d := new(big.Rat).Sub(ratOf(cur), pnl.xs[0])
						if pnl.allInt {
							exps = []cell{cInt(d)}
						} else {
							exps = []cell{cTolR(d, pnl.maxAbs)}
						}
					}
				case "ewma":
					for ai, a := range alphas {
						nm := f + "_ewma_" + suffixes[ai]
						var e cell
						has := false
						if noTextPast && noEmptyPast {
							al := ratOf(a)
							one := new(big.Rat).Sub(big.NewRat(1, 1), al)
							acc := new(big.Rat).Set(pnl.xs[0])
							for _, x := range pnl.xs[1:] {
								acc = new(big.Rat).Add(new(big.Rat).Mul(al, x), new(big.Rat).Mul(one, acc))
							}
							e, has = cTolR(acc, pnl.maxAbs), true
						}
						v, present := got[nm]
						delete(got, nm)
						if !has {
							uncon++
							continue
						}
						cells++
						if !present && len(cfg.alphas) == 0 {
							t.viol(cl("step.ewma-default-d"), args, in, fmt.Sprintf("record %q: %s is not emitted (usage: Default if omitted is \"-d 0.5\")", r.String(), nm), res.Stdout)
						} else if !present {
							t.viol(cl("step.ewma.missing"), args, in, fmt.Sprintf("record %q: %s is not emitted (usage: default -d 0.5; suffix = -d value or -o name)", r.String(), nm), res.Stdout)
						} else if !e.match(v) {
							t.viol(cl("step.ewma"), args, in, fmt.Sprintf("record %q: %s=%s, recomputation over %v gives %s", r.String(), nm, v, past, e), res.Stdout)
						}
					}
					continue
				case "delta":
					// position-local: delta_k is a function of this record's value and of the value k records back in
					// the group; what the OTHER records of the group hold (empty, text, field lacking) is irrelevant
					names = []string{f + "_" + s}
					if isNum(cur) {
						if pos < k {
							exps = []cell{cInt(new(big.Rat))} // documented by the examples: 0 until k records back exist
						} else if src := h.vals[pos-k]; src != absent && isNum(src) {
							d := new(big.Rat).Sub(ratOf(cur), ratOf(src))
							if classify(cur) == kInt && classify(src) == kInt {
								exps = []cell{cInt(d)}
							} else {
								exps = []cell{cTolR(d, math.Max(math.Abs(ratF(ratOf(cur))), 1))}
							}
						}
						// k records back: empty, text or field lacking -> not determined (0? the value itself?)
					}
				case "shift", "shift_lag":
					// usage: "Include value(s) in field(s) from the previous record, if any ... n records back": the
					// TEXT of the field in the record k back in the group, whatever it is (number, empty, text);
					// nothing to include (no such record, or that record lacks the field) -> empty
					names = []string{f + "_" + s}
					if pos < k || h.vals[pos-k] == absent {
						exps = []cell{cText("")}
					} else {
						exps = []cell{cText(h.vals[pos-k])}
					}
					if pos >= k && (h.vals[pos-k] == absent || h.vals[pos-k] == "") {
						missingCells++
					}
				case "ratio":
					names = []string{f + "_" + s}
					if isNum(cur) && pos >= k {
						if src := h.vals[pos-k]; src != absent && isNum(src) {
							q := new(big.Rat).Quo(ratOf(cur), ratOf(src))
							exps = []cell{cTolR(q, 0)}
						}
					}
				case "shift_lead":
					names = []string{f + "_" + s}
					if pos+k >= len(h.vals) {
						exps = []cell{cText("")}
					} else if tgt := h.vals[pos+k]; tgt != absent {
						exps = []cell{cText(tgt)}
						if tgt == "" {
							missingCells++
						}
					}
					// the record k forward lacks the field: empty or no output field, not determined
				case "slwin":
					// usage: "Sliding-window averages over m records back and n forward": the window is made of the
					// group's RECORDS (clipped at both ends of the group); a record whose value is empty, or which lacks
					// the field, is missing data: it occupies its place in the window and contributes neither to the sum
					// nor to the divisor (reference-main-null-data.md: an empty cell is the CSV way of lacking the
					// field, "the sum should simply continue"; property: "left out of that accumulation only").
					// No contributing value at all -> no average (empty), never a number.
					names = []string{f + "_" + s, fmt.Sprintf("%s_%d_%d", f, wb, wf)}
					var xs []*big.Rat
					text, missing := false, 0
					for j := pos - wb; j <= pos+wf; j++ {
						if j < 0 || j >= len(h.vals) {
							continue
						}
						switch v := h.vals[j]; {
						case v == absent || v == "":
							missing++
						case isNum(v):
							xs = append(xs, ratOf(v))
						default:
							text = true
						}
					}
					if !text {
						if len(xs) == 0 {
							exps = []cell{cNonNum()}
						} else {
							exps = []cell{cTolR(rmean(xs), numsOf(h.vals).maxAbs)}
						}
						if missing > 0 {
							missingCells++
							t.w.Count(fmt.Sprintf("slwin_window:%d-of-%d-missing", missing, missing+len(xs)), 1)
						}
					}
				default:
					t.w.Count("unknown_stepper:"+base, 1)
					continue
				}
				v, present, nm := "", false, names[0]
				for _, n := range names {
					if x, ok := got[n]; ok {
						v, present, nm = x, true, n
						delete(got, n)
						break
					}
				}
				if len(exps) == 0 {
					uncon++
					continue
				}
				cells++
				if !present {
					t.viol(cl("step."+base+".missing"), args, in, fmt.Sprintf("record %q: %s is not emitted", r.String(), nm), res.Stdout)
				} else if !exps[0].match(v) {
					t.viol(cl("step."+base), args, in, fmt.Sprintf("record %q (position %d of its group, field history %v): %s=%s, recomputation gives %s", r.String(), pos+1, symNames(h.vals), nm, v, exps[0]), res.Stdout)
				}
			}
		}
		for name, v := range got {
			t.viol("step.extra-field", args, in, fmt.Sprintf("record %q: unexpected output field %s=%s", r.String(), name, v), res.Stdout)
		}
	}
	t.w.Count("cells", cells)
	t.w.Count("unconstrained", uncon)
	t.w.Count("step_missing_value_cells", missingCells)
	if cells > 0 {
		t.w.Nontrivial(1)
	}
	if t.cases%89 == 0 {
		t.w.AddSet("outcomes", "step:"+res.Stdout)
	}
}

func symNames(l []string) []string {
	o := make([]string, len(l))
	for i, s := range l {
		o[i] = symName(s)
	}
	return o
}

var stepBackward = []string{"counter", "delta", "ewma", "from-first", "ratio", "rprod", "rsum", "shift", "shift_lag", "delta_2", "shift_2", "shift_lag_2", "ratio_2", "shift_lag_3"}
var stepForward = []string{"shift_lead", "shift_lead_2", "slwin_0_1", "slwin_1_0", "slwin_1_1", "slwin_2_2", "slwin_0_2", "slwin_2_0", "slwin_0_0", "rsum", "shift", "delta", "counter"}

// Missing values inside the window of a positional stepper. A record lacking the field, met by a configuration
// with a look-forward stepper, is a known finding of the unchanged tree, so the window averages must also be run
// WITHOUT any look-forward stepper (stepWinBack); look-forward 1 (stepWinFwd1) never loses records; look-forward
// >= 2 (stepWinFwd2) loses short groups (known finding) and is asserted on the others.
var stepWinBack = []string{"slwin_0_0", "slwin_1_0", "slwin_2_0", "slwin_3_0", "shift", "shift_lag_2", "shift_lag_3", "delta", "delta_2", "ratio", "ratio_2", "rsum", "counter"}
var stepWinFwd1 = []string{"slwin_0_1", "slwin_1_1", "slwin_2_1", "slwin_3_1", "shift_lead", "shift", "delta_2"}
var stepWinFwd2 = []string{"slwin_0_2", "slwin_2_2", "slwin_1_3", "slwin_0_3", "shift_lead_2", "shift_lag_2"}

func stepWorker(w *vf.Worker) {
	t := newT(w)
	t.family("step/main", 16)
	syms := []string{"1", "2", "3", "-1", "0.5", "2.5", "", "abc", absent}
	maxN := 4
	if !w.Quick() {
		maxN = 5
	}
	forEachSeq(len(syms), 0, maxN, func(seq []int) {
		if !t.next() {
			return
		}
		in := make([]rec, len(seq))
		for i, s := range seq {
			in[i] = mkrec("i", strconv.Itoa(i+1), "x", syms[s])
		}
		checkStep(t, stepCfg{steppers: stepBackward, fields: []string{"x"}, alphas: []string{"0.5", "0.25"}}, in)
		checkStep(t, stepCfg{steppers: stepForward, fields: []string{"x"}}, in)
		checkStep(t, stepCfg{steppers: []string{"ewma"}, fields: []string{"x"}}, in) // default -d
		w.Count("hit:step:ewma-default-d", 1)
		checkStep(t, stepCfg{steppers: []string{"ewma", "shift_lead"}, fields: []string{"x"}, alphas: []string{"0.1", "0.9"}, suffixes: []string{"smooth", "rough"}}, in)
		w.Count("hit:step:-o", 1)
		checkStep(t, stepCfg{steppers: stepWinBack, fields: []string{"x"}}, in) // window averages without any look-forward stepper
		w.Count("hit:step:slwin-backward-only", 1)
	})
	// missing values (empty / field lacking) at every position of every window: thin value alphabet, longer streams,
	// so that windows up to 5 records wide occur unclipped and after the first eviction
	t.family("step/missing-window", 16)
	miss := []string{"1", "5", "", absent}
	maxN = 6
	if !w.Quick() {
		maxN = 8
	}
	forEachSeq(len(miss), 0, maxN, func(seq []int) {
		if !t.next() {
			return
		}
		in := make([]rec, len(seq))
		for i, s := range seq {
			in[i] = mkrec("i", strconv.Itoa(i+1), "x", miss[s])
		}
		checkStep(t, stepCfg{steppers: stepWinBack, fields: []string{"x"}}, in)
		checkStep(t, stepCfg{steppers: stepWinFwd1, fields: []string{"x"}}, in)
		checkStep(t, stepCfg{steppers: stepWinFwd2, fields: []string{"x"}}, in)
		w.Count("hit:step:missing-window", 3)
	})
	// the same with two interleaved groups: the window of a record is made of the records of ITS group
	t.family("step/missing-window-grouped", 16)
	gs := []string{"a", "b"}
	maxN = 4
	if !w.Quick() {
		maxN = 5
	}
	forEachSeq(len(gs)*len(miss), 0, maxN, func(seq []int) {
		if !t.next() {
			return
		}
		in := make([]rec, len(seq))
		for i, s := range seq {
			in[i] = mkrec("i", strconv.Itoa(i+1), "g", gs[s/len(miss)], "x", miss[s%len(miss)])
		}
		checkStep(t, stepCfg{steppers: []string{"slwin_1_0", "slwin_2_0", "slwin_0_0", "shift", "delta", "rsum", "shift_lag_2"}, fields: []string{"x"}, groupBy: []string{"g"}}, in)
		checkStep(t, stepCfg{steppers: []string{"slwin_0_1", "slwin_1_1", "slwin_2_1", "shift_lead", "shift"}, fields: []string{"x"}, groupBy: []string{"g"}}, in)
		w.Count("hit:step:missing-window-grouped", 2)
	})
	// two value fields with independent presence
	t.family("step/two-fields", 16)
	two := []string{"1", "2.5", "", absent}
	maxN = 3
	if !w.Quick() {
		maxN = 4
	}
	forEachSeq(len(two)*len(two), 0, maxN, func(seq []int) {
		if !t.next() {
			return
		}
		in := make([]rec, len(seq))
		for i, s := range seq {
			in[i] = mkrec("i", strconv.Itoa(i+1), "x", two[s/len(two)], "y", two[s%len(two)])
		}
		checkStep(t, stepCfg{steppers: []string{"rsum", "counter", "delta", "shift", "from-first"}, fields: []string{"x", "y"}}, in)
		checkStep(t, stepCfg{steppers: []string{"shift_lead", "rsum", "slwin_1_1"}, fields: []string{"y", "x"}}, in)
		checkStep(t, stepCfg{steppers: []string{"slwin_1_0", "slwin_2_0", "shift", "rsum"}, fields: []string{"y", "x"}}, in)
		w.Count("hit:step:-f x,y", 3)
	})
	w.Sample(map[string]any{"family": "step/main", "example": cmdline(stepCfg{steppers: stepForward, fields: []string{"x"}}.args(), []rec{mkrec("i", "1", "x", "1"), mkrec("i", "2", "x", "2.5")})})
}
