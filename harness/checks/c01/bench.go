package c01

import (
	"fmt"
	"os"
	"time"

	"verif/harness/vf"
)

// benchmark hook for harness development: VERIF_C01_BENCH=1 .cache/bin/h-plain-c01 worker ...
func bench() {
	for _, flags := range [][]string{{"--csv"}, {"--csv", "--records-per-batch", "1"}, {"--dkvp"}, {"--json"}, {"--yaml"}, {"--pprint"}} {
		o, err := parseFlags(flags)
		if err != nil {
			fmt.Fprintln(vf.RealStderr(), err)
			continue
		}
		s := stream{rec{{"a", "x"}, {"b", "y"}, {"c", "z"}}}
		t1, _, _ := writeMaps(o, toMaps(s))
		t0 := time.Now()
		n := 20000
		for i := 0; i < n; i++ {
			readText(o, t1)
		}
		d1 := time.Since(t0)
		t0 = time.Now()
		ms := toMaps(s)
		for i := 0; i < n; i++ {
			writeMaps(o, ms)
		}
		d2 := time.Since(t0)
		fmt.Fprintf(os.Stdout, "%v: read %.1f us, write %.1f us\n", flags, float64(d1.Microseconds())/float64(n), float64(d2.Microseconds())/float64(n))
	}
}
