package c01

// Canonical, deterministic enumeration of record streams. Every family is a
// complete cross product over its stated alphabets (no sampling); families are
// visited in a fixed order, smaller streams first inside a family.

import (
	"strconv"
)

// The cell alphabet: separators of every format, quote, CR, LF, tab,
// backslash, space, '#', '|', '-', ':', apostrophe, a 2-byte UTF-8 letter, an
// invalid UTF-8 byte, a plain letter, two C0 control bytes whose low nibble is above 9 (VT 0x0b, ESC 0x1b: their
// JSON escapes need hex letters); the empty string is the 20th symbol.
var sigma = []string{"a", ",", "\"", "\n", "\r", "\t", "\\", " ", "=", "#", "|", "-", ";", ":", "'", "é", "\xff", "\x0b", "\x1b"}

var sigmaNames = map[string]string{"a": "a", ",": "comma", "\"": "dquote", "\n": "LF", "\r": "CR", "\t": "TAB", "\\": "backslash", " ": "space",
	"=": "equals", "#": "hash", "|": "pipe", "-": "dash", ";": "semicolon", ":": "colon", "'": "apostrophe", "é": "e-acute", "\xff": "xFF", "\x0b": "VT", "\x1b": "ESC", "": "empty"}

// words(n): every string of at most n symbols, shortest first.
func words(n int) []string {
	out := []string{""}
	level := []string{""}
	for k := 1; k <= n; k++ {
		var next []string
		for _, p := range level {
			for _, s := range sigma {
				next = append(next, p+s)
			}
		}
		out = append(out, next...)
		level = next
	}
	return out
}

// numberFamily: values on the number/non-number boundary for the formats that
// distinguish numbers in their syntax (JSON, YAML, markdown/pprint alignment).
var numberFamily = []string{"1", "-1", "0", "1.5", "1e5", "-0.25", "12", "0x1F", "+1", "1.", ".5", "007", "-0", "1_000", "Inf", "NaN", "true", "false", "null", "~", "yes", "1 ", " 1", "1e", "-", "0.10", "1E-3"}

type emitFn func(family string, s stream)

func one(k, v string) rec { return rec{{k, v}} }

// enumerate calls emit for every stream of the tier, in canonical order.
// maxLen is the cell-length bound of the single-nasty-cell families.
func enumerate(quick bool, emit emitFn) {
	maxLen := 3
	if quick {
		maxLen = 2
	}
	W := words(maxLen)
	W1 := words(1)
	W2 := words(2)

	// F1: one record, one field.
	for _, v := range W {
		emit("1x1-value", stream{one("a", v)})
	}
	for _, k := range W {
		if k == "a" {
			continue
		}
		emit("1x1-key", stream{one(k, "b")})
	}
	for _, k := range W1 {
		for _, v := range W1 {
			emit("1x1-key-value", stream{one(k, v)})
		}
	}
	if !quick {
		for _, k := range W2 {
			for _, v := range W2 {
				emit("1x1-key-value", stream{one(k, v)})
			}
		}
	}
	// F1b: every single byte 0x00..0xff (beyond the alphabet), alone and between letters, as value and as key
	for b := 0; b < 256; b++ {
		c := string([]byte{byte(b)})
		emit("1x1-byte-value", stream{one("a", c)})
		emit("1x1-byte-value", stream{one("a", "x"+c+"y")})
		emit("1x1-byte-positional", stream{one("1", c)})
		emit("1x3-byte-value", stream{rec{{"a", "x"}, {"b", c}, {"c", "z"}}})
		if c != "a" {
			emit("1x1-byte-key", stream{one(c, "b")})
			emit("1x1-byte-key", stream{one("k"+c, "b")})
		}
	}
	// positional key (for the formats that carry no names)
	for _, v := range W {
		emit("1x1-positional", stream{one("1", v)})
	}
	// numbers
	for _, v := range numberFamily {
		emit("1x1-number", stream{one("a", v)})
		emit("1x2-number", stream{rec{{"a", v}, {"b", "x"}}})
		emit("2x1-number", stream{one("a", v), one("a", "x")})
	}

	// F3: one record, three fields, one nasty cell at each position.
	plainK := []string{"a", "b", "c"}
	plainV := []string{"x", "y", "z"}
	W3 := W2 // cell-length bound for the 3-field families
	if !quick {
		W3 = W
	}
	for p := 0; p < 3; p++ {
		for _, v := range W3 {
			r := rec{{"a", "x"}, {"b", "y"}, {"c", "z"}}
			r[p].V = v
			emit("1x3-value", stream{r})
		}
	}
	for p := 0; p < 3; p++ {
		for _, k := range W3 {
			if k == "a" || k == "b" || k == "c" {
				continue
			}
			r := rec{{"a", "x"}, {"b", "y"}, {"c", "z"}}
			r[p].K = k
			emit("1x3-key", stream{r})
		}
	}
	for p := 0; p < 3; p++ {
		for _, v := range W3 {
			r := rec{{"1", "x"}, {"2", "y"}, {"3", "z"}}
			r[p].V = v
			emit("1x3-positional", stream{r})
		}
	}
	// pairs of nasty cells
	pw := W1
	for p := 0; p < 3; p++ {
		for q := p + 1; q < 3; q++ {
			for _, v1 := range pw {
				for _, v2 := range pw {
					r := rec{{"a", "x"}, {"b", "y"}, {"c", "z"}}
					r[p].V, r[q].V = v1, v2
					emit("1x3-value-pair", stream{r})
					rp := rec{{"1", "x"}, {"2", "y"}, {"3", "z"}}
					rp[p].V, rp[q].V = v1, v2
					emit("1x3-positional-pair", stream{rp})
				}
			}
		}
	}
	for p := 0; p < 3; p++ {
		for _, k := range pw {
			if k == "a" || k == "b" || k == "c" {
				continue
			}
			for _, v := range pw {
				r := rec{{"a", "x"}, {"b", "y"}, {"c", "z"}}
				r[p].K, r[p].V = k, v
				emit("1x3-key-value", stream{r})
				if p+1 < 3 {
					r2 := rec{{"a", "x"}, {"b", "y"}, {"c", "z"}}
					r2[p].V, r2[p+1].K = v, k
					emit("1x3-value-nextkey", stream{r2})
				}
			}
		}
	}
	_ = plainK
	_ = plainV

	// Two records, same keys, a nasty value in either record.
	for ri := 0; ri < 2; ri++ {
		for p := 0; p < 2; p++ {
			for _, v := range W2 {
				s := stream{rec{{"a", "x"}, {"b", "y"}}, rec{{"a", "z"}, {"b", "w"}}}
				s[ri][p].V = v
				emit("2x2-value", s)
				sp := stream{rec{{"1", "x"}, {"2", "y"}}, rec{{"1", "z"}, {"2", "w"}}}
				sp[ri][p].V = v
				emit("2x2-positional", sp)
			}
		}
	}
	for _, v1 := range pw {
		for _, v2 := range pw {
			emit("2x2-value-pair", stream{rec{{"a", "x"}, {"b", v1}}, rec{{"a", v2}, {"b", "w"}}})
			emit("2x1-value-pair", stream{one("a", v1), one("a", v2)})
			emit("2x1-positional-pair", stream{one("1", v1), one("1", v2)})
		}
	}
	for _, k := range W2 {
		if k == "a" {
			continue
		}
		emit("2x2-key", stream{rec{{"a", "x"}, {k, "y"}}, rec{{"a", "z"}, {k, "w"}}})
		emit("2x2-key-first", stream{rec{{k, "x"}, {"a", "y"}}, rec{{k, "z"}, {"a", "w"}}})
	}

	// Heterogeneous: every pair of records over keys {a,b,c} (distinct, ordered,
	// at most 2 fields) and values {x, "", -}; and every single record with up to
	// 3 fields.
	hv := []string{"x", "", "-"}
	hk := []string{"a", "b", "c"}
	var small []rec
	for _, k := range hk {
		for _, v := range hv {
			small = append(small, one(k, v))
		}
	}
	for _, k1 := range hk {
		for _, k2 := range hk {
			if k1 == k2 {
				continue
			}
			for _, v1 := range hv {
				for _, v2 := range hv {
					small = append(small, rec{{k1, v1}, {k2, v2}})
				}
			}
		}
	}
	for _, r1 := range small {
		for _, r2 := range small {
			emit("het-2", stream{r1, r2})
		}
	}
	for _, k1 := range hk {
		for _, k2 := range hk {
			for _, k3 := range hk {
				if k1 == k2 || k1 == k3 || k2 == k3 {
					continue
				}
				for _, v1 := range hv {
					for _, v2 := range hv {
						for _, v3 := range hv {
							emit("het-1x3", stream{rec{{k1, v1}, {k2, v2}, {k3, v3}}})
						}
					}
				}
			}
		}
	}
	// three records: schema a,b / other / a,b again (block handling), small values
	for _, mid := range small {
		for _, v := range hv {
			emit("het-3", stream{rec{{"a", "x"}, {"b", v}}, mid, rec{{"a", v}, {"b", "y"}}})
		}
	}
	// positional heterogeneity (different widths) for the nameless formats
	pv := []string{"x", "-", ""}
	var psmall []rec
	for n := 1; n <= 3; n++ {
		idx := make([]int, n)
		for {
			r := make(rec, n)
			for i := range r {
				r[i] = kv{strconv.Itoa(i + 1), pv[idx[i]]}
			}
			psmall = append(psmall, r)
			i := n - 1
			for i >= 0 {
				idx[i]++
				if idx[i] < len(pv) {
					break
				}
				idx[i] = 0
				i--
			}
			if i < 0 {
				break
			}
		}
	}
	for _, r1 := range psmall {
		for _, r2 := range psmall {
			emit("het-positional", stream{r1, r2})
		}
	}

	// Header-join collisions: a key that is the comma/FS-join of the next record's keys.
	for _, sep := range []string{",", ";", " ", "|", "\t"} {
		for _, v := range []string{"x", ""} {
			emit("joined-keys", stream{one("a"+sep+"b", "x"), rec{{"a", "y"}, {"b", v}}})
			emit("joined-keys", stream{rec{{"a", "y"}, {"b", v}}, one("a"+sep+"b", "x")})
			emit("joined-keys", stream{rec{{"a" + sep + "b", "x"}, {"c", "z"}}, rec{{"a", "y"}, {"b" + sep + "c", v}}})
		}
	}

	// Wide records: 11, 12 and 13 fields (the record's key index starts at 12),
	// one nasty key or value at the first, a middle, the 12th and the last position.
	for _, n := range []int{11, 12, 13} {
		base := func(positional bool) rec {
			r := make(rec, n)
			for i := range r {
				k := "k" + strconv.Itoa(i+1)
				if positional {
					k = strconv.Itoa(i + 1)
				}
				r[i] = kv{k, "v" + strconv.Itoa(i+1)}
			}
			return r
		}
		pos := []int{0, 5, n - 2, n - 1}
		for _, p := range pos {
			for _, c := range W1 {
				r := base(false)
				r[p].V = c
				emit("wide-value", stream{r})
				r = base(true)
				r[p].V = c
				emit("wide-positional", stream{r})
				if c != "" {
					r = base(false)
					r[p].K = c
					emit("wide-key", stream{r})
				}
			}
		}
		for _, c := range W1 {
			r1, r2 := base(false), base(false)
			r2[n-1].V = c
			emit("wide-2rec", stream{r1, r2})
			r1, r2 = base(true), base(true)
			r2[n-1].V = c
			emit("wide-2rec-positional", stream{r1, r2})
		}
		// heterogeneous wide: second record lacks the last field / has a renamed last field
		r1, r2 := base(false), base(false)
		emit("wide-het", stream{r1, r2[:n-1]})
		r3 := base(false)
		r3[n-1].K = "other"
		emit("wide-het", stream{r1, r3})
	}
}

// keyVarying families make no sense for positional variants after renaming
// keys; they are run as they are (outside the domain: weak idempotence only).
func familyIsPositional(f string) bool {
	switch f {
	case "1x1-positional", "1x1-byte-positional", "1x3-positional", "1x3-positional-pair", "2x2-positional", "2x1-positional-pair", "het-positional", "wide-positional", "wide-2rec-positional":
		return true
	}
	return false
}
