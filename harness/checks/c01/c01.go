// Package c01: check for property C01 (see /verif/DESIGN.md §3 C01).
package c01
