// Package c01: every file format round-trips its own output and speaks the
// standard dialect (see /verif/DESIGN.md section 3, C01).
//
// Exhaustive bounded enumeration of record streams over an alphabet of nasty
// cell symbols x every format/option variant, run through the real writers and
// readers (direct calls, bound to the command line by a smaller in-process
// pass), with four oracles: self round trip inside an explicit per-format
// domain, idempotence of `cat` on its own output for every stream,
// independent RFC 4180 / IANA TSV / RFC 8259 codecs in both directions, and
// chunking/BOM/CRLF independence of the readers.
package c01

import (
	"encoding/json"
	"fmt"
	"io"
	"os"
	"sort"
	"strings"

	"github.com/johnkerl/miller/v6/pkg/cli"
	"github.com/johnkerl/miller/v6/pkg/verifrt"

	"verif/harness/vf"
)

func init() {
	vf.Register(&vf.CheckDef{ID: "C01", Level: "model_checking", Run: run,
		Workers: map[string]vf.WorkerFunc{"rt": rtWorker, "chunk": chunkWorker, "bind": bindWorker}})
}

const blockSize = 128

// ---------------------------------------------------------------- labels

func symbolSet(cells ...string) string {
	seen := map[string]bool{}
	for _, c := range cells {
		if c == "" {
			seen["empty"] = true
		}
		for _, s := range sigma {
			if s != "a" && strings.Contains(c, s) {
				seen[sigmaNames[s]] = true
			}
		}
	}
	if len(seen) == 0 {
		return "plain"
	}
	var l []string
	for k := range seen {
		l = append(l, k)
	}
	sort.Strings(l)
	return strings.Join(l, "+")
}

// cellChange says what happened to a cell: which alphabet symbols it lost and
// which it gained (by count). This names the cause, not the instance, so that
// one defect gives one violation group.
func cellChange(exp, got string) string {
	var lost, gained []string
	for _, sy := range sigma {
		if sy == "a" {
			continue
		}
		a, b := strings.Count(exp, sy), strings.Count(got, sy)
		if b < a {
			lost = append(lost, sigmaNames[sy])
		} else if b > a {
			gained = append(gained, sigmaNames[sy])
		}
	}
	out := ""
	if len(lost) > 2 {
		lost = []string{"many"}
	}
	if len(gained) > 2 {
		gained = []string{"many"}
	}
	if len(lost) > 0 {
		out += "lost-" + strings.Join(lost, "+")
	}
	if len(gained) > 0 {
		if out != "" {
			out += "-"
		}
		out += "gained-" + strings.Join(gained, "+")
	}
	if out == "" {
		switch {
		case exp == "":
			out = "empty-became-nonempty"
		case got == "":
			out = "became-empty"
		default:
			out = "changed"
		}
	}
	return out
}

// diffLabel names the first difference between the expected and the obtained
// stream.
func diffLabel(exp, got stream) string {
	if len(exp) != len(got) {
		return fmt.Sprintf("records-%d-to-%d/%s", len(exp), len(got), streamSymbols(exp))
	}
	for i := range exp {
		if len(exp[i]) != len(got[i]) {
			return fmt.Sprintf("fields-%d-to-%d/%s", min(len(exp[i]), 14), min(len(got[i]), 14), streamSymbols(stream{exp[i]}))
		}
		if isPermutation(exp[i], got[i]) {
			return "field-order"
		}
		if g, ok := reorderLike(exp[i], got[i]); ok {
			// the same names in another order, and something else on top: name both
			for j := range exp[i] {
				if exp[i][j].V != g[j].V {
					return "field-order+value/" + cellChange(exp[i][j].V, g[j].V)
				}
			}
		}
		for j := range exp[i] {
			if exp[i][j].K != got[i][j].K {
				return "key/" + cellChange(exp[i][j].K, got[i][j].K)
			}
			if exp[i][j].V != got[i][j].V {
				return "value/" + cellChange(exp[i][j].V, got[i][j].V)
			}
		}
	}
	return "none"
}

func isPermutation(a, b rec) bool {
	if len(a) != len(b) {
		return false
	}
	m := map[kv]int{}
	for _, f := range a {
		m[f]++
	}
	for _, f := range b {
		m[f]--
	}
	for _, n := range m {
		if n != 0 {
			return false
		}
	}
	for i := range a {
		if a[i] != b[i] {
			return true
		}
	}
	return false
}

// reorderLike: got rearranged into exp's key order, when got has exactly the
// keys of exp in a different order.
func reorderLike(exp, got rec) (rec, bool) {
	if len(exp) != len(got) {
		return nil, false
	}
	byKey := map[string]kv{}
	for _, f := range got {
		byKey[f.K] = f
	}
	if len(byKey) != len(got) {
		return nil, false
	}
	out := make(rec, len(exp))
	moved := false
	for i, f := range exp {
		g, ok := byKey[f.K]
		if !ok {
			return nil, false
		}
		out[i] = g
		if got[i].K != f.K {
			moved = true
		}
	}
	return out, moved
}

// streamSymbols: the one special symbol of the stream when there is exactly
// one, else "multi" (or "plain"): keeps single-symbol causes in their own
// violation group without one group per symbol pair.
func streamSymbols(s stream) string {
	seen := map[string]bool{}
	for _, r := range s {
		for _, f := range r {
			for _, c := range []string{f.K, f.V} {
				if c == "" {
					seen["empty"] = true
				}
				for _, sy := range sigma {
					if sy != "a" && strings.Contains(c, sy) {
						seen[sigmaNames[sy]] = true
					}
				}
			}
		}
	}
	switch len(seen) {
	case 0:
		return "plain"
	case 1:
		for k := range seen {
			return k
		}
	}
	return "multi"
}

func errLabel(err error) string {
	if err == nil {
		return "nil"
	}
	s := err.Error()
	// keep the stable leading words of the message, drop data
	for _, cut := range []string{"header/data length", "schema change", "bare \"", "extraneous or missing", "unexpected", "invalid character", "did not find", "mismatch"} {
		if strings.Contains(s, cut) {
			return strings.ReplaceAll(strings.ReplaceAll(cut, " ", "-"), "\"", "quote")
		}
	}
	w := strings.Fields(s)
	if len(w) > 4 {
		w = w[:4]
	}
	out := strings.Join(w, "-")
	out = strings.Map(func(r rune) rune {
		if r == '(' || r == ':' || r == ')' {
			return '_'
		}
		return r
	}, out)
	return out
}

func crashLabel(p any) string {
	if e, ok := p.(verifrt.ExitPanic); ok {
		return fmt.Sprintf("os.Exit-%d", e.Code)
	}
	return "panic"
}

func key(oracle string, v *variant, label string, s stream) string {
	label = strings.Map(func(r rune) rune {
		if r == '(' || r == ':' || r == ')' {
			return '_'
		}
		return r
	}, label)
	return fmt.Sprintf("%s[%s/%s]:%04d:%s", oracle, v.name, label, s.size(), s.String())
}

func replay(v *variant, s stream, extra map[string]any) map[string]any {
	m := map[string]any{"variant": v.name, "flags": v.flags, "stream": s.String(), "records_json": streamJSON(s)}
	for k, x := range extra {
		m[k] = x
	}
	return m
}

// streamJSON: the stream as JSON text when it is valid UTF-8 (for reproducing with the plain binary).
func streamJSON(s stream) string {
	if domJSON(s) == "invalid-utf8" {
		return "(not valid UTF-8)"
	}
	return jsonRender(s, jsonStyle{"minimal", "spaced", "array"}, false)
}

func q(s string) string { return fmt.Sprintf("%q", s) }

// ---------------------------------------------------------------- selection

func selectedVariants(quick bool) []variant {
	only := os.Getenv("VERIF_C01_VARIANT")
	var out []variant
	for _, v := range variants() {
		if quick && v.thoroughOnly {
			continue
		}
		if only != "" && !strings.HasPrefix(v.name, only) {
			continue
		}
		out = append(out, v)
	}
	return out
}

type parsed struct {
	v   variant
	o   *cli.TOptions
	err error
}

func parseAll(vs []variant) []parsed {
	out := make([]parsed, len(vs))
	for i, v := range vs {
		o, err := parseFlags(v.flags)
		out[i] = parsed{v, o, err}
	}
	return out
}

// ---------------------------------------------------------------- rt worker

func nontrivial(s stream) bool {
	if len(s) >= 2 {
		return true
	}
	for _, r := range s {
		if len(r) >= 12 {
			return true
		}
		for _, f := range r {
			if symbolSet(f.K, f.V) != "plain" {
				return true
			}
		}
	}
	return false
}

func rtWorker(w *vf.Worker) {
	verifrt.TrapExits(true)
	vf.CaptureStderr()
	quick := w.Quick()
	ps := parseAll(selectedVariants(quick))
	famOnly := os.Getenv("VERIF_C01_FAMILY")
	var idx uint64
	for pi := range ps {
		p := &ps[pi]
		v := &p.v
		if p.err != nil {
			idx++
			if w.Mine(idx) {
				w.Begin(idx)
				w.Violation("options["+v.name+"]:"+strings.Join(v.flags, " "), fmt.Sprintf("mlr %s cat: option parsing fails: %v", strings.Join(v.flags, " "), p.err), nil)
			}
			continue
		}
		var block []stream
		var fams []string
		flush := func() {
			if len(block) == 0 {
				return
			}
			idx++
			if w.Mine(idx) {
				w.Begin(idx)
				first := block[0]
				w.Label(func() string { return fmt.Sprintf("variant %s block starting at %s", v.name, first.String()) })
				for i, s := range block {
					rtCase(w, p, fams[i], s)
				}
				vf.TakeStderr()
			}
			block, fams = block[:0], fams[:0]
		}
		enumerate(quick, func(fam string, s stream) {
			if famOnly != "" && !strings.HasPrefix(fam, famOnly) {
				return
			}
			if !v.positional && familyIsPositional(fam) && fam != "1x1-positional" && fam != "1x3-positional" {
				return // numeric names add nothing for the formats that carry names
			}
			block = append(block, s)
			fams = append(fams, fam)
			if len(block) >= blockSize {
				flush()
			}
		})
		flush()
	}
	w.Sample(map[string]any{"variant": "csv", "stream": stream{rec{{"a", "x\r\n"}, {"b,", "\"y"}}}.String(), "alphabet": len(sigma) + 1})
	reportTimes(w)
}

// informational only (never part of a verdict): where the CPU time goes
func reportTimes(w *vf.Worker) {
	w.Count("time|"+w.Name+"|reader_calls", readCalls)
	w.Count("time|"+w.Name+"|reader_ms", readNanos/1e6)
	w.Count("time|"+w.Name+"|writer_calls", writeCalls)
	w.Count("time|"+w.Name+"|writer_ms", writeNanos/1e6)
}

func countSymbols(w *vf.Worker, v *variant, s stream, side string) {
	seenK, seenV := map[string]bool{}, map[string]bool{}
	for _, r := range s {
		for _, f := range r {
			if f.K == "" {
				seenK["empty"] = true
			}
			if f.V == "" {
				seenV["empty"] = true
			}
			for _, sy := range sigma {
				if strings.Contains(f.K, sy) {
					seenK[sigmaNames[sy]] = true
				}
				if strings.Contains(f.V, sy) {
					seenV[sigmaNames[sy]] = true
				}
			}
		}
	}
	for k := range seenK {
		w.Count("sym|"+v.format+"|"+side+"|key|"+k, 1)
	}
	for k := range seenV {
		w.Count("sym|"+v.format+"|"+side+"|value|"+k, 1)
	}
}

func rtCase(w *vf.Worker, p *parsed, fam string, s stream) {
	v := &p.v
	o := p.o
	w.Eval(1)
	why := v.domain(s)
	inDom := why == ""
	if inDom {
		w.Count("domain|"+v.name+"|in", 1)
		countSymbols(w, v, s, "in")
		if nontrivial(s) {
			w.Nontrivial(1)
		}
	} else {
		w.Count("domain|"+v.name+"|out|"+why, 1)
		countSymbols(w, v, s, "out")
	}
	w.Count("family|"+fam, 1)

	maps := toMaps(s)
	t1, werr, crash := writeMaps(o, maps)
	if crash != nil {
		w.Violation(key("crash-write", v, crashLabel(crash)+"/"+streamSymbols(s), s), fmt.Sprintf("mlr %s: the writer left the process (%v) on records %s", strings.Join(v.flags, " "), crash, s), replay(v, s, nil))
		return
	}
	if werr != nil {
		if inDom {
			w.Violation(key("roundtrip-write-error", v, errLabel(werr)+"/"+streamSymbols(s), s), fmt.Sprintf("mlr %s: the writer rejects representable records %s: %v", strings.Join(v.flags, " "), s, werr), replay(v, s, nil))
		} else {
			w.Count("outcome|writer-rejected-outside-domain", 1)
		}
		return
	}
	r1 := readText(o, t1)
	if r1.crash != nil {
		w.Violation(key("crash-read", v, crashLabel(r1.crash)+"/"+streamSymbols(s), s), fmt.Sprintf("mlr %s cat: the reader crashes (%v) on Miller's own output %s written for %s", strings.Join(v.flags, " "), r1.crash, q(t1), s), replay(v, s, map[string]any{"text": t1}))
		return
	}
	if r1.err != nil {
		if inDom {
			w.Violation(key("roundtrip-read-error", v, errLabel(r1.err)+"/"+streamSymbols(s), s), fmt.Sprintf("mlr %s cat: Miller's own output %s (written for %s) is rejected: %v", strings.Join(v.flags, " "), q(t1), s, r1.err), replay(v, s, map[string]any{"text": t1}))
		} else {
			w.Count("outcome|reader-rejected-outside-domain", 1)
		}
		return
	}
	s2 := fromMaps(r1.maps)
	same := equalStreams(s, s2)
	if inDom {
		if same {
			w.Count("outcome|roundtrip-ok", 1)
		} else {
			w.Violation(key("roundtrip", v, diffLabel(s, s2), s), fmt.Sprintf("mlr %s: wrote %s as %s, read it back as %s", strings.Join(v.flags, " "), s, q(t1), s2), replay(v, s, map[string]any{"text": t1, "read_back": s2.String()}))
		}
	} else if same {
		w.Count("outcome|roundtrip-ok-outside-domain", 1)
	} else {
		w.Count("outcome|lossy-outside-domain", 1)
	}
	if len(w.Rep.Samples) < 3 && inDom && same && nontrivial(s) && s.size() > 14 {
		w.Sample(map[string]any{"variant": v.name, "stream": s.String(), "text": t1})
	}

	// Idempotence of `cat` on its own output. t2 = cat(t1). When the round trip
	// held, t2 must be t1. When the first pass changed the records (only allowed
	// outside the domain), cat(t2) must be t2 provided the records the first pass
	// produced are themselves representable; if they are not (e.g. a cell that
	// still ends in CR), a further change is the format's documented ambiguity,
	// not a defect: counted as unconstrained.
	if inDom && !same {
		return // already reported
	}
	t2, werr2, crash2 := writeMaps(o, r1.maps)
	if crash2 != nil {
		w.Violation(key("crash-write", v, crashLabel(crash2)+"/reread/"+streamSymbols(s), s), fmt.Sprintf("mlr %s cat: the writer crashes (%v) on records read from %s", strings.Join(v.flags, " "), crash2, q(t1)), replay(v, s, map[string]any{"text": t1}))
		return
	}
	dom2 := inDom
	if !same {
		dom2 = v.domain(s2) == ""
	}
	if werr2 != nil {
		if dom2 {
			w.Violation(key("idempotence-write-error", v, errLabel(werr2)+"/"+streamSymbols(s2), s2), fmt.Sprintf("mlr %s cat on %s: the records read (%s) are rejected by the writer: %v", strings.Join(v.flags, " "), q(t1), s2, werr2), replay(v, s, map[string]any{"text": t1}))
		} else {
			w.Count("outcome|rewrite-rejected-outside-domain", 1)
		}
		return
	}
	w.AddSet("outcomes", fmt.Sprintf("%s|dom=%v|rt=%v|idem=%v", v.format, inDom, same, t2 == t1))
	if same {
		if t2 != t1 {
			// same records, different text: the writer is not a function of the records
			w.Violation(key("idempotence-strong", v, streamSymbols(s), s), fmt.Sprintf("mlr %s cat: records %s were written as %s, and the identical records read back from it as %s", strings.Join(v.flags, " "), s, q(t1), q(t2)), replay(v, s, map[string]any{"text": t1, "text2": t2}))
		} else if inDom {
			w.Count("outcome|idempotent-strong", 1)
		}
	} else if !dom2 {
		w.Count("outcome|idempotence-unconstrained-first-pass-result-outside-domain", 1)
	} else {
		r2 := readText(o, t2)
		if r2.crash != nil {
			w.Violation(key("crash-read", v, crashLabel(r2.crash)+"/second/"+streamSymbols(s2), s2), fmt.Sprintf("mlr %s cat: the reader crashes (%v) on cat's own output %s", strings.Join(v.flags, " "), r2.crash, q(t2)), replay(v, s2, map[string]any{"text": t2}))
			return
		}
		if r2.err != nil {
			w.Violation(key("idempotence-read-error", v, errLabel(r2.err)+"/"+streamSymbols(s2), s2), fmt.Sprintf("mlr %s cat: input %s gives output %s, which the same command then rejects: %v", strings.Join(v.flags, " "), q(t1), q(t2), r2.err), replay(v, s2, map[string]any{"text": t1, "text2": t2}))
			return
		}
		s3 := fromMaps(r2.maps)
		t3, werr3, crash3 := writeMaps(o, r2.maps)
		if crash3 != nil || werr3 != nil {
			w.Violation(key("idempotence-write-error", v, "second/"+streamSymbols(s2), s2), fmt.Sprintf("mlr %s cat: input %s gives output %s; running the command on that fails in the writer: %v %v", strings.Join(v.flags, " "), q(t1), q(t2), werr3, crash3), replay(v, s2, map[string]any{"text": t1, "text2": t2}))
			return
		}
		if t3 != t2 || !equalStreams(s2, s3) {
			w.Violation(key("idempotence", v, diffLabel(s2, s3), s2), fmt.Sprintf("mlr %s cat is not idempotent on its own output: %s -> %s -> %s (records %s -> %s)", strings.Join(v.flags, " "), q(t1), q(t2), q(t3), s2, s3), replay(v, s2, map[string]any{"text": t1, "text2": t2, "text3": t3}))
		} else {
			w.Count("outcome|idempotent-after-lossy-first-pass", 1)
		}
	}

	if v.std != "" && inDom {
		stdCase(w, p, fam, s, t1)
	}
}

// ---------------------------------------------------------------- standard dialects

func expectedRows(v *variant, s stream) [][]string {
	var rows [][]string
	if !v.positional {
		rows = append(rows, s[0].keys())
	}
	for _, r := range s {
		rows = append(rows, values(r))
	}
	return rows
}

func rowsEqual(a, b [][]string) bool {
	if len(a) != len(b) {
		return false
	}
	for i := range a {
		if len(a[i]) != len(b[i]) {
			return false
		}
		for j := range a[i] {
			if a[i][j] != b[i][j] {
				return false
			}
		}
	}
	return true
}

func rowsLabel(exp, got [][]string) string {
	if len(exp) != len(got) {
		return fmt.Sprintf("rows-%d-to-%d", len(exp), len(got))
	}
	for i := range exp {
		if len(exp[i]) != len(got[i]) {
			return fmt.Sprintf("fields-%d-to-%d", min(len(exp[i]), 14), min(len(got[i]), 14))
		}
		for j := range exp[i] {
			if exp[i][j] != got[i][j] {
				return "cell/" + cellChange(exp[i][j], got[i][j])
			}
		}
	}
	return "none"
}

func stdCase(w *vf.Worker, p *parsed, fam string, s stream, t1 string) {
	v := &p.v
	flags := strings.Join(v.flags, " ")
	foreign := func(style string, text string) {
		w.Count("std|"+v.std+"|foreign-texts", 1)
		r := readText(p.o, text)
		switch {
		case r.crash != nil:
			w.Violation(key("std-read-crash", v, crashLabel(r.crash)+"/"+style+"/"+streamSymbols(s), s), fmt.Sprintf("mlr %s cat: the reader crashes (%v) on standard-conforming text %s (style %s)", flags, r.crash, q(text), style), replay(v, s, map[string]any{"text": text, "style": style}))
		case r.err != nil:
			w.Violation(key("std-read-error", v, errLabel(r.err)+"/"+style+"/"+streamSymbols(s), s), fmt.Sprintf("mlr %s cat rejects standard-conforming text %s (style %s, cells %s): %v", flags, q(text), style, s, r.err), replay(v, s, map[string]any{"text": text, "style": style}))
		default:
			got := fromMaps(r.maps)
			if !equalStreams(got, s) {
				w.Violation(key("std-read", v, style+"/"+diffLabel(s, got), s), fmt.Sprintf("mlr %s cat reads standard-conforming text %s (style %s) as %s, expected %s", flags, q(text), style, got, s), replay(v, s, map[string]any{"text": text, "style": style, "read": got.String()}))
			}
		}
	}
	switch v.std {
	case "csv":
		comma := v.fs[0]
		exp := expectedRows(v, s)
		got, err := csvParse(t1, comma)
		w.Count("std|csv|miller-texts", 1)
		if err != nil {
			w.Violation(key("std-write", v, "not-rfc4180/"+streamSymbols(s), s), fmt.Sprintf("mlr %s writes %s as %s, which is not RFC 4180: %v", flags, s, q(t1), err), replay(v, s, map[string]any{"text": t1}))
		} else if !rowsEqual(exp, got) {
			w.Violation(key("std-write", v, rowsLabel(exp, got), s), fmt.Sprintf("mlr %s writes %s as %s; an RFC 4180 reader gets %q", flags, s, q(t1), got), replay(v, s, map[string]any{"text": t1}))
		}
		if v.stdReadSkip {
			return
		}
		// every legal quoting style
		type cellRef struct{ r, c int }
		var optional []cellRef
		must := map[cellRef]bool{}
		for r, row := range exp {
			for c, cell := range row {
				if csvMustQuote(cell, comma) {
					must[cellRef{r, c}] = true
				} else {
					optional = append(optional, cellRef{r, c})
				}
			}
		}
		// Quoting styles: every subset of the optionally-quoted cells when there
		// are few of them, else none / all / each single cell quoted (and, in the
		// thorough tier, each single cell unquoted); wide records: none / all.
		maxBits := 8
		if w.Quick() {
			maxBits = 3
		}
		wide := strings.HasPrefix(fam, "wide") || (w.Quick() && (v.name == "csv-lazy" || v.name == "csv-ragged") && !strings.HasPrefix(fam, "1x1"))
		type maskT struct {
			m    map[cellRef]bool
			full bool // run with every line-ending style
		}
		var masks []maskT
		all := map[cellRef]bool{}
		for _, cr := range optional {
			all[cr] = true
		}
		if len(optional) <= maxBits && !wide {
			for m := 0; m < 1<<len(optional); m++ {
				mk := map[cellRef]bool{}
				for b, cr := range optional {
					if m>>b&1 == 1 {
						mk[cr] = true
					}
				}
				masks = append(masks, maskT{mk, len(mk) == 0 || len(mk) == len(optional)})
			}
		} else {
			masks = append(masks, maskT{map[cellRef]bool{}, true}, maskT{all, true})
			if !wide {
				for _, cr := range optional {
					masks = append(masks, maskT{map[cellRef]bool{cr: true}, false})
					if !w.Quick() {
						mk := map[cellRef]bool{}
						for _, o := range optional {
							if o != cr {
								mk[o] = true
							}
						}
						masks = append(masks, maskT{mk, false})
					}
				}
			}
			w.Count("std|csv|quoting-subsets-reduced", 1)
		}
		last := exp[len(exp)-1]
		for _, mt := range masks {
			mk := mt.m
			quoted := func(r, c int) bool { return must[cellRef{r, c}] || mk[cellRef{r, c}] }
			for _, eol := range []string{"\n", "\r\n"} {
				for _, fin := range []bool{true, false} {
					if !mt.full && w.Quick() && (eol == "\n") != fin {
						continue // partial masks in the quick tier: LF with final newline, CRLF without
					}
					if !fin && len(last) == 1 && last[0] == "" && !quoted(len(exp)-1, 0) {
						continue // an empty last line without terminator is not a record
					}
					style := "lf"
					if eol == "\r\n" {
						style = "crlf"
					}
					if !fin {
						style += "-nofinal"
					}
					switch {
					case len(mk) == 0:
						style += "-minq"
					case len(mk) == len(optional):
						style += "-allq"
					default:
						style += "-someq"
					}
					foreign(style, csvRender(exp, comma, eol, fin, quoted))
				}
			}
		}
	case "tsv":
		exp := expectedRows(v, s)
		got, err := tsvParse(t1)
		w.Count("std|tsv|miller-texts", 1)
		if err != nil || !rowsEqual(exp, got) {
			w.Violation(key("std-write", v, rowsLabel(exp, got), s), fmt.Sprintf("mlr %s writes %s as %s; an IANA-TSV reader with \\t \\n \\r \\\\ escapes gets %q", flags, s, q(t1), got), replay(v, s, map[string]any{"text": t1}))
		}
		if v.stdReadSkip {
			return
		}
		last := exp[len(exp)-1]
		for _, eol := range []string{"\n", "\r\n"} {
			for _, fin := range []bool{true, false} {
				if !fin && len(last) == 1 && last[0] == "" {
					continue
				}
				for _, minimal := range []bool{false, true} {
					style := map[string]string{"\n": "lf", "\r\n": "crlf"}[eol]
					if !fin {
						style += "-nofinal"
					}
					if minimal {
						style += "-minesc"
					}
					foreign(style, tsvRender(exp, eol, fin, minimal))
				}
			}
		}
	case "json", "jsonl", "jsonseq":
		w.Count("std|json|miller-texts", 1)
		valid := true
		if v.std == "json" {
			valid = json.Valid([]byte(t1))
		} else if v.std == "jsonseq" {
			// a concatenation of JSON texts
			dec := json.NewDecoder(strings.NewReader(t1))
			for {
				var x any
				if err := dec.Decode(&x); err != nil {
					valid = err == io.EOF
					break
				}
			}
		} else {
			for _, line := range strings.Split(t1, "\n") {
				if strings.TrimSpace(line) != "" && !json.Valid([]byte(line)) {
					valid = false
				}
			}
		}
		got, err := jsonParse(t1)
		switch {
		case !valid || err != nil:
			w.Violation(key("std-write", v, "not-rfc8259/"+streamSymbols(s), s), fmt.Sprintf("mlr %s writes %s as %s, which is not RFC 8259 JSON (valid=%v err=%v)", flags, s, q(t1), valid, err), replay(v, s, map[string]any{"text": t1}))
		case v.name == "json-quoteall":
			// all values become strings: same bytes
			fallthrough
		default:
			if !equalStreams(got, s) {
				w.Violation(key("std-write", v, diffLabel(s, got), s), fmt.Sprintf("mlr %s writes %s as %s; encoding/json reads %s", flags, s, q(t1), got), replay(v, s, map[string]any{"text": t1}))
			}
		}
		if v.stdReadSkip {
			return
		}
		hasNum := false
		for _, r := range s {
			for _, f := range r {
				if isJSONNumber(f.V) {
					hasNum = true
				}
			}
		}
		for _, st := range jsonStyles(!w.Quick() || strings.HasPrefix(fam, "1x1")) {
			foreign(st.String(), jsonRender(s, st, false))
			if hasNum {
				foreign(st.String()+"/bare-numbers", jsonRender(s, st, true))
			}
		}
	}
}

// ---------------------------------------------------------------- chunk worker

const bom = "\xef\xbb\xbf"

// chunkStreams: a small canonical set of streams per variant for the
// chunking/BOM/CRLF oracle: every one-symbol value, a few two-record and
// three-field shapes.
func chunkStreams(v *variant, quick bool) []stream {
	var out []stream
	k1, k2, k3 := "a", "b", "c"
	if v.positional {
		k1, k2, k3 = "1", "2", "3"
	}
	for _, c := range words(1) {
		out = append(out, stream{one(k1, c)})
		out = append(out, stream{rec{{k1, "x"}, {k2, c}}, rec{{k1, c}, {k2, "y"}}})
	}
	out = append(out, stream{rec{{k1, "x"}, {k2, "y"}, {k3, "z"}}})
	if !v.positional {
		for _, c := range words(1) {
			if c != "a" {
				out = append(out, stream{one(c, "x")})
			}
		}
		out = append(out, stream{one("é", "é")}, stream{rec{{"a", "x"}}, rec{{"b", "y"}}})
	}
	if !quick {
		for _, c := range words(2) {
			if len(c) >= 2 {
				out = append(out, stream{rec{{k1, c}, {k2, "y"}}})
			}
		}
	}
	return out
}

func sameResult(a, b readResult) (bool, string) {
	if (a.err != nil) != (b.err != nil) {
		return false, fmt.Sprintf("error %v vs %v", a.err, b.err)
	}
	if a.err != nil {
		return true, ""
	}
	sa, sb := fromMaps(a.maps), fromMaps(b.maps)
	if !equalStreams(sa, sb) {
		return false, fmt.Sprintf("%s vs %s", sa, sb)
	}
	return true, ""
}

func chunkWorker(w *vf.Worker) {
	verifrt.TrapExits(true)
	vf.CaptureStderr()
	quick := w.Quick()
	ps := parseAll(selectedVariants(quick))
	maxLen := 40
	if quick {
		maxLen = 26
	}
	var idx uint64
	for pi := range ps {
		p := &ps[pi]
		v := &p.v
		if p.err != nil {
			continue
		}
		flags := strings.Join(v.flags, " ")
		for _, s := range chunkStreams(v, quick) {
			idx++
			if !w.Mine(idx) {
				continue
			}
			w.Begin(idx)
			w.Label(func() string { return fmt.Sprintf("chunk %s %s", v.name, s) })
			if v.domain(s) != "" {
				w.Count("chunk|outside-domain", 1)
				continue
			}
			t1, werr, crash := writeMaps(p.o, toMaps(s))
			if werr != nil || crash != nil {
				continue // reported by the rt worker
			}
			base := readText(p.o, t1)
			if base.crash != nil || base.err != nil {
				continue // reported by the rt worker
			}
			type textCase struct{ name, text string }
			texts := []textCase{{"plain", t1}, {"bom", bom + t1}}
			hasEOL := false
			for _, r := range s {
				for _, f := range r {
					if strings.ContainsAny(f.K+f.V, "\r\n") {
						hasEOL = true
					}
				}
			}
			if !hasEOL && (v.rs == "\n" || v.rs == "") && strings.Contains(t1, "\n") {
				crlf := strings.ReplaceAll(t1, "\n", "\r\n")
				texts = append(texts, textCase{"crlf", crlf})
				if strings.HasSuffix(t1, "\n") {
					texts = append(texts, textCase{"nofinal", strings.TrimSuffix(t1, "\n")})
				}
			}
			for _, tc := range texts {
				whole := readText(p.o, tc.text)
				w.Eval(1)
				if whole.crash != nil {
					w.Violation(key("crash-read", v, crashLabel(whole.crash)+"/"+tc.name, s), fmt.Sprintf("mlr %s cat: reader crashes (%v) on %s", flags, whole.crash, q(tc.text)), replay(v, s, map[string]any{"text": tc.text}))
					continue
				}
				// what the text must mean
				switch tc.name {
				case "bom":
					if v.bomStrip {
						if ok, d := sameResult(base, whole); !ok {
							w.Violation(key("bom", v, "whole/"+streamSymbols(s), s), fmt.Sprintf("mlr %s cat: a leading UTF-8 BOM changes the records read from %s: %s", flags, q(tc.text), d), replay(v, s, map[string]any{"text": tc.text}))
						}
					}
				case "crlf":
					if ok, d := sameResult(base, whole); !ok {
						w.Violation(key("crlf", v, streamSymbols(s), s), fmt.Sprintf("mlr %s cat: CR/LF line endings change the records read: %s vs %s: %s", flags, q(t1), q(tc.text), d), replay(v, s, map[string]any{"text": tc.text}))
					}
				case "nofinal":
					if ok, d := sameResult(base, whole); !ok {
						lastEmpty := false
						if n := len(s); n > 0 {
							lr := s[n-1]
							lastEmpty = lr[len(lr)-1].V == ""
						}
						if lastEmpty {
							w.Count("chunk|nofinal-unconstrained-empty-last-cell", 1)
						} else {
							w.Violation(key("final-newline", v, streamSymbols(s), s), fmt.Sprintf("mlr %s cat: dropping the final newline changes the records read from %s: %s", flags, q(t1), d), replay(v, s, map[string]any{"text": tc.text}))
						}
					}
				}
				// chunking independence
				L := len(tc.text)
				if L > maxLen {
					w.Count("chunk|text-longer-than-bound", 1)
					continue
				}
				bad := 0
				for i := 1; i < L && bad < 3; i++ {
					for j := i; j <= L && bad < 3; j++ {
						// j == L: two chunks; i<j<L: three chunks
						if j == i {
							continue
						}
						var chunks []string
						if j == L {
							chunks = []string{tc.text[:i], tc.text[i:]}
						} else {
							chunks = []string{tc.text[:i], tc.text[i:j], tc.text[j:]}
						}
						r := readChunks(p.o, chunks)
						w.Eval(1)
						w.Count("chunk|"+tc.name+"|chunkings", 1)
						if r.crash != nil {
							bad++
							w.Violation(key("crash-read", v, crashLabel(r.crash)+"/chunked-"+tc.name, s), fmt.Sprintf("mlr %s cat: reader crashes (%v) when %s arrives as %q", flags, r.crash, q(tc.text), chunks), replay(v, s, map[string]any{"chunks": chunks}))
							continue
						}
						if ok, d := sameResult(whole, r); !ok {
							bad++
							lbl := fmt.Sprintf("%s/first-read-%d-bytes", tc.name, min(len(chunks[0]), 4))
							w.Violation(key("chunking", v, lbl, s), fmt.Sprintf("mlr %s cat: the records depend on how the input arrives: %s in one read vs reads %q: %s", flags, q(tc.text), chunks, d), replay(v, s, map[string]any{"text": tc.text, "chunks": chunks}))
						}
					}
				}
			}
			vf.TakeStderr()
		}
	}
	w.Sample(map[string]any{"chunking": []string{"\xef", "\xbb\xbfa,b\n1", ",2\n"}, "variant": "csv"})
	reportTimes(w)
}

// ---------------------------------------------------------------- bind worker

// bindStreams: the cases on which the direct writer/reader calls are compared
// with the complete command line run in-process.
func bindStreams(v *variant) []stream {
	var out []stream
	k1, k2 := "a", "b"
	if v.positional {
		k1, k2 = "1", "2"
	}
	for _, c := range words(1) {
		out = append(out, stream{rec{{k1, c}, {k2, "y"}}})
		out = append(out, stream{rec{{k1, "x"}, {k2, c}}, rec{{k1, c + c}, {k2, "y"}}})
		if !v.positional && c != "a" && c != "b" {
			out = append(out, stream{rec{{c, "x"}, {"b", "y"}}})
		}
	}
	out = append(out, stream{one(k1, "x"), rec{{k1, "y"}, {k2, "z"}}}, stream{rec{{k1, "y"}, {k2, "z"}}, one(k1, "x")}, stream{one("a", "x"), one("b", "y")})
	for _, n := range numberFamily {
		out = append(out, stream{rec{{k1, n}, {k2, "x"}}})
	}
	return out
}

func bindWorker(w *vf.Worker) {
	verifrt.TrapExits(true)
	quick := w.Quick()
	ps := parseAll(selectedVariants(quick))
	var idx uint64
	for pi := range ps {
		p := &ps[pi]
		v := &p.v
		if p.err != nil {
			continue
		}
		// documented separators of the flag list
		idx++
		if w.Mine(idx) {
			w.Begin(idx)
			chk := func(what, got, want string) {
				if want != "" && got != want {
					w.Violation("separators["+v.name+"]:"+what, fmt.Sprintf("mlr %s: %s is %q, documentation says %q", strings.Join(v.flags, " "), what, got, want), nil)
				}
			}
			chk("IFS", p.o.ReaderOptions.IFS, v.fs)
			chk("OFS", p.o.WriterOptions.OFS, v.fs)
			chk("IPS", p.o.ReaderOptions.IPS, v.ps)
			chk("OPS", p.o.WriterOptions.OPS, v.ps)
			if v.rs != "" {
				chk("ORS", p.o.WriterOptions.ORS, v.rs)
			}
			w.Eval(1)
		}
		for _, s := range bindStreams(v) {
			idx++
			if !w.Mine(idx) {
				continue
			}
			w.Begin(idx)
			w.Label(func() string { return fmt.Sprintf("bind %s %s", v.name, s) })
			t1, werr, crash := writeMaps(p.o, toMaps(s))
			if crash != nil {
				continue
			}
			// writer side: the same records through `mlr --ijson <flags-with-output-format> cat`
			if domJSON(s) == "" && !hasNumberLike(s) {
				jtext := jsonRender(s, jsonStyle{"minimal", "spaced", "array"}, false)
				args := append(append([]string{}, v.flags...), "--ijson", "cat", virtualName)
				r := vf.RunMlr(args, vf.MlrOpts{Files: vf.VFS{virtualName: jtext}})
				w.Eval(1)
				w.Count("bind|writer-side", 1)
				if werr != nil {
					if r.Exit == 0 {
						w.Violation(key("bind-write", v, "direct-error-cli-ok", s), fmt.Sprintf("direct writer call fails (%v) but `mlr %s` exits 0 with %s", werr, strings.Join(args, " "), q(r.Stdout)), replay(v, s, nil))
					}
				} else if r.Exit != 0 || r.Stdout != t1 {
					// JSON output of JSON input keeps JSON types (strings stay strings): same text expected,
					// except where the JSON reader types a value differently from the data readers.
					w.Violation(key("bind-write", v, streamSymbols(s), s), fmt.Sprintf("direct writer call gives %s but `mlr %s` (exit %d, %s) gives %s", q(t1), strings.Join(args, " "), r.Exit, r.Err, q(r.Stdout)), replay(v, s, map[string]any{"direct": t1, "cli": r.Stdout}))
				}
			}
			if werr != nil {
				continue
			}
			// reader+writer side: `mlr <flags> cat` on the text
			direct := readText(p.o, t1)
			if direct.crash != nil {
				continue
			}
			args := append(append([]string{}, v.flags...), "cat", virtualName)
			r := vf.RunMlr(args, vf.MlrOpts{Files: vf.VFS{virtualName: t1}})
			w.Eval(1)
			w.Count("bind|cat-side", 1)
			if direct.err != nil {
				if r.Exit == 0 {
					w.Violation(key("bind-cat", v, "direct-error-cli-ok", s), fmt.Sprintf("direct reader call fails (%v) on %s but `mlr %s` exits 0 with %s", direct.err, q(t1), strings.Join(args, " "), q(r.Stdout)), replay(v, s, map[string]any{"text": t1}))
				}
				continue
			}
			t2, werr2, _ := writeMaps(p.o, direct.maps)
			if werr2 != nil {
				if r.Exit == 0 {
					w.Violation(key("bind-cat", v, "direct-write-error-cli-ok", s), fmt.Sprintf("direct re-write fails (%v) on %s but `mlr %s` exits 0", werr2, q(t1), strings.Join(args, " ")), replay(v, s, map[string]any{"text": t1}))
				}
				continue
			}
			if r.Exit != 0 || r.Stdout != t2 {
				w.Violation(key("bind-cat", v, streamSymbols(s), s), fmt.Sprintf("direct read+write of %s gives %s but `mlr %s` (exit %d %s %s) gives %s", q(t1), q(t2), strings.Join(args, " "), r.Exit, r.Err, r.Panic, q(r.Stdout)), replay(v, s, map[string]any{"text": t1, "direct": t2, "cli": r.Stdout}))
			}
		}
	}
	w.Sample(map[string]any{"bind": "mlr --csv cat c01-input", "compared_with": "output.Create/Write + input.Create/Read"})
}

func hasNumberLike(s stream) bool {
	for _, r := range s {
		for _, f := range r {
			if f.V != "" && (isJSONNumber(f.V) || looksNumericNonJSON(f.V)) {
				return true
			}
		}
	}
	return false
}

// ---------------------------------------------------------------- orchestrator

func run(c *vf.Ctx) {
	if os.Getenv("VERIF_C01_BENCH") != "" {
		bench()
		return
	}
	quick := c.Quick()
	vs := selectedVariants(quick)
	maxLen := 3
	if quick {
		maxLen = 2
	}
	c.Rule = fmt.Sprintf("every record stream of the canonical families (one nasty cell of <= %d symbols over an 18-symbol alphabet at every position of 1- and 3-field records; all pairs of one-symbol cells; 2-record streams; every pair of records over keys {a,b,c} x values {x,empty,-}; positional-key twins; header-join collisions; 11/12/13-field records) x every format/option variant, through the real writer and reader. A case counts as distinct non-trivial when the stream is inside the variant's documented domain and has a cell with a non-letter symbol, >= 2 records or >= 12 fields; distinct streams are counted once per variant", maxLen)
	c.Assume("cells longer than the bound and Unicode beyond one 2-byte letter and one invalid byte are not explored")
	c.Assume("records with zero fields are not enumerated")
	c.Assume("round trip read(write(R)) == R is asserted only inside each variant's domain predicate (formats.go, written from file-formats.md / reference-main-separators.md / new-in-miller-6.md); both sides of every predicate are counted per reason")
	c.Assume("idempotence: cat(t) == t is asserted whenever the round trip held; cat(cat(t)) == cat(t) is asserted for every stream whose first pass produced records that are inside the domain; when the first pass produced records outside the domain (e.g. a cell still ending in CR) a further change is the format's documented ambiguity and is counted as unconstrained, not asserted")
	c.Assume("JSON/YAML: invalid UTF-8 and number-like values whose spelling is not an RFC 8259 number (0x1F, +1, 1., .5, Inf) or that ints re-render (-0) are outside the byte-exact domain (JSON cannot carry them; the writer documents re-rendering)")
	c.Assume("a one-column record whose cell is empty (an empty line) is outside the domain of TSV and the CSV-lite family (indistinguishable from a blank line; documentation silent); it is inside the domain of CSV")
	c.Assume("NIDX default IFS splits on spaces and tabs (new-in-miller-6.md); DKVPX/XTAB/PPRINT empty keys, and a markdown/PPRINT-barred cell with outer white space, are outside the domain (documentation silent / trimmed by design)")
	c.Assume("standard-dialect oracle, foreign-text direction: all subsets of optionally quoted CSV cells when there are at most 3 (quick) / 8 (thorough) of them, else none/all/each-single; LF and CRLF, final newline present/absent; TSV with always-escaped and minimally-escaped backslashes; JSON in 40 (1-field records, thorough) or 8 covering escape/white-space/wrapping styles")
	c.Assume("chunking oracle: every split into 2 and 3 reads of every text of at most 26 (quick) / 40 (thorough) bytes from a fixed per-variant list of streams; longer texts are only read whole (counted as text-longer-than-bound)")
	c.Assume("BOM stripping is asserted for CSV and CSV-lite (the readers that document/intend it); for other formats only independence from the chunking is asserted on BOM-prefixed text")
	c.Assume("comment handling flags, compressed input, --ifs-regex/--ips-regex, --repifs on formats other than NIDX/PPRINT, fixed-width PPRINT input, markdown/PPRINT implicit headers, colourised output, DCF and recutils are not covered")
	c.Assume("direct writer/reader calls use the option structs climain.ParseCommandLine returns for `mlr <flags> cat`; a separate pass compares them with the full in-process command line (`mlr <flags> cat file`, `mlr <flags> --ijson cat file`) on a subset and checks the documented default separators")

	// distinct non-trivial cases by the rule, computed over the same enumeration
	distinct := int64(0)
	perVariant := map[string]int64{}
	streams := 0
	{
		type fs struct {
			fam string
			s   stream
			k   string
		}
		var all []fs
		seenAll := map[string]bool{}
		enumerate(quick, func(fam string, s stream) {
			k := s.String()
			all = append(all, fs{fam, s, k})
			seenAll[k] = true
		})
		streams = len(seenAll)
		for _, v := range vs {
			seen := map[string]bool{}
			for _, x := range all {
				if !v.positional && familyIsPositional(x.fam) && x.fam != "1x1-positional" && x.fam != "1x3-positional" {
					continue
				}
				if seen[x.k] {
					continue
				}
				seen[x.k] = true
				if v.domain(x.s) == "" && nontrivial(x.s) {
					distinct++
					perVariant[v.name]++
				}
			}
		}
	}

	res := c.RunPool(vf.PoolSpec{Worker: "rt", Shards: 256, CrashKey: func(idx uint64, label, kind, tail string) (string, string) {
		return "crash[" + kind + "]:" + label, fmt.Sprintf("worker died (%s) in %s: %s", kind, label, tail)
	}})
	res2 := c.RunPool(vf.PoolSpec{Worker: "chunk", Shards: 128, CrashKey: func(idx uint64, label, kind, tail string) (string, string) {
		return "crash[" + kind + "]:" + label, fmt.Sprintf("worker died (%s) in %s: %s", kind, label, tail)
	}})
	_ = res2
	c.RunPool(vf.PoolSpec{Worker: "bind", Shards: 64})
	c.DistinctNontrivial = distinct
	c.Extra["distinct_streams"] = streams
	c.Extra["variants"] = len(vs)
	c.Extra["distinct_nontrivial_in_domain_per_variant"] = perVariant
	c.Extra["distinct_outcomes"] = vf.SortedSet(res, "outcomes")

	// restructure the flat counters into readable tables
	domIn := map[string]int64{}
	domOut := map[string]map[string]int64{}
	symIn := map[string]map[string]int64{}
	symOut := map[string]map[string]int64{}
	fam := map[string]int64{}
	outcome := map[string]int64{}
	std := map[string]int64{}
	chunk := map[string]int64{}
	times := map[string]int64{}
	for k, n := range c.Counters {
		f := strings.Split(k, "|")
		switch f[0] {
		case "domain":
			if f[2] == "in" {
				domIn[f[1]] += n
			} else {
				if domOut[f[1]] == nil {
					domOut[f[1]] = map[string]int64{}
				}
				domOut[f[1]][f[3]] += n
			}
			delete(c.Counters, k)
		case "sym":
			m := symIn
			if f[2] == "out" {
				m = symOut
			}
			if m[f[1]] == nil {
				m[f[1]] = map[string]int64{}
			}
			m[f[1]][f[3]+":"+f[4]] += n
			delete(c.Counters, k)
		case "family":
			fam[f[1]] += n
			delete(c.Counters, k)
		case "outcome":
			outcome[f[1]] += n
			delete(c.Counters, k)
		case "std":
			std[strings.Join(f[1:], " ")] += n
			delete(c.Counters, k)
		case "chunk", "bind":
			chunk[strings.Join(f, " ")] += n
			delete(c.Counters, k)
		case "time":
			times[strings.Join(f[1:], " ")] += n
			delete(c.Counters, k)
		}
	}
	c.Extra["domain_inside_per_variant"] = domIn
	c.Extra["domain_outside_per_variant_by_reason"] = domOut
	c.Extra["symbol_hits_inside_domain_per_format"] = symIn
	c.Extra["symbol_hits_outside_domain_per_format"] = symOut
	c.Extra["cases_per_family"] = fam
	c.Extra["outcomes"] = outcome
	c.Extra["standard_dialect_texts"] = std
	c.Extra["chunking_and_binding"] = chunk
	c.Extra["informational_cpu_time_in_miller_calls"] = times
	// vacuity: every symbol must have been exercised inside the domain of at least one format, in keys and in values
	never := []string{}
	for _, sy := range append(append([]string{}, sigma...), "") {
		name := sigmaNames[sy]
		for _, kind := range []string{"key", "value"} {
			hit := false
			for _, m := range symIn {
				if m[kind+":"+name] > 0 {
					hit = true
				}
			}
			if !hit {
				never = append(never, kind+":"+name)
			}
		}
	}
	c.Extra["symbols_never_inside_any_domain"] = never
	if len(never) > 0 && os.Getenv("VERIF_C01_VARIANT") == "" && os.Getenv("VERIF_C01_FAMILY") == "" {
		c.Broken("alphabet symbols never exercised inside any domain: %v", never)
	}
	for _, v := range vs {
		if domIn[v.name] == 0 && os.Getenv("VERIF_C01_FAMILY") == "" {
			c.Broken("variant %s: no stream inside its domain", v.name)
		}
		if len(domOut[v.name]) == 0 && os.Getenv("VERIF_C01_FAMILY") == "" {
			c.Broken("variant %s: domain predicate never false (one-sided)", v.name)
		}
	}
}
