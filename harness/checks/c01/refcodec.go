package c01

// Independent codecs for the three standard dialects. They share no code with
// Miller: an RFC 4180 state machine, an IANA-TSV splitter with Miller's
// documented \t \n \r \\ escapes, and encoding/json for RFC 8259.

import (
	"bytes"
	"encoding/json"
	"fmt"
	"io"
	"strings"
	"unicode/utf8"
)

// ---------------------------------------------------------------- RFC 4180

// csvParse: records are terminated by LF or CRLF (the last one optionally);
// fields are separated by comma; a field is either unquoted (no comma, quote,
// CR or LF) or enclosed in quotes with embedded quotes doubled. An empty line
// is a record with one empty field.
func csvParse(text string, comma byte) (rows [][]string, err error) {
	i, n := 0, len(text)
	for i < n {
		var row []string
		for {
			// one field
			var f []byte
			if i < n && text[i] == '"' {
				i++
				closed := false
				for i < n {
					c := text[i]
					if c == '"' {
						if i+1 < n && text[i+1] == '"' {
							f = append(f, '"')
							i += 2
							continue
						}
						i++
						closed = true
						break
					}
					f = append(f, c)
					i++
				}
				if !closed {
					return nil, fmt.Errorf("unterminated quoted field")
				}
				if i < n && text[i] != comma && text[i] != '\n' && !(text[i] == '\r' && i+1 < n && text[i+1] == '\n') {
					return nil, fmt.Errorf("byte %q after closing quote at offset %d", text[i], i)
				}
			} else {
				for i < n && text[i] != comma && text[i] != '\n' {
					c := text[i]
					if c == '"' {
						return nil, fmt.Errorf("bare quote in unquoted field at offset %d", i)
					}
					if c == '\r' {
						if i+1 < n && text[i+1] == '\n' {
							break
						}
						return nil, fmt.Errorf("bare CR in unquoted field at offset %d", i)
					}
					f = append(f, c)
					i++
				}
			}
			row = append(row, string(f))
			if i < n && text[i] == comma {
				i++
				continue
			}
			break
		}
		// end of record
		if i < n && text[i] == '\r' {
			i++
		}
		if i < n && text[i] == '\n' {
			i++
		}
		rows = append(rows, row)
	}
	return rows, nil
}

func csvMustQuote(cell string, comma byte) bool {
	return strings.IndexByte(cell, comma) >= 0 || strings.ContainsAny(cell, "\"\r\n")
}

// csvRender writes rows with the cells selected by quoted() enclosed in quotes.
func csvRender(rows [][]string, comma byte, eol string, finalEOL bool, quoted func(row, col int) bool) string {
	var sb strings.Builder
	for r, row := range rows {
		for c, cell := range row {
			if c > 0 {
				sb.WriteByte(comma)
			}
			if quoted(r, c) {
				sb.WriteByte('"')
				sb.WriteString(strings.ReplaceAll(cell, `"`, `""`))
				sb.WriteByte('"')
			} else {
				sb.WriteString(cell)
			}
		}
		if r < len(rows)-1 || finalEOL {
			sb.WriteString(eol)
		}
	}
	return sb.String()
}

// ---------------------------------------------------------------- IANA TSV

func tsvDecodeCell(s string) string {
	var b []byte
	for i := 0; i < len(s); i++ {
		if s[i] == '\\' && i+1 < len(s) {
			switch s[i+1] {
			case 't':
				b = append(b, '\t')
				i++
				continue
			case 'n':
				b = append(b, '\n')
				i++
				continue
			case 'r':
				b = append(b, '\r')
				i++
				continue
			case '\\':
				b = append(b, '\\')
				i++
				continue
			}
		}
		b = append(b, s[i])
	}
	return string(b)
}

// tsvEncodeCell: minimal=false escapes every backslash; minimal=true leaves a
// backslash alone when the decoder would leave it alone too (not followed by
// t, n, r or backslash, and not the last byte before an escapable byte).
func tsvEncodeCell(s string, minimal bool) string {
	var b []byte
	for i := 0; i < len(s); i++ {
		switch s[i] {
		case '\t':
			b = append(b, '\\', 't')
		case '\n':
			b = append(b, '\\', 'n')
		case '\r':
			b = append(b, '\\', 'r')
		case '\\':
			if minimal {
				next := byte(0)
				if i+1 < len(s) {
					next = s[i+1]
				}
				// the following byte as it will appear in the encoded text
				if i+1 < len(s) && next != 't' && next != 'n' && next != 'r' && next != '\\' && next != '\t' && next != '\n' && next != '\r' {
					b = append(b, '\\')
					continue
				}
			}
			b = append(b, '\\', '\\')
		default:
			b = append(b, s[i])
		}
	}
	return string(b)
}

func tsvParse(text string) (rows [][]string, err error) {
	if text == "" {
		return nil, nil
	}
	lines := strings.Split(text, "\n")
	if lines[len(lines)-1] == "" {
		lines = lines[:len(lines)-1]
	}
	for _, line := range lines {
		line = strings.TrimSuffix(line, "\r")
		cells := strings.Split(line, "\t")
		for i := range cells {
			cells[i] = tsvDecodeCell(cells[i])
		}
		rows = append(rows, cells)
	}
	return rows, nil
}

func tsvRender(rows [][]string, eol string, finalEOL, minimal bool) string {
	var sb strings.Builder
	for r, row := range rows {
		for c, cell := range row {
			if c > 0 {
				sb.WriteByte('\t')
			}
			sb.WriteString(tsvEncodeCell(cell, minimal))
		}
		if r < len(rows)-1 || finalEOL {
			sb.WriteString(eol)
		}
	}
	return sb.String()
}

// ---------------------------------------------------------------- RFC 8259

// jsonParse decodes a text that is either one array of objects or a
// concatenation of objects, keeping member order. String values give their
// decoded bytes, numbers their literal text; anything else is reported as
// "<kind>" so that it never equals a cell.
func jsonParse(text string) (s stream, err error) {
	dec := json.NewDecoder(strings.NewReader(text))
	dec.UseNumber()
	var readObject func() (rec, error)
	scalar := func(t json.Token) string {
		switch v := t.(type) {
		case string:
			return v
		case json.Number:
			return v.String()
		case bool:
			return fmt.Sprintf("<bool %v>", v)
		case nil:
			return "<null>"
		}
		return "<?>"
	}
	readObject = func() (rec, error) {
		var r rec
		for dec.More() {
			kt, err := dec.Token()
			if err != nil {
				return nil, err
			}
			k, ok := kt.(string)
			if !ok {
				return nil, fmt.Errorf("non-string key")
			}
			vt, err := dec.Token()
			if err != nil {
				return nil, err
			}
			if d, ok := vt.(json.Delim); ok {
				// nested value: skip it, mark it
				depth := 1
				for depth > 0 {
					t, err := dec.Token()
					if err != nil {
						return nil, err
					}
					if dd, ok := t.(json.Delim); ok {
						if dd == '{' || dd == '[' {
							depth++
						} else {
							depth--
						}
					}
				}
				r = append(r, kv{k, "<nested " + string(d) + ">"})
				continue
			}
			r = append(r, kv{k, scalar(vt)})
		}
		if _, err := dec.Token(); err != nil { // closing brace
			return nil, err
		}
		return r, nil
	}
	for {
		t, err := dec.Token()
		if err == io.EOF {
			return s, nil
		}
		if err != nil {
			return nil, err
		}
		d, ok := t.(json.Delim)
		if !ok {
			return nil, fmt.Errorf("top-level scalar")
		}
		switch d {
		case '{':
			r, err := readObject()
			if err != nil {
				return nil, err
			}
			s = append(s, r)
		case '[':
			for dec.More() {
				t, err := dec.Token()
				if err != nil {
					return nil, err
				}
				if dd, ok := t.(json.Delim); !ok || dd != '{' {
					return nil, fmt.Errorf("array element is not an object")
				}
				r, err := readObject()
				if err != nil {
					return nil, err
				}
				s = append(s, r)
			}
			if _, err := dec.Token(); err != nil {
				return nil, err
			}
		default:
			return nil, fmt.Errorf("unexpected delimiter %v", d)
		}
	}
}

type jsonStyle struct {
	escape string // "minimal", "short", "uall", "ucontrol"
	ws     string // "compact", "spaced", "pretty-lf", "pretty-crlf-tab"
	wrap   string // "array", "concat", "lines"
}

func (st jsonStyle) String() string { return st.escape + "/" + st.ws + "/" + st.wrap }

// jsonStyles: full = every escape style x white-space style x wrapping; the
// reduced list covers every escape style, every white-space style and every
// wrapping at least once.
func jsonStyles(full bool) []jsonStyle {
	var out []jsonStyle
	if !full {
		return []jsonStyle{
			{"minimal", "compact", "array"}, {"minimal", "pretty-crlf-tab", "concat"}, {"uall", "spaced", "lines"}, {"uall", "pretty-lf", "array"},
			{"ucontrol", "compact", "concat"}, {"ucontrol", "pretty-lf", "concat"}, {"solidus", "spaced", "array"}, {"solidus", "compact", "lines"},
		}
	}
	for _, e := range []string{"minimal", "uall", "ucontrol", "solidus"} {
		for _, w := range []string{"compact", "spaced", "pretty-lf", "pretty-crlf-tab"} {
			for _, wr := range []string{"array", "concat", "lines"} {
				if wr == "lines" && (w == "pretty-lf" || w == "pretty-crlf-tab") {
					continue
				}
				out = append(out, jsonStyle{e, w, wr})
			}
		}
	}
	return out
}

func jsonString(s string, escape string) string {
	var b bytes.Buffer
	b.WriteByte('"')
	for _, r := range s { // valid UTF-8 only (domain)
		switch {
		case escape == "uall":
			if r >= 0x10000 {
				r1, r2 := utf16Pair(r)
				fmt.Fprintf(&b, "\\u%04x\\u%04X", r1, r2)
			} else {
				fmt.Fprintf(&b, "\\u%04X", r)
			}
		case r == '"':
			b.WriteString(`\"`)
		case r == '\\':
			b.WriteString(`\\`)
		case r < 0x20:
			if escape == "ucontrol" {
				fmt.Fprintf(&b, "\\u%04x", r)
			} else {
				switch r {
				case '\n':
					b.WriteString(`\n`)
				case '\r':
					b.WriteString(`\r`)
				case '\t':
					b.WriteString(`\t`)
				case '\b':
					b.WriteString(`\b`)
				case '\f':
					b.WriteString(`\f`)
				default:
					fmt.Fprintf(&b, "\\u%04x", r)
				}
			}
		case r == '/' && escape == "solidus":
			b.WriteString(`\/`)
		case escape == "solidus" && r >= 0x80:
			// non-ASCII as \u escapes, ASCII literal
			if r >= 0x10000 {
				r1, r2 := utf16Pair(r)
				fmt.Fprintf(&b, "\\u%04x\\u%04x", r1, r2)
			} else {
				fmt.Fprintf(&b, "\\u%04x", r)
			}
		default:
			var tmp [4]byte
			n := utf8.EncodeRune(tmp[:], r)
			b.Write(tmp[:n])
		}
	}
	b.WriteByte('"')
	return b.String()
}

func utf16Pair(r rune) (rune, rune) {
	r -= 0x10000
	return 0xd800 + (r>>10)&0x3ff, 0xdc00 + r&0x3ff
}

// jsonValue: a cell that is a JSON number literal is written bare when asNumber.
func jsonRender(s stream, st jsonStyle, bareNumbers bool) string {
	var sb strings.Builder
	nl, ind, colon, comma := "", "", ":", ","
	switch st.ws {
	case "spaced":
		colon, comma = ": ", ", "
	case "pretty-lf":
		nl, ind, colon = "\n", "  ", ": "
	case "pretty-crlf-tab":
		nl, ind, colon = "\r\n", "\t", " :\t"
	}
	obj := func(r rec) {
		sb.WriteString("{" + nl)
		for i, f := range r {
			sb.WriteString(ind)
			sb.WriteString(jsonString(f.K, st.escape))
			sb.WriteString(colon)
			if bareNumbers && isJSONNumber(f.V) {
				sb.WriteString(f.V)
			} else {
				sb.WriteString(jsonString(f.V, st.escape))
			}
			if i < len(r)-1 {
				sb.WriteString(comma)
			}
			sb.WriteString(nl)
		}
		sb.WriteString("}")
	}
	switch st.wrap {
	case "array":
		sb.WriteString("[" + nl)
		for i, r := range s {
			obj(r)
			if i < len(s)-1 {
				sb.WriteString(comma)
			}
			sb.WriteString(nl)
		}
		sb.WriteString("]")
		if nl != "" {
			sb.WriteString(nl)
		}
	case "concat":
		for _, r := range s {
			obj(r)
			if nl != "" {
				sb.WriteString(nl)
			} else {
				sb.WriteString(" ")
			}
		}
	case "lines":
		for _, r := range s {
			obj(r)
			sb.WriteString("\n")
		}
	}
	return sb.String()
}
