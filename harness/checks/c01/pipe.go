package c01

// Direct invocation of the real record writers and readers: the same objects
// `mlr <flags> cat` builds (options from climain.ParseCommandLine on the flag
// list, output.Create + Write per record + end-of-stream Write(nil),
// input.Create + Read over channels with the text served through the open
// hook), without the verb chain in between.

import (
	"bufio"
	"bytes"
	"fmt"
	"io"
	"strings"
	"time"

	"github.com/johnkerl/miller/v6/pkg/cli"
	"github.com/johnkerl/miller/v6/pkg/climain"
	"github.com/johnkerl/miller/v6/pkg/input"
	"github.com/johnkerl/miller/v6/pkg/mlrval"
	"github.com/johnkerl/miller/v6/pkg/output"
	"github.com/johnkerl/miller/v6/pkg/types"
	"github.com/johnkerl/miller/v6/pkg/verifrt"

	"verif/harness/vf"
)

// A record is an ordered list of (key, value) byte strings; keys are distinct
// within a record.
type kv struct{ K, V string }
type rec []kv
type stream []rec

func (r rec) keys() []string {
	out := make([]string, len(r))
	for i, f := range r {
		out[i] = f.K
	}
	return out
}

func sameKeys(a, b rec) bool {
	if len(a) != len(b) {
		return false
	}
	for i := range a {
		if a[i].K != b[i].K {
			return false
		}
	}
	return true
}

func equalStreams(a, b stream) bool {
	if len(a) != len(b) {
		return false
	}
	for i := range a {
		if len(a[i]) != len(b[i]) {
			return false
		}
		for j := range a[i] {
			if a[i][j] != b[i][j] {
				return false
			}
		}
	}
	return true
}

func (s stream) String() string {
	var sb strings.Builder
	sb.WriteByte('[')
	for i, r := range s {
		if i > 0 {
			sb.WriteByte(' ')
		}
		sb.WriteByte('{')
		for j, f := range r {
			if j > 0 {
				sb.WriteByte(',')
			}
			fmt.Fprintf(&sb, "%q:%q", f.K, f.V)
		}
		sb.WriteByte('}')
	}
	sb.WriteByte(']')
	return sb.String()
}

// size orders counterexamples: total number of cell bytes, then cells, then records.
func (s stream) size() int {
	n := 0
	for _, r := range s {
		n += 4
		for _, f := range r {
			n += 2 + len(f.K) + len(f.V)
		}
	}
	return n
}

func (s stream) cells() int {
	n := 0
	for _, r := range s {
		n += 2 * len(r)
	}
	return n
}

// parseFlags obtains reader/writer options exactly as the command line
// `mlr <flags> cat` does.
func parseFlags(flags []string) (o *cli.TOptions, err error) {
	argv := append([]string{"mlr"}, flags...)
	argv = append(argv, "cat")
	p, _ := vf.Try(func() { o, _, err = climain.ParseCommandLine(argv) })
	if p != nil {
		return nil, fmt.Errorf("option parsing left the process: %v", p)
	}
	if err == nil && o == nil {
		err = fmt.Errorf("no options")
	}
	return o, err
}

func toMaps(s stream) []*mlrval.Mlrmap {
	out := make([]*mlrval.Mlrmap, len(s))
	for i, r := range s {
		m := mlrval.NewMlrmapAsRecord()
		for _, f := range r {
			// what the readers do with a field taken from data (type inference deferred)
			m.PutReference(f.K, mlrval.FromDeferredType(f.V))
		}
		out[i] = m
	}
	return out
}

func fromMaps(ms []*mlrval.Mlrmap) stream {
	out := make(stream, len(ms))
	for i, m := range ms {
		r := make(rec, 0, m.FieldCount)
		for pe := m.Head; pe != nil; pe = pe.Next {
			r = append(r, kv{pe.Key, pe.Value.String()})
		}
		out[i] = r
	}
	return out
}

// writeMaps runs the real writer over the records and the end-of-stream call.
func writeMaps(o *cli.TOptions, ms []*mlrval.Mlrmap) (text string, err error, crash any) {
	wo := o.WriterOptions // writers may keep a pointer; never share it between runs
	var buf bytes.Buffer
	t0 := time.Now()
	defer func() { writeNanos += int64(time.Since(t0)); writeCalls++ }()
	crash, _ = vf.Try(func() {
		var w output.IRecordWriter
		w, err = output.Create(&wo)
		if err != nil {
			return
		}
		bw := bufio.NewWriter(&buf)
		ctx := types.NewContext()
		for _, m := range ms {
			// the writers may restructure nothing, but be safe: hand each run its own copy
			if err = w.Write(m.Copy(), ctx, bw, true); err != nil {
				bw.Flush()
				return
			}
		}
		if err = w.Write(nil, ctx, bw, true); err != nil {
			bw.Flush()
			return
		}
		err = bw.Flush()
	})
	return buf.String(), err, crash
}

// chunkReader delivers the text one chunk per Read call (a chunk larger than
// the caller's buffer is continued on the next call).
type chunkReader struct {
	chunks [][]byte
	i      int
	reads  int
}

func (c *chunkReader) Read(p []byte) (int, error) {
	for c.i < len(c.chunks) && len(c.chunks[c.i]) == 0 {
		c.i++
	}
	if c.i >= len(c.chunks) {
		return 0, io.EOF
	}
	c.reads++
	n := copy(p, c.chunks[c.i])
	c.chunks[c.i] = c.chunks[c.i][n:]
	if len(c.chunks[c.i]) == 0 {
		c.i++
	}
	return n, nil
}
func (c *chunkReader) Close() error { return nil }

const virtualName = "c01-input"

type readResult struct {
	maps  []*mlrval.Mlrmap
	other int // non-record items (comment strings)
	err   error
	crash any
}

// readChunks runs the real reader over the text delivered in the given chunks.
func readChunks(o *cli.TOptions, chunks []string) (res readResult) {
	ro := o.ReaderOptions // some readers modify their options (markdown, barred pprint)
	var rd input.IRecordReader
	var err error
	crash, _ := vf.Try(func() { rd, err = input.Create(&ro, ro.RecordsPerBatch) })
	if crash != nil {
		res.crash = crash
		return
	}
	if err != nil {
		res.err = err
		return
	}
	verifrt.OpenHookFn = func(path string) (io.ReadCloser, error, bool) {
		if path != virtualName {
			return nil, nil, false
		}
		cr := &chunkReader{}
		for _, c := range chunks {
			cr.chunks = append(cr.chunks, []byte(c))
		}
		return cr, nil, true
	}
	readerChannel := make(chan []*types.RecordAndContext, 2)
	errorChannel := make(chan error, 1)
	downstreamDone := make(chan bool, 1)
	panicCh := make(chan any, 8)
	cb := func(p verifrt.ChildPanic) {
		select {
		case panicCh <- p.Value:
		default:
		}
	}
	verifrt.OnChildPanic.Store(&cb)
	defer verifrt.OnChildPanic.Store(nil)
	go func() {
		defer func() {
			if r := recover(); r != nil {
				select {
				case panicCh <- r:
				default:
				}
			}
		}()
		rd.Read([]string{virtualName}, *types.NewContext(), readerChannel, errorChannel, downstreamDone)
	}()
	for {
		select {
		case batch := <-readerChannel:
			for _, rac := range batch {
				if rac.EndOfStream {
					// an error is buffered before the end-of-stream marker
					select {
					case e := <-errorChannel:
						if res.err == nil {
							res.err = e
						}
					default:
					}
					return
				}
				if rac.Record != nil {
					res.maps = append(res.maps, rac.Record)
				} else {
					res.other++
				}
			}
		case e := <-errorChannel:
			if res.err == nil {
				res.err = e
			}
		case p := <-panicCh:
			res.crash = p
			return
		}
	}
}

var readNanos, readCalls, writeNanos, writeCalls int64

func readText(o *cli.TOptions, text string) readResult {
	t0 := time.Now()
	r := readChunks(o, []string{text})
	readNanos += int64(time.Since(t0))
	readCalls++
	return r
}

func isExit(p any) bool {
	_, ok := p.(verifrt.ExitPanic)
	return ok
}
