package c01

// The format/option variants and, for each, the explicit representable-domain
// predicate written from the format documentation (docs/src/file-formats.md,
// reference-main-separators.md, reference-main-flag-list.md). A stream outside
// the domain is still run (weak idempotence is asserted for every stream), but
// the round trip is asserted only inside the domain. Both sides of every
// predicate are counted in evidence, by reason.

import (
	"strconv"
	"strings"
	"unicode"
	"unicode/utf8"
)

type variant struct {
	name   string
	format string // family name for evidence
	flags  []string
	// thoroughOnly variants are skipped in the quick tier.
	thoroughOnly bool
	// positional: the text carries no field names; the reader assigns 1..n.
	positional bool
	// domain returns "" when the stream is representable, else a short reason.
	domain func(s stream) string
	// std selects the standard-dialect oracle: "csv", "tsv", "json", "jsonl" or "".
	std string
	// stdRead: the variant differs from its base only in writer flags, so the
	// foreign-text direction (independent writer -> Miller reader) is skipped.
	stdReadSkip bool
	// separators the documentation gives for this flag list (checked against the parsed options)
	fs, ps, rs string
	// bomStrip: a leading UTF-8 byte-order mark is documented/intended to be dropped
	bomStrip bool
}

// ---------------------------------------------------------------- helpers

// sepSafe: in `cell + sep` the leftmost occurrence of sep is the appended one,
// i.e. a leftmost-match splitter recovers the cell. For single-character
// separators this is "cell does not contain sep".
func sepSafe(cell, sep string) bool {
	return strings.Index(cell+sep, sep) == len(cell)
}

func isPositional(r rec) bool {
	for i, f := range r {
		if f.K != strconv.Itoa(i+1) {
			return false
		}
	}
	return true
}

func homogeneous(s stream) bool {
	for i := 1; i < len(s); i++ {
		if !sameKeys(s[0], s[i]) {
			return false
		}
	}
	return true
}

func sameWidth(s stream) bool {
	for i := 1; i < len(s); i++ {
		if len(s[i]) != len(s[0]) {
			return false
		}
	}
	return true
}

// lineOK: the record separator does not occur in the line, and with the default
// newline separator the line does not end in CR (CR/LF is accepted on input).
func lineOK(line, rs string) string {
	if !sepSafe(line, rs) {
		return "cell-contains-RS"
	}
	if rs == "\n" && strings.HasSuffix(line, "\r") {
		return "line-ends-in-CR"
	}
	return ""
}

func anyEmptyRecord(s stream) bool {
	for _, r := range s {
		if len(r) == 0 {
			return true
		}
	}
	return false
}

// splitCells: a leftmost non-overlapping split of the joined line gives the cells back.
func splitsBack(cells []string, fs string) bool {
	got := strings.Split(strings.Join(cells, fs), fs)
	if len(got) != len(cells) {
		return false
	}
	for i := range got {
		if got[i] != cells[i] {
			return false
		}
	}
	return true
}

func values(r rec) []string {
	out := make([]string, len(r))
	for i, f := range r {
		out[i] = f.V
	}
	return out
}

// ---------------------------------------------------------------- domains

// CSV (RFC 4180 quoting): every byte string is a legal cell. One header per
// text: all records share the key list ("CSV does not allow heterogeneous
// data"). With the implicit-header/headerless pair the keys are 1..n and all
// records have the same width.
func domCSV(positional bool) func(stream) string {
	return func(s stream) string {
		if anyEmptyRecord(s) {
			return "empty-record"
		}
		if positional {
			for _, r := range s {
				if !isPositional(r) {
					return "keys-not-positional"
				}
			}
			if !sameWidth(s) {
				return "heterogeneous"
			}
			return ""
		}
		if !homogeneous(s) {
			return "heterogeneous"
		}
		return ""
	}
}

// TSV: as CSV (every byte string is a cell, through the \t \n \r \\ escapes),
// except that a line may not be empty: a one-column record whose cell is empty
// is indistinguishable from a blank line and the documentation does not say
// which it is (unconstrained).
func domTSV(positional bool) func(stream) string {
	base := domCSV(positional)
	return func(s stream) string {
		if why := base(s); why != "" {
			return why
		}
		for i, r := range s {
			if len(r) == 1 && (r[0].V == "" || (i == 0 && !positional && r[0].K == "")) {
				return "empty-line"
			}
		}
		return ""
	}
}

// CSV with --csv-trim-leading-space: leading white space of a field is dropped by the reader.
func domCSVTrim(s stream) string {
	if r := domCSV(false)(s); r != "" {
		return r
	}
	lead := func(c string) bool {
		if c == "" {
			return false
		}
		r, _ := utf8.DecodeRuneInString(c)
		return unicode.IsSpace(r) // space, TAB, LF, VT, FF, CR, U+0085, U+00A0 ...: what the reader's trim removes
	}
	for i, r := range s {
		for _, f := range r {
			if (i == 0 && lead(f.K)) || lead(f.V) {
				return "leading-space"
			}
		}
	}
	return ""
}

// CSV-lite / TSV-lite / ASV / USV: lines split naively on RS and FS, nothing is
// escaped; an empty line separates schema blocks, so a line may not be empty;
// a new header block is written when the key list changes, so heterogeneity is
// representable.
func domLite(fs, rs string, positional bool) func(stream) string {
	return func(s stream) string {
		if anyEmptyRecord(s) {
			return "empty-record"
		}
		check := func(cells []string) string {
			if !splitsBack(cells, fs) {
				return "cell-contains-FS"
			}
			line := strings.Join(cells, fs)
			if line == "" {
				return "empty-line"
			}
			return lineOK(line, rs)
		}
		for i, r := range s {
			if positional {
				if !isPositional(r) {
					return "keys-not-positional"
				}
			} else if i == 0 || !sameKeys(s[i-1], r) {
				if why := check(r.keys()); why != "" {
					return "key:" + why
				}
			}
			if why := check(values(r)); why != "" {
				return why
			}
		}
		return ""
	}
}

// DKVP: line = pair (FS pair)*, pair = key PS value; the first PS of a pair
// separates key from value.
func domDKVP(fs, ps, rs string) func(stream) string {
	return func(s stream) string {
		if anyEmptyRecord(s) {
			return "empty-record"
		}
		for _, r := range s {
			pairs := make([]string, len(r))
			for i, f := range r {
				if !sepSafe(f.K, ps) {
					return "key-contains-PS"
				}
				pairs[i] = f.K + ps + f.V
			}
			if !splitsBack(pairs, fs) {
				return "cell-contains-FS"
			}
			if why := lineOK(strings.Join(pairs, fs), rs); why != "" {
				return why
			}
		}
		return ""
	}
}

// DKVPX: DKVP with CSV-style quoting: every byte string is representable in
// keys and values. The documentation says nothing about empty keys (the
// reader gives a keyless field its position as name), so they are outside the
// asserted domain.
func domDKVPX(s stream) string {
	if anyEmptyRecord(s) {
		return "empty-record"
	}
	for _, r := range s {
		for _, f := range r {
			if f.K == "" {
				return "empty-key"
			}
		}
	}
	return ""
}

// NIDX: values only, keys are positions; FS may repeat, so an empty value is
// not representable.
func domNIDX(fs, rs string) func(stream) string {
	// new-in-miller-6.md: "for NIDX format, the default IFS now allows splitting on one or more of space or tab"
	fsChars := fs
	if fs == " " {
		fsChars = " \t"
	}
	return func(s stream) string {
		if anyEmptyRecord(s) {
			return "empty-record"
		}
		for _, r := range s {
			if !isPositional(r) {
				return "keys-not-positional"
			}
			for _, f := range r {
				if f.V == "" {
					return "empty-value"
				}
				if strings.ContainsAny(f.V, fsChars) {
					return "cell-contains-FS"
				}
			}
			if why := lineOK(strings.Join(values(r), fs), rs); why != "" {
				return why
			}
		}
		return ""
	}
}

// XTAB: one "key PS+ value" line per field (PS repeats for alignment), a blank
// line between records.
func domXTAB(ps string) func(stream) string {
	return func(s stream) string {
		if anyEmptyRecord(s) {
			return "empty-record"
		}
		for _, r := range s {
			for _, f := range r {
				if f.K == "" {
					return "empty-key"
				}
				if strings.Contains(f.K, ps) {
					return "key-contains-PS"
				}
				if strings.HasPrefix(f.V, ps) {
					return "value-starts-with-PS"
				}
				if len(ps) > 1 && !sepSafe(f.K, ps) {
					return "key-contains-PS"
				}
				if why := lineOK(f.K+ps+f.V, "\n"); why != "" {
					return why
				}
			}
		}
		return ""
	}
}

// PPRINT: space-aligned columns (FS is space with repeats); an empty value is
// written as "-" and read back as empty, so a lone "-" value is not
// representable; keys and values may not contain a space or be empty (keys).
func domPPRINT(s stream) string {
	if anyEmptyRecord(s) {
		return "empty-record"
	}
	for i, r := range s {
		if i == 0 || !sameKeys(s[i-1], r) {
			for _, k := range r.keys() {
				if k == "" {
					return "empty-key"
				}
				if strings.ContainsAny(k, " \n") {
					return "key-contains-FS"
				}
			}
			if why := lineOK(strings.Join(r.keys(), " "), "\n"); why != "" {
				return "key:" + why
			}
		}
		for _, f := range r {
			if f.V == "-" {
				return "value-is-void-marker"
			}
			if strings.ContainsAny(f.V, " \n") {
				return "cell-contains-FS"
			}
		}
		if why := lineOK(strings.Join(values(r), " "), "\n"); why != "" {
			return why
		}
	}
	return ""
}

func trimmable(c string) bool { return strings.TrimSpace(c) != c }

// Barred PPRINT and markdown: cells sit between " | " bars and are trimmed of
// surrounding white space on input; a bar inside a cell is not representable
// (the markdown writer escapes it but the reader does not unescape).
func domBarred(s stream) string {
	if anyEmptyRecord(s) {
		return "empty-record"
	}
	for i, r := range s {
		for _, f := range r {
			if i == 0 || !sameKeys(s[i-1], r) {
				if strings.ContainsAny(f.K, "|\n") {
					return "key-contains-bar-or-newline"
				}
				if trimmable(f.K) {
					return "key-has-outer-space"
				}
			}
			if strings.ContainsAny(f.V, "|\n") {
				return "cell-contains-bar-or-newline"
			}
			if trimmable(f.V) {
				return "cell-has-outer-space"
			}
		}
	}
	return ""
}

// JSON / JSON Lines / YAML: any valid UTF-8 string is representable (RFC 8259
// section 8.1: text is UTF-8). Values that Miller's number inference takes from
// data as numbers but whose spelling is not a JSON number (0x1F, +1, 1., .5)
// are re-rendered by design (documented in questions-about-the-dsl / JSON
// section: "only emit decimal"), so they are outside the byte-exact domain.
func domJSON(s stream) string {
	for _, r := range s {
		for _, f := range r {
			if !utf8.ValidString(f.K) || !utf8.ValidString(f.V) {
				return "invalid-utf8"
			}
			if looksNumericNonJSON(f.V) {
				return "non-json-number-spelling"
			}
			if f.V == "-0" {
				return "int-respelled" // ints are documented to be re-rendered in decimal
			}
		}
	}
	return ""
}

// looksNumericNonJSON: starts like a number (digit, sign or dot followed by a
// digit/letter) but is not in the RFC 8259 number grammar. Conservative: any
// such string is left out of the asserted domain (number inference is C06's
// subject).
func looksNumericNonJSON(v string) bool {
	if v == "" {
		return false
	}
	c := v[0]
	digit := func(b byte) bool { return b >= '0' && b <= '9' }
	numericStart := digit(c)
	if (c == '-' || c == '+' || c == '.') && len(v) > 1 && (digit(v[1]) || v[1] == '.') {
		numericStart = true
	}
	if !numericStart {
		switch strings.ToLower(v) {
		case "inf", "nan", "infinity", "+inf", "-inf", "+infinity", "-infinity", "+nan", "-nan":
			return true
		}
		return false
	}
	return !isJSONNumber(v)
}

func isJSONNumber(s string) bool {
	i, n := 0, len(s)
	if i < n && s[i] == '-' {
		i++
	}
	if i >= n {
		return false
	}
	if s[i] == '0' {
		i++
	} else if s[i] >= '1' && s[i] <= '9' {
		for i < n && s[i] >= '0' && s[i] <= '9' {
			i++
		}
	} else {
		return false
	}
	if i < n && s[i] == '.' {
		i++
		j := i
		for i < n && s[i] >= '0' && s[i] <= '9' {
			i++
		}
		if i == j {
			return false
		}
	}
	if i < n && (s[i] == 'e' || s[i] == 'E') {
		i++
		if i < n && (s[i] == '+' || s[i] == '-') {
			i++
		}
		j := i
		for i < n && s[i] >= '0' && s[i] <= '9' {
			i++
		}
		if i == j {
			return false
		}
	}
	return i == n
}

// ---------------------------------------------------------------- the table

func variants() []variant {
	V := []variant{
		// CSV
		{name: "csv", format: "csv", flags: []string{"--csv"}, domain: domCSV(false), std: "csv", fs: ",", rs: "\n", bomStrip: true},
		{name: "csv-quoteall", format: "csv", flags: []string{"--csv", "--quote-all"}, domain: domCSV(false), std: "csv", stdReadSkip: true, fs: ",", rs: "\n"},
		{name: "csv-crlf", format: "csv", flags: []string{"--csv", "--ors", "crlf"}, domain: domCSV(false), std: "csv", stdReadSkip: true, fs: ",", rs: "\r\n"},
		{name: "csv-semicolon", format: "csv", flags: []string{"--csv", "--fs", "semicolon"}, domain: domCSV(false), std: "csv", fs: ";", rs: "\n"},
		{name: "csv-implicit", format: "csv", flags: []string{"--csv", "--implicit-csv-header", "--headerless-csv-output"}, positional: true, domain: domCSV(true), std: "csv", fs: ",", rs: "\n"},
		{name: "csv-lazy", format: "csv", flags: []string{"--csv", "--lazy-quotes"}, domain: domCSV(false), std: "csv", fs: ",", rs: "\n"},
		{name: "csv-ragged", format: "csv", flags: []string{"--csv", "--allow-ragged-csv-input"}, domain: domCSV(false), std: "csv", fs: ",", rs: "\n"},
		{name: "csv-tabfs", format: "csv", flags: []string{"--csv", "--fs", "tab"}, domain: domCSV(false), std: "csv", fs: "\t", rs: "\n", thoroughOnly: true},
		{name: "csv-trim", format: "csv", flags: []string{"--csv", "--csv-trim-leading-space"}, domain: domCSVTrim, fs: ",", rs: "\n", thoroughOnly: true},
		// TSV
		{name: "tsv", format: "tsv", flags: []string{"--tsv"}, domain: domTSV(false), std: "tsv", fs: "\t", rs: "\n"},
		{name: "tsv-crlf", format: "tsv", flags: []string{"--tsv", "--ors", "crlf"}, domain: domTSV(false), std: "tsv", stdReadSkip: true, fs: "\t", rs: "\r\n"},
		{name: "tsv-implicit", format: "tsv", flags: []string{"--tsv", "--implicit-tsv-header", "--headerless-tsv-output"}, positional: true, domain: domTSV(true), std: "tsv", fs: "\t", rs: "\n"},
		// CSV-lite family
		{name: "csvlite", format: "csvlite", flags: []string{"--csvlite"}, domain: domLite(",", "\n", false), fs: ",", rs: "\n", bomStrip: true},
		{name: "csvlite-semicolon", format: "csvlite", flags: []string{"--csvlite", "--fs", "semicolon"}, domain: domLite(";", "\n", false), fs: ";", rs: "\n"},
		{name: "csvlite-multifs", format: "csvlite", flags: []string{"--csvlite", "--fs", ";:"}, domain: domLite(";:", "\n", false), fs: ";:", rs: "\n"},
		{name: "csvlite-implicit", format: "csvlite", flags: []string{"--csvlite", "--implicit-csv-header", "--headerless-csv-output"}, positional: true, domain: domLite(",", "\n", true), fs: ",", rs: "\n"},
		{name: "csvlite-rs", format: "csvlite", flags: []string{"--csvlite", "--rs", "semicolon"}, domain: domLite(",", ";", false), fs: ",", rs: ";"},
		{name: "csvlite-multirs", format: "csvlite", flags: []string{"--csvlite", "--rs", ";|"}, domain: domLite(",", ";|", false), fs: ",", rs: ";|"},
		{name: "tsvlite", format: "tsvlite", flags: []string{"--tsvlite"}, domain: domLite("\t", "\n", false), fs: "\t", rs: "\n"},
		{name: "usv", format: "usv", flags: []string{"--usv"}, domain: domLite("\xe2\x90\x9f", "\xe2\x90\x9e", false), fs: "\xe2\x90\x9f", rs: "\xe2\x90\x9e"},
		{name: "asv", format: "asv", flags: []string{"--asv"}, domain: domLite("\x1f", "\x1e", false), fs: "\x1f", rs: "\x1e", thoroughOnly: true},
		// DKVP
		{name: "dkvp", format: "dkvp", flags: []string{"--dkvp"}, domain: domDKVP(",", "=", "\n"), fs: ",", ps: "=", rs: "\n"},
		{name: "dkvp-seps", format: "dkvp", flags: []string{"--dkvp", "--fs", "semicolon", "--ps", "colon"}, domain: domDKVP(";", ":", "\n"), fs: ";", ps: ":", rs: "\n"},
		{name: "dkvp-multi", format: "dkvp", flags: []string{"--dkvp", "--fs", ";|", "--ps", ":="}, domain: domDKVP(";|", ":=", "\n"), fs: ";|", ps: ":=", rs: "\n"},
		{name: "dkvp-tab", format: "dkvp", flags: []string{"--dkvp", "--fs", "tab"}, domain: domDKVP("\t", "=", "\n"), fs: "\t", ps: "=", rs: "\n", thoroughOnly: true},
		{name: "dkvp-rs", format: "dkvp", flags: []string{"--dkvp", "--rs", "semicolon"}, domain: domDKVP(",", "=", ";"), fs: ",", ps: "=", rs: ";"},
		{name: "dkvp-multirs", format: "dkvp", flags: []string{"--dkvp", "--rs", ";|"}, domain: domDKVP(",", "=", ";|"), fs: ",", ps: "=", rs: ";|"},
		// DKVPX
		{name: "dkvpx", format: "dkvpx", flags: []string{"--dkvpx"}, domain: domDKVPX, fs: ",", ps: "=", rs: "\n"},
		{name: "dkvpx-seps", format: "dkvpx", flags: []string{"--dkvpx", "--fs", "semicolon", "--ps", "colon"}, domain: domDKVPX, fs: ";", ps: ":", rs: "\n"},
		// NIDX
		{name: "nidx", format: "nidx", flags: []string{"--nidx"}, positional: true, domain: domNIDX(" ", "\n"), fs: " ", rs: "\n"},
		{name: "nidx-comma", format: "nidx", flags: []string{"--nidx", "--fs", "comma"}, positional: true, domain: domNIDX(",", "\n"), fs: ",", rs: "\n"},
		// XTAB
		{name: "xtab", format: "xtab", flags: []string{"--xtab"}, domain: domXTAB(" "), ps: " "},
		{name: "xtab-right", format: "xtab", flags: []string{"--xtab", "--xvright"}, domain: domXTAB(" "), ps: " "},
		{name: "xtab-ps", format: "xtab", flags: []string{"--xtab", "--ps", "colon"}, domain: domXTAB(":"), ps: ":"},
		// multi-character pair separators (the reader must strip whole separators, not a character set)
		{name: "xtab-multips", format: "xtab", flags: []string{"--xtab", "--ps", ": "}, domain: domXTAB(": "), ps: ": "},
		{name: "xtab-multips2", format: "xtab", flags: []string{"--xtab", "--ps", ";:"}, domain: domXTAB(";:"), ps: ";:"},
		// PPRINT
		{name: "pprint", format: "pprint", flags: []string{"--pprint"}, domain: domPPRINT, fs: " ", rs: "\n"},
		{name: "pprint-right", format: "pprint", flags: []string{"--pprint", "--right"}, domain: domPPRINT, fs: " ", rs: "\n"},
		{name: "pprint-barred", format: "pprint-barred", flags: []string{"--pprint", "--barred", "--barred-input"}, domain: domBarred, rs: "\n"},
		{name: "pprint-barred-right", format: "pprint-barred", flags: []string{"--pprint", "--barred", "--barred-input", "--right"}, domain: domBarred, rs: "\n", thoroughOnly: true},
		// Markdown
		{name: "markdown", format: "markdown", flags: []string{"--md"}, domain: domBarred, rs: "\n"},
		{name: "markdown-aligned", format: "markdown", flags: []string{"--md-aligned"}, domain: domBarred, rs: "\n"},
		{name: "markdown-numeric", format: "markdown", flags: []string{"--md", "--right-align-numeric"}, domain: domBarred, rs: "\n"},
		// JSON
		{name: "json", format: "json", flags: []string{"--json"}, domain: domJSON, std: "json"},
		{name: "json-nostack", format: "json", flags: []string{"--json", "--no-jvstack"}, domain: domJSON, std: "json", stdReadSkip: true},
		{name: "json-nowrap", format: "json", flags: []string{"--json", "--no-jlistwrap"}, domain: domJSON, std: "jsonseq", stdReadSkip: true},
		{name: "json-quoteall", format: "json", flags: []string{"--json", "--jvquoteall"}, domain: domJSON, std: "json", stdReadSkip: true},
		{name: "jsonl", format: "jsonl", flags: []string{"--jsonl"}, domain: domJSON, std: "jsonl"},
		// YAML
		{name: "yaml", format: "yaml", flags: []string{"--yaml"}, domain: domJSON},
		{name: "yaml-noarray", format: "yaml", flags: []string{"--yaml", "--no-yarray"}, domain: domJSON},
	}
	return V
}
