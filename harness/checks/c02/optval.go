package c02

// The option-VALUE spelling dimension of the flags part.
//
// new-in-miller-6.md: "`--foo=bar` expands automatically to `--foo bar`, so (for
// example) `mlr --ifs=comma` is the same as `mlr --ifs comma`". The flag cases
// of flags.go only ever passed values as a second token and only values free of
// the spellings' own metacharacters (";", ":", alias names), so nothing could
// see a glued form that mangles its value.
//
// Dimension: (every `--` spelling of every FLAG_TABLE entry that takes one
// argument) x (form: two tokens | glued with '=') x (value). For the flags
// whose argument is a free string (separators, separator regexes, flatten
// separator, comment prefixes) the value runs over EVERY string of length
// 1..L over the symbol alphabet below (L=2 quick, 3 thorough), which holds
// the metacharacters of the spellings themselves ('=' of the glued form, ' '
// of .mlrrc/argv splitting, ',' ';' ':' '|' of lists and separators, '-' of a
// flag, backslash + 't' of the escapes), plus every separator alias name.
// Other one-argument flags get values of their own domain.
//
//   law      glued:         mlr --flag=value ... == mlr --flag value ...   (stdout, stderr, exit)
//   semantic value-meaning: a literal value used as DKVP OFS/OPS/ORS/IFS/IPS means exactly its
//                           bytes (reference: DKVP is key PS value joined by FS, ended by RS:
//                           file-formats.md / reference-main-separators.md), in both forms

import (
	"fmt"
	"regexp"
	"sort"
	"strconv"
	"strings"

	"github.com/johnkerl/miller/v6/pkg/cli"
)

var optSymbols = []string{"=", " ", ",", ";", ":", "|", "-", "\\", "t"}

func optSymbolsIn(v string) []string {
	var out []string
	for _, s := range optSymbols {
		if strings.Contains(v, s) {
			out = append(out, s)
		}
	}
	return out
}

// optStrings: every string of length 1..maxLen over optSymbols, shortest first.
// optBundle: a value spelled like a bundle of one-letter flags. The documented rule "`-xyz` expands automatically
// to `-x -y -z`" (new-in-miller-6.md) is applied to every argv token, so the two-token form of such a value is not the
// value any more (`--ofs -tt` is OFS "-t" plus the flag -t); only the glued form can carry it. Outside the law.
var optBundle = regexp.MustCompile(`^-[a-zA-Z0-9]{2,}$`)

func optStrings(maxLen int) []string {
	var out []string
	cur := []string{""}
	for l := 1; l <= maxLen; l++ {
		var next []string
		for _, p := range cur {
			for _, s := range optSymbols {
				next = append(next, p+s)
			}
		}
		for _, v := range next {
			if !optBundle.MatchString(v) {
				out = append(out, v)
			}
		}
		cur = next
	}
	return out
}

// flags whose argument is a free string: the whole value alphabet applies
var optFreeStringFlags = map[string]bool{
	"--fs": true, "--ifs": true, "--ofs": true, "--ps": true, "--ips": true, "--ops": true, "--rs": true, "--irs": true, "--ors": true,
	"--ifs-regex": true, "--ips-regex": true, "--flatsep": true, "--pass-comments-with": true, "--skip-comments-with": true,
}

// flags left out: they run commands, read or write named files, take several arguments, or need a .mlrrc
var optExcluded = map[string]string{
	"--prepipe": "runs a command", "--prepipex": "runs a command", "--load": "reads a named file", "--mload": "several arguments",
	"--mfrom": "several arguments", "--files": "reads a named file", "--from": "reads a named file", "--s-no-comment-strip": "reads a named file",
	"--cpuprofile": "writes a named file", "--profile": "needs a .mlrrc section (covered by the mlrrc-profile cases)",
}

// values of their own domain for the other one-argument flags
var optOwnValues = map[string][]string{
	"--ofmt": {"%.3f", "%.3lf", "%08.4e", "%d"}, "--ofmte": {"3"}, "--ofmtf": {"3"}, "--ofmtg": {"3"},
	"--nr-progress-mod": {"1", "2"}, "--records-per-batch": {"1", "2"}, "--seed": {"1", "0xcafe"}, "--tz": {"Asia/Tokyo", "UTC"},
	"--io": {"json", "csv", "xtab", "nidx"},
}
var optGenericValues = []string{"1", "a", "a=b", "=", "a b"}

func optInputs(v string) []corpusInput {
	corp := corpus()
	return []corpusInput{
		{"dkvp-fs=value", "a=1" + v + "b=2\na=3" + v + "b=4\n"},
		{"dkvp-ps=value", "a" + v + "1,b" + v + "2\na" + v + "3,b" + v + "4\n"},
		{"dkvp-rs=value", "a=1,b=2" + v + "a=3,b=4" + v},
		{"lite-fs=value", "a" + v + "b\n1" + v + "2\n3" + v + "4\n"},
		{"json-nested", `[{"a":{"b":1,"c":[2,3.25]},"d":4.123456}]` + "\n"},
		{"csv-key-with-value", "a" + v + "b,c\n1,2.123456\n"},
		{"comment-prefix=value", v + "hello\na=1,b=2.123456\n"},
		corp[4], corp[0],
	}
}

var optCtxs = [][2][]string{
	{{"--idkvp", "--ojson"}, nil},
	{{"--ijson", "--odkvp"}, nil},
	{{"--icsvlite", "--oxtab"}, nil},
	{{"--nidx"}, nil},
	{nil, nil},
}

func addOptionValueCases(u *flagUniverse, quick bool, add func(flagCase)) {
	maxLen := 3
	if quick {
		maxLen = 2
	}
	free := optStrings(maxLen)
	codePlain, codeRegex := cli.VerifC02SeparatorAliases()
	var aliasNames []string
	for n := range codePlain {
		aliasNames = append(aliasNames, n)
	}
	for n := range codeRegex {
		aliasNames = append(aliasNames, n)
	}
	sort.Strings(aliasNames)
	isAlias := map[string]bool{}
	for _, n := range aliasNames {
		isAlias[n] = true
	}

	for ti, f := range u.table {
		if f.Arg == "" {
			continue
		}
		for _, s := range append([]string{f.Name}, f.AltNames...) {
			if u.spellings[s] != ti {
				continue
			}
			if !strings.HasPrefix(s, "--") {
				continue // the documented glued form is `--foo=bar`
			}
			if why, out := optExcluded[f.Name]; out {
				u.notes = append(u.notes, "glued form not run ("+why+"): "+s)
				continue
			}
			var vals []string
			switch {
			case optFreeStringFlags[f.Name]:
				vals = append(append(vals, free...), aliasNames...)
			case optOwnValues[f.Name] != nil:
				vals = optOwnValues[f.Name]
			default:
				vals = optGenericValues
				u.notes = append(u.notes, "glued form run with generic values only (no value domain known to the harness): "+s)
			}
			for _, v := range vals {
				add(flagCase{kind: "law", class: "glued", id: s + "=" + strconv.Quote(v), lhs: []string{s + "=" + v}, rhs: []string{s, v}, ctxs: optCtxs, inputs: optInputs(v),
					why: "documented: `--foo=bar` expands automatically to `--foo bar`"})
			}
		}
	}

	// a literal value means its bytes, whatever its form (DKVP honours all separators, multi-character too).
	// Values with a backslash (escape sequences) and alias names are not literal and are left to the law above.
	for _, v := range free {
		if strings.Contains(v, "\\") || isAlias[v] {
			continue
		}
		for _, flag := range []string{"--ofs", "--ops", "--ors", "--ifs", "--ips", "--fs", "--ps"} {
			role := flag[len(flag)-2:]
			for _, form := range []string{"two-token", "glued"} {
				sp := []string{flag, v}
				if form == "glued" {
					sp = []string{flag + "=" + v}
				}
				id := flag + " " + form + " " + strconv.Quote(v)
				why := fmt.Sprintf("literal value %q used as DKVP %s (%s form)", v, strings.ToUpper(flag[2:]), form)
				writer := flag == "--ofs" || flag == "--ops" || flag == "--ors" || flag == "--fs" || flag == "--ps"
				reader := flag == "--ifs" || flag == "--ips" || flag == "--fs" || flag == "--ps"
				if writer {
					ofs, ops, ors := ",", "=", "\n"
					switch role {
					case "fs":
						ofs = v
					case "ps":
						ops = v
					case "rs":
						ors = v
					}
					want := "a" + ops + "1" + ofs + "b" + ops + "2" + ors + "a" + ops + "3" + ofs + "b" + ops + "4" + ors
					add(flagCase{kind: "semantic", class: "value-meaning", id: id + " writer", semArgs: cat(sp, []string{"--ijson", "--odkvp", "cat"}),
						semInput: `[{"a":1,"b":2},{"a":3,"b":4}]` + "\n", semWant: want, why: why})
				}
				if reader {
					fs, ps := pick(v, ",", ";", "/"), pick(v, "=", ":", "@")
					switch role {
					case "fs":
						fs = v
					case "ps":
						ps = v
					}
					args := append([]string{}, sp...)
					if role != "fs" && fs != "," {
						args = append(args, "--ifs", fs)
					}
					if role != "ps" && ps != "=" {
						args = append(args, "--ips", ps)
					}
					dk := "a" + ps + "1" + fs + "b" + ps + "2\na" + ps + "3" + fs + "b" + ps + "4\n"
					add(flagCase{kind: "semantic", class: "value-meaning", id: id + " reader", semArgs: append(args, "--idkvp", "--ojson", "cat"), semInput: dk, semJSON: true,
						semWant: `{"a":"1","b":"2"} / {"a":"3","b":"4"}`, why: why})
				}
			}
		}
	}
}
