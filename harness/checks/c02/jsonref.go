package c02

// A small ordered JSON model shared by the three parts: documents keep key
// order and the literal text of scalar leaves (the property is about names,
// order and value TEXT; the JSON type of a leaf re-read from tabular text is
// C06's subject and is deliberately not modelled).

import (
	"bytes"
	"encoding/json"
	"fmt"
	"io"
	"strconv"
	"strings"
)

type jkind int

const (
	jScalar jkind = iota
	jMap
	jArr
)

type jval struct {
	kind   jkind
	text   string // scalar: string contents, or the literal of a number/true/false/null
	quoted bool   // scalar: was a JSON string
	keys   []string
	vals   []*jval // map values, or array elements
	alias  string  // documents of the size dimension: short canonical name used in violation keys
}

// keyText: the canonical text of a document inside a violation key.
func (v *jval) keyText() string {
	if v.alias != "" {
		return v.alias
	}
	return v.String()
}

// showText: the document inside a message (long documents are clipped; the replay carries the whole text).
func (v *jval) showText() string {
	if v.alias != "" {
		return v.alias + " = " + clipLong(v.String())
	}
	return v.String()
}

func clipLong(s string) string {
	if len(s) > 500 {
		return s[:240] + " ...(" + strconv.Itoa(len(s)-480) + " bytes)... " + s[len(s)-240:]
	}
	return s
}

// clipDiff clips two long texts to the neighbourhood of their first difference.
func clipDiff(got, want string) (string, string) {
	if len(got) <= 500 && len(want) <= 500 {
		return got, want
	}
	p := 0
	for p < len(got) && p < len(want) && got[p] == want[p] {
		p++
	}
	cut := func(s string) string {
		a, b := p-80, p+160
		if a < 0 {
			a = 0
		}
		if b > len(s) {
			b = len(s)
		}
		if a > b {
			a = b
		}
		return fmt.Sprintf("(%d bytes; from byte %d) ...%s...", len(s), a, s[a:b])
	}
	return cut(got), cut(want)
}

func jstr(s string) *jval { return &jval{kind: jScalar, text: s, quoted: true} }
func jlit(s string) *jval { return &jval{kind: jScalar, text: s} }
func jmap() *jval         { return &jval{kind: jMap} }
func jarr() *jval         { return &jval{kind: jArr} }

func (v *jval) put(k string, x *jval) *jval {
	v.keys = append(v.keys, k)
	v.vals = append(v.vals, x)
	return v
}
func (v *jval) add(x *jval) *jval { v.vals = append(v.vals, x); return v }

func (v *jval) get(k string) *jval {
	for i, kk := range v.keys {
		if kk == k {
			return v.vals[i]
		}
	}
	return nil
}

func (v *jval) set(k string, x *jval) {
	for i, kk := range v.keys {
		if kk == k {
			v.vals[i] = x
			return
		}
	}
	v.put(k, x)
}

func jsonQuote(s string) string {
	var b bytes.Buffer
	enc := json.NewEncoder(&b)
	enc.SetEscapeHTML(false)
	enc.Encode(s)
	return strings.TrimSuffix(b.String(), "\n")
}

// encode writes compact JSON (keys in order).
func (v *jval) encode(b *strings.Builder) {
	switch v.kind {
	case jScalar:
		if v.quoted {
			b.WriteString(jsonQuote(v.text))
		} else {
			b.WriteString(v.text)
		}
	case jMap:
		b.WriteByte('{')
		for i, k := range v.keys {
			if i > 0 {
				b.WriteString(", ")
			}
			b.WriteString(jsonQuote(k))
			b.WriteString(": ")
			v.vals[i].encode(b)
		}
		b.WriteByte('}')
	case jArr:
		b.WriteByte('[')
		for i, e := range v.vals {
			if i > 0 {
				b.WriteString(", ")
			}
			e.encode(b)
		}
		b.WriteByte(']')
	}
}

func (v *jval) String() string {
	var b strings.Builder
	v.encode(&b)
	return b.String()
}

// shape renders structure, key order and leaf TEXT only (no quoting information).
func (v *jval) shape(b *strings.Builder) {
	switch v.kind {
	case jScalar:
		b.WriteString(jsonQuote(v.text))
	case jMap:
		b.WriteByte('{')
		for i, k := range v.keys {
			if i > 0 {
				b.WriteByte(',')
			}
			b.WriteString(jsonQuote(k))
			b.WriteByte(':')
			v.vals[i].shape(b)
		}
		b.WriteByte('}')
	case jArr:
		b.WriteByte('[')
		for i, e := range v.vals {
			if i > 0 {
				b.WriteByte(',')
			}
			e.shape(b)
		}
		b.WriteByte(']')
	}
}

func shapeOf(v *jval) string {
	var b strings.Builder
	v.shape(&b)
	return b.String()
}

func shapesOf(vs []*jval) string {
	var b strings.Builder
	for i, v := range vs {
		if i > 0 {
			b.WriteString(" / ")
		}
		v.shape(&b)
	}
	return b.String()
}

// parseJSONStream parses Miller JSON / JSON Lines output: either one outer list
// of values or a concatenation of values. Key order and number literals are kept.
func parseJSONStream(text string) ([]*jval, error) {
	dec := json.NewDecoder(strings.NewReader(text))
	dec.UseNumber()
	var out []*jval
	first := true
	for {
		tok, err := dec.Token()
		if err == io.EOF {
			return out, nil
		}
		if err != nil {
			return nil, err
		}
		if d, ok := tok.(json.Delim); ok && d == '[' && first {
			// outer list
			for dec.More() {
				v, err := parseValue(dec, nil)
				if err != nil {
					return nil, err
				}
				out = append(out, v)
			}
			if _, err := dec.Token(); err != nil { // ']'
				return nil, err
			}
			first = false
			continue
		}
		first = false
		v, err := parseValue(dec, tok)
		if err != nil {
			return nil, err
		}
		out = append(out, v)
	}
}

func parseValue(dec *json.Decoder, tok json.Token) (*jval, error) {
	if tok == nil {
		var err error
		tok, err = dec.Token()
		if err != nil {
			return nil, err
		}
	}
	switch t := tok.(type) {
	case json.Delim:
		switch t {
		case '{':
			m := jmap()
			for dec.More() {
				kt, err := dec.Token()
				if err != nil {
					return nil, err
				}
				k, ok := kt.(string)
				if !ok {
					return nil, fmt.Errorf("non-string key %v", kt)
				}
				v, err := parseValue(dec, nil)
				if err != nil {
					return nil, err
				}
				m.put(k, v)
			}
			if _, err := dec.Token(); err != nil {
				return nil, err
			}
			return m, nil
		case '[':
			a := jarr()
			for dec.More() {
				v, err := parseValue(dec, nil)
				if err != nil {
					return nil, err
				}
				a.add(v)
			}
			if _, err := dec.Token(); err != nil {
				return nil, err
			}
			return a, nil
		}
		return nil, fmt.Errorf("unexpected delimiter %v", t)
	case string:
		return jstr(t), nil
	case json.Number:
		return jlit(t.String()), nil
	case bool:
		if t {
			return jlit("true"), nil
		}
		return jlit("false"), nil
	case nil:
		return jlit("null"), nil
	}
	return nil, fmt.Errorf("unexpected token %v", tok)
}
