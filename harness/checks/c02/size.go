package c02

// The collection-SIZE dimension of the nesting part.
//
// The document spaces of nest.go bound arrays at 2 elements and maps at 4 keys:
// every index piece that flatten writes and arrayify compares is "1" or "2".
// A mistake that depends on HOW MANY elements a collection has (a cache of the
// first k index strings, a one-digit/two-digit assumption, a sort threshold, a
// hashed-map threshold, a buffer of 64 or 100 entries) is invisible there.
//
// Here the size n of ONE collection runs over every integer 0..N (N >= 101 in
// every tier: crosses 9/10, 12, 16, 32/33, 64, 99/100; the library layer goes
// on over 128, 256 and, thorough, 512 and 1000/1024), for every shape below
// (where the collection sits and how its keys are spelled) and every element
// kind. Elements carry distinct leaf texts ("v<i>"), so that a lost, shifted,
// duplicated or reordered element changes the result. The oracle is the same
// reference model as in nest.go (identity; maps keyed exactly "1".."n" come
// back as arrays, which is what flatten-unflatten.md documents).

import (
	"fmt"
	"strconv"
)

type sizeElem struct {
	name string
	mk   func(i int) *jval
}

var sizeElems = []sizeElem{
	{"scalar", func(i int) *jval { return jstr("v" + strconv.Itoa(i)) }},
	{"map1", func(i int) *jval { return jmap().put("k", jstr("v"+strconv.Itoa(i))) }},
	{"arr1", func(i int) *jval { return jarr().add(jstr("v" + strconv.Itoa(i))) }},
}

type sizeShape struct {
	name string
	minN int
	mk   func(n int, e func(i int) *jval) *jval
}

func sizeArray(n int, e func(i int) *jval) *jval {
	a := jarr()
	for i := 1; i <= n; i++ {
		a.add(e(i))
	}
	return a
}

// sizeMap: a map of n entries; key(i) spells the i-th key (1-up).
func sizeMap(n int, e func(i int) *jval, key func(i int) string) *jval {
	m := jmap()
	for i := 1; i <= n; i++ {
		m.put(key(i), e(i))
	}
	return m
}

func keyLetter(i int) string { return "k" + strconv.Itoa(i) }
func keyIndex(i int) string  { return strconv.Itoa(i) }

var sizeShapes = []sizeShape{
	// ---- arrays of n elements
	{"array@record-field", 0, func(n int, e func(int) *jval) *jval {
		return jmap().put("h", jstr("s")).put("a", sizeArray(n, e)).put("z", jstr("t"))
	}},
	{"array@in-map", 0, func(n int, e func(int) *jval) *jval {
		return jmap().put("a", jmap().put("p", jstr("s")).put("b", sizeArray(n, e)).put("q", jstr("t")))
	}},
	{"array@in-array-of-maps", 0, func(n int, e func(int) *jval) *jval {
		return jmap().put("a", jarr().add(jmap().put("b", sizeArray(n, e))).add(jmap().put("c", jstr("t"))))
	}},
	{"array@in-array", 0, func(n int, e func(int) *jval) *jval {
		return jmap().put("a", jarr().add(jstr("s")).add(sizeArray(n, e)).add(jstr("t")))
	}},
	// ---- maps of n entries
	{"map-letter-keys@record-field", 0, func(n int, e func(int) *jval) *jval {
		return jmap().put("a", sizeMap(n, e, keyLetter)).put("z", jstr("t"))
	}},
	{"map-letter-keys@in-array-of-maps", 0, func(n int, e func(int) *jval) *jval {
		return jmap().put("a", jarr().add(sizeMap(n, e, keyLetter)).add(jmap().put("c", jstr("t"))))
	}},
	// keys exactly "1".."n": documented to come back as an array
	{"map-keys-1..n@record-field", 1, func(n int, e func(int) *jval) *jval {
		return jmap().put("a", sizeMap(n, e, keyIndex)).put("z", jstr("t"))
	}},
	{"map-keys-1..n@in-map", 1, func(n int, e func(int) *jval) *jval {
		return jmap().put("a", jmap().put("b", sizeMap(n, e, keyIndex)).put("q", jstr("t")))
	}},
	// near misses of "1".."n": must stay maps
	{"map-keys-0..n-1@record-field", 1, func(n int, e func(int) *jval) *jval {
		return jmap().put("a", sizeMap(n, e, func(i int) string { return strconv.Itoa(i - 1) }))
	}},
	{"map-keys-2..n+1@record-field", 1, func(n int, e func(int) *jval) *jval {
		return jmap().put("a", sizeMap(n, e, func(i int) string { return strconv.Itoa(i + 1) }))
	}},
	{"map-keys-1..n-1,n+1@record-field", 1, func(n int, e func(int) *jval) *jval {
		return jmap().put("a", sizeMap(n, e, func(i int) string {
			if i == n {
				return strconv.Itoa(n + 1)
			}
			return strconv.Itoa(i)
		}))
	}},
	{"map-keys-1..n-last-two-swapped@record-field", 2, func(n int, e func(int) *jval) *jval {
		return jmap().put("a", sizeMap(n, e, func(i int) string {
			switch i {
			case n - 1:
				return strconv.Itoa(n)
			case n:
				return strconv.Itoa(n - 1)
			}
			return strconv.Itoa(i)
		}))
	}},
	// ---- the record itself has n fields (the record level is never an array)
	{"record-letter-keys", 1, func(n int, e func(int) *jval) *jval { return sizeMap(n, e, keyLetter) }},
	{"record-keys-1..n", 1, func(n int, e func(int) *jval) *jval { return sizeMap(n, e, keyIndex) }},
}

func sizeMaxCli(quick bool) int {
	if quick {
		return 104
	}
	return 260
}

func sizeMaxLib(quick bool) int {
	if quick {
		return 260
	}
	return 520
}

// sizeExtraLib: further sizes of the library layer beyond the contiguous range (each with both neighbours).
func sizeExtraLib(quick bool) []int {
	if quick {
		return nil
	}
	return []int{999, 1000, 1001, 1023, 1024, 1025}
}

// sizeBucket names the interval between two thresholds that n falls in (vacuity evidence).
func sizeBucket(n int) string {
	edges := []int{0, 1, 2, 9, 10, 12, 13, 16, 17, 32, 33, 64, 65, 99, 100, 101, 128, 129, 256, 257, 512, 513, 1000, 1001}
	for i, e := range edges {
		if n == e {
			return fmt.Sprintf("%04d", e)
		}
		if n < e {
			return fmt.Sprintf("%04d..%04d", edges[i-1]+1, e-1)
		}
	}
	return ">1001"
}

// forEachSizeDoc: canonical order = size, then shape, then element kind (simplest first).
func forEachSizeDoc(maxN int, extra []int, mine func() bool, emit func(doc *jval, shape, elem string, n int)) {
	var ns []int
	for n := 0; n <= maxN; n++ {
		ns = append(ns, n)
	}
	ns = append(ns, extra...)
	for _, n := range ns {
		for _, sh := range sizeShapes {
			if n < sh.minN {
				continue
			}
			for _, el := range sizeElems {
				if n == 0 && el.name != "scalar" {
					continue // no element: one document per shape
				}
				if !mine() {
					continue
				}
				doc := sh.mk(n, el.mk)
				doc.alias = fmt.Sprintf("size{%s,%s,n=%d}", sh.name, el.name, n)
				emit(doc, sh.name, el.name, n)
			}
		}
	}
}
