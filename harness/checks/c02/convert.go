package c02

// Part 1: A->B->A reproduces the records and A->B == A->C->B, for all ordered
// pairs / triples of formats, on every enumerated stream inside the
// intersection of the formats' domains. Whole invocations, in-process.

import (
	"fmt"
	"sort"
	"strconv"
	"strings"

	"verif/harness/vf"
)

// ---------------------------------------------------------------- enumeration

var (
	valsFull  = []string{"x", "", "1", "1.50", "-", "a b", "a,b", "a=b"}
	valsExtra = []string{`a"b`, "a\tb", "a\nb", "é", "a|b", " x"}
	vals4     = []string{"x", "", "1", "a b"}
	vals3     = []string{"x", "", "1"}
	specialKs = []string{"a b", "a,b", "a=b", "", "a.b", "a:b", "é", "-"}
)

// forEachAssignment calls f with every assignment of values from vs to the n cells.
func forEachAssignment(n int, vs []string, f func(cells []string)) {
	cells := make([]string, n)
	var rec func(i int)
	rec = func(i int) {
		if i == n {
			f(cells)
			return
		}
		for _, v := range vs {
			cells[i] = v
			rec(i + 1)
		}
	}
	rec(0)
}

func build(keyLists [][]string, cells []string) stream {
	var s stream
	p := 0
	for _, kl := range keyLists {
		r := make(rec, len(kl))
		for i, k := range kl {
			r[i] = kv{k, cells[p]}
			p++
		}
		s = append(s, r)
	}
	return s
}

type family struct {
	name     string
	keyLists [][]string
	vals     []string
}

func families(quick bool) []family {
	var F []family
	add := func(name string, vals []string, kls ...[]string) {
		F = append(F, family{name, kls, vals})
	}
	a, ab, abc, ba, b := []string{"a"}, []string{"a", "b"}, []string{"a", "b", "c"}, []string{"b", "a"}, []string{"b"}
	p1, p12, p123 := []string{"1"}, []string{"1", "2"}, []string{"1", "2", "3"}
	// E1: one record
	wide := valsFull
	if !quick {
		wide = append(append([]string{}, valsFull...), valsExtra...)
	}
	add("1rec-a", wide, a)
	add("1rec-ab", wide, ab)
	add("1rec-1", wide, p1)
	add("1rec-12", wide, p12)
	if quick {
		add("1rec-abc", vals4, abc)
		add("1rec-123", vals4, p123)
	} else {
		add("1rec-abc", valsFull, abc)
		add("1rec-123", valsFull, p123)
	}
	// E2: two records, homogeneous and heterogeneous key lists, key-order change, ragged positional
	v2 := vals3
	if !quick {
		v2 = vals4
	}
	add("2rec-a/a", v2, a, a)
	add("2rec-ab/ab", v2, ab, ab)
	add("2rec-1/1", v2, p1, p1)
	add("2rec-12/12", v2, p12, p12)
	add("2rec-ab/a", v2, ab, a)
	add("2rec-a/ab", v2, a, ab)
	add("2rec-a/b", v2, a, b)
	add("2rec-ab/ba", v2, ab, ba)
	add("2rec-12/1", v2, p12, p1)
	add("2rec-1/12", v2, p1, p12)
	if !quick {
		add("3rec-ab/ab/ab", vals3, ab, ab, ab)
		add("3rec-ab/a/ab", vals3, ab, a, ab)
		add("3rec-12/1/12", vals3, p12, p1, p12)
	}
	// E3: special keys
	for _, k := range specialKs {
		add("key-"+fmt.Sprintf("%q", k), vals4, []string{k})
		add("key-"+fmt.Sprintf("%q", k)+",a", vals4, []string{k, "a"})
		add("key-a,"+fmt.Sprintf("%q", k), vals4, []string{"a", k})
	}
	return F
}

// ---------------------------------------------------------------- running

type convRes struct {
	done bool
	ok   bool
	out  string
	res  vf.MlrResult
}

type tripCtx struct {
	w     *vf.Worker
	F     []format
	s     stream
	want  string               // shape of s
	T     []convRes            // T[A]: text of s in format A
	X     [][]convRes          // X[A][B]: A->B applied to T[A]
	dec   map[string]decodeRes // decode cache by format name + text
	quick bool
}

type decodeRes struct {
	shape string
	recs  []*jval
	err   string
}

// diffCause names how two record lists differ, for the violation group (so that
// one defect flooding many format pairs stays in its own groups).
func diffCause(want stream, got decodeRes) string {
	if got.err != "" {
		return "unreadable"
	}
	if len(got.recs) != len(want) {
		// records of want missing from got, in order?
		j := 0
		for _, r := range want {
			if j < len(got.recs) && flatRecEqual(r, got.recs[j]) {
				j++
			}
		}
		if len(got.recs) < len(want) && j == len(got.recs) {
			return "records-dropped"
		}
		return "record-count"
	}
	causes := map[string]bool{}
	for i, r := range want {
		g := got.recs[i]
		if g.kind != jMap {
			causes["not-a-record"] = true
			continue
		}
		if flatRecEqual(r, g) {
			continue
		}
		wantKeys := append([]string(nil), r.keys()...)
		gotKeys := append([]string(nil), g.keys...)
		sort.Strings(wantKeys)
		sort.Strings(gotKeys)
		if strings.Join(wantKeys, "\x00") != strings.Join(gotKeys, "\x00") || len(wantKeys) != len(gotKeys) {
			causes["keys-changed"] = true
			continue
		}
		if strings.Join(r.keys(), "\x00") != strings.Join(g.keys, "\x00") {
			causes["key-order"] = true
		}
		for _, f := range r {
			gv := g.get(f.K)
			if gv == nil || gv.kind != jScalar {
				causes["value-changed"] = true
				continue
			}
			if gv.text == f.V {
				continue
			}
			a, err1 := strconv.ParseFloat(f.V, 64)
			b, err2 := strconv.ParseFloat(gv.text, 64)
			if err1 == nil && err2 == nil && a == b {
				causes["number-respelled"] = true
			} else {
				causes["value-changed"] = true
			}
		}
	}
	var cs []string
	for c := range causes {
		cs = append(cs, c)
	}
	sort.Strings(cs)
	if len(cs) == 0 {
		return "other"
	}
	return strings.Join(cs, "+")
}

func flatRecEqual(r rec, g *jval) bool {
	if g.kind != jMap || len(g.keys) != len(r) {
		return false
	}
	for i, f := range r {
		if g.keys[i] != f.K || g.vals[i].kind != jScalar || g.vals[i].text != f.V {
			return false
		}
	}
	return true
}

func cmdline(args []string) string {
	q := make([]string, len(args))
	for i, a := range args {
		if a == "" || strings.ContainsAny(a, " \t\n'\"\\|;&<>()$*?#[]{}~") {
			q[i] = "'" + strings.ReplaceAll(a, "'", `'\''`) + "'"
		} else {
			q[i] = a
		}
	}
	return "mlr " + strings.Join(q, " ")
}

func convArgs(from, to format, extra ...string) []string {
	args := append([]string{}, from.in...)
	args = append(args, to.out...)
	args = append(args, extra...)
	return append(args, "cat")
}

func runConv(w *vf.Worker, from, to format, text string, extra ...string) convRes {
	r := vf.RunMlr(convArgs(from, to, extra...), vf.MlrOpts{Stdin: &text})
	w.Eval(1)
	w.Count("conv:"+from.name+">"+to.name, 1)
	return convRes{done: true, ok: r.Exit == 0 && r.Panic == "" && r.Stderr == "", out: r.Stdout, res: r}
}

// decode observes the records of a text in format f: JSON family texts are
// parsed directly; others are passed through `mlr --i<f> --ojson --no-auto-unflatten cat`.
func (t *tripCtx) decode(f format, text string) decodeRes {
	key := f.name + "\x00" + text
	if d, ok := t.dec[key]; ok {
		return d
	}
	var d decodeRes
	jtext := text
	if !(f.name == "json" || f.name == "jsonl") {
		c := runConv(t.w, f, t.F[0], text, "--no-auto-unflatten")
		if !c.ok {
			d.err = "cannot read " + f.name + " text: " + c.res.String()
			t.dec[key] = d
			return d
		}
		jtext = c.out
	}
	vs, err := parseJSONStream(jtext)
	if err != nil {
		d.err = "not JSON: " + err.Error()
	} else {
		d.shape = shapesOf(vs)
		d.recs = vs
	}
	t.dec[key] = d
	return d
}

// streamOf turns decoded flat records back into a stream (nested values are rendered as text).
func streamOf(vs []*jval) stream {
	var s stream
	for _, v := range vs {
		var r rec
		if v.kind == jMap {
			for i, k := range v.keys {
				x := v.vals[i]
				if x.kind == jScalar {
					r = append(r, kv{k, x.text})
				} else {
					r = append(r, kv{k, shapeOf(x)})
				}
			}
		}
		s = append(s, r)
	}
	return s
}

func hasFlatsepKey(s stream) bool {
	return anyKey(s, func(k string) bool { return strings.Contains(k, ".") })
}

// pathDomain: the stream is representable along the whole conversion path.
// Besides the per-format predicates: a step from a non-nesting format into a
// nesting one auto-unflattens keys containing the flatten separator (documented
// in flatten-unflatten.md), so such keys are outside the domain of that path.
func pathDomain(s stream, path ...format) string {
	for _, f := range path {
		if why := f.dom(s); why != "" {
			return f.name + ":" + why
		}
	}
	for i := 1; i < len(path); i++ {
		if !path[i-1].nestable && path[i].nestable && hasFlatsepKey(s) {
			return "unflatten:key-contains-flatsep"
		}
	}
	return ""
}

func brief(s string) string {
	if len(s) > 300 {
		s = s[:300] + "..."
	}
	return fmt.Sprintf("%q", s)
}

func convertWorker(w *vf.Worker) {
	quick := w.Quick()
	var F []format
	for _, f := range allFormats() {
		if f.thorough && quick {
			continue
		}
		F = append(F, f)
	}
	var idx uint64
	for _, fam := range families(quick) {
		n := 0
		for _, kl := range fam.keyLists {
			n += len(kl)
		}
		forEachAssignment(n, fam.vals, func(cells []string) {
			idx++
			if !w.Mine(idx) {
				return
			}
			w.Begin(idx)
			s := build(fam.keyLists, cells)
			w.Label(func() string { return fam.name + " " + s.shape() })
			w.Count("family:"+fam.name, 1)
			for _, c := range cells {
				w.Count("value:"+fmt.Sprintf("%q", c), 1)
			}
			oneStream(w, F, s, quick)
		})
	}
}

func oneStream(w *vf.Worker, F []format, s stream, quick bool) {
	t := &tripCtx{w: w, F: F, s: s, want: s.shape(), quick: quick, dec: map[string]decodeRes{}}
	nf := len(F)
	t.T = make([]convRes, nf)
	t.X = make([][]convRes, nf)
	size := fmt.Sprintf("%02d", s.cells())
	sh := s.shape()
	J := s.json()
	in := make([]bool, nf)
	for i, f := range F {
		t.X[i] = make([]convRes, nf)
		why := f.dom(s)
		if why == "" {
			in[i] = true
			w.Count("domain-in:"+f.name, 1)
		} else {
			w.Count("domain-out:"+f.name+":"+why, 1)
		}
	}
	// start texts: T[json] is written by the harness; T[A] = json->A of it (this is
	// already the pair law json->A->json, checked by decoding T[A]).
	jf := F[0]
	nontrivial := false
	for i, f := range F {
		if !in[i] {
			continue
		}
		if i == 0 {
			t.T[0] = convRes{done: true, ok: true, out: J}
			continue
		}
		c := runConv(w, jf, f, J)
		t.T[i] = c
		if !c.ok {
			w.Violation(fmt.Sprintf("conv-fails[json>%s]:%s:%s", f.name, size, sh),
				fmt.Sprintf("%s fails on a stream inside the domain of %s: %s", cmdline(convArgs(jf, f)), f.name, c.res.String()),
				map[string]any{"args": convArgs(jf, f), "stdin": J})
			in[i] = false
			continue
		}
		d := t.decode(f, c.out)
		if d.err != "" || d.shape != t.want {
			w.Violation(fmt.Sprintf("trip[%s][json>%s>json]:%s:%s", diffCause(s, d), f.name, size, sh),
				fmt.Sprintf("%s | mlr %s --ojson --no-auto-unflatten cat: records changed: %s text %s reads back as %s %s, expected %s", cmdline(convArgs(jf, f)), strings.Join(f.in, " "), f.name, brief(c.out), d.shape, d.err, t.want),
				map[string]any{"args": convArgs(jf, f), "stdin": J, "text": c.out})
			in[i] = false // do not pile consequences of the same failure onto every pair
			continue
		}
	}
	for a := range F {
		if !in[a] {
			continue
		}
		for b := range F {
			if a == b || !in[b] {
				continue
			}
			A, B := F[a], F[b]
			if why := pathDomain(s, A, B, A); why != "" {
				w.Count("pair-out:"+why, 1)
				continue
			}
			w.Count("pair-in", 1)
			nontrivial = true
			x := runConv(w, A, B, t.T[a].out)
			t.X[a][b] = x
			pairKey := fmt.Sprintf("[%s>%s>%s]:%s:%s", A.name, B.name, A.name, size, sh)
			if !x.ok {
				w.Violation("conv-fails"+pairKey,
					fmt.Sprintf("%s fails on %s text %s: %s", cmdline(convArgs(A, B)), A.name, brief(t.T[a].out), x.res.String()),
					map[string]any{"args": convArgs(A, B), "stdin": t.T[a].out})
				continue
			}
			y := runConv(w, B, A, x.out)
			if !y.ok {
				w.Violation("conv-fails"+pairKey,
					fmt.Sprintf("%s fails on the %s text %s produced by %s: %s", cmdline(convArgs(B, A)), B.name, brief(x.out), cmdline(convArgs(A, B)), y.res.String()),
					map[string]any{"args1": convArgs(A, B), "stdin": t.T[a].out, "args2": convArgs(B, A), "mid": x.out})
				continue
			}
			if !A.nestable && y.out == t.T[a].out {
				w.Count("trip-bytes-equal", 1)
				continue
			}
			d := t.decode(A, y.out)
			if d.err == "" && d.shape == t.want {
				if !A.nestable {
					w.Count("trip-records-equal-bytes-differ:"+A.name, 1)
				} else {
					w.Count("trip-records-equal", 1)
				}
				continue
			}
			w.Violation("trip["+diffCause(s, d)+"]"+pairKey,
				fmt.Sprintf("%s | %s does not reproduce the records: %s input %s -> %s %s -> %s %s = records %s %s, expected %s",
					cmdline(convArgs(A, B)), cmdline(convArgs(B, A)), A.name, brief(t.T[a].out), B.name, brief(x.out), A.name, brief(y.out), d.shape, d.err, t.want),
				map[string]any{"args1": convArgs(A, B), "stdin": t.T[a].out, "args2": convArgs(B, A), "mid": x.out, "got": y.out})
		}
	}
	// triples: A->C->B == A->B
	for a := range F {
		if !in[a] {
			continue
		}
		for b := range F {
			if a == b || !t.X[a][b].ok {
				continue
			}
			for c := range F {
				if c == a || c == b || !t.X[a][c].ok {
					continue
				}
				A, B, C := F[a], F[b], F[c]
				if quick && !(A.lossless && B.lossless && C.lossless) {
					continue
				}
				if why := pathDomain(s, A, C, B); why != "" {
					w.Count("triple-out:"+why, 1)
					continue
				}
				if why := pathDomain(s, A, B); why != "" {
					w.Count("triple-out:"+why, 1)
					continue
				}
				w.Count("triple-in", 1)
				z := runConv(w, C, B, t.X[a][c].out)
				key := fmt.Sprintf("[%s>%s>%s]:%s:%s", A.name, C.name, B.name, size, sh)
				if !z.ok {
					w.Violation("conv-fails"+key,
						fmt.Sprintf("%s fails on the %s text %s produced by %s: %s", cmdline(convArgs(C, B)), C.name, brief(t.X[a][c].out), cmdline(convArgs(A, C)), z.res.String()),
						map[string]any{"args1": convArgs(A, C), "stdin": t.T[a].out, "args2": convArgs(C, B), "mid": t.X[a][c].out})
					continue
				}
				direct := t.X[a][b].out
				if !B.nestable && z.out == direct {
					w.Count("path-bytes-equal", 1)
					continue
				}
				d1 := t.decode(B, direct)
				d2 := t.decode(B, z.out)
				if d1.err == "" && d2.err == "" && d1.shape == d2.shape {
					if !B.nestable {
						w.Count("path-records-equal-bytes-differ:"+B.name, 1)
					} else {
						w.Count("path-records-equal", 1)
					}
					continue
				}
				cause := "unreadable"
				if d1.err == "" {
					cause = diffCause(streamOf(d1.recs), d2)
				}
				w.Violation("path["+cause+"]"+key,
					fmt.Sprintf("%s | %s differs from %s on %s input %s: via %s: %s = records %s %s; direct: %s = records %s %s",
						cmdline(convArgs(A, C)), cmdline(convArgs(C, B)), cmdline(convArgs(A, B)), A.name, brief(t.T[a].out), C.name, brief(z.out), d2.shape, d2.err, brief(direct), d1.shape, d1.err),
					map[string]any{"args_direct": convArgs(A, B), "args_via1": convArgs(A, C), "args_via2": convArgs(C, B), "stdin": t.T[a].out, "mid": t.X[a][c].out, "got_via": z.out, "got_direct": direct})
			}
		}
	}
	if nontrivial {
		w.Nontrivial(1)
		w.AddSet("streams", sh)
		w.Sample(map[string]any{"part": "convert", "stream": sh, "json_start_text": J})
	}
}
