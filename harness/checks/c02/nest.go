package c02

// Part 2: nesting. JSON -> tabular -> JSON is the identity on structure, key
// order and leaf text whenever all keys are non-empty and free of the flatten
// separator. Two layers over the same canonical enumeration of documents:
//
//   lib: Mlrmap.Flatten / CopyUnflattened called directly (bulk: 10^6..10^8 documents)
//   cli: whole invocations  json -> fmt -> json  for {csv,dkvp,xtab,pprint} x {".", ":", "__"},
//        implicit auto-flatten/unflatten pair == explicit flatten/unflatten verbs
//        == their -f forms when every field of the record is listed
//
// Key alphabets: {a,b,1,2} (letters and canonical indices) and, in the look-*
// spaces, every lexical lookalike of an index (look.go): "01", "+1", "0x1",
// "1.0", " 1", fullwidth digits, ...: keys on which string equality with
// strconv.Itoa(i) and a number parser disagree.
//
// Reference flattener/unflattener written from docs/src/flatten-unflatten.md:
// key spreading with 1-up array indices; unflatten splits on the separator,
// leaves keys with an empty piece alone, and turns maps whose keys are "1","2",..
// consecutively from 1 back into arrays. Empty map / empty array survive the
// trip (the property demands identity; Miller spells them "{}" and "[]").

import (
	"fmt"
	"strconv"
	"strings"

	"github.com/johnkerl/miller/v6/pkg/mlrval"

	"verif/harness/vf"
)

// ---------------------------------------------------------------- reference model

type flatField struct {
	k string
	v string // leaf text
}

func refFlattenValue(prefix string, v *jval, sep string, out *[]flatField) {
	switch v.kind {
	case jScalar:
		*out = append(*out, flatField{prefix, v.text})
	case jMap:
		if len(v.keys) == 0 {
			*out = append(*out, flatField{prefix, "{}"})
			return
		}
		for i, k := range v.keys {
			refFlattenValue(prefix+sep+k, v.vals[i], sep, out)
		}
	case jArr:
		if len(v.vals) == 0 {
			*out = append(*out, flatField{prefix, "[]"})
			return
		}
		for i, e := range v.vals {
			refFlattenValue(prefix+sep+strconv.Itoa(i+1), e, sep, out)
		}
	}
}

func refFlatten(doc *jval, sep string) []flatField {
	var out []flatField
	for i, k := range doc.keys {
		refFlattenValue(k, doc.vals[i], sep, &out)
	}
	return out
}

func refTerminal(text string) *jval {
	switch text {
	case "{}":
		return jmap()
	case "[]":
		return jarr()
	}
	return jstr(text)
}

func refArrayify(v *jval) *jval {
	switch v.kind {
	case jMap:
		if len(v.keys) == 0 {
			return v
		}
		conv := true
		for i, k := range v.keys {
			if k != strconv.Itoa(i+1) {
				conv = false
			}
			v.vals[i] = refArrayify(v.vals[i])
		}
		if conv {
			a := jarr()
			a.vals = v.vals
			return a
		}
		return v
	case jArr:
		for i := range v.vals {
			v.vals[i] = refArrayify(v.vals[i])
		}
	}
	return v
}

// refUnflatten returns nil when the flat record is outside what the documentation
// determines (a path runs through an existing non-map value).
func refUnflatten(flat []flatField, sep string) *jval {
	out := jmap()
	affected := map[string]bool{}
	for _, f := range flat {
		if !strings.Contains(f.k, sep) {
			out.set(f.k, refTerminal(f.v))
			continue
		}
		pieces := strings.Split(f.k, sep)
		legit := true
		for _, p := range pieces {
			if p == "" {
				legit = false
			}
		}
		if !legit {
			out.set(f.k, refTerminal(f.v))
			continue
		}
		affected[pieces[0]] = true
		cur := out
		for i, p := range pieces {
			if i == len(pieces)-1 {
				cur.set(p, refTerminal(f.v))
				break
			}
			next := cur.get(p)
			if next == nil {
				next = jmap()
				cur.set(p, next)
			} else if next.kind != jMap {
				return nil
			}
			cur = next
		}
	}
	for i, k := range out.keys {
		if affected[k] {
			out.vals[i] = refArrayify(out.vals[i])
		}
	}
	return out
}

// guardOK: the property's own guard: all keys non-empty and free of the separator.
func guardOK(v *jval, sep string) bool {
	switch v.kind {
	case jMap:
		for i, k := range v.keys {
			if k == "" || strings.Contains(k, sep) {
				return false
			}
			if !guardOK(v.vals[i], sep) {
				return false
			}
		}
	case jArr:
		for _, e := range v.vals {
			if !guardOK(e, sep) {
				return false
			}
		}
	}
	return true
}

// hasArrayLikeMap: some map below the record level has keys "1".."n" in order:
// the documented auto-inference turns it into an array on the way back.
func hasArrayLikeMap(v *jval, top bool) bool {
	switch v.kind {
	case jMap:
		if !top && len(v.keys) > 0 {
			all := true
			for i, k := range v.keys {
				if k != strconv.Itoa(i+1) {
					all = false
				}
			}
			if all {
				return true
			}
		}
		for _, x := range v.vals {
			if hasArrayLikeMap(x, false) {
				return true
			}
		}
	case jArr:
		for _, x := range v.vals {
			if hasArrayLikeMap(x, false) {
				return true
			}
		}
	}
	return false
}

// sameShape: equal structure, key order and leaf text.
func sameShape(a, b *jval) bool {
	if a.kind != b.kind {
		return false
	}
	switch a.kind {
	case jScalar:
		return a.text == b.text
	case jMap:
		if len(a.keys) != len(b.keys) {
			return false
		}
		for i := range a.keys {
			if a.keys[i] != b.keys[i] || !sameShape(a.vals[i], b.vals[i]) {
				return false
			}
		}
		return true
	default:
		if len(a.vals) != len(b.vals) {
			return false
		}
		for i := range a.vals {
			if !sameShape(a.vals[i], b.vals[i]) {
				return false
			}
		}
		return true
	}
}

// sameShapeMlr: the Miller value has the structure, key order and leaf text of want.
func sameShapeMlr(want *jval, got *mlrval.Mlrval) bool {
	switch want.kind {
	case jMap:
		if !got.IsMap() {
			return false
		}
		pe := got.GetMap().Head
		for i, k := range want.keys {
			if pe == nil || pe.Key != k || !sameShapeMlr(want.vals[i], pe.Value) {
				return false
			}
			pe = pe.Next
		}
		return pe == nil
	case jArr:
		if !got.IsArray() {
			return false
		}
		arr := got.GetArray()
		if len(arr) != len(want.vals) {
			return false
		}
		for i, e := range want.vals {
			if !sameShapeMlr(e, arr[i]) {
				return false
			}
		}
		return true
	}
	if got.IsMap() || got.IsArray() {
		return false
	}
	return got.String() == want.text
}

// ---------------------------------------------------------------- enumeration

type leafKind struct {
	name string
	mk   func() *jval
}

var allLeaves = []leafKind{
	{"1", func() *jval { return jlit("1") }},
	{`"x"`, func() *jval { return jstr("x") }},
	{`""`, func() *jval { return jstr("") }},
	{"true", func() *jval { return jlit("true") }},
	{"{}", func() *jval { return jmap() }},
	{"[]", func() *jval { return jarr() }},
}

type docSpace struct {
	name    string
	keys    []string
	topKeys []string // record-level keys; nil: the same as keys
	leaves  []leafKind
	maxMap  int
	maxArr  int
	depth   int // container levels below the record
	nLeaves []int

	klCache map[int][][]string
}

// keyListsOf: keyLists(sp.keys, n), computed once per space.
func (sp *docSpace) keyListsOf(n int) [][]string {
	if kl, ok := sp.klCache[n]; ok {
		return kl
	}
	if sp.klCache == nil {
		sp.klCache = map[int][][]string{}
	}
	kl := keyLists(sp.keys, n)
	sp.klCache[n] = kl
	return kl
}

// keyLists: every ordered selection of n distinct keys.
func keyLists(keys []string, n int) [][]string {
	var out [][]string
	var rec func(cur []string)
	rec = func(cur []string) {
		if len(cur) == n {
			out = append(out, append([]string(nil), cur...))
			return
		}
	next:
		for _, k := range keys {
			for _, c := range cur {
				if c == k {
					continue next
				}
			}
			rec(append(cur, k))
		}
	}
	rec(nil)
	return out
}

// genValues: every value with exactly L leaves and at most d container levels.
func (sp *docSpace) genValues(L, d int, emit func(*jval)) {
	if L == 1 {
		for _, lk := range sp.leaves {
			emit(lk.mk())
		}
	}
	if d < 1 {
		return
	}
	for n := 1; n <= sp.maxMap && n <= L; n++ {
		for _, kl := range sp.keyListsOf(n) {
			sp.genSeq(n, L, d-1, func(vals []*jval) {
				m := jmap()
				m.keys = kl
				m.vals = append([]*jval(nil), vals...)
				emit(m)
			})
		}
	}
	for n := 1; n <= sp.maxArr && n <= L; n++ {
		sp.genSeq(n, L, d-1, func(vals []*jval) {
			a := jarr()
			a.vals = append([]*jval(nil), vals...)
			emit(a)
		})
	}
}

// genSeq: every sequence of n values with L leaves in total.
func (sp *docSpace) genSeq(n, L, d int, emit func([]*jval)) {
	cur := make([]*jval, n)
	var rec func(i, left int)
	rec = func(i, left int) {
		if i == n-1 {
			sp.genValues(left, d, func(v *jval) {
				cur[i] = v
				emit(cur)
			})
			return
		}
		for l := 1; l <= left-(n-1-i); l++ {
			sp.genValues(l, d, func(v *jval) {
				cur[i] = v
				rec(i+1, left-l)
			})
		}
	}
	rec(0, L)
}

// forEachDoc enumerates the records of the space. The outer loop (key list, leaf
// count of the first field, first field's value) is the sharding unit: mine is
// asked once per prefix.
func (sp *docSpace) forEachDoc(mine func() bool, emit func(doc *jval)) {
	top := sp.topKeys
	if top == nil {
		top = sp.keys
	}
	for _, L := range sp.nLeaves {
		for n := 1; n <= sp.maxMap && n <= L && n <= len(top); n++ {
			for _, kl := range keyLists(top, n) {
				for l1 := 1; l1 <= L-(n-1); l1++ {
					sp.genValues(l1, sp.depth, func(v1 *jval) {
						if !mine() {
							return
						}
						if n == 1 {
							if l1 != L {
								return
							}
							d := jmap()
							d.keys = kl
							d.vals = []*jval{v1}
							emit(d)
							return
						}
						sp.genSeq(n-1, L-l1, sp.depth, func(rest []*jval) {
							d := jmap()
							d.keys = kl
							d.vals = append([]*jval{v1}, rest...)
							emit(d)
						})
					})
				}
			}
		}
	}
}

var (
	keysFull = []string{"a", "b", "1", "2"}
	keys3    = []string{"a", "1", "2"}
	leaves3  = []leafKind{allLeaves[1], allLeaves[4], allLeaves[5]}
	leaves2  = []leafKind{allLeaves[1], allLeaves[5]}
	leaves4  = []leafKind{allLeaves[1], allLeaves[2], allLeaves[4], allLeaves[5]}
	seps     = []string{".", ":", "__"}
)

func libSpaces(quick bool) []docSpace {
	S := []docSpace{
		{name: "full<=2leaves", keys: keysFull, leaves: allLeaves, maxMap: 4, maxArr: 2, depth: 2, nLeaves: []int{1, 2}},
	}
	if quick {
		S = append(S, docSpace{name: "3leaves-keys{a,1,2}-leaves{x,[]}-maps<=2", keys: keys3, leaves: leaves2, maxMap: 2, maxArr: 2, depth: 2, nLeaves: []int{3}})
	}
	if !quick {
		S = append(S,
			docSpace{name: "3leaves-keys{a,1,2}-leaves{x,\"\",{},[]}", keys: keys3, leaves: leaves4, maxMap: 3, maxArr: 2, depth: 2, nLeaves: []int{3}},
			docSpace{name: "4leaves-keys{a,1,2}-leaves{x,[]}-maps<=2", keys: keys3, leaves: leaves2, maxMap: 2, maxArr: 2, depth: 2, nLeaves: []int{4}},
			docSpace{name: "5leaves-keys{1,2}-leaves{x}-maps<=2", keys: []string{"1", "2"}, leaves: []leafKind{allLeaves[1]}, maxMap: 2, maxArr: 2, depth: 2, nLeaves: []int{5}},
		)
	}
	return S
}

// lookSpaces: the key-spelling dimension (look.go). lib layer.
func lookLibSpaces(quick bool) []docSpace {
	look2 := lookKeys(2, true)
	leafX := []leafKind{allLeaves[1]}
	S := []docSpace{
		{name: "look-1leaf-depth3-keys{14 spellings of 1,2; 0,-1,3,a}-at-every-level", keys: look2, leaves: leaves2, maxMap: 1, maxArr: 1, depth: 2, nLeaves: []int{1}},
		{name: "look-2leaves-depth2-keys{14 spellings of 1,2; 0,-1,3,a}", keys: look2, topKeys: []string{"a"}, leaves: leaves2, maxMap: 2, maxArr: 2, depth: 1, nLeaves: []int{2}},
		{name: "look-3leaves-depth2-maps<=3-keys{14 spellings of 1,2,3}", keys: lookKeys(3, false), topKeys: []string{"a"}, leaves: leafX, maxMap: 3, maxArr: 1, depth: 1, nLeaves: []int{3}},
		{name: "sentinel-lookalike-leaves-keys{a,1}", keys: []string{"a", "1"}, leaves: append(append([]leafKind(nil), leaves3...), sentinelLookalikes...), maxMap: 2, maxArr: 2, depth: 2, nLeaves: []int{1, 2}},
	}
	if quick {
		S = append(S, docSpace{name: "look-2leaves-depth3-keys{canonical,leading-zero,plus-sign of 1,2; a}", keys: lookKeysOf(2, 0, 1, 2), topKeys: []string{"a"}, leaves: leaves2, maxMap: 2, maxArr: 2, depth: 2, nLeaves: []int{2}})
	} else {
		S = append(S, docSpace{name: "look-2leaves-depth3-keys{14 spellings of 1,2; 0,-1,3,a}", keys: look2, topKeys: []string{"a"}, leaves: leaves2, maxMap: 2, maxArr: 2, depth: 2, nLeaves: []int{2}})
	}
	return S
}

func lookCliSpaces(quick bool) []docSpace {
	look2 := lookKeys(2, true)
	leafX := []leafKind{allLeaves[1]}
	S := []docSpace{
		{name: "cli-look-2leaves-depth2-keys{14 spellings of 1,2; 0,-1,3,a}", keys: look2, topKeys: []string{"a"}, leaves: leaves2, maxMap: 2, maxArr: 2, depth: 1, nLeaves: []int{2}},
		{name: "cli-sentinel-lookalike-leaves-depth2", keys: []string{"a"}, leaves: append(append([]leafKind(nil), leaves3...), sentinelLookalikes...), maxMap: 1, maxArr: 2, depth: 1, nLeaves: []int{1, 2}},
	}
	if quick {
		S = append(S, docSpace{name: "cli-look-1leaf-depth3-keys{14 spellings of 1,2; 0,-1,3,a}-below-a", keys: look2, topKeys: []string{"a"}, leaves: leaves2, maxMap: 1, maxArr: 1, depth: 2, nLeaves: []int{1}})
	} else {
		S = append(S,
			// record-level keys: a, every spelling of 1, and 0, -1 (the lib layer has all 32 at the record level)
			docSpace{name: "cli-look-1leaf-depth3-keys{14 spellings of 1,2; 0,-1,3,a}-below-{a; 14 spellings of 1; 0,-1}", keys: look2, topKeys: append(append([]string{"a"}, spellingsOf(1)...), "0", "-1"), leaves: leaves2, maxMap: 1, maxArr: 1, depth: 2, nLeaves: []int{1}},
			// 3-key maps: one spelling per reader family (Itoa, Atoi x2, ParseInt base 0, ParseFloat, Sscan); the lib layer has all 14
			docSpace{name: "cli-look-3leaves-depth2-maps<=3-keys{canonical,leading-zero,plus-sign,hex-prefix,zero-fraction,leading-blank of 1,2,3}", keys: lookKeysOf(3, 0, 1, 2, 3, 7, 10)[:18], topKeys: []string{"a"}, leaves: leafX, maxMap: 3, maxArr: 1, depth: 1, nLeaves: []int{3}},
		)
	}
	return S
}

func cliSpaces(quick bool) []docSpace {
	S := []docSpace{
		{name: "cli-1leaf-depth3", keys: keysFull, leaves: allLeaves, maxMap: 4, maxArr: 2, depth: 2, nLeaves: []int{1}},
	}
	if quick {
		S = append(S, docSpace{name: "cli-2leaves-depth2-keys{a,1,2}-leaves{x,\"\",{},[]}", keys: keys3, leaves: leaves4, maxMap: 2, maxArr: 2, depth: 1, nLeaves: []int{2}})
	}
	if !quick {
		S = append(S,
			docSpace{name: "cli-2leaves-depth2-keys{a,1,2}", keys: keys3, leaves: allLeaves, maxMap: 2, maxArr: 2, depth: 1, nLeaves: []int{2}},
			docSpace{name: "cli-2leaves-depth3-keys{a,1,2}-leaves{x,[]}", keys: keys3, leaves: leaves2, maxMap: 2, maxArr: 2, depth: 2, nLeaves: []int{2}},
			docSpace{name: "cli-3leaves-depth2-keys{a,1,2}-leaves{x,[]}", keys: keys3, leaves: leaves2, maxMap: 3, maxArr: 2, depth: 1, nLeaves: []int{3}},
		)
	}
	return S
}

// guard-violating keys: exercised so that both sides of the guard are hit;
// when the key contains a DIFFERENT separator than the one in use the guard holds.
func guardSpace() docSpace {
	return docSpace{name: "cli-guard-keys", keys: []string{"a", "", "a.b", "a:b", "a__b", "."}, leaves: []leafKind{allLeaves[1], allLeaves[4]}, maxMap: 1, maxArr: 1, depth: 1, nLeaves: []int{1, 2}}
}

// ---------------------------------------------------------------- lib layer

func toMlrval(v *jval) *mlrval.Mlrval {
	switch v.kind {
	case jMap:
		m := mlrval.NewMlrmap()
		for i, k := range v.keys {
			m.PutReference(k, toMlrval(v.vals[i]))
		}
		return mlrval.FromMap(m)
	case jArr:
		a := make([]*mlrval.Mlrval, len(v.vals))
		for i, e := range v.vals {
			a[i] = toMlrval(e)
		}
		return mlrval.FromArray(a)
	}
	if v.quoted {
		return mlrval.FromString(v.text)
	}
	if v.text == "true" {
		return mlrval.FromBool(true)
	}
	if v.text == "false" {
		return mlrval.FromBool(false)
	}
	return mlrval.FromInferredType(v.text)
}

func fromMlrval(v *mlrval.Mlrval) *jval {
	if v.IsMap() {
		m := jmap()
		for pe := v.GetMap().Head; pe != nil; pe = pe.Next {
			m.put(pe.Key, fromMlrval(pe.Value))
		}
		return m
	}
	if v.IsArray() {
		a := jarr()
		for _, e := range v.GetArray() {
			a.add(fromMlrval(e))
		}
		return a
	}
	return jstr(v.String())
}

func toRecord(doc *jval) *mlrval.Mlrmap {
	r := mlrval.NewMlrmapAsRecord()
	for i, k := range doc.keys {
		r.PutReference(k, toMlrval(doc.vals[i]))
	}
	return r
}

func flatText(flat []flatField) string {
	var b strings.Builder
	for i, f := range flat {
		if i > 0 {
			b.WriteByte(',')
		}
		b.WriteString(jsonQuote(f.k))
		b.WriteByte(':')
		b.WriteString(jsonQuote(f.v))
	}
	return b.String()
}

type nestStats struct {
	w *vf.Worker
}

// expectation computes the reference result for doc and sep and classifies it.
// want == nil: unconstrained.
func expectation(w *vf.Worker, doc *jval, sep string) (flat []flatField, want *jval, class string) {
	flat = refFlatten(doc, sep)
	if !guardOK(doc, sep) {
		return flat, nil, "guard-false"
	}
	want = refUnflatten(flat, sep)
	if want == nil {
		return flat, nil, "model-undetermined"
	}
	if hasArrayLikeMap(doc, true) {
		return flat, want, "arrayify-heuristic"
	}
	if !sameShape(want, doc) {
		w.Broken("reference model: unflatten(flatten(d)) != d without an array-like map: d=%s sep=%q ref=%s", doc.String(), sep, want.String())
	}
	if lookalikeSeq(doc, true, nil) {
		return flat, want, "identity-lookalike-index-keys"
	}
	return flat, want, "identity"
}

var libClassCounts = map[string]int64{}
var libLookCounts = make([]int64, len(lookFeatures))
var libSentinelCounts = make([]int64, len(sentinelLookalikes))

func flushLibCounts(w *vf.Worker) {
	for f, n := range libLookCounts {
		if n > 0 {
			w.Count("lib-lookalike-key:"+lookFeatures[f], n)
			libLookCounts[f] = 0
		}
	}
	for i, n := range libSentinelCounts {
		if n > 0 {
			w.Count("lib-sentinel-lookalike-leaf:"+sentinelLookalikes[i].name, n)
			libSentinelCounts[i] = 0
		}
	}
	for k, v := range libClassCounts {
		w.Count("lib-class:"+k, v)
		delete(libClassCounts, k)
	}
}

func sameFlat(a, b []flatField) bool {
	if len(a) != len(b) {
		return false
	}
	for i := range a {
		if a[i] != b[i] {
			return false
		}
	}
	return true
}

func libOne(w *vf.Worker, doc *jval, size int) {
	counted := false
	for _, sep := range seps {
		flat, want, class := expectation(w, doc, sep)
		w.Eval(1)
		if want != nil && !counted {
			counted = true
			libClassCounts["docs-in-guard"]++
		}
		libClassCounts[class]++
		if want != nil {
			lookalikeSeq(doc, true, func(f int) { libLookCounts[f]++ })
			sentinelLeaves(doc, func(i int) { libSentinelCounts[i]++ })
		}
		rec := toRecord(doc)
		var got *mlrval.Mlrmap
		var gotFlat []flatField
		p, _ := vf.Try(func() {
			rec.Flatten(sep)
			for pe := rec.Head; pe != nil; pe = pe.Next {
				gotFlat = append(gotFlat, flatField{pe.Key, pe.Value.String()})
			}
		})
		key := func() string { return fmt.Sprintf(":%02d:sep=%s:%s", size, sep, doc.keyText()) }
		if p != nil {
			w.Violation("lib-flatten-panics"+key(), fmt.Sprintf("Mlrmap.Flatten(%q) panics on %s: %v", sep, doc.showText(), p), map[string]any{"doc": doc.String(), "sep": sep})
			continue
		}
		if !sameFlat(gotFlat, flat) {
			if class == "guard-false" {
				libClassCounts["unconstrained-flatten-differs"]++
			} else {
				gt, wt := clipDiff(flatText(gotFlat), flatText(flat))
				w.Violation("lib-flatten"+key(), fmt.Sprintf("Mlrmap.Flatten(%q) of %s = {%s}, documented key spreading gives {%s}", sep, doc.showText(), gt, wt), map[string]any{"doc": doc.String(), "sep": sep})
				continue
			}
		}
		if want == nil {
			continue
		}
		// the text trip: every flattened value re-enters as inferred-from-text data
		back := mlrval.NewMlrmapAsRecord()
		for _, f := range gotFlat {
			back.PutReference(f.k, mlrval.FromDeferredType(f.v))
		}
		p, _ = vf.Try(func() { got = back.CopyUnflattened(sep) })
		if p != nil {
			w.Violation("lib-unflatten-panics"+key(), fmt.Sprintf("Mlrmap.CopyUnflattened(%q) panics on {%s}: %v", sep, clipLong(flatText(gotFlat)), p), map[string]any{"doc": doc.String(), "sep": sep})
			continue
		}
		if !sameShapeMlr(want, mlrval.FromMap(got)) {
			g := jmap()
			for pe := got.Head; pe != nil; pe = pe.Next {
				g.put(pe.Key, fromMlrval(pe.Value))
			}
			gt, wt := clipDiff(shapeOf(g), shapeOf(want))
			w.Violation("lib-unflatten["+class+"]"+key(), fmt.Sprintf("unflatten(flatten(d)) with separator %q: d=%s flattened={%s} unflattened=%s expected %s (%s)", sep, doc.showText(), clipLong(flatText(gotFlat)), gt, wt, class),
				map[string]any{"doc": doc.String(), "sep": sep})
		}
	}
}

// ---------------------------------------------------------------- cli layer

type nestFmt struct {
	name    string
	in, out []string
	dom     func(stream) string // representable-domain predicate of formats.go, applied to the flattened record
}

var nestFmts = []nestFmt{
	{"csv", []string{"--icsv"}, []string{"--ocsv"}, domCSV},
	{"dkvp", []string{"--idkvp"}, []string{"--odkvp"}, domDKVP},
	{"xtab", []string{"--ixtab"}, []string{"--oxtab"}, domXTAB},
	{"pprint", []string{"--ipprint"}, []string{"--opprint"}, domPPRINT},
}

func flatStream(flat []flatField) stream {
	r := make(rec, len(flat))
	for i, f := range flat {
		r[i] = kv{f.k, f.v}
	}
	return stream{r}
}

func mlrRun(w *vf.Worker, args []string, stdin string) vf.MlrResult {
	w.Eval(1)
	return vf.RunMlr(args, vf.MlrOpts{Stdin: &stdin})
}

func okRes(r vf.MlrResult) bool { return r.Exit == 0 && r.Panic == "" }

func cat(parts ...[]string) []string {
	var out []string
	for _, p := range parts {
		out = append(out, p...)
	}
	return out
}

func cliOne(w *vf.Worker, doc *jval, size int, allVerbFmts bool) {
	fLaw := true // the -f list is comma-separated: a field name with a comma cannot be listed
	for _, k := range doc.keys {
		if strings.Contains(k, ",") {
			fLaw = false
		}
	}
	docText := doc.String() + "\n"
	inGuardAny := false
	for _, sep := range seps {
		flat, want, class := expectation(w, doc, sep)
		w.Count("cli-class:"+class, 1)
		w.Count("cli-sep:"+sep, 1)
		key := fmt.Sprintf(":%02d:sep=%s:%s", size, sep, doc.keyText())
		// V3: the verbs in one process, JSON in and out
		a3 := []string{"--json", "flatten", "-s", sep, "then", "unflatten", "-s", sep}
		r3 := mlrRun(w, a3, docText)
		var shape3 string
		if okRes(r3) {
			if vs, err := parseJSONStream(r3.Stdout); err == nil && len(vs) == 1 {
				shape3 = shapeOf(vs[0])
			}
		}
		if want != nil {
			inGuardAny = true
			if shape3 != shapeOf(want) {
				w.Violation("verbs["+class+"]"+key, fmt.Sprintf("%s on %s gives %s (exit %d %s), expected %s (%s)", cmdline(a3), doc.showText(), briefDiff(shape3, shapeOf(want), r3.Stdout), r3.Exit, brief(r3.Stderr), clipWant(shape3, shapeOf(want)), class),
					map[string]any{"args": a3, "stdin": docText})
			}
		}
		if want != nil {
			lookalikeSeq(doc, true, func(f int) { w.Count("cli-lookalike-key:"+lookFeatures[f], 1) })
			sentinelLeaves(doc, func(i int) { w.Count("cli-sentinel-lookalike-leaf:"+sentinelLookalikes[i].name, 1) })
		}
		// V4: the -f forms of both verbs with every field of the record listed
		// ("Comma-separated list of field names to (un)flatten (default all)")
		if want != nil && fLaw {
			names := strings.Join(doc.keys, ",")
			a4 := []string{"--json", "flatten", "-f", names, "-s", sep, "then", "unflatten", "-f", names, "-s", sep}
			r4 := mlrRun(w, a4, docText)
			shape4 := ""
			if okRes(r4) {
				if vs, err := parseJSONStream(r4.Stdout); err == nil && len(vs) == 1 {
					shape4 = shapeOf(vs[0])
				}
			}
			w.Count("cli-f-law", 1)
			if shape4 != shapeOf(want) {
				w.Violation("verbs-f["+class+"]"+key, fmt.Sprintf("%s on %s gives %s (exit %d %s), expected %s (%s; every field is listed, so -f selects all)", cmdline(clipArgs(a4)), doc.showText(), briefDiff(shape4, shapeOf(want), r4.Stdout), r4.Exit, brief(r4.Stderr), clipWant(shape4, shapeOf(want)), class),
					map[string]any{"args": a4, "stdin": docText})
			}
		}
		flatS := flatStream(flat)
		for fi, nf := range nestFmts {
			w.Count("cli-format:"+nf.name, 1)
			want := want
			if want != nil {
				if why := nf.dom(flatS); why != "" {
					// the flattened record is not representable in this format (e.g. a blank in an XTAB/PPRINT key)
					w.Count("cli-format-domain-out:"+nf.name+":"+why, 1)
					want = nil
				} else {
					w.Count("cli-format-domain-in:"+nf.name, 1)
				}
			}
			a1 := cat([]string{"--ijson"}, nf.out, []string{"--flatsep", sep, "cat"})
			r1 := mlrRun(w, a1, docText)
			if !okRes(r1) {
				if want != nil {
					w.Violation("nest-conv-fails[json>"+nf.name+"]"+key, fmt.Sprintf("%s fails on %s: %s", cmdline(a1), doc.showText(), r1.String()), map[string]any{"args": a1, "stdin": docText})
				} else {
					w.Count("cli-unconstrained-failure", 1)
				}
				continue
			}
			a2 := cat(nf.in, []string{"--ojson", "--flatsep", sep, "cat"})
			r2 := mlrRun(w, a2, r1.Stdout)
			if want != nil {
				got := ""
				perr := ""
				if okRes(r2) {
					vs, err := parseJSONStream(r2.Stdout)
					if err != nil {
						perr = err.Error()
					} else if len(vs) != 1 {
						perr = fmt.Sprintf("%d records", len(vs))
					} else {
						got = shapeOf(vs[0])
					}
				} else {
					perr = r2.String()
				}
				if got != shapeOf(want) {
					w.Violation("nest["+class+"][json>"+nf.name+">json]"+key,
						fmt.Sprintf("%s | %s on %s: %s text %s comes back as %s %s, expected %s (%s)", cmdline(a1), cmdline(a2), doc.showText(), nf.name, brief(r1.Stdout), clipGot(got, shapeOf(want)), perr, clipWant(got, shapeOf(want)), class),
						map[string]any{"args1": a1, "stdin": docText, "args2": a2, "mid": r1.Stdout, "got": r2.Stdout})
				} else if r2.Stderr != "" {
					w.Count("cli-stderr-on-success", 1)
				}
			} else {
				w.Count("cli-unconstrained", 1)
			}
			// V2: explicit verbs through the same text trip == the implicit pair, byte for byte
			if fi == 0 || allVerbFmts {
				b1 := cat([]string{"--ijson"}, nf.out, []string{"--no-auto-flatten", "flatten", "-s", sep})
				q1 := mlrRun(w, b1, docText)
				if q1.Stdout != r1.Stdout || q1.Exit != r1.Exit {
					w.Violation("verb-vs-implicit[flatten]["+nf.name+"]"+key,
						fmt.Sprintf("%s gives %s (exit %d) but the implicit %s gives %s (exit %d) on %s", cmdline(b1), brief(q1.Stdout), q1.Exit, cmdline(a1), brief(r1.Stdout), r1.Exit, doc.showText()),
						map[string]any{"args_verb": b1, "args_implicit": a1, "stdin": docText})
				}
				b2 := cat(nf.in, []string{"--ojson", "--no-auto-unflatten", "unflatten", "-s", sep})
				q2 := mlrRun(w, b2, r1.Stdout)
				if q2.Stdout != r2.Stdout || q2.Exit != r2.Exit {
					w.Violation("verb-vs-implicit[unflatten]["+nf.name+"]"+key,
						fmt.Sprintf("%s gives %s (exit %d) but the implicit %s gives %s (exit %d) on %s text %s", cmdline(b2), brief(q2.Stdout), q2.Exit, cmdline(a2), brief(r2.Stdout), r2.Exit, nf.name, brief(r1.Stdout)),
						map[string]any{"args_verb": b2, "args_implicit": a2, "stdin": r1.Stdout})
				}
			}
		}
	}
	if inGuardAny {
		w.Nontrivial(1)
		w.AddSet("docs", doc.keyText())
		if size >= 2 {
			w.Sample(map[string]any{"part": "nest", "document": clipLong(doc.String()), "flattened_with_colon": clipLong(flatText(refFlatten(doc, ":")))})
		}
	}
}

func clipGot(got, want string) string  { g, _ := clipDiff(got, want); return g }
func clipWant(got, want string) string { _, w := clipDiff(got, want); return w }

// briefDiff: the parsed shape near its first difference from the expectation when there is one, else the raw output.
func briefDiff(shape, want, raw string) string {
	if shape != "" && (len(shape) > 500 || len(want) > 500) {
		return clipGot(shape, want)
	}
	return brief(raw)
}

func clipArgs(args []string) []string {
	out := make([]string, len(args))
	for i, a := range args {
		out[i] = clipLong(a)
	}
	return out
}

func countLeaves(v *jval) int {
	switch v.kind {
	case jScalar:
		return 1
	default:
		if len(v.vals) == 0 {
			return 1
		}
		n := 0
		for _, x := range v.vals {
			n += countLeaves(x)
		}
		return n
	}
}

func nestWorker(w *vf.Worker) {
	quick := w.Quick()
	var idx uint64
	mine := func() bool {
		idx++
		if !w.Mine(idx) {
			return false
		}
		w.Begin(idx)
		return true
	}
	// cli layer first (the binding pass), then the bulk lib layer
	spaces := append(cliSpaces(quick), guardSpace())
	spaces = append(spaces, lookCliSpaces(quick)...)
	for _, sp := range spaces {
		sp := sp
		n := 0
		sp.forEachDoc(mine, func(doc *jval) {
			n++
			w.Label(func() string { return sp.name + " " + doc.showText() })
			cliOne(w, doc, countLeaves(doc), !quick && sp.depth < 2)
		})
		w.Count("cli-space:"+sp.name, int64(n))
	}
	// the collection-size dimension (size.go)
	forEachSizeDoc(sizeMaxCli(quick), nil, mine, func(doc *jval, shape, elem string, n int) {
		w.Label(func() string { return "size " + doc.showText() })
		w.Count("cli-size-shape:"+shape+"/"+elem, 1)
		w.Count("cli-size-n:"+sizeBucket(n), 1)
		cliOne(w, doc, countLeaves(doc), false)
	})
	for _, sp := range append(libSpaces(quick), lookLibSpaces(quick)...) {
		sp := sp
		n := 0
		sp.forEachDoc(mine, func(doc *jval) {
			n++
			if n%4096 == 0 {
				w.Heartbeat()
			}
			libOne(w, doc, countLeaves(doc))
		})
		w.Count("lib-space:"+sp.name, int64(n))
		flushLibCounts(w)
	}
	forEachSizeDoc(sizeMaxLib(quick), sizeExtraLib(quick), mine, func(doc *jval, shape, elem string, n int) {
		w.Heartbeat()
		w.Count("lib-size-shape:"+shape+"/"+elem, 1)
		w.Count("lib-size-n:"+sizeBucket(n), 1)
		libOne(w, doc, countLeaves(doc))
	})
	flushLibCounts(w)
}
