package c02

// Part 2, dimension "key spelling": keys that LOOK LIKE the array indices 1..n
// without being spelled the way flatten spells them.
//
// Flatten writes the index i of an array element as strconv.Itoa(i); the
// documentation (flatten-unflatten.md, "Auto-inferencing of arrays on
// unflatten") limits the map-to-array inference to maps "with keys "1", "2",
// etc. -- starting with "1", consecutively, and with no gaps -- ... precisely
// to undo the flatten conversion". Every other key is an ordinary map key and
// the trip must be the identity on it (property text: keys non-empty and free
// of the flatten separator). The base alphabet {a,b,1,2} only has keys on
// which "is the i-th key the index i" has the same answer for EVERY way of
// asking (string equality, Atoi, ParseInt base 0, ParseFloat, Miller's own
// inferrer, Sscan, ...): a heuristic (or a key path) that goes through a number
// parser instead of string equality is invisible to it.
//
// The alphabet below is derived, not hand-picked: one spelling of the integer v
// per lexical feature that some number reader accepts and strconv.Itoa never
// produces:
//
//	Miller's inferrer (pkg/scan: decint/lzdecint/octint/hexint/binint/float?,
//	reference-main-arithmetic.md): sign "+v", leading zero "0v", "0xv", "0ov",
//	"0b<binary v>", "v.0", "v.", "ve0"
//	Go strconv.ParseInt(s, 0, ..): digit separator "0_v"
//	fmt.Sscan / strings.TrimSpace before parsing: " v", "v "
//	unicode.IsDigit-based scanners: fullwidth digit U+FF10+v
//	C-style prefix parsers (Sscanf %d, atoi): "va"
//
// plus the integers that are never the index of the position they could stand
// in: "0", "-1" (Miller's arrays alias -1 to the last element) and vmax+1 (gap).

import (
	"strconv"
)

var lookFeatures = []string{
	"canonical", "leading-zero", "plus-sign", "hex-prefix", "octal-prefix", "binary-prefix",
	"digit-separator", "zero-fraction", "trailing-dot", "exponent", "leading-blank",
	"trailing-blank", "fullwidth-digit", "trailing-letter",
}

// spellingsOf(v)[f] is the spelling of v with feature lookFeatures[f]; [0] is canonical.
func spellingsOf(v int) []string {
	d := strconv.Itoa(v)
	fw := ""
	for _, c := range d {
		fw += string(rune(0xFF10 + int(c-'0')))
	}
	return []string{
		d, "0" + d, "+" + d, "0x" + d, "0o" + d, "0b" + strconv.FormatInt(int64(v), 2),
		"0_" + d, d + ".0", d + ".", d + "e0", " " + d,
		d + " ", fw, d + "a",
	}
}

type lookInfo struct {
	v       int
	feature int
}

const lookVmax = 3

var lookIndex = func() map[string]lookInfo {
	m := map[string]lookInfo{}
	for v := 1; v <= lookVmax; v++ {
		for f, s := range spellingsOf(v) {
			m[s] = lookInfo{v, f}
		}
	}
	return m
}()

// lookKeys: all spellings of 1..vmax, then the never-an-index integers and a letter.
func lookKeys(vmax int, extras bool) []string {
	var out []string
	for v := 1; v <= vmax; v++ {
		out = append(out, spellingsOf(v)...)
	}
	if extras {
		out = append(out, "0", "-1", strconv.Itoa(vmax+1), "a")
	}
	return out
}

// lookKeysOf: the spellings with the given features of 1..vmax, plus "a".
func lookKeysOf(vmax int, features ...int) []string {
	var out []string
	for v := 1; v <= vmax; v++ {
		sp := spellingsOf(v)
		for _, f := range features {
			out = append(out, sp[f])
		}
	}
	return append(out, "a")
}

// lookalikeSeq: some map below the record level has, at every position i, a key
// that is a spelling of i, and at least one of them is not the canonical one: a
// number-parsing "keys are 1..n" test takes it for an array, the documented
// string test does not. hit is called with the feature of every non-canonical
// key of such maps.
func lookalikeSeq(v *jval, top bool, hit func(feature int)) bool {
	found := false
	switch v.kind {
	case jMap:
		if !top && len(v.keys) > 0 {
			all, noncanon := true, false
			for i, k := range v.keys {
				li, ok := lookIndex[k]
				if !ok || li.v != i+1 {
					all = false
					break
				}
				if li.feature != 0 {
					noncanon = true
				}
			}
			if all && noncanon {
				found = true
				if hit != nil {
					for _, k := range v.keys {
						if f := lookIndex[k].feature; f != 0 {
							hit(f)
						}
					}
				}
			}
		}
		for _, x := range v.vals {
			if lookalikeSeq(x, false, hit) {
				found = true
			}
		}
	case jArr:
		for _, x := range v.vals {
			if lookalikeSeq(x, false, hit) {
				found = true
			}
		}
	}
	return found
}

// Sentinel lookalikes: flatten spells the empty map "{}" and the empty array
// "[]"; unflatten turns exactly these two strings back. A string leaf that only
// resembles them (or is some other JSON text) is an ordinary string and must
// come back as it went in. (A string leaf spelled exactly "{}" or "[]" cannot
// be told from the sentinel by design; it is left out of the alphabet.)
var sentinelLookalikes = []leafKind{
	{`"[[]]"`, func() *jval { return jstr("[[]]") }},
	{`"[1]"`, func() *jval { return jstr("[1]") }},
	{`"{}{}"`, func() *jval { return jstr("{}{}") }},
	{`"{}x"`, func() *jval { return jstr("{}x") }},
	{`"[]]"`, func() *jval { return jstr("[]]") }},
	{`"{} "`, func() *jval { return jstr("{} ") }},
}

var sentinelIndex = func() map[string]int {
	m := map[string]int{}
	for i, lk := range sentinelLookalikes {
		m[lk.mk().text] = i
	}
	return m
}()

// sentinelLeaves calls hit with the index of every sentinel-lookalike string leaf of v.
func sentinelLeaves(v *jval, hit func(i int)) {
	if v.kind == jScalar {
		if v.quoted {
			if i, ok := sentinelIndex[v.text]; ok {
				hit(i)
			}
		}
		return
	}
	for _, x := range v.vals {
		sentinelLeaves(x, hit)
	}
}
