package c02

// Part 1 formats and, for each, the explicit representable-domain predicate
// written from docs/src/file-formats.md, record-heterogeneity.md and
// reference-main-separators.md. A pair/triple law is asserted only for
// streams inside the INTERSECTION of the domains of the formats involved;
// both sides of every predicate are counted (by reason) in evidence.

import (
	"strconv"
	"strings"
	"unicode/utf8"
)

type kv struct{ K, V string }
type rec []kv
type stream []rec

func (r rec) keys() []string {
	out := make([]string, len(r))
	for i, f := range r {
		out[i] = f.K
	}
	return out
}

func sameKeys(a, b rec) bool {
	if len(a) != len(b) {
		return false
	}
	for i := range a {
		if a[i].K != b[i].K {
			return false
		}
	}
	return true
}

func (s stream) json() string {
	var b strings.Builder
	b.WriteString("[")
	for i, r := range s {
		if i > 0 {
			b.WriteString(",")
		}
		b.WriteString("\n")
		m := jmap()
		for _, f := range r {
			m.put(f.K, jstr(f.V))
		}
		m.encode(&b)
	}
	b.WriteString("\n]\n")
	return b.String()
}

func (s stream) shape() string {
	vs := make([]*jval, len(s))
	for i, r := range s {
		m := jmap()
		for _, f := range r {
			m.put(f.K, jstr(f.V))
		}
		vs[i] = m
	}
	return shapesOf(vs)
}

func (s stream) cells() int {
	n := 0
	for _, r := range s {
		n += len(r)
	}
	return n
}

type format struct {
	name     string
	in, out  []string
	nestable bool // JSON-like: compared on parsed text, never on bytes
	lossless bool // "carries everything": member of the triple set of the quick tier
	thorough bool // only in the thorough tier
	dom      func(s stream) string
}

// ---------------------------------------------------------------- predicates

func homogeneous(s stream) bool {
	for i := 1; i < len(s); i++ {
		if !sameKeys(s[0], s[i]) {
			return false
		}
	}
	return true
}

func anyKey(s stream, p func(string) bool) bool {
	for _, r := range s {
		for _, f := range r {
			if p(f.K) {
				return true
			}
		}
	}
	return false
}

func anyVal(s stream, p func(string) bool) bool {
	for _, r := range s {
		for _, f := range r {
			if p(f.V) {
				return true
			}
		}
	}
	return false
}

func anyCell(s stream, p func(string) bool) bool { return anyKey(s, p) || anyVal(s, p) }

func has(chars string) func(string) bool {
	return func(c string) bool { return strings.ContainsAny(c, chars) }
}

func isEmpty(c string) bool { return c == "" }

func positional(s stream) bool {
	for _, r := range s {
		for i, f := range r {
			if f.K != strconv.Itoa(i+1) {
				return false
			}
		}
	}
	return true
}

func outerSpace(c string) bool { return strings.TrimSpace(c) != c }

// Every format: the empty key is only asserted for the JSON family (the
// documentation of the other formats does not say what a nameless column is;
// the CSV reader, for one, names it by position).
func commonTabular(s stream) string {
	if anyKey(s, isEmpty) {
		return "empty-key"
	}
	return ""
}

// CSV / TSV: RFC-4180 quoting resp. \t \n \\ escapes carry every cell; "CSV
// does not allow heterogeneous data" (file-formats.md): the writer fills or
// errors on a key change, so only streams with one key list are representable.
func domCSV(s stream) string {
	if r := commonTabular(s); r != "" {
		return r
	}
	if !homogeneous(s) {
		return "heterogeneous"
	}
	return ""
}

// TSV additionally: a literal backslash sequence in a cell is decoded on input.
func domTSV(s stream) string {
	if r := domCSV(s); r != "" {
		return r
	}
	return ""
}

// CSV-lite family (csvlite, tsvlite, usv, asv): "naively splits lines on newline,
// and fields on comma -- embedded commas and newlines are not escaped in any
// way"; schema change = blank line + new header, so heterogeneity is
// representable. A double quote in a cell is left out (the lite reader's
// treatment of quotes is not documented).
func domLite(fs, rs string) func(stream) string {
	return func(s stream) string {
		if r := commonTabular(s); r != "" {
			return r
		}
		if anyCell(s, func(c string) bool { return strings.Contains(c, fs) }) {
			return "cell-contains-FS"
		}
		if anyCell(s, func(c string) bool { return strings.Contains(c, rs) || strings.ContainsAny(c, "\r\n") }) {
			return "cell-contains-RS"
		}
		if anyCell(s, has(`"`)) {
			return "cell-contains-quote"
		}
		for i, r := range s {
			// a data line or header line that is empty reads as a schema-change separator
			if len(r) == 1 && r[0].V == "" {
				return "empty-line"
			}
			_ = i
		}
		return ""
	}
}

// DKVP: key=value pairs joined by commas, nothing escaped; the first "=" of a
// pair separates key from value.
func domDKVP(s stream) string {
	if r := commonTabular(s); r != "" {
		return r
	}
	if anyCell(s, has(",")) {
		return "cell-contains-FS"
	}
	if anyKey(s, has("=")) {
		return "key-contains-PS"
	}
	if anyCell(s, has("\r\n")) {
		return "cell-contains-RS"
	}
	return ""
}

// DKVPX: "delimited key-value pairs with CSV-style quoting": every cell.
func domDKVPX(s stream) string {
	return commonTabular(s)
}

// NIDX: values only, keys are positions 1..n; fields are separated by runs of
// white space, so a value is non-empty and free of spaces/tabs.
func domNIDX(s stream) string {
	if !positional(s) {
		return "keys-not-positional"
	}
	if anyVal(s, isEmpty) {
		return "empty-value"
	}
	if anyVal(s, has(" \t")) {
		return "cell-contains-FS"
	}
	if anyVal(s, has("\r\n")) {
		return "cell-contains-RS"
	}
	return ""
}

// XTAB: one "key<spaces>value" line per field, blank line between records.
func domXTAB(s stream) string {
	if r := commonTabular(s); r != "" {
		return r
	}
	if anyKey(s, has(" ")) {
		return "key-contains-PS"
	}
	if anyVal(s, func(c string) bool { return strings.HasPrefix(c, " ") }) {
		return "value-starts-with-PS"
	}
	if anyCell(s, has("\r\n")) {
		return "cell-contains-RS"
	}
	return ""
}

// PPRINT: space-aligned columns; an empty value is written as "-" (and "-" is
// read back as empty), so the value "-" itself is not representable.
func domPPRINT(s stream) string {
	if r := commonTabular(s); r != "" {
		return r
	}
	if anyCell(s, has(" \t")) {
		return "cell-contains-FS"
	}
	if anyCell(s, has("\r\n")) {
		return "cell-contains-RS"
	}
	if anyVal(s, func(c string) bool { return c == "-" }) {
		return "value-is-void-marker"
	}
	if anyCell(s, func(c string) bool { return strings.HasPrefix(c, "+-") || strings.HasPrefix(c, "|") }) {
		return "looks-barred"
	}
	return ""
}

// Barred PPRINT and markdown: cells between " | " bars, trimmed on input.
func domBarred(s stream) string {
	if r := commonTabular(s); r != "" {
		return r
	}
	if anyCell(s, has("|")) {
		return "cell-contains-bar"
	}
	if anyCell(s, has("\r\n")) {
		return "cell-contains-RS"
	}
	if anyCell(s, outerSpace) {
		return "cell-has-outer-space"
	}
	return ""
}

// Markdown additionally: the line after the header is the separator line
// "| --- | --- |"; a header or data row all of whose cells are made of dashes
// (with optional alignment colons) is spelled like a separator line, which
// markdown-tabular syntax itself cannot tell apart.
func domMarkdown(s stream) string {
	if r := domBarred(s); r != "" {
		return r
	}
	dashes := func(c string) bool {
		c = strings.TrimSuffix(strings.TrimPrefix(c, ":"), ":")
		return c != "" && strings.Trim(c, "-") == ""
	}
	for _, r := range s {
		allK, allV := true, true
		for _, f := range r {
			if !dashes(f.K) {
				allK = false
			}
			if !dashes(f.V) {
				allV = false
			}
		}
		if allK || allV {
			return "row-spelled-like-separator-line"
		}
	}
	return ""
}

// JSON / JSON Lines / YAML: any valid UTF-8 string, any key (also empty).
func domJSON(s stream) string {
	if anyCell(s, func(c string) bool { return !utf8.ValidString(c) }) {
		return "invalid-utf8"
	}
	return ""
}

func allFormats() []format {
	return []format{
		{name: "json", in: []string{"--ijson"}, out: []string{"--ojson"}, nestable: true, lossless: true, dom: domJSON},
		{name: "csv", in: []string{"--icsv"}, out: []string{"--ocsv"}, lossless: true, dom: domCSV},
		{name: "tsv", in: []string{"--itsv"}, out: []string{"--otsv"}, lossless: true, dom: domTSV},
		{name: "jsonl", in: []string{"--ijsonl"}, out: []string{"--ojsonl"}, nestable: true, lossless: true, dom: domJSON},
		{name: "yaml", in: []string{"--iyaml"}, out: []string{"--oyaml"}, nestable: true, lossless: true, dom: domJSON},
		{name: "dkvpx", in: []string{"-i", "dkvpx"}, out: []string{"-o", "dkvpx"}, lossless: true, dom: domDKVPX},
		{name: "dkvp", in: []string{"--idkvp"}, out: []string{"--odkvp"}, dom: domDKVP},
		{name: "nidx", in: []string{"--inidx"}, out: []string{"--onidx"}, dom: domNIDX},
		{name: "xtab", in: []string{"--ixtab"}, out: []string{"--oxtab"}, dom: domXTAB},
		{name: "pprint", in: []string{"--ipprint"}, out: []string{"--opprint"}, dom: domPPRINT},
		{name: "barred", in: []string{"--ipprint", "--barred-input"}, out: []string{"--opprint", "--barred"}, dom: domBarred},
		{name: "markdown", in: []string{"--imd"}, out: []string{"--omd"}, dom: domMarkdown},
		{name: "csvlite", in: []string{"--icsvlite"}, out: []string{"--ocsvlite"}, dom: domLite(",", "\n")},
		{name: "usv", in: []string{"--iusv"}, out: []string{"--ousv"}, dom: domLite("\xe2\x90\x9f", "\xe2\x90\x9e")},
		{name: "tsvlite", in: []string{"--itsvlite"}, out: []string{"--otsvlite"}, thorough: true, dom: domLite("\t", "\n")},
		{name: "asv", in: []string{"--iasv"}, out: []string{"--oasv"}, thorough: true, dom: domLite("\x1f", "\x1e")},
	}
}
