package c02

// Part 3: the outcome depends only on which formats and separators are
// selected, not on how the selection is spelled. The complete cli.FLAG_TABLE
// is walked (through the overlay accessor cli.VerifC02FlagTable), every
// spelling is classified, and its expansion is derived from the flag NAME
// (letter code c/t/j/l/d/n/x/p/m/y[/b], --i<fmt>/--o<fmt>/--<fmt>) or from the
// shipped documentation (reference-main-flag-list.md, reference-main-separators.md,
// customization.md) -- never from the closure. `mlr <spelling> cat` must equal
// `mlr <expansion> cat` in stdout, exit status and stderr on every input of a
// corpus that is verified to discriminate all (input format, output format)
// choices.

import (
	"crypto/sha256"
	"fmt"
	"os"
	"path/filepath"
	"regexp"
	"sort"
	"strconv"
	"strings"

	"github.com/johnkerl/miller/v6/pkg/cli"
	"github.com/johnkerl/miller/v6/pkg/colorizer"
	"github.com/johnkerl/miller/v6/pkg/mlrval"

	"verif/harness/vf"
)

// ---------------------------------------------------------------- corpus

type corpusInput struct {
	name string
	text string
}

func corpus() []corpusInput {
	// Every text carries, as far as its format can spell them, the same two
	// records: values with a space, a double quote, a backslash and an empty
	// value (these separate csv/csvlite, tsv/tsvlite, dkvp/dkvpx, pprint/nidx
	// output), a dotted key (auto-unflatten), plus format-specific features.
	return []corpusInput{
		{"csv", "a,b,c.d\n1,\"x \"\"y\",\n3,\"p,\\q\",5\n"},
		{"tsv", "a\tb\tc.d\n1\tx \"y\t\n3\tp\\tq\\\\r\t5\n"},
		{"json", `[{"a":1,"b":"x \"y","c":{"d":""}},{"a":3,"b":"p,\\q","c":{"d":[5,6]}}]` + "\n"},
		{"jsonl", `{"a":1,"b":"x \"y","c":{"d":""}}` + "\n" + `{"a":3,"b":"p,\\q","c":{"d":[5,6]}}` + "\n"},
		{"dkvp", "a=1,b=x \"y,c.d=\na=3,b=p;\\q,c.d=5\n"},
		{"dkvp-hetero", "a=1,b=2\nc=3\n"},
		{"dkvp-keyless", "a=10,b=20,30,d=40,50\n"},
		{"nidx-spaces", "1 x\"y  7\n3 p\\q 5\n"},
		{"nidx-tabs", "1\tx\"y\t\t7\n3\tp \\q\t5\n"},
		{"xtab", "a   1\nb   x \"y\nc.d 7\n\na   3\nb   p\\q\nc.d 5\n"},
		{"pprint", "a b   c.d\n1 x\"y -\n3 p\\q 5\n"},
		{"pprint-hetero", "a b\n1 2\n\nc\n3\n"},
		{"pprint-barred", "+---+-----+\n| a | b   |\n+---+-----+\n| 1 | x\"y |\n| 3 | p\\q |\n+---+-----+\n"},
		{"markdown", "| a | b | c.d |\n| --- | --- | --- |\n| 1 | x \"y |  |\n| 3 | p\\q | 5 |\n"},
		{"markdown-hetero", "| a | b |\n| --- | --- |\n| 1 | 2 |\n\n| c |\n| --- |\n| 3 |\n"},
		{"yaml", "- a: 1\n  b: x \"y\n  c:\n    d: \"\"\n- a: 3\n  b: p,\\q\n  c:\n    d:\n    - 5\n    - 6\n"},
		{"csvlite-hetero", "a,b\n1,2\n\nc\n3\n"},
		{"tsvlite-hetero", "a\tb\n1\tx\"y\n\nc\np\\q\n"},
		{"usv", "a\xe2\x90\x9fb\xe2\x90\x9e1\xe2\x90\x9fx\"y\xe2\x90\x9e3\xe2\x90\x9fp\\q\xe2\x90\x9e\xe2\x90\x9ec\xe2\x90\x9e5\xe2\x90\x9e"},
		{"asv", "a\x1fb\x1e1\x1fx\"y\x1e3\x1fp\\q\x1e\x1ec\x1e5\x1e"},
		{"dcf", "Package: p\nDepends: x, y\n more\nb: x \"y\n\nPackage: q\nb: p\\q\n"},
		{"recutils", "a: 1\nb: x \"y\n+ z\n\na: 3\nb: p\\q\nc: 5\n"},
		{"dkvpx", "\"x,y\"=\"a,\"\"b\",z=3\nz=p\\q\n"},
		{"semicolon-csv", "a;b;c\n1;2;3\n"},
		{"semicolon-dkvp", "a:1;b:2\na:3;b:4\n"},
	}
}

// ---------------------------------------------------------------- documentation

type docFacts struct {
	letters     map[byte]string   // letter -> format word used in --i<word>/--o<word>
	matrix      map[string]bool   // keystroke-savers listed in the documented matrix
	aliases     map[string]string // separator alias name -> documented value (as printed, C escapes)
	regexAlias  map[string]string
	formatNames map[string]bool // names documented for -i/-o/--io
	problems    []string
}

var docFormatWord = map[string]string{
	"CSV": "csv", "TSV": "tsv", "JSON": "json", "JSON Lines": "jsonl", "DKVP": "dkvp", "NIDX": "nidx",
	"XTAB": "xtab", "PPRINT": "pprint", "markdown": "md", "YAML": "yaml",
}

func readDocs() *docFacts {
	d := &docFacts{letters: map[byte]string{}, matrix: map[string]bool{}, aliases: map[string]string{}, regexAlias: map[string]string{}, formatNames: map[string]bool{}}
	root := vf.RepoRoot()
	b, err := os.ReadFile(filepath.Join(root, "docs/src/reference-main-flag-list.md"))
	if err != nil {
		d.problems = append(d.problems, "cannot read reference-main-flag-list.md: "+err.Error())
		return d
	}
	text := string(b)
	// "The letters `c`, `t`, ... and `y` refer to formats CSV, TSV, ... and YAML, respectively."
	re := regexp.MustCompile("(?s)The letters (.*?) refer to formats (.*?), respectively")
	if m := re.FindStringSubmatch(text); m != nil {
		var ls []byte
		for _, x := range regexp.MustCompile("`([a-z])`").FindAllStringSubmatch(m[1], -1) {
			ls = append(ls, x[1][0])
		}
		names := strings.Split(strings.ReplaceAll(strings.ReplaceAll(m[2], "\n", " "), " and ", " "), ",")
		var ns []string
		for _, n := range names {
			n = strings.TrimSpace(n)
			if n != "" {
				ns = append(ns, n)
			}
		}
		if len(ls) != len(ns) {
			d.problems = append(d.problems, fmt.Sprintf("letter sentence: %d letters but %d format names", len(ls), len(ns)))
		} else {
			for i, l := range ls {
				w, ok := docFormatWord[ns[i]]
				if !ok {
					d.problems = append(d.problems, "letter sentence: unknown format name "+ns[i])
					continue
				}
				d.letters[l] = w
			}
		}
	} else {
		d.problems = append(d.problems, "letter sentence not found in reference-main-flag-list.md")
	}
	for _, x := range regexp.MustCompile("`(--[a-z]2[a-z])`").FindAllStringSubmatch(text, -1) {
		d.matrix[x[1]] = true
	}
	b, err = os.ReadFile(filepath.Join(root, "docs/src/reference-main-separators.md"))
	if err != nil {
		d.problems = append(d.problems, "cannot read reference-main-separators.md: "+err.Error())
		return d
	}
	inRegex := false
	reAlias := regexp.MustCompile(`^([a-z_0-9]+)\s+= "(.*)"$`)
	for _, line := range strings.Split(string(b), "\n") {
		if strings.Contains(line, "--ifs-regex") && strings.HasPrefix(line, "And for") {
			inRegex = true
		}
		if strings.HasPrefix(line, "Note that") {
			inRegex = false
		}
		if m := reAlias.FindStringSubmatch(line); m != nil {
			if inRegex {
				d.regexAlias[m[1]] = m[2]
			} else {
				d.aliases[m[1]] = m[2]
			}
		}
	}
	if len(d.aliases) == 0 {
		d.problems = append(d.problems, "no separator aliases found in reference-main-separators.md")
	}
	// names documented for -i/-o/--io: shell-completion.md lists them; file-formats.md uses -i/-o recutils
	for _, n := range strings.Fields("csv csvlite dcf dkvp dkvpx gen json markdown nidx pprint tsv xtab yaml recutils") {
		d.formatNames[n] = true
	}
	return d
}

// unbackslash turns the documented C-style spelling into bytes.
func unbackslash(s string) (string, bool) {
	var b strings.Builder
	for i := 0; i < len(s); i++ {
		if s[i] != '\\' {
			b.WriteByte(s[i])
			continue
		}
		if i+1 >= len(s) {
			return "", false
		}
		i++
		switch s[i] {
		case 't':
			b.WriteByte('\t')
		case 'n':
			b.WriteByte('\n')
		case 'r':
			b.WriteByte('\r')
		case '\\':
			b.WriteByte('\\')
		case 'x':
			if i+2 >= len(s) {
				return "", false
			}
			v, err := strconv.ParseUint(s[i+1:i+3], 16, 8)
			if err != nil {
				return "", false
			}
			b.WriteByte(byte(v))
			i += 2
		default:
			return "", false
		}
	}
	return b.String(), true
}

// ---------------------------------------------------------------- cases

type flagCase struct {
	kind     string // guard | law | semantic
	class    string // cause label used in violation groups and evidence
	id       string
	lhs      []string
	rhs      []string
	mlrrc    *string       // LHS runs with MLRRC pointing at a file with this content
	ctxs     [][2][]string // (prefix, suffix) flag contexts; nil = plain only
	inputs   []corpusInput // nil = whole corpus
	why      string
	rejectOK bool // LHS may be rejected loudly (undocumented -i/-o/--io name): counted, not a violation
	// semantic
	semArgs  []string
	semInput string
	semWant  string // expected stdout (exact) or, if semJSON, expected record shapes
	semJSON  bool
}

type flagUniverse struct {
	table     []cli.VerifC02Flag
	spellings map[string]int // spelling -> index of the first table entry owning it
	docs      *docFacts
	notes     []string // unclassified / skipped, for evidence
	dups      []string
	arity     map[string]bool
	inScope   map[string]bool // spellings of the table that some case exercises directly
}

func (u *flagUniverse) has(s string) bool { _, ok := u.spellings[s]; return ok }

// takesArg: the table's own arity metadata (Flag.arg) is missing for some flags
// (--gen-field-name and friends), so arity is observed: `mlr <flag>` with
// nothing after it is refused with "missing argument" exactly by the flags that
// consume a following argument.
func (u *flagUniverse) takesArg(s string) bool {
	if v, ok := u.arity[s]; ok {
		return v
	}
	empty := ""
	r := vf.RunMlr([]string{s}, vf.MlrOpts{Stdin: &empty})
	v := r.Exit != 0 && strings.Contains(r.Stderr+r.Err, "missing argument")
	u.arity[s] = v
	return v
}

func (u *flagUniverse) entry(s string) *cli.VerifC02Flag {
	if i, ok := u.spellings[s]; ok {
		return &u.table[i]
	}
	return nil
}

func loadUniverse() *flagUniverse {
	u := &flagUniverse{table: cli.VerifC02FlagTable(), spellings: map[string]int{}, docs: readDocs(), arity: map[string]bool{}}
	for i, f := range u.table {
		for _, s := range append([]string{f.Name}, f.AltNames...) {
			if j, ok := u.spellings[s]; ok {
				u.dups = append(u.dups, fmt.Sprintf("%s (entries %d and %d; the first one wins)", s, j, i))
				continue
			}
			u.spellings[s] = i
		}
	}
	return u
}

var reSaver = regexp.MustCompile(`^--([a-z])2([a-z])$`)

func (u *flagUniverse) letterIn(l byte) []string {
	w, ok := u.docs.letters[l]
	if !ok || !u.has("--i"+w) {
		return nil
	}
	return []string{"--i" + w}
}

func (u *flagUniverse) letterOut(l byte) []string {
	if l == 'b' {
		// not in the documented matrix; DESIGN + the flags' help: "PPRINT with `--barred` for output"
		return []string{"--opprint", "--barred"}
	}
	w, ok := u.docs.letters[l]
	if !ok || !u.has("--o"+w) {
		return nil
	}
	return []string{"--o" + w}
}

var sepCtx = [][2][]string{
	{nil, nil},
	{nil, {"--ifs", ";", "--ofs", ";"}},
	{{"--ifs", ";", "--ofs", ";"}, nil},
	{nil, {"--ips", ":", "--ops", ":"}},
	{{"--ips", ":", "--ops", ":"}, nil},
}

var fmtCtx = [][2][]string{
	{nil, nil},
	{nil, {"--icsv", "--ojson"}},
	{nil, {"--ijson", "--ocsv"}},
	{nil, {"--icsv", "--opprint"}},
	{nil, {"--icsv", "--oxtab"}},
	{nil, {"--icsv", "--omd"}},
	{nil, {"--ijson", "--oyaml"}},
	{nil, {"--idkvp", "--ojson"}},
	{{"--icsv", "--ojson"}, nil},
}

func buildCases(u *flagUniverse, quick bool) (C []flagCase) {
	add := func(c flagCase) { C = append(C, c) }
	corp := corpus()
	_ = corp

	// ---- guard: every (input choice, output choice) of the File-format section
	var inChoices, outChoices [][]string
	for _, f := range u.table {
		if f.Section != "File-format flags" || f.Arg != "" {
			continue
		}
		switch {
		case strings.HasPrefix(f.Name, "--i") && (u.has("--o"+f.Name[3:]) || f.Name == "--igen"):
			inChoices = append(inChoices, []string{f.Name})
		case strings.HasPrefix(f.Name, "--o") && u.has("--i"+f.Name[3:]):
			outChoices = append(outChoices, []string{f.Name})
		}
	}
	inChoices = append(inChoices, []string{"-i", "dkvpx"}, []string{"--inidx", "--ifs", "tab"}, []string{"--inidx", "--ifs", "space", "--repifs"}, []string{"--ipprint", "--barred-input"})
	outChoices = append(outChoices, []string{"-o", "dkvpx"}, []string{"--onidx", "--ofs", "tab"}, []string{"--opprint", "--barred"})
	guardAt := len(C)
	for _, ic := range inChoices {
		if ic[0] == "--igen" {
			continue // ignores its input: no corpus can tell its output choices apart beyond one column of integers
		}
		for _, oc := range outChoices {
			add(flagCase{kind: "guard", class: "guard", id: strings.Join(ic, " ") + " | " + strings.Join(oc, " "), lhs: cat(ic, oc)})
		}
	}
	guardEnd := len(C)
	defer func() {
		// a guard configuration is a TARGET when it is the expansion of some spelling under
		// test (defaults are DKVP); only targets must be told apart from every other configuration
		norm := func(args []string) string {
			x := strings.Join(args, " ")
			if !strings.Contains(x, "-i") {
				x = "--idkvp " + x
			}
			if !strings.Contains(" "+x, " --o") && !strings.Contains(" "+x, " -o ") {
				x = x + " --odkvp"
			}
			return strings.TrimSpace(x)
		}
		targets := map[string]bool{
			"--inidx --ifs space --repifs --onidx": true, // -p
			"--inidx --ifs tab --onidx --ofs tab":  true, // -T
		}
		for _, c := range C[guardEnd:] {
			switch c.class {
			case "saver", "both", "io-form":
				targets[norm(c.rhs)] = true
			}
		}
		for i := guardAt; i < guardEnd; i++ {
			if targets[strings.Join(C[i].lhs, " ")] {
				C[i].class = "guard-target"
			}
		}
	}()

	// ---- every spelling of the table
	inScope := map[string]bool{}
	for ti, f := range u.table {
		all := append([]string{f.Name}, f.AltNames...)
		for si, s := range all {
			if u.spellings[s] != ti {
				// a later duplicate entry of the same spelling is unreachable; nothing to run
				continue
			}
			// (1) letter-coded keystroke-savers
			if m := reSaver.FindStringSubmatch(s); m != nil && f.Arg == "" {
				in, out := u.letterIn(m[1][0]), u.letterOut(m[2][0])
				if in == nil || out == nil {
					u.notes = append(u.notes, "unclassified keystroke-saver (letter without documented format): "+s)
					continue
				}
				why := fmt.Sprintf("letters %s,%s of the flag name", m[1], m[2])
				if !u.docs.matrix[s] {
					why += " (flag is not in the documented matrix)"
				}
				add(flagCase{kind: "law", class: "saver", id: s, lhs: []string{s}, rhs: cat(in, out), ctxs: sepCtx, why: why})
				inScope[s] = true
				continue
			}
			// (2) --<fmt> == --i<fmt> --o<fmt>
			if f.Section == "File-format flags" && f.Arg == "" && strings.HasPrefix(s, "--") {
				w := s[2:]
				if u.has("--i"+w) && u.has("--o"+w) {
					add(flagCase{kind: "law", class: "both", id: s, lhs: []string{s}, rhs: []string{"--i" + w, "--o" + w}, ctxs: sepCtx, why: "name --<fmt> = --i<fmt> --o<fmt> ('Use <fmt> format for input and output data')"})
					inScope[s] = true
					continue
				}
				if u.docs.formatNames[w] && !strings.HasPrefix(w, "i") && !strings.HasPrefix(w, "o") {
					add(flagCase{kind: "law", class: "both", id: s, lhs: []string{s}, rhs: []string{"-i", w, "-o", w}, ctxs: sepCtx, why: "name --<fmt> = -i <fmt> -o <fmt>"})
					inScope[s] = true
					continue
				}
			}
			// (3) help text: "Keystroke-saver for `...`" / "Shortcut for ..."
			if si == 0 {
				if m := regexp.MustCompile("^Keystroke-saver for `([^`]*)`\\.?$").FindStringSubmatch(strings.TrimSpace(f.Help)); m != nil {
					ctxs := sepCtx
					if f.Section != "Format-conversion keystroke-saver flags" {
						ctxs = fmtCtx
					}
					add(flagCase{kind: "law", class: "doc-expansion", id: s, lhs: []string{s}, rhs: strings.Fields(m[1]), ctxs: ctxs, why: "documented: " + f.Help})
					inScope[s] = true
				} else if m := regexp.MustCompile(`^Shortcut for (--.*)$`).FindStringSubmatch(strings.TrimSpace(f.Help)); m != nil {
					add(flagCase{kind: "law", class: "doc-expansion", id: s, lhs: []string{"--ipprint", s}, rhs: cat([]string{"--ipprint"}, strings.Fields(m[1])), ctxs: [][2][]string{{nil, nil}, {nil, {"--ojson"}}}, why: "documented: " + f.Help})
					inScope[s] = true
				}
			}
			// (4) alternate names == primary name
			if si > 0 {
				arg := sampleArg(f.Name)
				if f.Arg != "" && arg == "" {
					u.notes = append(u.notes, "alternate name not run (needs an argument the harness has no sample for): "+s)
					continue
				}
				l, r := []string{s}, []string{f.Name}
				if f.Arg != "" {
					l, r = append(l, arg), append(r, arg)
				}
				add(flagCase{kind: "law", class: "altname", id: s, lhs: l, rhs: r, ctxs: fmtCtx, why: "documented as '" + f.Name + " or " + s + "'"})
				inScope[s] = true
			}
		}
	}

	// ---- -i / -o / --io {format name}
	names := map[string]bool{}
	for n := range u.docs.formatNames {
		names[n] = true
	}
	for _, n := range cli.FlagValueCandidates("-i") {
		names[n] = true
	}
	for s := range u.spellings {
		if e := u.entry(s); e.Section == "File-format flags" && e.Arg == "" && strings.HasPrefix(s, "--i") && u.has("--o"+s[3:]) {
			names[s[3:]] = true
		}
	}
	var nameList []string
	for n := range names {
		nameList = append(nameList, n)
	}
	sort.Strings(nameList)
	for _, n := range nameList {
		documented := u.docs.formatNames[n]
		if u.has("--i" + n) {
			add(flagCase{kind: "law", class: "io-form", id: "-i " + n, lhs: []string{"-i", n}, rhs: []string{"--i" + n}, ctxs: sepCtx, rejectOK: !documented, why: "documented: `-i csv` is the same as `--icsv`"})
		}
		if u.has("--o" + n) {
			add(flagCase{kind: "law", class: "io-form", id: "-o " + n, lhs: []string{"-o", n}, rhs: []string{"--o" + n}, ctxs: sepCtx, rejectOK: !documented, why: "documented: `-o csv` is the same as `--ocsv`"})
		}
		if u.has("--" + n) {
			add(flagCase{kind: "law", class: "io-form", id: "--io " + n, lhs: []string{"--io", n}, rhs: []string{"--" + n}, ctxs: sepCtx, rejectOK: !documented, why: "documented: `--io csv` is the same as `--csv`"})
		} else if u.has("--i"+n) && u.has("--o"+n) {
			add(flagCase{kind: "law", class: "io-form", id: "--io " + n, lhs: []string{"--io", n}, rhs: []string{"--i" + n, "--o" + n}, ctxs: sepCtx, rejectOK: !documented, why: "--io = input and output"})
		}
	}

	// ---- --fs/--ps/--rs == --ifs+--ofs / ...   ("Setting --fs : is the same as setting --ifs : --ofs :")
	fmtFlagsForSeps := [][]string{{"--dkvp"}, {"--csv"}, {"--csvlite"}, {"--nidx"}, {"--xtab"}, {"--icsv", "--ojson"}, {"--ijson", "--odkvp"}, {"--pprint"}}
	for _, role := range []string{"fs", "ps", "rs"} {
		for _, v := range []string{";", "semicolon", ":", "tab", "pipe", "crlf"} {
			var ctxs [][2][]string
			for _, ff := range fmtFlagsForSeps {
				ctxs = append(ctxs, [2][]string{ff, nil}, [2][]string{nil, ff})
			}
			add(flagCase{kind: "law", class: "sep-both", id: "--" + role + " " + v, lhs: []string{"--" + role, v}, rhs: []string{"--i" + role, v, "--o" + role, v}, ctxs: ctxs,
				why: "documented: `--fs :` is the same as `--ifs : --ofs :`"})
		}
	}

	// ---- separator aliases
	codePlain, codeRegex := cli.VerifC02SeparatorAliases()
	aliasNames := map[string]bool{}
	for n := range codePlain {
		aliasNames[n] = true
	}
	for n := range u.docs.aliases {
		aliasNames[n] = true
	}
	var al []string
	for n := range aliasNames {
		al = append(al, n)
	}
	sort.Strings(al)
	for _, n := range al {
		docv, documented := u.docs.aliases[n]
		if _, inCode := codePlain[n]; !inCode {
			add(flagCase{kind: "law", class: "alias-documented-but-unknown", id: n, lhs: []string{"--ifs", n, "--idkvp", "--ojson"}, rhs: []string{"--ifs", docv, "--idkvp", "--ojson"}, why: "alias documented in reference-main-separators.md"})
			continue
		}
		if !documented {
			u.notes = append(u.notes, "separator alias not in reference-main-separators.md (not asserted): "+n)
			continue
		}
		bytes, ok := unbackslash(docv)
		if !ok || bytes == "" {
			u.notes = append(u.notes, "separator alias with a documented value the harness cannot decode: "+n)
			continue
		}
		for _, flag := range []string{"--ifs", "--ofs", "--ips", "--ops", "--irs", "--ors", "--fs", "--ps", "--rs"} {
			role := flag[len(flag)-2:]
			// inputs built with the alias' bytes in the role under test
			fs, ps, rs := pick(bytes, ",", ";", "/"), pick(bytes, "=", ":", "@"), pick(bytes, "\n", "|", "%")
			switch role {
			case "fs":
				fs = bytes
			case "ps":
				ps = bytes
			case "rs":
				rs = bytes
			}
			dk := "a" + ps + "1" + fs + "b" + ps + "2" + rs + "a" + ps + "3" + fs + "b" + ps + "4" + rs
			lite := "a" + fs + "b" + rs + "1" + fs + "2" + rs + "3" + fs + "4" + rs
			nidx := "1" + fs + "2" + rs + "3" + fs + "4" + rs
			inputs := []corpusInput{{"dkvp-built", dk}, {"lite-built", lite}, {"nidx-built", nidx}, {"json", `[{"a":1,"b":2},{"a":3,"b":4}]` + "\n"}, corp[0], corp[4], corp[7]}
			ctxs := [][2][]string{{{"--dkvp"}, nil}, {{"--csvlite"}, nil}, {{"--nidx"}, nil}, {{"--xtab"}, nil}, {{"--csv"}, nil}, {{"--idkvp", "--ojson"}, nil}, {{"--ijson", "--odkvp"}, nil}, {nil, {"--dkvp"}}}
			add(flagCase{kind: "law", class: "alias", id: flag + " " + n, lhs: []string{flag, n}, rhs: []string{flag, docv}, ctxs: ctxs, inputs: inputs,
				why: fmt.Sprintf("documented alias %s = %q", n, docv)})
			// semantic: the alias really means these bytes (DKVP honours all three separators, multi-character too)
			other := func(r, dflt, v string) []string {
				if v == dflt {
					return nil
				}
				return []string{r, v}
			}
			switch flag {
			case "--ifs", "--ips", "--irs":
				args := []string{flag, n}
				if role != "fs" {
					args = append(args, other("--ifs", ",", fs)...)
				}
				if role != "ps" {
					args = append(args, other("--ips", "=", ps)...)
				}
				if role != "rs" {
					args = append(args, other("--irs", "\n", rs)...)
				}
				args = append(args, "--idkvp", "--ojson", "cat")
				add(flagCase{kind: "semantic", class: "alias-meaning", id: flag + " " + n, semArgs: args, semInput: dk, semJSON: true,
					semWant: `{"a":"1","b":"2"} / {"a":"3","b":"4"}`, why: fmt.Sprintf("documented alias %s = %q used as DKVP %s", n, docv, strings.ToUpper(flag[2:]))})
			case "--ofs", "--ops", "--ors":
				args := []string{flag, n, "--ijson", "--odkvp", "cat"}
				ofs, ops, ors := ",", "=", "\n"
				switch role {
				case "fs":
					ofs = bytes
				case "ps":
					ops = bytes
				case "rs":
					ors = bytes
				}
				want := "a" + ops + "1" + ofs + "b" + ops + "2" + ors + "a" + ops + "3" + ofs + "b" + ops + "4" + ors
				add(flagCase{kind: "semantic", class: "alias-meaning", id: flag + " " + n, semArgs: args, semInput: `[{"a":1,"b":2},{"a":3,"b":4}]` + "\n",
					semWant: want, why: fmt.Sprintf("documented alias %s = %q used as DKVP %s", n, docv, strings.ToUpper(flag[2:]))})
			}
		}
	}
	var ral []string
	for n := range codeRegex {
		ral = append(ral, n)
	}
	sort.Strings(ral)
	for _, n := range ral {
		docv, documented := u.docs.regexAlias[n]
		if !documented {
			u.notes = append(u.notes, "regex separator alias not in reference-main-separators.md (not asserted): "+n)
			continue
		}
		inputs := []corpusInput{{"spaces", "a  b   c\nd e\n"}, {"tabs", "a\t\tb\tc\n"}, {"mixed", "a \t b\tc d\n"}, {"dkvp-spaces", "a  1,b   2\n"}, corp[7], corp[8]}
		for _, flag := range []string{"--ifs-regex", "--ips-regex"} {
			ctxs := [][2][]string{{{"--inidx", "--ojson"}, nil}, {{"--idkvp", "--ojson"}, nil}, {{"--icsvlite", "--ojson"}, nil}, {nil, {"--inidx", "--ojson"}}}
			add(flagCase{kind: "law", class: "alias-regex", id: flag + " " + n, lhs: []string{flag, n}, rhs: []string{flag, docv}, ctxs: ctxs, inputs: inputs, why: fmt.Sprintf("documented alias %s = %q", n, docv)})
		}
	}

	// ---- option-value spelling (optval.go): `--flag=value` == `--flag value`, and a literal value means its bytes
	addOptionValueCases(u, quick, add)

	// ---- .mlrrc
	rc := func(class, id, text string, cmd []string, rhs []string, why string) {
		t := text
		add(flagCase{kind: "law", class: class, id: id, lhs: cmd, rhs: rhs, mlrrc: &t, why: why})
	}
	// (a) every argument-less spelling of the file-format and keystroke-saver sections as a .mlrrc line
	var rcSpellings []string
	for s := range u.spellings {
		e := u.entry(s)
		if e.Arg != "" {
			continue
		}
		if e.Section == "File-format flags" || e.Section == "Format-conversion keystroke-saver flags" {
			if u.takesArg(s) {
				u.notes = append(u.notes, "flag consumes an argument although the table declares none (not run as a .mlrrc line): "+s)
				continue
			}
			rcSpellings = append(rcSpellings, s)
		}
	}
	sort.Strings(rcSpellings)
	for _, s := range rcSpellings {
		rc("mlrrc-line", s, s+"\n", nil, []string{s}, "a .mlrrc line is the flag")
		if strings.HasPrefix(s, "--") {
			rc("mlrrc-line-dashless", s[2:], s[2:]+"\n", nil, []string{s}, "'you can leave off the initial --'")
		}
	}
	// (b) flags with arguments
	for _, l := range [][]string{{"--ifs", "semicolon"}, {"--ifs", ";"}, {"--ofs", "tab"}, {"--fs", "pipe"}, {"--ps", "colon"}, {"--ips", ":"}, {"--ors", "crlf"}, {"--io", "json"}, {"-i", "csv"}, {"-o", "json"}, {"-o", "pprint"}, {"--flatsep", ":"}, {"--ofmt", "%.3f"}, {"--nr-progress-mod", "1000"}} {
		line := strings.Join(l, " ")
		rc("mlrrc-arg", line, line+"\n", nil, l, "a .mlrrc line is the flag with its argument")
		rc("mlrrc-arg", line+" +cmdline", line+"\n", []string{"--icsv", "--ojson"}, cat(l, []string{"--icsv", "--ojson"}), ".mlrrc first, then the command line")
		rc("mlrrc-arg", line+" +cmdline-dkvp", line+"\n", []string{"--idkvp", "--odkvp"}, cat(l, []string{"--idkvp", "--odkvp"}), ".mlrrc first, then the command line")
		if strings.HasPrefix(line, "--") {
			rc("mlrrc-arg-dashless", line[2:], line[2:]+"\n", []string{"--idkvp", "--odkvp"}, cat(l, []string{"--idkvp", "--odkvp"}), "'you can leave off the initial --'")
		}
	}
	// (c) syntax of the file
	for _, v := range []struct{ id, text, why string }{
		{"plain", "ojson\n", ""},
		{"leading-and-trailing-space", "  ojson  \n", "lines are trimmed"},
		{"tab-indent", "\tojson\n", "lines are trimmed"},
		{"trailing-comment", "ojson # use json\n", "comments are from a # to the end of the line"},
		{"comment-and-blank-lines", "# c\n\nojson\n\n# d\n", "empty lines and comment lines are ignored"},
		{"indented-comment", "   # c\nojson\n", "lines which are empty after comments are removed are ignored"},
		{"no-final-newline", "ojson", "the last line of a text file need not end in a newline"},
		{"crlf-line-ends", "ojson\r\n", "a text file with CR/LF line ends"},
		{"with-dashes", "--ojson\n", ""},
	} {
		rc("mlrrc-syntax["+v.id+"]", v.id, v.text, nil, []string{"--ojson"}, v.why)
	}
	rc("mlrrc-syntax[two-lines]", "icsv,ojson", "icsv\nojson\n", nil, []string{"--icsv", "--ojson"}, "one flag per line")
	rc("mlrrc-syntax[two-lines]", "ojson,icsv", "ojson\nicsv\n", nil, []string{"--ojson", "--icsv"}, "one flag per line")
	rc("mlrrc-syntax[two-lines-no-final-newline]", "icsv,ojson", "icsv\nojson", nil, []string{"--icsv", "--ojson"}, "the last line of a text file need not end in a newline")
	rc("mlrrc-syntax[sample]", "sample_mlrrc", "# Input and output formats are CSV by default\ncsv\n\nallow-ragged-csv-input\n\njvstack\njlistwrap\n\nskip-comments-with @\n", nil,
		[]string{"--csv", "--allow-ragged-csv-input", "--jvstack", "--jlistwrap", "--skip-comments-with", "@"}, "the documented sample .mlrrc")
	// (d) the command line overrides .mlrrc
	for _, l := range [][]string{{"--csv"}, {"--c2p"}, {"--ojson"}, {"--ofs", ";"}, {"--tsv"}, {"-p"}, {"--ixtab"}, {"--c2b"}, {"--jsonl"}} {
		for _, f := range [][]string{{"--ojson"}, {"--icsv"}, {"--ofs", "tab"}, {"--c2t"}, {"--io", "dkvp"}, {"--ijson", "--oxtab"}} {
			line := strings.Join(l, " ")
			rc("mlrrc-override", line+" / "+strings.Join(f, " "), line+"\n", f, cat(l, f), "options: defaults, then .mlrrc, then the command line")
		}
	}
	// (e) profiles
	prof := "icsv\n[j]\n# profile j\nojson\n[ t ]  # tsv out\notsv\n[j]\nno-jvstack\n"
	rc("mlrrc-profile", "-P j", prof, []string{"-P", "j"}, []string{"--icsv", "--ojson", "--no-jvstack"}, "global lines, then all blocks of [j] in order")
	rc("mlrrc-profile", "--profile j", prof, []string{"--profile", "j"}, []string{"--icsv", "--ojson", "--no-jvstack"}, "--profile or -P")
	rc("mlrrc-profile", "--profile t", prof, []string{"--profile", "t"}, []string{"--icsv", "--otsv"}, "[ t ] is the same as [t]")
	rc("mlrrc-profile", "none", prof, nil, []string{"--icsv"}, "without --profile, sections are ignored")
	rc("mlrrc-profile", "-P j + cmdline", prof, []string{"-P", "j", "--oxtab"}, []string{"--icsv", "--ojson", "--no-jvstack", "--oxtab"}, "command line after the profile")

	// ---- flags documented as having no effect outside their format
	legacyCtx := [][2][]string{{nil, nil}, {nil, {"--icsv", "--ojson"}}, {nil, {"--ijson", "--ocsv"}}, {nil, {"--icsv", "--opprint"}}, {nil, {"--idkvp", "--oxtab"}}, {nil, {"--c2m"}}, {{"--icsv", "--ojson"}, nil}, {{"--ijson", "--ojson"}, nil}}
	for _, f := range u.table {
		if f.Arg != "" {
			continue
		}
		switch f.Section {
		case "Legacy flags":
			add(flagCase{kind: "law", class: "inert-legacy", id: f.Name, lhs: []string{f.Name}, rhs: nil, ctxs: legacyCtx, why: "documented: 'flags which don't do anything in the current Miller version'"})
		case "DKVP-only flags":
			ctx := [][2][]string{{nil, {"--icsv", "--ojson"}}, {nil, {"--icsv", "--opprint"}}, {nil, {"--ijson", "--oxtab"}}, {nil, {"--inidx", "--ocsv"}}, {nil, {"--ijson", "--ojson"}}, {{"--icsv", "--opprint"}, nil}}
			add(flagCase{kind: "law", class: "inert-outside-format", id: f.Name, lhs: []string{f.Name}, rhs: nil, ctxs: ctx, why: "section 'DKVP-only flags': 'applicable to DKVP format'; neither input nor output is DKVP here"})
		case "PPRINT-only flags":
			if f.Name == "--barred-input" {
				// documented to matter only "in conjunction with --pprint"
			}
			ctx := [][2][]string{{nil, {"--icsv", "--ojson"}}, {nil, {"--idkvp", "--oxtab"}}, {nil, {"--ijson", "--ocsv"}}, {nil, {"--inidx", "--odkvp"}}, {{"--icsv", "--ojson"}, nil}}
			add(flagCase{kind: "law", class: "inert-outside-format", id: f.Name, lhs: []string{f.Name}, rhs: nil, ctxs: ctx, why: "section 'PPRINT-only flags': 'applicable to PPRINT format'; neither input nor output is PPRINT or markdown here"})
		case "JSON-only flags":
			ctx := [][2][]string{{nil, {"--icsv", "--opprint"}}, {nil, {"--idkvp", "--oxtab"}}, {nil, {"--icsv", "--odkvp"}}, {nil, {"--inidx", "--ocsv"}}, {{"--icsv", "--opprint"}, nil}}
			add(flagCase{kind: "law", class: "inert-outside-format", id: f.Name, lhs: []string{f.Name}, rhs: nil, ctxs: ctx, why: "section 'JSON-only flags': 'applicable to JSON output format'; the output is not JSON/JSON Lines/YAML here"})
		}
	}

	// ---- documented examples of format-scoped flags (reference-main-flag-list.md)
	if u.has("--incr-key") {
		// "`a=10,b=20,30,d=40,50` is ingested as `$a=10,$b=20,$3=30,$d=40,$5=50`. With this option ... `$a=10,$b=20,$1=30,$d=40,$2=50`"
		add(flagCase{kind: "semantic", class: "doc-example", id: "keyless-dkvp default", semArgs: []string{"--idkvp", "--ojson", "cat"}, semInput: "a=10,b=20,30,d=40,50\n", semJSON: true,
			semWant: `{"a":"10","b":"20","3":"30","d":"40","5":"50"}`, why: "documented under --incr-key: without the option keyless DKVP fields are keyed by field number"})
		add(flagCase{kind: "semantic", class: "doc-example", id: "--incr-key keyless-dkvp", semArgs: []string{"--incr-key", "--idkvp", "--ojson", "cat"}, semInput: "a=10,b=20,30,d=40,50\n", semJSON: true,
			semWant: `{"a":"10","b":"20","1":"30","d":"40","2":"50"}`, why: "documented under --incr-key: with the option they are keyed by a running counter of keyless fields"})
	}

	// ---- bookkeeping: which spellings of the table have a case of their own
	for _, c := range C {
		switch c.class {
		case "io-form", "sep-both", "alias", "alias-regex", "inert-legacy", "inert-outside-format", "mlrrc-line":
			if len(c.lhs) > 0 {
				inScope[c.lhs[0]] = true
			}
			if c.class == "mlrrc-line" {
				inScope[c.id] = true
			}
		}
	}
	u.inScope = inScope
	return C
}

func sampleArg(name string) string {
	switch name {
	case "--flatsep":
		return ":"
	}
	return ""
}

// pick returns the first candidate sharing no byte with avoid.
func pick(avoid string, cands ...string) string {
	for _, c := range cands {
		if !strings.ContainsAny(avoid, c) && !strings.ContainsAny(c, avoid) {
			return c
		}
	}
	return cands[len(cands)-1]
}

// ---------------------------------------------------------------- worker

type runKey struct {
	args  string
	rc    string
	hasRC bool
	input string
}

type flagRunner struct {
	w     *vf.Worker
	cache map[runKey]vf.MlrResult
	dir   string
}

func (fr *flagRunner) run(args []string, rc *string, in corpusInput) vf.MlrResult {
	k := runKey{args: strings.Join(args, "\x00"), input: in.text}
	if rc != nil {
		k.rc, k.hasRC = *rc, true
	}
	if r, ok := fr.cache[k]; ok {
		return r
	}
	if rc != nil {
		p := filepath.Join(fr.dir, "mlrrc")
		if err := os.WriteFile(p, []byte(*rc), 0644); err != nil {
			fr.w.Broken("cannot write %s: %v", p, err)
		}
		old, had := os.LookupEnv("MLRRC")
		os.Setenv("MLRRC", p)
		defer func() {
			if had {
				os.Setenv("MLRRC", old)
			} else {
				os.Unsetenv("MLRRC")
			}
		}()
	}
	text := in.text
	// process-wide state that RunMlr does not reset: output colouring (-C/-M) and
	// the once-per-name memo of the auto-unflatten warning
	colorizer.SetColorization(colorizer.ColorizeOutputIfTTY)
	mlrval.VerifC02ResetUnflattenWarnings()
	r := vf.RunMlr(args, vf.MlrOpts{Stdin: &text})
	colorizer.SetColorization(colorizer.ColorizeOutputIfTTY)
	fr.w.Eval(1)
	r.Stack = ""
	if len(fr.cache) < 200000 {
		fr.cache[k] = r
	}
	return r
}

// sameOutcome: same exit status; on success also the same stdout and stderr.
// When both sides fail, the text is not compared: which of several data errors
// is reported first, and how much was written before it, depends on goroutine
// timing (C17's subject), so only "both fail" is asserted.
func sameOutcome(a, b vf.MlrResult) (bool, string) {
	if a.Panic != "" || b.Panic != "" {
		if (a.Panic != "") != (b.Panic != "") {
			return false, "panic"
		}
	}
	if a.Exit != b.Exit {
		return false, "exit"
	}
	if a.Exit != 0 {
		return true, ""
	}
	if a.Stdout != b.Stdout {
		return false, "stdout"
	}
	if a.Stderr != b.Stderr {
		return false, "stderr"
	}
	return true, ""
}

var reRejected = regexp.MustCompile(`unrecognized (input|I/O) format|output file format "[^"]*" not found|unrecognized output format`)

func flagsWorker(w *vf.Worker) {
	u := loadUniverse()
	for _, p := range u.docs.problems {
		w.Broken("documentation: %s", p)
	}
	cases := buildCases(u, w.Quick())
	dir, err := os.MkdirTemp("/dev/shm", "verif-c02-rc-")
	if err != nil {
		dir, _ = os.MkdirTemp("", "verif-c02-rc-")
	}
	defer os.RemoveAll(dir)
	fr := &flagRunner{w: w, cache: map[runKey]vf.MlrResult{}, dir: dir}
	corp := corpus()
	if w.Shard == 0 && w.Only < 0 {
		for _, n := range u.notes {
			w.AddSet("notes", n)
		}
		for _, d := range u.dups {
			w.AddSet("duplicate-spellings", d)
		}
		for _, f := range u.table {
			w.Count("table-section:"+f.Section, int64(1+len(f.AltNames)))
			for _, sp := range append([]string{f.Name}, f.AltNames...) {
				if u.inScope[sp] {
					w.Count("table-section-spellings-with-own-case:"+f.Section, 1)
				} else {
					w.AddSet("not-in-scope", f.Section+": "+sp)
				}
			}
		}
		w.Count("table-entries", int64(len(u.table)))
		w.Count("table-spellings", int64(len(u.spellings)))
		w.Count("cases-total", int64(len(cases)))
	}
	for i, c := range cases {
		idx := uint64(i + 1)
		if !w.Mine(idx) {
			continue
		}
		w.Begin(idx)
		c := c
		w.Label(func() string { return c.kind + " " + c.class + " " + c.id })
		w.Count("class:"+c.class, 1)
		switch c.kind {
		case "guard":
			h := sha256.New()
			for _, in := range corp {
				r := fr.run(append(append([]string{}, c.lhs...), "cat"), nil, in)
				fmt.Fprintf(h, "%d\x00%s\x00%s\x00%s\x01", r.Exit, r.Stdout, r.Stderr, r.Panic)
			}
			w.AddSet("guard", fmt.Sprintf("%s\t%s\t%x", c.class, c.id, h.Sum(nil)[:12]))
		case "semantic":
			in := corpusInput{"built", c.semInput}
			r := fr.run(c.semArgs, nil, in)
			got := r.Stdout
			ok := r.Exit == 0 && r.Panic == ""
			if ok && c.semJSON {
				vs, err := parseJSONStream(r.Stdout)
				if err != nil {
					ok = false
				} else {
					got = shapesOf(vs)
				}
			}
			w.Nontrivial(1)
			w.AddSet("spellings", "semantic "+c.id)
			if !ok || got != c.semWant {
				w.Violation(fmt.Sprintf("%s[%s]:%s", c.class, c.id[:strings.Index(c.id, " ")], c.id),
					fmt.Sprintf("%s on %q gives %s (exit %d, stderr %s), expected %q (%s)", cmdline(c.semArgs), c.semInput, brief(got), r.Exit, brief(r.Stderr), c.semWant, c.why),
					map[string]any{"args": c.semArgs, "stdin": c.semInput})
			}
		case "law":
			inputs := c.inputs
			if inputs == nil {
				inputs = corp
			}
			ctxs := c.ctxs
			if ctxs == nil {
				ctxs = [][2][]string{{nil, nil}}
			}
			matters := false
			for ci, cx := range ctxs {
				l := cat(cx[0], c.lhs, cx[1], []string{"cat"})
				r := cat(cx[0], c.rhs, cx[1], []string{"cat"})
				base := cat(cx[0], cx[1], []string{"cat"})
				for _, in := range inputs {
					lr := fr.run(l, c.mlrrc, in)
					rr := fr.run(r, nil, in)
					if !matters {
						br := fr.run(base, nil, in)
						if same, _ := sameOutcome(lr, br); !same {
							matters = true
						}
					}
					same, what := sameOutcome(lr, rr)
					if same {
						continue
					}
					if c.rejectOK && lr.Exit != 0 && reRejected.MatchString(lr.Stderr+lr.Err) {
						w.Count("io-form-name-rejected-undocumented:"+c.id, 1)
						continue
					}
					_ = ci
					ctxName, ctxKind := "plain", "plain"
					if len(cx[0]) > 0 || len(cx[1]) > 0 {
						ctxName = strings.TrimSpace("pre=" + strings.Join(cx[0], " ") + " post=" + strings.Join(cx[1], " "))
						ctxKind = "after:" + strings.Join(cx[0], " ")
						if len(cx[0]) == 0 {
							ctxKind = "before:" + strings.Join(cx[1], " ")
						}
						ctxKind = strings.NewReplacer(":", "=", "(", "", ")", "").Replace(ctxKind)
					}
					rcNote := ""
					if c.mlrrc != nil {
						rcNote = fmt.Sprintf("MLRRC file %q + ", *c.mlrrc)
					}
					w.Violation(fmt.Sprintf("%s[%s]:%s:%s:ctx=%s:input=%s", c.class, ctxKind, c.id, what, ctxName, in.name),
						fmt.Sprintf("%s%s differs in %s from %s on input %s %s: got exit %d stdout %s stderr %s; expansion gives exit %d stdout %s stderr %s (%s)",
							rcNote, cmdline(l), what, cmdline(r), in.name, brief(in.text), lr.Exit, brief(lr.Stdout), brief(lr.Stderr), rr.Exit, brief(rr.Stdout), brief(rr.Stderr), c.why),
						map[string]any{"lhs": l, "rhs": r, "mlrrc": c.mlrrc, "stdin": in.text})
				}
			}
			if matters && c.class == "glued" {
				for _, sym := range optSymbolsIn(c.rhs[len(c.rhs)-1]) {
					w.Count("glued-nontrivial-value-symbol:"+sym, 1)
				}
				w.Count("glued-nontrivial-flag:"+c.rhs[0], 1)
			}
			if matters || strings.HasPrefix(c.class, "inert") {
				w.Nontrivial(1)
				w.AddSet("spellings", c.class+" "+c.id)
				if c.class == "saver" || c.class == "mlrrc-profile" {
					w.Sample(map[string]any{"part": "flags", "class": c.class, "spelling": strings.Join(c.lhs, " "), "expansion": strings.Join(c.rhs, " "), "derivation": c.why})
				}
			} else {
				w.Count("trivial-on-corpus:"+c.class, 1)
				w.AddSet("trivial", c.class+" "+c.id)
			}
		}
	}
}

// finishFlags: the vacuity guard (corpus discriminates every pair of choices) and evidence.
func finishFlags(c *vf.Ctx, res *vf.PoolResult) {
	type cfg struct {
		name   string
		target bool
	}
	byHash := map[string][]cfg{}
	n, nt := 0, 0
	for _, e := range vf.SortedSet(res, "guard") {
		p := strings.SplitN(e, "\t", 3)
		if len(p) != 3 {
			continue
		}
		byHash[p[2]] = append(byHash[p[2]], cfg{p[1], p[0] == "guard-target"})
		n++
		if p[0] == "guard-target" {
			nt++
		}
	}
	c.Extra["guard_configurations"] = n
	c.Extra["guard_target_configurations"] = nt
	c.Extra["guard_distinct_output_vectors"] = len(byHash)
	// --ijsonl and --ijson select the same reader by design ("--ijsonl: Use JSON Lines format for input": the JSON reader accepts concatenated objects)
	// the DCF and recutils writers differ only on multi-line and collection values, which a
	// line-oriented reader without escapes cannot produce: for those inputs the two writers coincide
	lineOriented := regexp.MustCompile(`^(--idkvp|--inidx.*|--ixtab|--ipprint.*|--imd|--icsvlite|--itsvlite|--iusv|--iasv) \| `)
	norm := func(s string) string {
		s = strings.ReplaceAll(s, "--ijsonl", "--ijson")
		if lineOriented.MatchString(s) {
			s = strings.ReplaceAll(s, "--orecutils", "--odcf")
		}
		return s
	}
	undiscriminated := 0
	for _, cfgs := range byHash {
		for _, x := range cfgs {
			if !x.target {
				continue
			}
			for _, y := range cfgs {
				if norm(x.name) != norm(y.name) && (!y.target || x.name < y.name) {
					undiscriminated++
					c.Broken("vacuity guard: the corpus does not discriminate the choices {%s} and {%s}", x.name, y.name)
				}
			}
		}
	}
	c.Extra["guard_undiscriminated_pairs"] = undiscriminated
	if n == 0 || nt == 0 {
		c.Broken("vacuity guard did not run (%d configurations, %d targets)", n, nt)
	}
	c.Extra["flag_spellings_without_own_case"] = vf.SortedSet(res, "not-in-scope")
	c.Extra["flag_notes"] = vf.SortedSet(res, "notes")
	c.Extra["flag_duplicate_spellings"] = vf.SortedSet(res, "duplicate-spellings")
	c.Extra["flag_spellings_trivial_on_corpus"] = vf.SortedSet(res, "trivial")
	c.Extra["flag_spellings_nontrivial"] = vf.SetSize(res, "spellings")
}
