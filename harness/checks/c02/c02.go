// Package c02: format conversion changes syntax only; nesting flattens and
// unflattens losslessly; every spelling of a format/separator selection is
// equivalent to its documented expansion (see /verif/DESIGN.md §3 C02).
//
// Three exhaustive bounded enumerations, each on whole in-process invocations:
//
//	convert: record streams x ordered pairs/triples of formats (return trip, path independence)
//	nest:    JSON documents of depth <= 3 x flatten separators x tabular formats
//	         (key alphabet: letters, canonical indices and every lexical lookalike of an index: look.go)
//	flags:   the complete cli.FLAG_TABLE, separator aliases, .mlrrc spellings
package c02

import (
	"fmt"
	"os"
	"sort"
	"strings"
	"time"

	"verif/harness/vf"
)

func init() {
	vf.Register(&vf.CheckDef{ID: "C02", Level: "model_checking", Run: run,
		Workers: map[string]vf.WorkerFunc{"convert": convertWorker, "nest": nestWorker, "flags": flagsWorker}})
}

func run(c *vf.Ctx) {
	c.Rule = "convert: one case = one record stream (families of key lists x every value assignment) run through every ordered pair/triple of formats whose domains contain it; distinct = distinct stream with at least one pair inside the domain intersection. " +
		"nest: one case = one JSON document (every value of depth<=3 over keys {a,b,1,2}, 6 leaf kinds, arrays<=2, <=5 leaves; plus the key-spelling dimension: every value of depth<=3 over 14 lexical spellings of each of 1,2(,3) and the never-an-index integers 0,-1,3, maps<=3, <=3 leaves; plus 6 string leaves resembling the {} / [] sentinels; plus the collection-size dimension (size.go): one collection of EVERY size n = 0..104 (cli; 0..260 lib; thorough 0..260 cli, 0..520 and 999..1001, 1023..1025 lib) x 14 shapes (array / letter-keyed map / map keyed 1..n / four near misses of 1..n / record width, at four positions) x 3 element kinds with distinct leaf texts) x 3 flatten separators x 4 tabular formats x {implicit pair, flatten/unflatten verbs, their -f forms with every field listed}. " +
		"flags: one case = one spelling (flag of cli.FLAG_TABLE / -i,-o,--io form / separator alias x flag / .mlrrc text) compared with its name- or doc-derived expansion on every corpus input; plus the option-value dimension (optval.go): every -- spelling of every one-argument flag x {two tokens, glued with =} x every string of length 1..2 (thorough 1..3) over the symbols = space , ; : | - backslash t and every alias name (law: both forms give the same outcome; semantic: a literal value used as DKVP FS/PS/RS means its bytes)."
	c.Assume("data outside the intersection of the formats' representable domains is excluded (the property says 'representable in both'); the predicates are in formats.go and both sides are counted under counters domain-in/domain-out/pair-out/triple-out")
	c.Assume("value text, key names and order are compared; the JSON type (quoted or not) of a scalar re-read from text is C06's subject and is not asserted")
	c.Assume("a step from a non-nesting into a nesting format auto-unflattens keys containing the flatten separator (documented): such keys are outside the domain of that path")
	c.Assume("records are non-empty and have distinct keys; values are valid UTF-8")
	c.Assume("nest: a STRING leaf spelled exactly {} or [] is indistinguishable from the empty-collection sentinel by design and is left out; strings that merely resemble them are in")
	c.Assume("nest: a flattened record outside the tabular format's representable domain (formats.go predicates: a blank in an XTAB/PPRINT key or PPRINT value) is not asserted for that format (counted under cli-format-domain-out); CSV, DKVP, the verbs and the library layer still assert it")
	c.Assume("vacuity guard of the flag corpus: --ijson/--ijsonl select the same reader by design; --odcf/--orecutils coincide on single-line scalar values, so they are not told apart behind line-oriented readers; --igen ignores its input and is left out of the guard")
	c.Assume("when both a spelling and its expansion fail (non-zero exit) only the failure is compared, not the message: which data error surfaces first is timing-dependent (C17's subject)")
	c.Assume("flags that select neither a format nor a separator (comments, compression, colours, profiling, most of the miscellaneous section; listed in flag_spellings_without_own_case) are walked and counted but have no law of their own here; their alternate names are still compared with the primary name")
	c.Assume("option values: the empty value is left out (`--flag=` is not of the documented form `--foo=bar`); a value spelled like a bundle of one-letter flags (-tt) is left out because the documented -xyz expansion applies to it in the two-token form; flags that run commands, read or write named files, take several arguments or need a .mlrrc section are not run in the glued form (listed in flag_notes); IRS is left out of the literal-value semantics (multi-character IRS is a reported defect)")
	c.Assume("-i/-o/--io with a name outside the documented format-name list (jsonl, md, tsvlite, asv, usv, ...): a loud rejection is counted, not asserted; an accepted name must be equivalent")

	only := os.Getenv("C02_ONLY") // debugging aid: run one part
	var nd int64
	wall := map[string]float64{}
	if only == "" || only == "convert" {
		t0 := time.Now()
		res := c.RunPool(vf.PoolSpec{Worker: "convert", Shards: 64})
		c.Extra["convert_distinct_streams"] = vf.SetSize(res, "streams")
		nd += int64(vf.SetSize(res, "streams"))
		wall["convert"] = time.Since(t0).Seconds()
	}
	if only == "" || only == "nest" {
		t0 := time.Now()
		res2 := c.RunPool(vf.PoolSpec{Worker: "nest", Shards: 64, Env: []string{"GOMAXPROCS=2", "GOGC=400"}})
		c.Extra["nest_cli_distinct_documents_in_guard"] = vf.SetSize(res2, "docs")
		nd += int64(vf.SetSize(res2, "docs"))
		nd += c.Counters["lib-class:docs-in-guard"]
		wall["nest"] = time.Since(t0).Seconds()
		// every threshold bucket of the size dimension must have been exercised in both layers
		for _, layer := range []string{"lib", "cli"} {
			for _, n := range []int{0, 1, 9, 10, 12, 13, 32, 33, 64, 65, 99, 100, 101} {
				if c.Counters[layer+"-size-n:"+sizeBucket(n)] == 0 {
					c.Broken("vacuity: %s layer never ran a collection of size %d", layer, n)
				}
			}
		}
		// a symbol of the key-spelling / sentinel-lookalike alphabets never exercised inside the guard is a harness bug
		for _, layer := range []string{"lib", "cli"} {
			for f := 1; f < len(lookFeatures); f++ {
				if c.Counters[layer+"-lookalike-key:"+lookFeatures[f]] == 0 {
					c.Broken("vacuity: %s layer never saw a lookalike index key with feature %s in a would-be-array position", layer, lookFeatures[f])
				}
			}
			for _, lk := range sentinelLookalikes {
				if c.Counters[layer+"-sentinel-lookalike-leaf:"+lk.name] == 0 {
					c.Broken("vacuity: %s layer never saw the sentinel-lookalike leaf %s inside the guard", layer, lk.name)
				}
			}
		}
	}
	if only == "" || only == "flags" {
		t0 := time.Now()
		res3 := c.RunPool(vf.PoolSpec{Worker: "flags", Shards: 48})
		for _, sym := range optSymbols {
			if c.Counters["glued-nontrivial-value-symbol:"+sym] == 0 {
				c.Broken("vacuity: no glued --flag=value case whose value contains %q changed the output", sym)
			}
		}
		finishFlags(c, res3)
		nd += int64(vf.SetSize(res3, "spellings"))
		wall["flags"] = time.Since(t0).Seconds()
	}
	c.Extra["wall_s_per_part"] = wall
	if only != "" {
		c.Exhaustive = false
		c.Extra["inexhaustive"] = []string{"C02_ONLY=" + only + " (debug run of one part)"}
	}

	c.DistinctNontrivial = nd
	summarizeCounters(c, only)
}

// summarizeCounters folds the per-symbol counters into Extra maps so that the
// evidence shows hit counts per format pair, value, family, flag section.
func summarizeCounters(c *vf.Ctx, only string) {
	groups := map[string]map[string]int64{}
	for k, v := range c.Counters {
		i := strings.Index(k, ":")
		if i < 0 {
			continue
		}
		g := k[:i]
		if groups[g] == nil {
			groups[g] = map[string]int64{}
		}
		groups[g][k[i+1:]] = v
	}
	for g, m := range groups {
		c.Extra["hits_"+g] = m
		for k := range m {
			delete(c.Counters, g+":"+k)
		}
	}
	if only != "" && only != "convert" {
		return
	}
	// a symbol never exercised is a harness bug
	var never []string
	for _, f := range allFormats() {
		if f.thorough && c.Quick() {
			continue
		}
		if groups["domain-in"][f.name] == 0 {
			never = append(never, "format never inside its domain: "+f.name)
		}
		seenOut := false
		for k := range groups["domain-out"] {
			if strings.HasPrefix(k, f.name+":") {
				seenOut = true
			}
		}
		if !seenOut && f.name != "json" && f.name != "jsonl" && f.name != "yaml" {
			never = append(never, "domain predicate never false: "+f.name)
		}
	}
	sort.Strings(never)
	for _, n := range never {
		c.Broken("vacuity: %s", n)
	}
	_ = fmt.Sprint
}
