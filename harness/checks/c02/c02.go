// Package c02: check for property C02 (see /verif/DESIGN.md §3 C02).
package c02
