package c12

// WIDTH dimension of layer B.
//
// The per-verb enumerations of verbs_a..d.go draw their field lists from a
// 7-key alphabet and their regexes claim at most 6 keys, so the number of
// fields a verb ACTS ON (selects, names, sorts, generates, merges) never
// exceeded 6 there: the three 14-field records of opaqueUniverse only add
// bystanders. Everything whose behaviour changes with that number - Go's
// sort package (insertion sort up to 12 elements, i.e. accidentally stable;
// median-of-three from 8; ninther from 50; 20-element blocks of the stable
// sort), Miller's own 12-field threshold of the lazily built record index -
// was therefore out of reach.
//
// This file adds the dimension n = 1..N (every value; N = wideN(quick)): for
// every verb of the property a family of invocations whose field list /
// matched set / generated set has n (or 2n, 3n) members, on records of
// 3n, 3n+1 and 3n+2 fields whose groups x.., y.., z.. are interleaved
// (ascending, descending, rotated), each run in three record-construction
// modes (JSON input = hashed records; DKVP input = lazily hashed, index built
// on the first lookup at >= 12 fields; DKVP input with --no-hash-records).
// The oracle of every case is a reference model written from the verb's usage
// text (the same documented behaviour the narrow enumerations assert), or a
// documented law.

import (
	"fmt"
	"sort"
	"strconv"
	"strings"
	"time"

	"verif/harness/vf"
)

func wideN(quick bool) int {
	if quick {
		return 32 // two groups of n: up to 64 selected fields, beyond the largest threshold of Go's sort (50)
	}
	return 96
}

type wmode struct {
	name  string
	dkvp  bool
	flags []string
}

var wmodes = []wmode{
	{"json input", false, nil},
	{"dkvp input", true, nil},
	{"dkvp input --no-hash-records", true, []string{"--no-hash-records"}},
}

type wfam struct {
	verb     string
	tmpl     string // canonical text of the invocation as a function of n (part of the violation key)
	flags    []string
	mult     int // the invocation acts on about mult*n fields
	args     func(n int) []string
	in       func(n int) []rec
	want     func(n int, in []rec) ([]rec, func(k string) bool) // expected output stream (+ cells compared by text only)
	judge    func(n int, in, out []rec) (string, string)        // or: a predicate/law; returns (expected, why) or "", ""
	local    bool                                               // the output of a stream is the concatenation of the outputs of its records
	jsonOnly bool                                               // values are maps/arrays: JSON input only
}

// ---------------------------------------------------------------- keys, shapes, records

func wk(g string, i int) string { return fmt.Sprintf("%s%02d", g, i) }

func wks(g string, n int) []string {
	out := make([]string, n)
	for i := range out {
		out[i] = wk(g, i+1)
	}
	return out
}

func revs(l []string) []string {
	out := make([]string, len(l))
	for i, s := range l {
		out[len(l)-1-i] = s
	}
	return out
}

func interleave(ls ...[]string) []string {
	var out []string
	for i := 0; ; i++ {
		any := false
		for _, l := range ls {
			if i < len(l) {
				out = append(out, l[i])
				any = true
			}
		}
		if !any {
			return out
		}
	}
}

func cat(ls ...[]string) []string {
	var out []string
	for _, l := range ls {
		out = append(out, l...)
	}
	return out
}

// wshapes: three key orders over the groups x, y, z of n keys each: interleaved
// ascending (3n fields), interleaved descending plus t1 (3n+1), a rotated
// mixed-direction interleaving with t2 in front and t1 inside (3n+2). All
// record widths from 3 to 3N+2 occur.
func wshapes(n int) [][]string {
	x, y, z := wks("x", n), wks("y", n), wks("z", n)
	s0 := interleave(x, y, z)
	s1 := append(revs(s0), "t1")
	t := interleave(revs(y), x, revs(z))
	s2 := cat([]string{"t2"}, t[n:], []string{"t1"}, t[:n])
	return [][]string{s0, s1, s2}
}

// wval: distinct tracer values (a string naming the key; every 5th position an
// int; every 7th the empty string). All are DKVP-safe.
func wval(k string, p int) string {
	switch {
	case p%5 == 3:
		return strconv.Itoa(100 + p)
	case p%7 == 5:
		return S("")
	}
	return S("v" + k)
}

func wrecOf(keys []string, val func(k string, p int) string) rec {
	r := make(rec, len(keys))
	for p, k := range keys {
		r[p] = fld{k, val(k, p)}
	}
	return r
}

func wstdWith(val func(k string, p int) string) func(n int) []rec {
	return func(n int) []rec {
		var out []rec
		for _, s := range wshapes(n) {
			out = append(out, wrecOf(s, val))
		}
		return out
	}
}

var wstd = wstdWith(wval)

func setOf(l []string) map[string]bool {
	m := map[string]bool{}
	for _, s := range l {
		m[s] = true
	}
	return m
}

func each(f func(r rec) rec) func(in []rec) []rec {
	return func(in []rec) []rec {
		out := make([]rec, len(in))
		for i, r := range in {
			out[i] = f(r)
		}
		return out
	}
}

func noLoose(string) bool { return false }

func recEqLooseF(want, got rec, loose func(string) bool) bool {
	if len(want) != len(got) {
		return false
	}
	for i := range want {
		if want[i].k != got[i].k {
			return false
		}
		if want[i].v != got[i].v && (loose == nil || !loose(want[i].k) || text(want[i].v) != text(got[i].v)) {
			return false
		}
	}
	return true
}

// ---------------------------------------------------------------- running one family

func (b *vb) wmlr(m wmode, args []string, in []rec) runOut {
	var full []string
	var input string
	if m.dkvp {
		input = dkvp(in)
		full = append([]string{"--idkvp", "--ojsonl", "--no-auto-unflatten"}, m.flags...)
	} else {
		input = recsJSON(in)
		full = []string{"--ijson", "--ojsonl"}
	}
	r := vf.RunMlr(append(full, args...), vf.MlrOpts{Stdin: &input})
	o := runOut{res: r}
	if r.OK() {
		o.recs, o.perr = parseJSONL(r.Stdout)
	}
	return o
}

func wcmdline(m wmode, args []string, in []rec) string {
	q := make([]string, len(args))
	for i, a := range args {
		q[i] = shq(a)
	}
	if m.dkvp {
		return "printf '%s' " + shq(dkvp(in)) + " | mlr --idkvp --ojsonl --no-auto-unflatten " + strings.Join(append(append([]string(nil), m.flags...), q...), " ")
	}
	return "printf '%s' " + shq(recsJSON(in)) + " | mlr --ijson --ojsonl " + strings.Join(q, " ")
}

// verdict of one run: "" or (got, expected, why).
func (f *wfam) verdict(n int, in []rec, o runOut) (got, want, why string) {
	if !o.res.OK() {
		return o.res.String(), "exit 0", "fails: the verb fails on a well-formed stream"
	}
	if o.perr != nil {
		return o.res.Stdout, "JSON records", "output: not one JSON object per line: " + o.perr.Error()
	}
	if f.judge != nil {
		if w, y := f.judge(n, in, o.recs); y != "" {
			return strings.TrimSpace(recsJSON(o.recs)), w, y
		}
		return "", "", ""
	}
	wnt, loose := f.want(n, in)
	ok := len(wnt) == len(o.recs)
	for i := 0; ok && i < len(wnt); i++ {
		ok = recEqLooseF(wnt[i], o.recs[i], loose)
	}
	if !ok {
		return strings.TrimSpace(recsJSON(o.recs)), strings.TrimSpace(recsJSON(wnt)), "model: the output is not what the usage text determines for this wide invocation"
	}
	return "", "", ""
}

func (b *vb) wideRun(f wfam, N int) {
	for _, m := range wmodes {
		if f.jsonOnly && m.dkvp {
			continue
		}
		if !b.unit("wide " + f.tmpl + " [" + m.name + "]") {
			continue
		}
		b.hit(f.verb, append(append([]string(nil), f.flags...), "width family 1..N")...)
		b.w.Count("wide:families x modes", 1)
		reported := map[string]bool{}
		for n := 1; n <= N; n++ {
			cls := "acts on <=12 fields"
			if f.mult*n > 12 {
				cls = "acts on >12 fields"
			}
			if reported[cls] {
				continue // the smallest failing n of each class is reported
			}
			args, in := f.args(n), f.in(n)
			for _, r := range in {
				if d := hasDupKeys(r); d != "" {
					b.w.Broken("C12 width family %s: generated input with duplicate key %s", f.tmpl, d)
				}
			}
			o := b.wmlr(m, args, in)
			b.w.Eval(1)
			b.w.Count("wide:cases, "+cls, 1)
			got, want, why := f.verdict(n, in, o)
			if why == "" {
				if o.res.Stdout != recsJSON(in) {
					b.w.Nontrivial(1)
				}
				continue
			}
			reported[cls] = true
			rin := in
			if f.local && len(in) > 1 {
				for _, r := range in {
					o1 := b.wmlr(m, args, []rec{r})
					if g1, w1, y1 := f.verdict(n, []rec{r}, o1); y1 != "" {
						rin, got, want, why = []rec{r}, g1, w1, y1
						break
					}
				}
			}
			key := grp(f.verb+"-wide", why) + ":" + f.tmpl + " [" + m.name + "; " + cls + "]"
			what := fmt.Sprintf("%s :: smallest failing n = %d: mlr %s on %s gives %s, expected %s", why, n, strings.Join(args, " "), strings.TrimSpace(strings.ReplaceAll(recsJSON(rin), "\n", " ")), got, want)
			b.w.Violation(key, what, map[string]any{"layer": "verbs/width", "n": n, "mode": m.name, "args": args, "input_json": recsJSON(rin), "got": got, "expected": want, "why": why, "command": wcmdline(m, args, rin)})
		}
	}
}

func (b *vb) wide(quick bool) {
	N := wideN(quick)
	fams := wideFamilies()
	seen := map[string]bool{}
	for _, f := range fams {
		if seen[f.tmpl] {
			b.w.Broken("C12 width family: duplicate template %s", f.tmpl)
		}
		seen[f.tmpl] = true
		b.wideRun(f, N)
	}
}

// ---------------------------------------------------------------- the families

type nlist struct {
	name string
	f    func(n int) []string
	mult int
}

// field lists of n (or 2n) names
var wLists = []nlist{
	{"<y01..yn,x01..xn>", func(n int) []string { return cat(wks("y", n), wks("x", n)) }, 2},
	{"<xn,yn,..,x01,y01>", func(n int) []string { return revs(interleave(wks("y", n), wks("x", n))) }, 2},
	{"<x01,q01,..,xn,qn> (q absent)", func(n int) []string { return interleave(wks("x", n), wks("q", n)) }, 1},
}

type rlist struct {
	res  []string
	mult int
}

// regex lists: two and three groups claiming interleaved fields, one group, a
// quoted case-insensitive form, two groups plus the odd fields t1/t2
var wRegexes = []rlist{
	{[]string{`^x`, `^y`}, 2}, {[]string{`^y`, `^x`}, 2}, {[]string{`^y`, `^z`, `^x`}, 3}, {[]string{`^[xy]`}, 2},
	{[]string{`"^X"i`, `^y`}, 2}, {[]string{`^y`, `^x`, `^t`}, 2},
}

func compileAll(l []string) []mregex {
	out := make([]mregex, len(l))
	for i, s := range l {
		out[i] = compileMillerRegex(s)
	}
	return out
}

func firstMatchOf(res []mregex, k string) int {
	for i, r := range res {
		if r.re.MatchString(k) {
			return i
		}
	}
	return -1
}

// groupedByRegex: the matching fields grouped by the order of the regexes
// (first matching regex claims), record order inside a group; and the rest.
func groupedByRegex(in rec, res []mregex) (moved, rest rec) {
	for g := range res {
		for _, f := range in {
			if firstMatchOf(res, f.k) == g {
				moved = append(moved, f)
			}
		}
	}
	for _, f := range in {
		if firstMatchOf(res, f.k) < 0 {
			rest = append(rest, f)
		}
	}
	return
}

func constArgs(a ...string) func(int) []string { return func(int) []string { return a } }

func wideFamilies() []wfam {
	var F []wfam
	add := func(f wfam) { F = append(F, f) }
	model := func(f func(n int, r rec) rec) func(n int, in []rec) ([]rec, func(string) bool) {
		return func(n int, in []rec) ([]rec, func(string) bool) {
			return each(func(r rec) rec { return f(n, r) })(in), nil
		}
	}

	// ------------------------------------------------------------ cut / template / reorder with field lists
	for _, L := range wLists {
		L := L
		add(wfam{verb: "cut", tmpl: "cut -f " + L.name, flags: []string{"-f"}, mult: L.mult, local: true, in: wstd,
			args: func(n int) []string { return []string{"cut", "-f", joinc(L.f(n))} },
			want: model(func(n int, r rec) rec { s := setOf(L.f(n)); return without(r, func(k string) bool { return !s[k] }) })})
		add(wfam{verb: "cut", tmpl: "cut -o -f " + L.name, flags: []string{"-o"}, mult: L.mult, local: true, in: wstd,
			args: func(n int) []string { return []string{"cut", "-o", "-f", joinc(L.f(n))} },
			want: model(func(n int, r rec) rec { return pick(r, L.f(n)) })})
		add(wfam{verb: "cut", tmpl: "cut -x -f " + L.name, flags: []string{"-x"}, mult: L.mult, local: true, in: wstd,
			args: func(n int) []string { return []string{"cut", "-x", "-f", joinc(L.f(n))} },
			want: model(func(n int, r rec) rec { s := setOf(L.f(n)); return without(r, func(k string) bool { return s[k] }) })})
		for _, fill := range []string{"", "X Y"} {
			fill := fill
			t := "template -f " + L.name
			if fill != "" {
				t += " --fill-with 'X Y'"
			}
			add(wfam{verb: "template", tmpl: t, flags: []string{"-f"}, mult: L.mult, local: true, in: wstd,
				args: func(n int) []string {
					a := []string{"template", "-f", joinc(L.f(n))}
					if fill != "" {
						a = append(a, "--fill-with", fill)
					}
					return a
				},
				want: func(n int, in []rec) ([]rec, func(string) bool) {
					return each(func(r rec) rec {
						var w rec
						for _, k := range L.f(n) {
							if i := r.find(k); i >= 0 {
								w = append(w, r[i])
							} else {
								w = append(w, fld{k, S(fill)})
							}
						}
						return w
					})(in), func(k string) bool { return k[0] == 'q' }
				}})
		}
		for _, e := range []bool{false, true} {
			e := e
			t := "reorder -f " + L.name
			if e {
				t = "reorder -e -f " + L.name
			}
			add(wfam{verb: "reorder", tmpl: t, flags: []string{"-f"}, mult: L.mult, local: true, in: wstd,
				args: func(n int) []string {
					if e {
						return []string{"reorder", "-e", "-f", joinc(L.f(n))}
					}
					return []string{"reorder", "-f", joinc(L.f(n))}
				},
				want: model(func(n int, r rec) rec {
					s := setOf(L.f(n))
					moved, rest := pick(r, L.f(n)), without(r, func(k string) bool { return s[k] })
					if e {
						return append(rest.clone(), moved...)
					}
					return append(moved.clone(), rest...)
				})})
		}
		for _, flag := range []string{"-b", "-a"} {
			flag := flag
			centre := func(n int) string { return wk("z", (n+1)/2) }
			add(wfam{verb: "reorder", tmpl: "reorder " + flag + " <z(n+1)/2> -f " + L.name, flags: []string{flag}, mult: L.mult, local: true, in: wstd,
				args: func(n int) []string { return []string{"reorder", flag, centre(n), "-f", joinc(L.f(n))} },
				want: model(func(n int, r rec) rec {
					s, c := setOf(L.f(n)), centre(n)
					moved := pick(r, L.f(n))
					var w rec
					for _, f := range r {
						switch {
						case s[f.k]:
						case f.k == c && flag == "-b":
							w = append(append(w, moved...), f)
						case f.k == c:
							w = append(append(w, f), moved...)
						default:
							w = append(w, f)
						}
					}
					return w
				})})
		}
		// sort-within-records -f: the named keys come out ascending, the others keep their order, nothing is lost
		add(wfam{verb: "sort-within-records", tmpl: "sort-within-records -f " + L.name, flags: []string{"-f"}, mult: L.mult, local: true, in: wstd,
			args: func(n int) []string { return []string{"sort-within-records", "-f", joinc(L.f(n))} },
			judge: func(n int, in, out []rec) (string, string) {
				s := setOf(L.f(n))
				if len(in) != len(out) {
					return "one record per input", "model: record count changed"
				}
				for i := range in {
					if !sameFieldsAnyOrder(in[i], out[i]) {
						return "a permutation of " + in[i].json(), "model: sort-within-records -f changed the set of fields"
					}
					if w, y := bystander(in[i], out[i], func(k string) bool { return s[k] }); y != "" {
						return w, y
					}
					prev := ""
					for _, f := range out[i] {
						if s[f.k] {
							if f.k < prev {
								return "the named keys ascending", "model: the keys selected by -f do not come out sorted"
							}
							prev = f.k
						}
					}
				}
				return "", ""
			}})
		// keystroke savers with a field list
		add(wfam{verb: "sparsify", tmpl: "sparsify -f " + L.name, flags: []string{"-f"}, mult: L.mult, local: true, in: wstdWith(wvalSparse),
			args: func(n int) []string { return []string{"sparsify", "-f", joinc(L.f(n))} },
			want: model(func(n int, r rec) rec {
				s := setOf(L.f(n))
				return without(r, func(k string) bool { return s[k] && text(r[r.find(k)].v) == "" })
			})})
		add(wfam{verb: "case", tmpl: "case -u -f " + L.name, flags: []string{"-u", "-f"}, mult: L.mult, local: true, in: wstd,
			args: func(n int) []string { return []string{"case", "-u", "-f", joinc(L.f(n))} },
			want: model(func(n int, r rec) rec { return caseModel(r, setOf(L.f(n)), true, true, strings.ToUpper) })})
		add(wfam{verb: "case", tmpl: "case -s -v -f " + L.name, flags: []string{"-s", "-v", "-f"}, mult: L.mult, local: true, in: wstd,
			args: func(n int) []string { return []string{"case", "-s", "-v", "-f", joinc(L.f(n))} },
			want: model(func(n int, r rec) rec { return caseModel(r, setOf(L.f(n)), false, true, asciiSentence) })})
		add(wfam{verb: "case", tmpl: "case -u -k -f " + L.name, flags: []string{"-u", "-k", "-f"}, mult: L.mult, local: true, in: wstd,
			args: func(n int) []string { return []string{"case", "-u", "-k", "-f", joinc(L.f(n))} },
			want: model(func(n int, r rec) rec { return caseModel(r, setOf(L.f(n)), true, false, strings.ToUpper) })})
		for _, sv := range wSubs {
			sv := sv
			add(wfam{verb: sv.verb, tmpl: sv.verb + " -f " + L.name + " " + shq(sv.old) + " " + shq(sv.new), flags: []string{"-f"}, mult: L.mult, local: true, in: wstd,
				args:  func(n int) []string { return []string{sv.verb, "-f", joinc(L.f(n)), sv.old, sv.new} },
				judge: func(n int, in, out []rec) (string, string) { return subJudge(sv, setOf(L.f(n)), in, out) }})
		}
		add(wfam{verb: "sec2gmt", tmpl: "sec2gmt " + L.name, flags: []string{"(none)"}, mult: L.mult, local: true, in: wstdWith(wvalEpoch),
			args: func(n int) []string { return []string{"sec2gmt", joinc(L.f(n))} },
			want: model(func(n int, r rec) rec { return gmtModel(r, setOf(L.f(n)), 1, "2006-01-02T15:04:05Z") })})
		add(wfam{verb: "json-stringify", tmpl: "json-stringify -f " + L.name, flags: []string{"-f"}, mult: L.mult, local: true, in: wstd,
			args: func(n int) []string { return []string{"json-stringify", "-f", joinc(L.f(n))} },
			judge: func(n int, in, out []rec) (string, string) {
				s := setOf(L.f(n))
				if len(in) != len(out) {
					return "one record per input", "model: record count changed"
				}
				for i := range in {
					if len(in[i]) != len(out[i]) {
						return "same fields", "model: json-stringify changed the number of fields"
					}
					for j, f := range in[i] {
						o := out[i][j]
						if o.k != f.k || (!s[f.k] && o.v != f.v) {
							return in[i].json(), "bystander: json-stringify -f changed a field it was not given, or the field order"
						}
						if s[f.k] && (!isStr(o.v) || canonValue(text(o.v)) != f.v) {
							return "a string holding the JSON encoding of " + f.v, "model: json-stringify must produce a string holding the JSON encoding of the value"
						}
					}
				}
				return "", ""
			}})
		add(wfam{verb: "json-stringify", tmpl: "json-stringify -f " + L.name + " then json-parse -f " + L.name, flags: []string{"round-trip -f"}, mult: L.mult, local: true, in: wstd,
			args: func(n int) []string {
				return []string{"json-stringify", "-f", joinc(L.f(n)), "then", "json-parse", "-f", joinc(L.f(n))}
			},
			want: model(func(n int, r rec) rec { return r })})
		add(wfam{verb: "unsparsify", tmpl: "unsparsify -f " + L.name + " --fill-with X", flags: []string{"-f"}, mult: L.mult, local: true, in: wstd,
			args: func(n int) []string { return []string{"unsparsify", "-f", joinc(L.f(n)), "--fill-with", "X"} },
			judge: func(n int, in, out []rec) (string, string) {
				if len(in) != len(out) {
					return "one record per input", "model: record count changed"
				}
				for i, r := range in {
					added := map[string]bool{}
					for _, k := range L.f(n) {
						if !r.has(k) {
							added[k] = true
						}
					}
					if rest := without(out[i], func(k string) bool { return added[k] }); !recEq(rest, r) {
						return r.json() + " plus the absent -f fields", "bystander: unsparsify -f must not modify the fields that are present"
					}
					if len(out[i]) != len(r)+len(added) {
						return r.json() + " plus the absent -f fields", "model: unsparsify -f must add each absent -f field exactly once"
					}
					for _, f := range out[i] {
						if added[f.k] && text(f.v) != "X" {
							return "fill value X", "model: unsparsify -f filled with the wrong value"
						}
					}
				}
				return "", ""
			}})
		// reshape wide-to-long with a field list, and the round trip
		add(wfam{verb: "reshape", tmpl: "reshape -i " + L.name + " -o key,value", flags: []string{"-i -o"}, mult: L.mult, local: true, in: wstd,
			args: func(n int) []string { return []string{"reshape", "-i", joinc(L.f(n)), "-o", "key,value"} },
			want: func(n int, in []rec) ([]rec, func(string) bool) {
				var out []rec
				for _, r := range in {
					out = append(out, w2lModel(r, presentOf(r, L.f(n)))...)
				}
				return out, nil
			}})
		add(wfam{verb: "reshape", tmpl: "reshape -i " + L.name + " -o key,value then reshape -s key,value", flags: []string{"-s (long-to-wide)"}, mult: L.mult, in: wstd,
			args: func(n int) []string {
				return []string{"reshape", "-i", joinc(L.f(n)), "-o", "key,value", "then", "reshape", "-s", "key,value"}
			},
			// law (domain: the three records have different other-field lists, so nothing merges): the
			// record comes back as other fields untouched + the reshaped fields in -i order
			want: model(func(n int, r rec) rec {
				s := setOf(L.f(n))
				return append(without(r, func(k string) bool { return s[k] }), pick(r, L.f(n))...)
			})})
	}

	// ------------------------------------------------------------ regex forms: cut -r, reorder -r, reshape -r
	for _, R := range wRegexes {
		R := R
		res := compileAll(R.res)
		for _, fl := range []struct{ o, x bool }{{false, false}, {true, false}, {false, true}, {true, true}} {
			fl := fl
			a := []string{"cut", "-r"}
			if fl.o {
				a = append(a, "-o")
			}
			if fl.x {
				a = append(a, "-x")
			}
			a = append(a, "-f", joinc(R.res))
			add(wfam{verb: "cut", tmpl: strings.Join(a, " "), flags: []string{"-r"}, mult: R.mult, local: true, in: wstd, args: constArgs(a...),
				want: model(func(n int, r rec) rec {
					if fl.x {
						return without(r, func(k string) bool { return firstMatchOf(res, k) >= 0 })
					}
					if fl.o {
						moved, _ := groupedByRegex(r, res)
						return moved
					}
					return without(r, func(k string) bool { return firstMatchOf(res, k) < 0 })
				})})
		}
		for _, e := range []bool{false, true} {
			e := e
			a := []string{"reorder"}
			if e {
				a = append(a, "-e")
			}
			a = append(a, "-r", joinc(R.res))
			add(wfam{verb: "reorder", tmpl: strings.Join(a, " "), flags: []string{"-r"}, mult: R.mult, local: true, in: wstd, args: constArgs(a...),
				want: model(func(n int, r rec) rec {
					moved, rest := groupedByRegex(r, res)
					if e {
						return append(rest, moved...)
					}
					return append(moved, rest...)
				})})
		}
		a := []string{"reshape"}
		for _, r := range R.res {
			a = append(a, "-r", r)
		}
		a = append(a, "-o", "key,value")
		add(wfam{verb: "reshape", tmpl: strings.Join(a, " "), flags: []string{"-r -o"}, mult: R.mult, local: true, in: wstd, args: constArgs(a...),
			want: func(n int, in []rec) ([]rec, func(string) bool) {
				var out []rec
				for _, r := range in {
					var sel []string
					for _, f := range r {
						if firstMatchOf(res, f.k) >= 0 {
							sel = append(sel, f.k)
						}
					}
					out = append(out, w2lModel(r, sel)...)
				}
				return out, nil
			}})
	}
	// n regexes, each claiming the two fields xii and yii, given in descending order
	nre := func(n int) []string {
		var l []string
		for i := n; i >= 1; i-- {
			l = append(l, fmt.Sprintf("^[xy]%02d$", i))
		}
		return l
	}
	for _, a := range [][]string{{"cut", "-r", "-f"}, {"cut", "-r", "-o", "-f"}, {"cut", "-r", "-x", "-f"}, {"reorder", "-r"}, {"reorder", "-e", "-r"}} {
		a := a
		add(wfam{verb: a[0], tmpl: strings.Join(a, " ") + " <^[xy]n$,..,^[xy]01$> (n regexes)", flags: []string{"-r with n regexes"}, mult: 2, local: true, in: wstd,
			args: func(n int) []string { return append(append([]string(nil), a...), joinc(nre(n))) },
			want: model(func(n int, r rec) rec {
				moved, rest := groupedByRegex(r, compileAll(nre(n)))
				switch strings.Join(a[:len(a)-1], " ") + " " + a[len(a)-1] {
				case "cut -r -f":
					return without(r, func(k string) bool { return rest.has(k) })
				case "cut -r -o -f":
					return moved
				case "cut -r -x -f":
					return rest
				case "reorder -e -r":
					return append(rest, moved...)
				}
				return append(moved, rest...)
			})})
	}
	add(wfam{verb: "rename", tmpl: "rename -r <^x01$,X01,..,^xn$,Xn> (n regexes)", flags: []string{"-r with n regexes"}, mult: 1, local: true, in: wstd,
		args: func(n int) []string {
			var l []string
			for i := 1; i <= n; i++ {
				l = append(l, "^"+wk("x", i)+"$", wk("X", i))
			}
			return []string{"rename", "-r", joinc(l)}
		},
		want: model(func(n int, r rec) rec {
			return renameKeys(r, func(k string) string { return strings.Replace(k, "x", "X", 1) })
		})})
	// rename onto existing names: xii -> yii for n pairs. The accessor documents: the new name carries the renamed
	// field's value, the old field disappears; which of the two slots survives is not asserted.
	add(wfam{verb: "rename", tmpl: "rename <x01,y01,..,xn,yn> (both present)", flags: []string{"onto existing"}, mult: 2, local: true, in: wstd,
		args: func(n int) []string { return []string{"rename", joinc(interleave(wks("x", n), wks("y", n)))} },
		judge: func(n int, in, out []rec) (string, string) {
			if len(in) != len(out) {
				return "one record per input", "model: record count changed"
			}
			for i, r := range in {
				o := out[i]
				if w, y := bystander(r, o, func(k string) bool { return k[0] == 'x' || k[0] == 'y' }); y != "" {
					return w, y
				}
				if len(o) != len(r)-n || hasDupKeys(o) != "" {
					return strconv.Itoa(len(r)-n) + " distinct fields", "model: rename onto an existing name must leave exactly one field of that name"
				}
				for j := 1; j <= n; j++ {
					if k := o.find(wk("y", j)); k < 0 || o[k].v != r[r.find(wk("x", j))].v || o.has(wk("x", j)) {
						return wk("y", j) + " = " + r[r.find(wk("x", j))].v + " and no " + wk("x", j), "model: rename onto an existing name must leave one field of that name carrying the renamed field's value"
					}
				}
			}
			return "", ""
		}})
	// the DSL face of the positional accessors (reference-dsl-variables.md, positional field names), at position 2n
	add(wfam{verb: "put", tmpl: `put '$[[2n]] = "new"'`, flags: []string{"$[[n]] = name"}, mult: 2, local: true, in: wstd,
		args: func(n int) []string { return []string{"put", `$[[` + strconv.Itoa(2*n) + `]] = "new"`} },
		want: model(func(n int, r rec) rec { w := r.clone(); w[2*n-1].k = "new"; return w })})
	add(wfam{verb: "put", tmpl: `put '$[[[2n]]] = "new"'`, flags: []string{"$[[[n]]] = value"}, mult: 2, local: true, in: wstd,
		args: func(n int) []string { return []string{"put", `$[[[` + strconv.Itoa(2*n) + `]]] = "new"`} },
		want: model(func(n int, r rec) rec { w := r.clone(); w[2*n-1].v = S("new"); return w })})
	// sort-within-records -r {regex}, nest -r, sub -a
	for _, re := range []string{`^[xy]`, `^y|^t`} {
		re := re
		mr := compileMillerRegex(re)
		add(wfam{verb: "sort-within-records", tmpl: "sort-within-records -r " + shq(re), flags: []string{"-r {regex}"}, mult: 2, local: true, in: wstd, args: constArgs("sort-within-records", "-r", re),
			judge: func(n int, in, out []rec) (string, string) {
				if len(in) != len(out) {
					return "one record per input", "model: record count changed"
				}
				for i := range in {
					if !sameFieldsAnyOrder(in[i], out[i]) {
						return "a permutation of " + in[i].json(), "model: sort-within-records -r changed the set of fields"
					}
					if w, y := bystander(in[i], out[i], mr.re.MatchString); y != "" {
						return w, y
					}
					prev := ""
					for _, f := range out[i] {
						if mr.re.MatchString(f.k) {
							if f.k < prev {
								return "the matching keys ascending", "model: the keys selected by -r do not come out sorted"
							}
							prev = f.k
						}
					}
				}
				return "", ""
			}})
	}

	// ------------------------------------------------------------ rename, label
	pairs := func(n int) []string { return interleave(wks("x", n), wks("X", n)) }
	add(wfam{verb: "rename", tmpl: "rename <x01,X01,..,xn,Xn>", flags: []string{"plain"}, mult: 1, local: true, in: wstd,
		args: func(n int) []string { return []string{"rename", joinc(pairs(n))} },
		want: model(func(n int, r rec) rec {
			return renameKeys(r, func(k string) string { return strings.Replace(k, "x", "X", 1) })
		})})
	add(wfam{verb: "rename", tmpl: "rename <xn,Xn,..,x01,X01,q01,Q01>", flags: []string{"plain"}, mult: 1, local: true, in: wstd,
		args: func(n int) []string {
			var l []string
			for i := n; i >= 1; i-- {
				l = append(l, wk("x", i), wk("X", i))
			}
			return []string{"rename", joinc(append(l, "q01", "Q01"))}
		},
		want: model(func(n int, r rec) rec {
			return renameKeys(r, func(k string) string { return strings.Replace(k, "x", "X", 1) })
		})})
	add(wfam{verb: "rename", tmpl: "rename <x01,X01,..> then rename <X01,x01,..>", flags: []string{"plain"}, mult: 1, local: true, in: wstd,
		args: func(n int) []string {
			return []string{"rename", joinc(pairs(n)), "then", "rename", joinc(interleave(wks("X", n), wks("x", n)))}
		},
		want: model(func(n int, r rec) rec { return r })})
	add(wfam{verb: "rename", tmpl: `rename -r '^x(.*)$,w_\1'`, flags: []string{"-r"}, mult: 1, local: true, in: wstd, args: constArgs("rename", "-r", `^x(.*)$,w_\1`),
		want: model(func(n int, r rec) rec {
			return renameKeys(r, func(k string) string {
				if k[0] == 'x' {
					return "w_" + k[1:]
				}
				return k
			})
		})})
	add(wfam{verb: "rename", tmpl: `rename -r '"^Y(.)"i,<\1>,^z,zz'`, flags: []string{"-r"}, mult: 2, local: true, in: wstd, args: constArgs("rename", "-r", `"^Y(.)"i,<\1>,^z,zz`),
		want: model(func(n int, r rec) rec {
			return renameKeys(r, func(k string) string {
				switch k[0] {
				case 'y':
					return "<" + k[1:2] + ">" + k[2:]
				case 'z':
					return "zz" + k[1:]
				}
				return k
			})
		})})
	add(wfam{verb: "rename", tmpl: "rename -g 0,Q", flags: []string{"-g"}, mult: 3, local: true, in: wstd, args: constArgs("rename", "-g", "0,Q"),
		want: model(func(n int, r rec) rec {
			return renameKeys(r, func(k string) string { return strings.ReplaceAll(k, "0", "Q") })
		})})
	for _, lb := range []struct {
		name string
		f    func(n int) []string
		mult int
	}{
		{"<N01..Nn>", func(n int) []string { return wks("N", n) }, 1},
		{"<N01..N(3n)>", func(n int) []string { return wks("N", 3*n) }, 3},
		{"<z01..zn>", func(n int) []string { return wks("z", n) }, 1},
		{"<the record's first 2n+1 names, reversed>", nil, 2},
	} {
		lb := lb
		names := func(n int, r rec) []string {
			if lb.f != nil {
				return lb.f(n)
			}
			return revs(r.keys()[:min(len(r), 2*n+1)])
		}
		in := wstd
		if lb.f == nil {
			in = func(n int) []rec { return wstd(n)[:1] }
		}
		add(wfam{verb: "label", tmpl: "label " + lb.name, flags: []string{"wide"}, mult: lb.mult, local: true, in: in,
			args: func(n int) []string { return []string{"label", joinc(names(n, in(n)[0]))} },
			want: model(func(n int, r rec) rec {
				L := names(n, r)
				var w rec
				used := map[string]bool{}
				for i, f := range r {
					if i < len(L) {
						w = append(w, fld{L[i], f.v})
						used[L[i]] = true
					}
				}
				for i, f := range r {
					if i >= len(L) && !used[f.k] {
						w = append(w, f)
					}
				}
				return w
			})})
	}

	// ------------------------------------------------------------ whole-record verbs
	add(wfam{verb: "sort-within-records", tmpl: "sort-within-records", flags: []string{"(none)"}, mult: 3, local: true, in: wstd, args: constArgs("sort-within-records"),
		want: model(func(n int, r rec) rec {
			w := r.clone()
			sort.SliceStable(w, func(i, j int) bool { return w[i].k < w[j].k })
			return w
		})})
	nestedIn := func(n int) []rec {
		var out []rec
		for _, s := range wshapes(n) {
			inner := wrecOf(s, func(k string, p int) string { return strconv.Itoa(p) })
			mid := wrecOf(revs(s), func(k string, p int) string {
				if p == len(s)/2 {
					return inner.json()
				}
				return strconv.Itoa(p)
			})
			r := wrecOf(s, func(k string, p int) string {
				if p == 1 {
					return canonValue(mid.json())
				}
				return wval(k, p)
			})
			out = append(out, r)
		}
		return out
	}
	add(wfam{verb: "sort-within-records", tmpl: "sort-within-records -r", flags: []string{"-r (recursive)"}, mult: 3, local: true, jsonOnly: true, in: nestedIn, args: constArgs("sort-within-records", "-r"),
		want: model(func(n int, r rec) rec {
			w := r.clone()
			sort.SliceStable(w, func(i, j int) bool { return w[i].k < w[j].k })
			for i := range w {
				w[i].v = sortNested(w[i].v)
			}
			return w
		})})
	natIn := func(n int) []rec {
		var out []rec
		for _, s := range wshapes(n) {
			var ks []string
			for _, k := range s {
				if k[0] != 't' {
					i, _ := strconv.Atoi(k[1:])
					ks = append(ks, "k"+strconv.Itoa(3*i+int(k[0]-'x')))
				}
			}
			out = append(out, wrecOf(ks, wval))
		}
		return out
	}
	add(wfam{verb: "sort-within-records", tmpl: "sort-within-records -n", flags: []string{"-n"}, mult: 3, local: true, in: natIn, args: constArgs("sort-within-records", "-n"),
		want: model(func(n int, r rec) rec {
			w := r.clone()
			num := func(k string) int { v, _ := strconv.Atoi(k[1:]); return v }
			sort.SliceStable(w, func(i, j int) bool { return num(w[i].k) < num(w[j].k) })
			return w
		})})
	add(wfam{verb: "regularize", tmpl: "regularize", flags: []string{"wide"}, mult: 3, in: func(n int) []rec {
		s := wshapes(n)
		drop := func(l []string, k string) []string {
			var o []string
			for _, x := range l {
				if x != k {
					o = append(o, x)
				}
			}
			return o
		}
		a, c, d := s[0], drop(s[1], "t1"), drop(drop(s[2], "t1"), "t2")
		return []rec{wrecOf(a, wval), wrecOf(c, wval), wrecOf(s[1], wval), wrecOf(d, wval), wrecOf(drop(d, "z01"), wval), wrecOf(drop(a, "z01"), wval), wrecOf(append(revs(s[1])[1:], "t1"), wval)}
	}, args: constArgs("regularize"),
		want: func(n int, in []rec) ([]rec, func(string) bool) {
			first := map[string][]string{}
			var out []rec
			for _, r := range in {
				ks := r.keys()
				sorted := append([]string(nil), ks...)
				sort.Strings(sorted)
				sig := strings.Join(sorted, "\x00")
				if _, ok := first[sig]; !ok {
					first[sig] = ks
				}
				out = append(out, pick(r, first[sig]))
			}
			return out, nil
		}})
	// n different key sets, each seen three times in different orders, interleaved
	add(wfam{verb: "regularize", tmpl: "regularize <n key sets x 3 orders>", flags: []string{"wide"}, mult: 1, args: constArgs("regularize"),
		in: func(n int) []rec {
			var out []rec
			for pass := 0; pass < 3; pass++ {
				for g := 1; g <= n; g++ {
					ks := []string{wk("a", g), "c", wk("b", g), "d"}
					switch pass {
					case 1:
						ks = revs(ks)
					case 2:
						ks = []string{ks[1], ks[0], ks[3], ks[2]}
					}
					if (g+pass)%2 == 0 {
						out = append(out, wrecOf(ks, func(k string, p int) string { return wval(k, p+g+pass) }))
					} else {
						out = append([]rec{wrecOf(ks, func(k string, p int) string { return wval(k, p+g+pass) })}, out...)
					}
				}
			}
			return out
		},
		want: func(n int, in []rec) ([]rec, func(string) bool) {
			first := map[string][]string{}
			var out []rec
			for _, r := range in {
				ks := r.keys()
				sorted := append([]string(nil), ks...)
				sort.Strings(sorted)
				sig := strings.Join(sorted, "\x00")
				if _, ok := first[sig]; !ok {
					first[sig] = ks
				}
				out = append(out, pick(r, first[sig]))
			}
			return out, nil
		}})
	for _, fill := range []string{"", "X"} {
		fill := fill
		a := []string{"unsparsify"}
		if fill != "" {
			a = append(a, "--fill-with", fill)
		}
		add(wfam{verb: "unsparsify", tmpl: strings.Join(a, " "), flags: []string{"wide"}, mult: 3, args: constArgs(a...),
			// record i brings one new key, between two keys seen before; then a record over all keys in reverse order
			in: func(n int) []rec {
				var out []rec
				for i := 1; i <= n; i++ {
					ks := []string{wk("k", i)}
					if i > 1 {
						ks = []string{wk("k", i-1), wk("k", i), wk("k", (i+1)/2)}
						if (i+1)/2 == i-1 {
							ks = ks[:2]
						}
					}
					out = append(out, wrecOf(ks, func(k string, p int) string { return wval(k, p+i) }))
				}
				return append(out, wrecOf(revs(wks("k", n)), wval), rec{{"c", "1"}})
			},
			want: func(n int, in []rec) ([]rec, func(string) bool) {
				var union []string
				seen := map[string]bool{}
				for _, r := range in {
					for _, f := range r {
						if !seen[f.k] {
							seen[f.k] = true
							union = append(union, f.k)
						}
					}
				}
				var out []rec
				for _, r := range in {
					var w rec
					for _, k := range union {
						if j := r.find(k); j >= 0 {
							w = append(w, r[j])
						} else {
							w = append(w, fld{k, S(fill)})
						}
					}
					out = append(out, w)
				}
				return out, func(string) bool { return true } // a filled cell is compared by text (present values are strings/ints that survive either way)
			}})
	}
	for _, s := range []string{"", "X"} {
		s := s
		a := []string{"sparsify"}
		if s != "" {
			a = append(a, "-s", s)
		}
		add(wfam{verb: "sparsify", tmpl: strings.Join(a, " "), flags: []string{"wide"}, mult: 3, local: true, in: wstdWith(wvalSparse), args: constArgs(a...),
			want: model(func(n int, r rec) rec { return without(r, func(k string) bool { return text(r[r.find(k)].v) == s }) })})
	}
	for _, fe := range []struct {
		a    []string
		fill string
	}{{[]string{"fill-empty"}, S("N/A")}, {[]string{"fill-empty", "-v", "X Y"}, S("X Y")}, {[]string{"fill-empty", "-v", "0"}, "0"}, {[]string{"fill-empty", "-S", "-v", "0"}, S("0")}} {
		fe := fe
		add(wfam{verb: "fill-empty", tmpl: strings.Join(fe.a, " "), flags: []string{"wide"}, mult: 3, local: true, in: wstdWith(wvalSparse), args: constArgs(fe.a...),
			want: func(n int, in []rec) ([]rec, func(string) bool) {
				return each(func(r rec) rec {
					w := r.clone()
					for i := range w {
						if text(w[i].v) == "" {
							w[i].v = fe.fill
						}
					}
					return w
				})(in), nil
			}})
	}
	add(wfam{verb: "altkv", tmpl: "altkv", flags: []string{"wide"}, mult: 1, local: true, args: constArgs("altkv"),
		in: func(n int) []rec {
			mk := func(m int) rec {
				return wrecOf(wks("f", m), func(k string, p int) string {
					if p%2 == 0 {
						return S("key" + strconv.Itoa(p/2+1))
					}
					return wval(k, p)
				})
			}
			return []rec{mk(2 * n), mk(2*n - 1)}
		},
		want: model(func(n int, r rec) rec {
			var w rec
			for i := 0; i+1 < len(r); i += 2 {
				w = append(w, fld{text(r[i].v), r[i+1].v})
			}
			if len(r)%2 == 1 {
				w = append(w, fld{strconv.Itoa((len(r) + 1) / 2), r[len(r)-1].v})
			}
			return w
		})})
	add(wfam{verb: "case", tmpl: "case -u", flags: []string{"-u"}, mult: 3, local: true, in: wstd, args: constArgs("case", "-u"),
		want: model(func(n int, r rec) rec { return caseModel(r, nil, true, true, strings.ToUpper) })})
	spaced := func(n int) []rec {
		var out []rec
		for _, s := range wshapes(n) {
			ks := make([]string, len(s))
			for i, k := range s {
				ks[i] = k[:1] + " " + k[1:]
			}
			out = append(out, wrecOf(ks, func(k string, p int) string {
				if p%5 == 3 {
					return strconv.Itoa(100 + p)
				}
				return S("v " + k)
			}))
		}
		return out
	}
	for _, us := range []struct {
		a    []string
		k, v bool
		fill string
	}{{[]string{"unspace"}, true, true, "_"}, {[]string{"unspace", "-k"}, true, false, "_"}, {[]string{"unspace", "-v"}, false, true, "_"}, {[]string{"unspace", "-f", "."}, true, true, "."}} {
		us := us
		add(wfam{verb: "unspace", tmpl: strings.Join(us.a, " "), flags: []string{"wide"}, mult: 3, local: true, in: spaced, args: constArgs(us.a...),
			want: model(func(n int, r rec) rec {
				w := r.clone()
				for i, f := range w {
					if us.k {
						w[i].k = strings.ReplaceAll(f.k, " ", us.fill)
					}
					if us.v && isStr(f.v) {
						w[i].v = S(strings.ReplaceAll(text(f.v), " ", us.fill))
					}
				}
				return w
			})})
	}
	for _, sv := range wSubs {
		sv := sv
		add(wfam{verb: sv.verb, tmpl: sv.verb + " -a " + shq(sv.old) + " " + shq(sv.new), flags: []string{"-a"}, mult: 3, local: true, in: wstd, args: constArgs(sv.verb, "-a", sv.old, sv.new),
			judge: func(n int, in, out []rec) (string, string) { return subJudge(sv, nil, in, out) }})
	}
	for _, g := range []struct {
		a      []string
		div    int64
		half   bool // input has a half-second fraction (only where the decimal places are printed: rounding of dropped decimals is not documented)
		layout string
	}{
		{[]string{"sec2gmt", "-3"}, 1, false, "2006-01-02T15:04:05.000Z"}, {[]string{"sec2gmtdate"}, 1, false, "2006-01-02"},
		{[]string{"sec2gmt", "--millis"}, 1000, false, "2006-01-02T15:04:05Z"}, {[]string{"sec2gmt", "--micros", "-6"}, 1000000, true, "2006-01-02T15:04:05.000000Z"},
	} {
		g := g
		add(wfam{verb: g.a[0], tmpl: strings.Join(g.a, " ") + " <xn,..,x01>", flags: []string{strings.Join(g.a[1:], " ") + " "}, mult: 1, local: true,
			in:   wstdWith(func(k string, p int) string { return scaleEpoch(wvalEpoch(k, p), g.div, g.half) }),
			args: func(n int) []string { return append(append([]string(nil), g.a...), joinc(revs(wks("x", n)))) },
			want: model(func(n int, r rec) rec { return gmtModel(r, setOf(wks("x", n)), g.div, g.layout) })})
	}

	// ------------------------------------------------------------ nest
	pieces := func(n int) []string {
		ps := make([]string, n)
		for i := range ps {
			switch {
			case i%6 == 4:
				ps[i] = strconv.Itoa(i)
			case i%9 == 7:
				ps[i] = ""
			default:
				ps[i] = fmt.Sprintf("p%02d", i+1)
			}
		}
		return ps
	}
	// the field x sits between bystanders; the record crosses 12 fields as n grows
	nestRec := func(xv string, by int) rec {
		var r rec
		for i := 1; i <= by; i++ {
			r = append(r, fld{wk("y", i), wval(wk("y", i), i)})
		}
		r = append(r, fld{"x", xv})
		for i := 1; i <= by; i++ {
			r = append(r, fld{wk("z", i), wval(wk("z", i), i+1)})
		}
		return r
	}
	nestIn := func(n int) []rec {
		return []rec{nestRec(S(strings.Join(pieces(n), ";")), 2), nestRec(S(strings.Join(revs(pieces(n)), ";")), 6), rec{{"y01", "1"}}}
	}
	isX := func(k string) bool { return k == "x" || strings.HasPrefix(k, "x_") }
	explodeF := func(r rec) rec {
		i := r.find("x")
		if i < 0 {
			return r
		}
		w := r[:i:i].clone()
		for j, p := range strings.Split(text(r[i].v), ";") {
			w = append(w, fld{"x_" + strconv.Itoa(j+1), S(p)})
		}
		return append(w, r[i+1:]...)
	}
	add(wfam{verb: "nest", tmpl: "nest --explode --values --across-fields -f x <n pieces>", flags: []string{"--explode --values --across-fields"}, mult: 1, local: true, in: nestIn,
		args: constArgs("nest", "--explode", "--values", "--across-fields", "-f", "x"),
		want: func(n int, in []rec) ([]rec, func(string) bool) { return each(explodeF)(in), isX }})
	add(wfam{verb: "nest", tmpl: "nest --implode --values --across-fields -f x <x_1..x_n>", flags: []string{"--implode --values --across-fields"}, mult: 1, local: true,
		in:   func(n int) []rec { return each(explodeF)(nestIn(n)) },
		args: constArgs("nest", "--implode", "--values", "--across-fields", "-f", "x"),
		want: func(n int, in []rec) ([]rec, func(string) bool) { return nestIn(n), isX }})
	add(wfam{verb: "nest", tmpl: "nest --explode --values --across-fields -f x then nest --implode --values --across-fields -f x <n pieces>", flags: []string{"round trip across fields"}, mult: 1, local: true, in: nestIn,
		args: constArgs("nest", "--explode", "--values", "--across-fields", "-f", "x", "then", "nest", "--implode", "--values", "--across-fields", "-f", "x"),
		want: func(n int, in []rec) ([]rec, func(string) bool) { return in, isX }})
	explodeR := func(r rec) []rec {
		i := r.find("x")
		if i < 0 {
			return []rec{r}
		}
		var out []rec
		for _, p := range strings.Split(text(r[i].v), ";") {
			o := r.clone()
			o[i].v = S(p)
			out = append(out, o)
		}
		return out
	}
	add(wfam{verb: "nest", tmpl: "nest --explode --values --across-records -f x <n pieces>", flags: []string{"--explode --values --across-records"}, mult: 1, local: true, in: nestIn,
		args: constArgs("nest", "--explode", "--values", "--across-records", "-f", "x"),
		want: func(n int, in []rec) ([]rec, func(string) bool) {
			var out []rec
			for _, r := range in {
				out = append(out, explodeR(r)...)
			}
			return out, isX
		}})
	pairIn := func(n int) []rec {
		ps := make([]string, n)
		for i, p := range pieces(n) {
			ps[i] = wk("k", i+1) + ":" + p
		}
		return []rec{nestRec(S(strings.Join(ps, ";")), 2), nestRec(S(strings.Join(revs(ps), ";")), 6), rec{{"y01", "1"}}}
	}
	pairOf := func(p string) fld { i := strings.Index(p, ":"); return fld{p[:i], S(p[i+1:])} }
	isK := func(k string) bool { return k[0] == 'k' }
	add(wfam{verb: "nest", tmpl: "nest --explode --pairs --across-fields -f x <n pairs>", flags: []string{"--explode --pairs --across-fields"}, mult: 1, local: true, in: pairIn,
		args: constArgs("nest", "--explode", "--pairs", "--across-fields", "-f", "x"),
		want: func(n int, in []rec) ([]rec, func(string) bool) {
			return each(func(r rec) rec {
				i := r.find("x")
				if i < 0 {
					return r
				}
				w := r[:i:i].clone()
				for _, p := range strings.Split(text(r[i].v), ";") {
					w = append(w, pairOf(p))
				}
				return append(w, r[i+1:]...)
			})(in), isK
		}})
	add(wfam{verb: "nest", tmpl: "nest --explode --pairs --across-records -f x <n pairs>", flags: []string{"--explode --pairs --across-records"}, mult: 1, local: true, in: pairIn,
		args: constArgs("nest", "--explode", "--pairs", "--across-records", "-f", "x"),
		want: func(n int, in []rec) ([]rec, func(string) bool) {
			var out []rec
			for _, r := range in {
				i := r.find("x")
				if i < 0 {
					out = append(out, r)
					continue
				}
				for _, p := range strings.Split(text(r[i].v), ";") {
					o := r.clone()
					o[i] = pairOf(p)
					out = append(out, o)
				}
			}
			return out, isK
		}})
	// implode across records: n groups (other-field tuples) of 3 pieces, interleaved piece-major; one group of n pieces
	implodeArgs := []string{"nest", "--implode", "--values", "--across-records", "-f", "x"}
	grpRec := func(g int, xv string) rec {
		return rec{{"id", strconv.Itoa(g)}, {"x", S(xv)}, {"u", S("u" + strconv.Itoa(g%3))}}
	}
	add(wfam{verb: "nest", tmpl: strings.Join(implodeArgs, " ") + " <n groups of 3, interleaved>", flags: []string{"--implode --values --across-records"}, mult: 1, args: constArgs(implodeArgs...),
		in: func(n int) []rec {
			var out []rec
			for j := 1; j <= 3; j++ {
				for g := n; g >= 1; g-- {
					out = append(out, grpRec(g, fmt.Sprintf("p%d_%d", g, j)))
				}
			}
			return out
		},
		want: func(n int, in []rec) ([]rec, func(string) bool) {
			var out []rec
			for g := n; g >= 1; g-- {
				out = append(out, grpRec(g, fmt.Sprintf("p%d_1;p%d_2;p%d_3", g, g, g)))
			}
			return out, isX
		}})
	add(wfam{verb: "nest", tmpl: strings.Join(implodeArgs, " ") + " <one group of n pieces among 2 others>", flags: []string{"--implode --values --across-records"}, mult: 1, args: constArgs(implodeArgs...),
		in: func(n int) []rec {
			out := []rec{grpRec(1, "a")}
			for i, p := range pieces(n) {
				out = append(out, grpRec(2, p))
				if i == n/2 {
					out = append(out, grpRec(3, "b"))
				}
			}
			return append(out, grpRec(1, "c"))
		},
		want: func(n int, in []rec) ([]rec, func(string) bool) {
			return []rec{grpRec(1, "a;c"), grpRec(2, strings.Join(pieces(n), ";")), grpRec(3, "b")}, isX
		}})
	add(wfam{verb: "nest", tmpl: "nest --evar ; -f x then nest --ivar ; -f x <n pieces, records with distinct other fields>", flags: []string{"round trip across records"}, mult: 1, in: nestIn,
		args: constArgs("nest", "--evar", ";", "-f", "x", "then", "nest", "--ivar", ";", "-f", "x"),
		// the three records have three different schemas: the order across schemas is not specified (non-streaming)
		judge: func(n int, in, out []rec) (string, string) {
			var classes [][]rec
			for _, r := range in {
				classes = append(classes, []rec{r})
			}
			if !matchClasses(classes, out, func(a, c rec) bool { return recEqLooseF(a, c, isX) }) {
				return strings.TrimSpace(recsJSON(in)), "law: nest explode then implode across records must give the records back when no two share their other fields"
			}
			return "", ""
		}})

	// nest -r: every field whose name matches is exploded, in record order (n matching fields of 1..3 pieces)
	add(wfam{verb: "nest", tmpl: "nest --explode --values --across-fields -r ^x <n matching fields>", flags: []string{"-r"}, mult: 1, local: true,
		in: wstdWith(func(k string, p int) string {
			if k[0] == 'x' {
				return S(strings.Join([]string{"a", "b", "c"}[:1+p%3], ";"))
			}
			return wval(k, p)
		}),
		args: constArgs("nest", "--explode", "--values", "--across-fields", "-r", "^x"),
		want: func(n int, in []rec) ([]rec, func(string) bool) {
			return each(func(r rec) rec {
				var w rec
				for _, f := range r {
					if f.k[0] != 'x' {
						w = append(w, f)
						continue
					}
					for j, p := range strings.Split(text(f.v), ";") {
						w = append(w, fld{f.k + "_" + strconv.Itoa(j+1), S(p)})
					}
				}
				return w
			})(in), nil
		}})
	// ------------------------------------------------------------ reshape long-to-wide
	l2w := []string{"reshape", "-s", "key,value"}
	longRec := func(id int, k string, v string) rec {
		return rec{{"id", strconv.Itoa(id)}, {"key", S(k)}, {"value", v}, {"u", S("c")}}
	}
	add(wfam{verb: "reshape", tmpl: "reshape -s key,value <3 ids x n keys, key-major>", flags: []string{"-s (long-to-wide)"}, mult: 1, args: constArgs(l2w...),
		in: func(n int) []rec {
			var out []rec
			for p, k := range revs(wks("k", n)) {
				for id := 3; id >= 1; id-- {
					out = append(out, longRec(id, k, wval(k, p+id)))
				}
			}
			return out
		},
		want: func(n int, in []rec) ([]rec, func(string) bool) {
			var out []rec
			for id := 3; id >= 1; id-- {
				r := rec{{"id", strconv.Itoa(id)}, {"u", S("c")}}
				for p, k := range revs(wks("k", n)) {
					r = append(r, fld{k, wval(k, p+id)})
				}
				out = append(out, r)
			}
			return out, nil
		}})
	add(wfam{verb: "reshape", tmpl: "reshape -s key,value <n ids x 3 keys, id-major and key-major halves>", flags: []string{"-s (long-to-wide)"}, mult: 1, args: constArgs(l2w...),
		in: func(n int) []rec {
			var out []rec
			for id := n; id >= 1; id-- {
				out = append(out, longRec(id, "k1", strconv.Itoa(id)))
			}
			for _, k := range []string{"k2", "k3"} {
				for id := 1; id <= n; id++ {
					out = append(out, longRec(id, k, S(k+"-"+strconv.Itoa(id))))
				}
			}
			return out
		},
		want: func(n int, in []rec) ([]rec, func(string) bool) {
			var out []rec
			for id := n; id >= 1; id-- {
				s := strconv.Itoa(id)
				out = append(out, rec{{"id", s}, {"u", S("c")}, {"k1", s}, {"k2", S("k2-" + s)}, {"k3", S("k3-" + s)}})
			}
			return out, nil
		}})

	// ------------------------------------------------------------ flatten / unflatten / json (maps and arrays of n members)
	collIn := func(n int) []rec {
		var out []rec
		for si, s := range wshapes(n) {
			m := wrecOf(s, func(k string, p int) string {
				if p == 2 {
					return `{"b":{"c":` + strconv.Itoa(p) + `},"a":[]}`
				}
				return wval(k, p)
			})
			arr := make([]string, n)
			for i := range arr {
				arr[i] = wval("e", i+si)
				if i == n/2 {
					arr[i] = `{"p":[` + strconv.Itoa(i) + `,"q"]}`
				}
			}
			out = append(out, rec{{"y", "1"}, {"m", canonValue(m.json())}, {"b c", S("s")}, {"arr", "[" + strings.Join(arr, ",") + "]"}, {"z", S("")}})
		}
		return out
	}
	flat := func(sep string, only func(string) bool) func(n int, r rec) rec {
		return func(n int, r rec) rec {
			var w rec
			for _, f := range r {
				if only(f.k) {
					w = append(w, flattenModel(f.k, f.v, sep)...)
				} else {
					w = append(w, f)
				}
			}
			return w
		}
	}
	all := func(string) bool { return true }
	add(wfam{verb: "flatten", tmpl: "flatten <map of 3n keys, array of n>", flags: []string{"(none)"}, mult: 4, local: true, jsonOnly: true, in: collIn, args: constArgs("flatten"), want: model(flat(".", all))})
	add(wfam{verb: "flatten", tmpl: "flatten -s : -f arr,q <map of 3n keys, array of n>", flags: []string{"-f -s"}, mult: 1, local: true, jsonOnly: true, in: collIn, args: constArgs("flatten", "-s", ":", "-f", "arr,q"),
		want: model(flat(":", func(k string) bool { return k == "arr" }))})
	add(wfam{verb: "unflatten", tmpl: "flatten then unflatten <map of 3n keys, array of n>", flags: []string{"round trip"}, mult: 4, local: true, jsonOnly: true, in: collIn, args: constArgs("flatten", "then", "unflatten"),
		want: model(func(n int, r rec) rec { return r })})
	add(wfam{verb: "unflatten", tmpl: "flatten -s : then unflatten -s : -f m <map of 3n keys, array of n>", flags: []string{"-f -s"}, mult: 3, local: true, jsonOnly: true, in: collIn, args: constArgs("flatten", "-s", ":", "then", "unflatten", "-s", ":", "-f", "m"),
		want: model(func(n int, r rec) rec {
			var w rec
			for _, f := range r {
				if f.k == "arr" {
					w = append(w, flattenModel(f.k, f.v, ":")...)
				} else {
					w = append(w, f)
				}
			}
			return w
		})})
	// unflatten of flat fields (all three input modes): m.<key> fields and a.1..a.n interleaved with bystanders
	add(wfam{verb: "unflatten", tmpl: "unflatten <m.x01.. (n keys) and a.1..a.n interleaved with n bystanders>", flags: []string{"(none)"}, mult: 2, local: true, args: constArgs("unflatten"),
		in: func(n int) []rec {
			x, z := wks("x", n), wks("z", n)
			var mk, ak []string
			for i, k := range x {
				mk = append(mk, "m."+k)
				ak = append(ak, "a."+strconv.Itoa(i+1))
			}
			return []rec{wrecOf(interleave(mk, z, ak), wvalNoEmpty), wrecOf(interleave(z, ak, revs(mk)), wvalNoEmpty)}
		},
		judge: func(n int, in, out []rec) (string, string) {
			if len(in) != len(out) {
				return "one record per input", "model: record count changed"
			}
			for i, r := range in {
				dotted := func(k string) bool { return strings.Contains(k, ".") || k == "m" || k == "a" }
				if w, y := bystander(r, out[i], dotted); y != "" {
					return w, y
				}
				var m rec
				var a []string
				for _, f := range r {
					if strings.HasPrefix(f.k, "m.") {
						m = append(m, fld{f.k[2:], f.v})
					} else if strings.HasPrefix(f.k, "a.") {
						a = append(a, f.v)
					}
				}
				wm, wa := canonValue(m.json()), "["+strings.Join(a, ",")+"]"
				jm, ja := out[i].find("m"), out[i].find("a")
				if len(out[i]) != n+2 || jm < 0 || ja < 0 || out[i][jm].v != wm || out[i][ja].v != wa {
					return "m = " + wm + ", a = " + wa + " and the " + strconv.Itoa(n) + " bystanders", "model: unflatten must gather the m.* fields into one map (keys in record order) and a.1..a.n into an array"
				}
			}
			return "", ""
		}})
	add(wfam{verb: "json-stringify", tmpl: "json-stringify then json-parse <map of 3n keys, array of n>", flags: []string{"round-trip "}, mult: 4, local: true, jsonOnly: true, in: collIn, args: constArgs("json-stringify", "then", "json-parse"),
		want: model(func(n int, r rec) rec { return r })})
	add(wfam{verb: "json-stringify", tmpl: "json-stringify -f m,arr <map of 3n keys, array of n>", flags: []string{"-f"}, mult: 4, local: true, jsonOnly: true, in: collIn, args: constArgs("json-stringify", "-f", "m,arr"),
		judge: func(n int, in, out []rec) (string, string) {
			if len(in) != len(out) {
				return "one record per input", "model: record count changed"
			}
			for i := range in {
				if len(in[i]) != len(out[i]) {
					return "same fields", "model: json-stringify changed the number of fields"
				}
				for j, f := range in[i] {
					o := out[i][j]
					named := f.k == "m" || f.k == "arr"
					if o.k != f.k || (!named && o.v != f.v) {
						return in[i].json(), "bystander: json-stringify -f changed a field it was not given, or the field order"
					}
					if named && (!isStr(o.v) || canonValue(text(o.v)) != f.v) {
						return "a string holding the JSON encoding of " + f.v, "model: json-stringify must produce a string holding the JSON encoding of the value (member order included)"
					}
				}
			}
			return "", ""
		}})
	// json-parse -k on cells that hold no JSON text (strings, the empty string) or are numbers already: nothing changes
	add(wfam{verb: "json-parse", tmpl: "json-parse -k <3n unparsable or numeric cells>", flags: []string{"-k"}, mult: 3, local: true, in: wstdWith(func(k string, p int) string {
		if v := wval(k, p); v != S("") {
			return v
		}
		return S("{")
	}), args: constArgs("json-parse", "-k"),
		want: model(func(n int, r rec) rec { return r })})
	return F
}

// ---------------------------------------------------------------- small models

func presentOf(r rec, names []string) []string {
	var out []string
	for _, k := range names {
		if r.has(k) {
			out = append(out, k)
		}
	}
	return out
}

// w2lModel: reshape wide-to-long of one record: per selected field, the other
// fields unchanged followed by key and value. A record with none of the input
// fields passes through (as the narrow enumeration accepts).
func w2lModel(r rec, sel []string) []rec {
	if len(sel) == 0 {
		return []rec{r}
	}
	s := setOf(sel)
	others := without(r, func(k string) bool { return s[k] })
	var outs []rec
	for _, k := range sel {
		o := others.clone()
		outs = append(outs, append(o, fld{"key", S(k)}, fld{"value", r[r.find(k)].v}))
	}
	return outs
}

func renameKeys(r rec, f func(string) string) rec {
	w := r.clone()
	for i := range w {
		w[i].k = f(w[i].k)
	}
	return w
}

func caseModel(r rec, only map[string]bool, keys, vals bool, f func(string) string) rec {
	w := r.clone()
	for i, fl := range w {
		if only != nil && !only[fl.k] {
			continue
		}
		if keys {
			w[i].k = f(fl.k)
		}
		if vals && isStr(fl.v) {
			w[i].v = S(f(text(fl.v)))
		}
	}
	return w
}

func wvalSparse(k string, p int) string {
	switch {
	case p%2 == 0:
		return S("")
	case p%3 == 0:
		return S("X")
	}
	return wval(k, p)
}

func wvalNoEmpty(k string, p int) string {
	if p%5 == 3 {
		return strconv.Itoa(100 + p)
	}
	return S("v" + k)
}

// wvalEpoch: x and z fields hold integer epoch seconds, y fields strings (non-numbers), every 7th field is empty.
func wvalEpoch(k string, p int) string {
	switch {
	case p%7 == 5:
		return S("")
	case k[0] == 'y':
		return S("v" + k)
	}
	return strconv.FormatInt(1500000000+int64(p)*86461, 10)
}

// scaleEpoch turns seconds into milli/microseconds with a half-second fraction (exactly representable).
func scaleEpoch(v string, div int64, half bool) string {
	if isStr(v) || div == 1 {
		return v
	}
	s, _ := strconv.ParseInt(v, 10, 64)
	if half {
		return strconv.FormatInt(s*div+div/2, 10)
	}
	return strconv.FormatInt(s*div, 10)
}

// gmtModel: reference for sec2gmt/sec2gmtdate on integer input (Go's time package): named numeric fields
// become UTC timestamps, everything else (non-numbers included) is left as-is.
func gmtModel(r rec, named map[string]bool, div int64, layout string) rec {
	w := r.clone()
	for i, f := range w {
		if !named[f.k] || isStr(f.v) {
			continue
		}
		v, err := strconv.ParseInt(f.v, 10, 64)
		if err != nil {
			continue
		}
		t := time.Unix(v/div, (v%div)*(1000000000/div)).UTC()
		w[i].v = S(t.Format(layout))
	}
	return w
}

type wsub struct{ verb, old, new string }

var wSubs = []wsub{{"sub", "[0-9]", "#"}, {"gsub", "[0-9]", "#"}, {"ssub", "0", "."}, {"gsub", "^(v)(.)", `\2\1`}}

// subJudge: sub/gsub/ssub on the named fields (nil = all): names, order and
// unnamed fields untouched; named string values substituted (reference: Go's
// regexp with Miller's \1 captures); named non-string values are not asserted.
func subJudge(sv wsub, named map[string]bool, in, out []rec) (string, string) {
	if len(in) != len(out) {
		return "one record per input", "model: record count changed"
	}
	re := compileMillerRegex(sv.old).re
	for i, r := range in {
		if len(r) != len(out[i]) {
			return r.json(), "model: " + sv.verb + " changed the number of fields"
		}
		for j, f := range r {
			o := out[i][j]
			if o.k != f.k {
				return r.json(), "model: " + sv.verb + " changed a field name or the field order"
			}
			sel := named == nil || named[f.k]
			if !sel {
				if o.v != f.v {
					return r.json(), "bystander: fields the verb does not name changed name, value or relative order"
				}
				continue
			}
			if !isStr(f.v) {
				continue
			}
			var wv string
			switch sv.verb {
			case "sub":
				wv = millerSub(text(f.v), re, sv.new, false)
			case "gsub":
				wv = millerSub(text(f.v), re, sv.new, true)
			default:
				wv = strings.Replace(text(f.v), sv.old, sv.new, 1)
			}
			if text(o.v) != wv {
				return f.k + " = " + wv, "model: " + sv.verb + " must substitute in exactly the named string values"
			}
		}
	}
	return "", ""
}
