package c12

// flatten/unflatten, json-stringify/json-parse, sec2gmt, altkv, case, unspace, sub/gsub/ssub.

import (
	"fmt"
	"strconv"
	"strings"
)

// splitArray splits a compact JSON array text into its element texts.
func splitArray(v string) []string {
	j := &jscan{s: v, p: 1}
	var out []string
	for {
		j.ws()
		if j.p >= len(j.s) || j.s[j.p] == ']' {
			return out
		}
		var tok string
		switch j.s[j.p] {
		case '"':
			tok, _ = j.str()
		case '{', '[':
			tok, _ = j.balanced()
		default:
			q := j.p
			for q < len(j.s) && j.s[q] != ',' && j.s[q] != ']' {
				q++
			}
			tok = j.s[j.p:q]
			j.p = q
		}
		out = append(out, canonValue(tok))
		j.ws()
		if j.p < len(j.s) && j.s[j.p] == ',' {
			j.p++
		}
	}
}

// flattenModel: key-spreading per flatten-unflatten.md; empty collections become "{}" / "[]".
func flattenModel(k, v, sep string) rec {
	if len(v) > 0 && v[0] == '{' {
		o, err := parseObject(v)
		if err != nil {
			return rec{{k, v}}
		}
		if len(o) == 0 {
			return rec{{k, S("{}")}}
		}
		var out rec
		for _, f := range o {
			out = append(out, flattenModel(k+sep+f.k, f.v, sep)...)
		}
		return out
	}
	if len(v) > 0 && v[0] == '[' {
		el := splitArray(v)
		if len(el) == 0 {
			return rec{{k, S("[]")}}
		}
		var out rec
		for i, e := range el {
			out = append(out, flattenModel(k+sep+strconv.Itoa(i+1), e, sep)...)
		}
		return out
	}
	return rec{{k, v}}
}

func (b *vb) flattenUnflatten(quick bool) {
	nestedVals := []string{`{"x":1,"y":{"z":"s","w":2.50}}`, `{}`, `[]`, `[1,{"p":2},[3]]`, `{"1":7,"3":9}`, `{"x":{}}`, `7`, S("s"), S("")}
	var recs []rec
	for i, v := range nestedVals {
		for j, u := range nestedVals {
			recs = append(recs, rec{{"a", v}, {"b c", u}}, rec{{"k", tracer[(i+j)%len(tracer)]}, {"b c", u}, {"a", v}})
		}
	}
	for _, c := range []struct {
		args []string
		f    func(k string) bool
		sep  string
		flag string
	}{
		{[]string{"flatten"}, func(string) bool { return true }, ".", "(none)"},
		{[]string{"flatten", "-s", ":"}, func(string) bool { return true }, ":", "-s"},
		{[]string{"flatten", "-f", "a"}, func(k string) bool { return k == "a" }, ".", "-f"},
		{[]string{"flatten", "-f", "b c,z", "-s", "__"}, func(k string) bool { return k == "b c" }, "__", "-f -s"},
	} {
		c := c
		if !b.unit(strings.Join(c.args, " ")) {
			continue
		}
		b.hit("flatten", c.flag)
		b.run11("flatten", c.args, recs, func(in, out rec) (string, string) {
			var wnt rec
			for _, f := range in {
				if c.f(f.k) {
					wnt = append(wnt, flattenModel(f.k, f.v, c.sep)...)
				} else {
					wnt = append(wnt, f)
				}
			}
			if hasDupKeys(wnt) != "" {
				b.unconstrained("flatten: spread keys collide", 1)
				return bystander(in, out, c.f)
			}
			if !recEq(wnt, out) {
				return wnt.json(), "model: flatten must key-spread exactly the (selected) map/array-valued fields in place and touch nothing else"
			}
			return "", ""
		})
	}
	// round trip on the documented domain
	domVals := []string{`{"x":1,"y":{"z":"s","w":2.50}}`, `{}`, `[]`, `[1,{"p":2},[3]]`, `{"1":7,"3":9}`, `{"x":{}}`, `{"x":[]}`, `7`, S("s"), S(""), `[[],{}]`}
	var dom []rec
	for i, v := range domVals {
		for j, u := range domVals {
			dom = append(dom, rec{{"a", v}, {"b c", u}}, rec{{"k", tracer[(i+j)%len(tracer)]}, {"b c", u}, {"a", v}})
		}
	}
	for _, c := range [][]string{
		{"flatten", "then", "unflatten"},
		{"flatten", "-s", ":", "then", "unflatten", "-s", ":"},
		{"flatten", "-f", "a", "then", "unflatten", "-f", "a"},
	} {
		if !b.unit(strings.Join(c, " ")) {
			continue
		}
		b.hit("unflatten", strings.Join(c[len(c)-1-boolInt(len(c) > 3)*2:], " "))
		b.w.Count("law:flatten then unflatten = id", 1)
		b.run11("flatten-law", c, dom, func(in, out rec) (string, string) {
			if !recEq(in, out) {
				return in.json(), "law: flatten then unflatten must give the record back"
			}
			return "", ""
		})
	}
	// unflatten -f: fields not named keep name, value and order
	flat := []rec{
		{{"a.x", "1"}, {"b.y", "2"}, {"a.z", "3"}, {"c", S("s")}},
		{{"b.y", S("{}")}, {"a.x", "1"}, {"c", S("{}")}},
		{{"c", S("[]")}, {"a.1", "5"}, {"a.2", "6"}, {"b c.q", S("")}},
		{{"c", S("x")}, {"d.e", S("[]")}},
	}
	if b.unit("unflatten -f a") {
		b.hit("unflatten", "-f")
		b.run11("unflatten", []string{"unflatten", "-f", "a"}, flat, func(in, out rec) (string, string) {
			return bystander(in, out, func(k string) bool { return k == "a" || strings.HasPrefix(k, "a.") })
		})
	}
}

func boolInt(b bool) int {
	if b {
		return 1
	}
	return 0
}

// ---------------------------------------------------------------- json-stringify / json-parse

func (b *vb) jsonVerbs(quick bool) {
	vals := []string{"1", "2.50", "-0.0", "true", S("s"), S(""), S("x;y"), S(`{"p":1}`), S(`say "hi"`), `{"p":1,"q":[1,2,{"r":"t"}]}`, `[]`, `{}`, `[1,"a",[2]]`}
	var recs []rec
	for i, v := range vals {
		for _, u := range vals {
			recs = append(recs, rec{{"a", v}, {"b c", u}}, rec{{"k", tracer[i%len(tracer)]}, {"b c", u}, {"a", v}})
		}
	}
	for _, c := range []struct {
		args []string
		f    func(k string) bool
	}{
		{[]string{"json-stringify", "then", "json-parse"}, func(string) bool { return true }},
		{[]string{"json-stringify", "-f", "a", "then", "json-parse", "-f", "a"}, func(k string) bool { return k == "a" }},
		{[]string{"json-stringify", "--jvstack", "-f", "b c", "then", "json-parse", "-f", "b c"}, func(k string) bool { return k == "b c" }},
	} {
		if !b.unit(strings.Join(c.args, " ")) {
			continue
		}
		b.hit("json-stringify", "round-trip "+strings.Join(c.args[1:len(c.args)/2], " "))
		b.hit("json-parse", "round-trip")
		b.w.Count("law:json-stringify then json-parse = id", 1)
		b.run11("json-law", c.args, recs, func(in, out rec) (string, string) {
			if !recEq(in, out) {
				return in.json(), "law: json-stringify then json-parse must give the record back"
			}
			return "", ""
		})
	}
	for _, c := range []struct {
		args []string
		f    func(k string) bool
		flag string
	}{
		{[]string{"json-stringify"}, func(string) bool { return true }, "(none)"},
		{[]string{"json-stringify", "-f", "a,z"}, func(k string) bool { return k == "a" }, "-f"},
		{[]string{"json-stringify", "--no-jvstack", "-f", "b c"}, func(k string) bool { return k == "b c" }, "--no-jvstack"},
	} {
		c := c
		if !b.unit(strings.Join(c.args, " ")) {
			continue
		}
		b.hit("json-stringify", c.flag)
		b.run11("json-stringify", c.args, recs, func(in, out rec) (string, string) {
			if len(in) != len(out) {
				return "same fields", "model: json-stringify changed the number of fields"
			}
			for i, f := range in {
				if out[i].k != f.k {
					return in.json(), "model: json-stringify changed a field name"
				}
				if !c.f(f.k) {
					if out[i].v != f.v {
						return in.json(), "bystander: json-stringify -f changed a field it was not given"
					}
					continue
				}
				// the output must be a string holding JSON text that denotes the input value
				if !isStr(out[i].v) || canonValue(text(out[i].v)) != f.v {
					return "a string holding the JSON encoding of " + f.v, "model: json-stringify must produce a string holding the JSON encoding of the value"
				}
			}
			return "", ""
		})
	}
	// json-parse: parsable strings become values; -k keeps unparsable ones; -f bystanders
	pvals := []string{S("1"), S(`{"p":1,"q":[1,2]}`), S(`[1,"a"]`), S(`"s"`), S("true"), S("abc"), S("{"), "3"}
	var precs []rec
	for _, v := range pvals {
		for _, u := range pvals {
			precs = append(precs, rec{{"a", v}, {"b c", u}})
		}
	}
	parsable := func(v string) (string, bool) {
		t := text(v)
		switch t {
		case "abc", "{":
			return "", false
		}
		return canonValue(t), true
	}
	for _, c := range []struct {
		args []string
		f    func(k string) bool
		keep bool
	}{
		{[]string{"json-parse", "-k"}, func(string) bool { return true }, true},
		{[]string{"json-parse", "-k", "-f", "a"}, func(k string) bool { return k == "a" }, true},
		{[]string{"json-parse", "-f", "b c"}, func(k string) bool { return k == "b c" }, false},
	} {
		c := c
		if !b.unit(strings.Join(c.args, " ")) {
			continue
		}
		b.hit("json-parse", strings.Join(c.args[1:], " "))
		var in []rec
		for _, r := range precs {
			ok := true
			for _, f := range r {
				if _, p := parsable(f.v); c.f(f.k) && !p && !c.keep {
					ok = false // without -k an unparsable cell becomes an error value: not asserted
				}
			}
			if ok {
				in = append(in, r)
			} else {
				b.unconstrained("json-parse without -k on an unparsable cell", 1)
			}
		}
		b.run11("json-parse", c.args, in, func(in, out rec) (string, string) {
			wnt := in.clone()
			for i, f := range wnt {
				if !c.f(f.k) || !isStr(f.v) {
					continue
				}
				if p, ok := parsable(f.v); ok {
					wnt[i].v = p
				}
			}
			if !recEq(wnt, out) {
				return wnt.json(), "model: json-parse must turn exactly the (selected) string values holding JSON text into the values they denote; with -k unparsable ones are kept; other fields untouched"
			}
			return "", ""
		})
	}
}

// ---------------------------------------------------------------- sec2gmt / sec2gmtdate

func (b *vb) sec2gmt(quick bool) {
	nums := []string{"0", "1", "-1", "1500000000", "1500000000.123456", "1500000000123", "17e8", "253402300799", "-62135596800", "0.5", "1500000000999999"}
	non := []string{S(""), S("abc"), S("2017-07-14"), S("1500000000")}
	var recs, numRecs []rec
	for i, v := range nums {
		r := rec{{"o", S("keep")}, {"t", v}, {"u", nums[(i+3)%len(nums)]}, {"b c", "1500000000"}}
		recs = append(recs, r)
		numRecs = append(numRecs, r)
	}
	for i, v := range non {
		recs = append(recs, rec{{"t", v}, {"o", "1500000000"}, {"u", nums[i]}}, rec{{"u", v}, {"o", S("")}})
	}
	type sc struct {
		args []string
		dsl  string
		in   []rec
	}
	cases := []sc{
		{[]string{"sec2gmt", "t"}, `$t = sec2gmt($t)`, recs},
		{[]string{"sec2gmt", "t,u"}, `$t = sec2gmt($t); $u = sec2gmt($u)`, recs},
		{[]string{"sec2gmt", "u,z,t"}, `$u = sec2gmt($u); $z = sec2gmt($z); $t = sec2gmt($t)`, recs},
		{[]string{"sec2gmt", "b c"}, `${b c} = sec2gmt(${b c})`, recs},
		{[]string{"sec2gmtdate", "t,u"}, `$t=sec2gmtdate($t);$u=sec2gmtdate($u)`, recs},
	}
	for n := 1; n <= 9; n++ {
		if quick && n != 1 && n != 3 && n != 6 && n != 9 {
			continue
		}
		cases = append(cases, sc{[]string{"sec2gmt", "-" + strconv.Itoa(n), "t,u"}, fmt.Sprintf(`$t = sec2gmt($t, %d); $u = sec2gmt($u, %d)`, n, n), recs})
	}
	for _, m := range []struct {
		flag string
		div  string
	}{{"--millis", "1000"}, {"--micros", "1000000"}, {"--nanos", "1000000000"}} {
		cases = append(cases,
			sc{[]string{"sec2gmt", m.flag, "t"}, fmt.Sprintf(`$t = sec2gmt($t / %s)`, m.div), numRecs},
			sc{[]string{"sec2gmt", "-3", m.flag, "t,u"}, fmt.Sprintf(`$t = sec2gmt($t / %s, 3); $u = sec2gmt($u / %s, 3)`, m.div, m.div), numRecs},
			sc{[]string{"sec2gmt", m.flag, "-6", "t"}, fmt.Sprintf(`$t = sec2gmt($t / %s, 6)`, m.div), numRecs})
	}
	for _, c := range cases {
		c := c
		if !b.unit(strings.Join(c.args, " ")) {
			continue
		}
		b.hit(c.args[0], strings.Join(c.args[1:len(c.args)-1], " ")+" ")
		b.w.Count("law:sec2gmt verb == documented DSL equivalent", 1)
		x := b.mlr(c.args, c.in)
		y := b.mlr([]string{"put", c.dsl}, c.in)
		b.w.Eval(int64(len(c.in)))
		if !x.res.OK() || !y.res.OK() || x.res.Stdout != y.res.Stdout {
			// find the first differing record
			for _, r := range c.in {
				x1 := b.mlr(c.args, []rec{r})
				y1 := b.mlr([]string{"put", c.dsl}, []rec{r})
				if x1.res.Stdout != y1.res.Stdout || x1.res.Exit != y1.res.Exit {
					// failure class in the key: a known discrepancy on non-numbers must not mask one on numbers
					b.keySuffix = " [numeric values]"
					for _, f := range r {
						if inList(strings.Split(c.args[len(c.args)-1], ","), f.k) && isStr(f.v) {
							b.keySuffix = " [non-numeric value in a named field]"
						}
					}
					b.fail(c.args[0]+"-dsl", c.args, []rec{r}, strings.TrimSpace(x1.res.Stdout), strings.TrimSpace(y1.res.Stdout)+"  (= mlr put '"+c.dsl+"')", "dsl: keystroke-saver verb and its documented DSL equivalent disagree")
					b.keySuffix = ""
					break
				}
			}
			continue
		}
		b.w.Nontrivial(int64(len(c.in)))
		// bystander + non-numbers as-is, from the verb's own output
		names := strings.Split(c.args[len(c.args)-1], ",")
		for i, in := range c.in {
			if i >= len(x.recs) {
				break
			}
			if w, y := bystander(in, x.recs[i], func(k string) bool { return inList(names, k) }); y != "" {
				b.fail(c.args[0]+"-bystander", c.args, []rec{in}, x.recs[i].json(), w, y)
			}
			for _, f := range in {
				if inList(names, f.k) && isStr(f.v) {
					if j := x.recs[i].find(f.k); j < 0 || x.recs[i][j].v != f.v {
						b.fail(c.args[0]+"-model", c.args, []rec{in}, x.recs[i].json(), in.json(), "model: sec2gmt must leave non-numbers as-is")
					}
				}
			}
		}
	}
}

// ---------------------------------------------------------------- altkv

func (b *vb) altkv(quick bool) {
	alpha := []string{S("p"), S("q r"), "1", S(""), S("a.b")}
	var recs []rec
	for _, vs := range keyLists(alpha, 5, false)[1:] {
		var r rec
		for i, v := range vs {
			r = append(r, fld{"k" + strconv.Itoa(i+1), v})
		}
		recs = append(recs, r)
	}
	for _, vs := range keyLists(alpha[:3], 4, true)[1:] {
		if !hasRepeats(vs) {
			continue
		}
		var r rec
		for i, v := range vs {
			r = append(r, fld{"k" + strconv.Itoa(i+1), v})
		}
		recs = append(recs, r)
	}
	if !b.unit("altkv") {
		return
	}
	b.hit("altkv")
	b.run11("altkv", []string{"altkv"}, recs, func(in, out rec) (string, string) {
		var wnt rec
		for i := 0; i+1 < len(in); i += 2 {
			wnt = append(wnt, fld{text(in[i].v), in[i+1].v})
		}
		if len(in)%2 == 1 {
			wnt = append(wnt, fld{strconv.Itoa((len(in) + 1) / 2), in[len(in)-1].v})
		}
		if hasDupKeys(wnt) != "" {
			b.unconstrained("altkv: repeated key text", 1)
			return "", ""
		}
		if !recEq(wnt, out) {
			return wnt.json(), "model: altkv must pair the values up as key=value in order (an odd last value gets its pair number as key)"
		}
		return "", ""
	})
}

// ---------------------------------------------------------------- case

func asciiTitle(s string) string {
	w := strings.Split(s, " ")
	for i, x := range w {
		if x != "" {
			w[i] = strings.ToUpper(x[:1]) + strings.ToLower(x[1:])
		}
	}
	return strings.Join(w, " ")
}

func asciiSentence(s string) string {
	if s == "" {
		return s
	}
	return strings.ToUpper(s[:1]) + strings.ToLower(s[1:])
}

func (b *vb) caseVerb(quick bool) {
	keys := []string{"ab", "Cd", "e fG", "H"}
	vals := []string{S("hello World"), S("mIxed cASE x"), "12", S(""), S("Q")}
	var recs []rec
	for n, ks := range keyLists(keys, 3, false)[1:] {
		var r rec
		for i, k := range ks {
			r = append(r, fld{k, vals[(i+n)%len(vals)]})
		}
		recs = append(recs, r)
	}
	styles := []struct {
		flag string
		f    func(string) string
	}{{"-u", strings.ToUpper}, {"-l", strings.ToLower}, {"-s", asciiSentence}, {"-t", asciiTitle}}
	for _, st := range styles {
		for _, which := range []string{"", "-k", "-v"} {
			for _, F := range [][]string{nil, {"ab"}, {"e fG", "z", "Cd"}} {
				st, which, F := st, which, F
				args := []string{"case", st.flag}
				flags := []string{st.flag}
				if which != "" {
					args = append(args, which)
					flags = append(flags, which)
				}
				if F != nil {
					args = append(args, "-f", joinc(F))
					flags = append(flags, "-f")
				}
				if !b.unit(strings.Join(args, " ")) {
					continue
				}
				b.hit("case", flags...)
				b.run11("case", args, recs, func(in, out rec) (string, string) {
					wnt := in.clone()
					for i, f := range wnt {
						if F != nil && !inList(F, f.k) {
							continue
						}
						if which != "-v" {
							wnt[i].k = st.f(f.k)
						}
						if which != "-k" && isStr(f.v) {
							wnt[i].v = S(st.f(text(f.v)))
						}
					}
					if hasDupKeys(wnt) != "" {
						b.unconstrained("case: cased keys collide", 1)
						return "", ""
					}
					if !recEq(wnt, out) {
						return wnt.json(), "model: case must change the letter case of exactly the (selected) keys and/or string values and nothing else"
					}
					return "", ""
				})
			}
		}
	}
}

// ---------------------------------------------------------------- unspace

func (b *vb) unspace(quick bool) {
	keys := []string{"a b", "c", " d  e "}
	vals := []string{S("x y"), S(" "), "1", S(""), S("no_space")}
	var recs []rec
	for n, ks := range keyLists(keys, 3, false)[1:] {
		var r rec
		for i, k := range ks {
			r = append(r, fld{k, vals[(i+n)%len(vals)]})
		}
		recs = append(recs, r)
	}
	for _, filler := range []string{"", ".", "XY"} {
		for _, which := range []string{"", "-k", "-v"} {
			filler, which := filler, which
			args := []string{"unspace"}
			flags := []string{"(none)"}
			if filler != "" {
				args = append(args, "-f", filler)
				flags = []string{"-f"}
			}
			if which != "" {
				args = append(args, which)
				flags = append(flags, which)
			}
			if !b.unit(strings.Join(args, " ")) {
				continue
			}
			b.hit("unspace", flags...)
			fill := filler
			if fill == "" {
				fill = "_"
			}
			b.run11("unspace", args, recs, func(in, out rec) (string, string) {
				wnt := in.clone()
				for i, f := range wnt {
					if which != "-v" {
						wnt[i].k = strings.ReplaceAll(f.k, " ", fill)
					}
					if which != "-k" && isStr(f.v) {
						wnt[i].v = S(strings.ReplaceAll(text(f.v), " ", fill))
					}
				}
				if hasDupKeys(wnt) != "" {
					b.unconstrained("unspace: unspaced keys collide", 1)
					return "", ""
				}
				if !recEq(wnt, out) {
					return wnt.json(), "model: unspace must replace the spaces in keys and/or string values by the filler and change nothing else"
				}
				return "", ""
			})
		}
	}
}

// ---------------------------------------------------------------- sub / gsub / ssub

func (b *vb) subs(quick bool) {
	svals := []string{S("hello"), S("a.c abc"), S(""), S("l"), S("ll-l")}
	keys := []string{"a", "b c", "a*", "c"}
	var recs []rec // all-string records (domain of the verb == function law)
	for n, ks := range keyLists(keys, 3, false)[1:] {
		var r rec
		for i, k := range ks {
			r = append(r, fld{k, svals[(i+n)%len(svals)]})
		}
		recs = append(recs, r)
	}
	mixed := append([]rec(nil), recs...)
	mixed = append(mixed, rec{{"a", "17"}, {"c", S("17")}, {"b c", "1.5"}}, wideRec(0))
	pats := []struct{ old, new string }{{"l", "X"}, {"(l+)", `<\1>`}, {"a.c", "-"}, {"^", ">"}, {"z", "y"}, {".", ""}}
	dslName := func(k string) string { return "${" + k + "}" }
	for _, verb := range []string{"sub", "gsub", "ssub"} {
		for _, p := range pats {
			if verb == "ssub" && strings.Contains(p.new, `\`) {
				continue
			}
			type sel struct {
				args  []string
				named func(k string) bool
				flag  string
			}
			mrA := compileMillerRegex(`^a`)
			sels := []sel{
				{[]string{"-f", "a"}, func(k string) bool { return k == "a" }, "-f"},
				{[]string{"-f", "b c,z,a*"}, func(k string) bool { return k == "b c" || k == "a*" }, "-f"},
				{[]string{"-a"}, func(string) bool { return true }, "-a"},
				{[]string{"-r", "-f", `^a`}, func(k string) bool { return mrA.re.MatchString(k) }, "-r -f"},
			}
			for _, s := range sels {
				verb, p, s := verb, p, s
				args := append(append([]string{verb}, s.args...), p.old, p.new)
				if !b.unit(strings.Join(args, " ")) {
					continue
				}
				b.hit(verb, s.flag)
				b.w.Count("law:sub/gsub/ssub verb == DSL function on the selected fields", 1)
				// DSL equivalent on the fields the selection names
				var sb strings.Builder
				sb.WriteString("for (k, v in $*) { if (")
				switch s.flag {
				case "-a":
					sb.WriteString("true")
				case "-r -f":
					sb.WriteString(`strmatch(k, "^a")`) // not =~, which would set the \1 captures
				default:
					var alts []string
					for _, k := range keys {
						if s.named(k) {
							alts = append(alts, `k == "`+k+`"`)
						}
					}
					sb.WriteString(strings.Join(alts, " || "))
				}
				fmt.Fprintf(&sb, `) { $[k] = %s(v, "%s", "%s") } }`, verb, strings.ReplaceAll(p.old, `\`, `\\`), p.new)
				_ = dslName
				dsl := sb.String()
				x := b.mlr(args, recs)
				y := b.mlr([]string{"put", dsl}, recs)
				b.w.Eval(int64(len(recs)))
				if !x.res.OK() || !y.res.OK() || x.res.Stdout != y.res.Stdout {
					reported := false
					for _, r := range recs {
						x1 := b.mlr(args, []rec{r})
						y1 := b.mlr([]string{"put", dsl}, []rec{r})
						if x1.res.Stdout != y1.res.Stdout || x1.res.Exit != y1.res.Exit {
							b.fail(verb+"-dsl", args, []rec{r}, strings.TrimSpace(x1.res.Stdout+x1.res.Stderr), strings.TrimSpace(y1.res.Stdout)+"  (= mlr put '"+dsl+"')", "dsl: the verb and the DSL function it is documented to be like disagree")
							reported = true
							break
						}
					}
					if !reported {
						b.fail(verb+"-dsl", args, recs[:1], x.res.String(), y.res.String(), "dsl: the verb and the DSL function disagree on a stream")
					}
				} else {
					b.w.Nontrivial(int64(len(recs)))
				}
				// bystander law incl. numeric values
				b.run11(verb, args, mixed, func(in, out rec) (string, string) {
					if len(in) != len(out) {
						return in.json(), "model: " + verb + " changed the number of fields"
					}
					for i := range in {
						if in[i].k != out[i].k {
							return in.json(), "model: " + verb + " changed a field name or the field order"
						}
					}
					if w, y := bystander(in, out, s.named); y != "" {
						return w, y
					}
					if verb == "ssub" {
						for i, f := range in {
							if s.named(f.k) && isStr(f.v) {
								if wv := S(strings.Replace(text(f.v), p.old, p.new, 1)); out[i].v != wv {
									return wv, "model: ssub must replace the first literal occurrence"
								}
							}
						}
					}
					return "", ""
				})
			}
		}
		// the usage documents "-r {regex}"
		if b.unit(verb + " -r {regex} as documented") {
			b.hit(verb, "-r {regex}")
			args := []string{verb, "-r", "^a", "l", "X"}
			in := []rec{{{"a", S("hello")}, {"c", S("hello")}, {"a*", S("l")}}}
			o := b.mlr(args, in)
			b.w.Eval(1)
			wnt := rec{{"a", S("heXlo")}, {"c", S("hello")}, {"a*", S("X")}}
			if !o.res.OK() || len(o.recs) != 1 || !recEq(o.recs[0], wnt) {
				got := strings.TrimSpace(o.res.Stdout)
				if !o.res.OK() {
					got = fmt.Sprintf("exit %d, usage error", o.res.Exit)
				}
				b.fail(verb+"-usage", args, in, got, wnt.json(), "usage: the usage text documents '-r {regex}  Regular expression for field names to apply substitution to' but the verb does not accept a regex after -r")
			}
		}
	}
}
