// Package c12: check for property C12 (see /verif/DESIGN.md §3 C12).
package c12
