// Package c12: field-restructuring verbs do exactly their rearrangement and
// invert cleanly (see /verif/DESIGN.md §3 C12).
//
// Layer A (mc.go): explicit-state search over the real mlrval.Mlrmap.
// Layer B (verbs*.go): per-verb exhaustive enumeration through the in-process
// mlr, with the bystander law, reference models written from the usage texts,
// the algebraic laws of the property and verb == documented DSL equivalent.
package c12

import (
	"os"
	"sort"
	"strings"

	"verif/harness/vf"
)

func init() {
	vf.Register(&vf.CheckDef{ID: "C12", Level: "model_checking", Run: run,
		Workers: map[string]vf.WorkerFunc{"mc": mcWorker, "verbs": verbsWorker}})
}

func run(c *vf.Ctx) {
	c.Rule = "Layer A: breadth-first search over sequences of Mlrmap accessor calls (menu of ~230 parameterised ops over keys {a,b,c,new}, values {1,2} (value 1 only from the pre-filled starts: ~160 ops), positions -3..4) on the real mlrval.Mlrmap in 4 construction modes run in lock-step (lazily hashed, hashed, unhashed, arena-allocated lazily hashed); a state is the dump of key/value list + index contents + FieldCount + lazy flag of all modes, deduplicated; from the empty map to the fixpoint (closed menu) and to a fixed depth with the key-growing ops, and from pre-filled 11/12/13-field records (lazy-index threshold 12) to a fixed depth. 'states' = distinct canonical states per shard subtree summed (the closure configuration is exact), 'transitions' = op applications checked. " +
		"Layer B: for every verb of the property, the cross product {option combinations} x {field lists} x {records} (records = every ordered selection of <= 4 distinct keys out of {a,b,c,a.b,a*,b c} with tracer values; streams for the stateful verbs) run through the in-process mlr (JSON in, JSON Lines out); a case is one (arguments, input record or stream) pair; all cases are distinct by construction; non-trivial = the verb changed the record/stream. " +
		"Layer B, WIDTH dimension (verbs_w.go): for every verb, parametric families of invocations whose field list / matched set / generated set / group count has n (or 2n, 3n) members, for EVERY n = 1..N (N = 32 quick, 96 thorough: two groups of n reach 64 fields, past every size threshold of Go's sort package (12, 20, 50) and of Miller's lazily built record index (12)), on records of 3n, 3n+1, 3n+2 fields with interleaved groups in three orders, each in three record-construction modes (JSON input, DKVP input, DKVP input with --no-hash-records); oracle = reference model from the usage text or documented law; a case is one (family, mode, n) triple."
	c.Assume("Mlrmap.PutReferenceAfter is only exercised with a key that is not yet in the map (the accessor performs no existence check; key uniqueness is the caller's job)")
	c.Assume("Label is only exercised with pairwise distinct names (the label verb rejects duplicates before calling it)")
	c.Assume("negative positional indices follow the doc comment of findEntryByPositionalIndex (-n..-1 alias 1..n); the user documentation only describes 1..NF")
	c.Assume("Mlrmap.Rename(k,k) on a present key is expected to leave the record unchanged (the doc comments do not single the case out; the rename verb documents 'Renames specified fields')")

	only := os.Getenv("VERIF_C12_ONLY") // debugging aid: "mc" or "verbs"; unset in normal runs
	if only != "" {
		c.Exhaustive = false
		c.Extra["debug_only"] = only
	}
	mcShards := 256
	if only == "verbs" {
		mcShards = 1
	}
	mc := c.RunPool(vf.PoolSpec{Worker: "mc", Shards: mcShards, StallSecs: 1800, Env: []string{"GOGC=800", "GOMAXPROCS=2"}})
	c.TracesValidated = c.Counters["mc:traces_replayed_on_real_map"]
	depths := map[string]string{}
	for k, m := range mc.Sets {
		if strings.HasPrefix(k, "mc:depth:") {
			max := ""
			for d := range m {
				if len(d) > len(max) || (len(d) == len(max) && d > max) {
					max = d
				}
			}
			depths[strings.TrimPrefix(k, "mc:depth:")] = max
		}
	}
	c.Extra["mlrmap_depth_completed"] = depths
	c.Extra["mlrmap_modes_in_lockstep"] = modeNames[:]
	c.Extra["mlrmap_three_mode_agreement"] = map[string]any{
		"transitions_checked":             c.Transitions,
		"transitions_all_modes_agree":     c.Counters["mc:transitions_all_modes_agree"],
		"transitions_with_a_violation":    c.Transitions - c.Counters["mc:transitions_all_modes_agree"],
		"reads_that_built_the_lazy_index": c.Counters["mc:reads_that_built_the_lazy_index"],
		"note":                            "every transition is executed on a lazily-hashed, a hashed, an unhashed and an arena-built record; list contents and return values must be identical in all of them and equal to the reference ordered list (shared with C04's hashed/unhashed clause)",
		"hash_threshold_export_agrees12":  c.Counters["mc:hash_threshold_is_not_12"] == 0,
	}
	if c.Counters["mc:empty-closure:fixpoint_reached"] == 0 {
		c.Exhaustive = false
	}

	if only == "mc" {
		return
	}
	vr := c.RunPool(vf.PoolSpec{Worker: "verbs", Shards: 512, Env: []string{"GOGC=400", "GOMAXPROCS=2"}})
	sets := map[string][]string{}
	for k := range vr.Sets {
		sets[k] = vf.SortedSet(vr, k)
	}
	if v, ok := sets["verbs"]; ok {
		c.Extra["verbs_exercised"] = v
	}
	if v, ok := sets["unconstrained"]; ok {
		c.Extra["unconstrained_cells_not_asserted"] = v
	}
	// per-verb / per-flag hit counts are in counters ("verb:<name>", "flag:<verb>:<flag>", "law:<name>")
	var laws []string
	for k := range c.Counters {
		if strings.HasPrefix(k, "law:") {
			laws = append(laws, k)
		}
	}
	sort.Strings(laws)
	c.Extra["laws_evaluated"] = laws
	c.Extra["width_dimension"] = map[string]any{
		"n_range":                     []int{1, wideN(c.Quick())},
		"families_x_modes":            c.Counters["wide:families x modes"],
		"cases_acting_on_<=12_fields": c.Counters["wide:cases, acts on <=12 fields"],
		"cases_acting_on_>12_fields":  c.Counters["wide:cases, acts on >12 fields"],
		"modes":                       []string{wmodes[0].name, wmodes[1].name, wmodes[2].name},
		"record_widths":               "3n, 3n+1, 3n+2 (every width from 3 to 3N+2)",
		"violation_key":               "<verb>-wide-<oracle>:<invocation template> [<mode>; acts on <=12 | >12 fields], replay = smallest failing n of the class",
	}
	if c.Counters["wide:cases, acts on <=12 fields"] == 0 || c.Counters["wide:cases, acts on >12 fields"] == 0 {
		c.Exhaustive = false // vacuity guard: both sides of the threshold must have been exercised
	}
	verbAssumptions(c)
}
