package c12

// Layer B infrastructure: record model, JSON in / JSON Lines out through the
// in-process mlr, tolerant output parser, universes, violation helpers.

import (
	"bytes"
	"encoding/json"
	"fmt"
	"os"
	"regexp"
	"sort"
	"strconv"
	"strings"
	"time"

	"verif/harness/vf"
)

// A field value is kept as canonical JSON text: strings as "\"...\"", numbers
// and other bare tokens verbatim, collections compacted.
type fld struct{ k, v string }
type rec []fld

func jstr(s string) string {
	var sb strings.Builder
	sb.WriteByte('"')
	for _, r := range s {
		switch {
		case r == '"':
			sb.WriteString(`\"`)
		case r == '\\':
			sb.WriteString(`\\`)
		case r == '\n':
			sb.WriteString(`\n`)
		case r == '\t':
			sb.WriteString(`\t`)
		case r == '\r':
			sb.WriteString(`\r`)
		case r < 0x20:
			fmt.Fprintf(&sb, `\u%04x`, r)
		default:
			sb.WriteRune(r)
		}
	}
	sb.WriteByte('"')
	return sb.String()
}

// S makes a string-valued field value, N a bare (number / collection) one.
func S(s string) string { return jstr(s) }

func isStr(v string) bool { return len(v) > 0 && v[0] == '"' }

// text returns the value text as Miller sees it (string contents, or the bare token).
func text(v string) string {
	if isStr(v) {
		var s string
		if json.Unmarshal([]byte(v), &s) == nil {
			return s
		}
	}
	return v
}

func (r rec) find(k string) int {
	for i, f := range r {
		if f.k == k {
			return i
		}
	}
	return -1
}

func (r rec) has(k string) bool { return r.find(k) >= 0 }

func (r rec) keys() []string {
	ks := make([]string, len(r))
	for i, f := range r {
		ks[i] = f.k
	}
	return ks
}

func (r rec) clone() rec { return append(rec(nil), r...) }

func (r rec) json() string {
	var sb strings.Builder
	sb.WriteByte('{')
	for i, f := range r {
		if i > 0 {
			sb.WriteString(", ")
		}
		sb.WriteString(jstr(f.k))
		sb.WriteString(": ")
		sb.WriteString(f.v)
	}
	sb.WriteByte('}')
	return sb.String()
}

func (r rec) String() string { return r.json() }

func recEq(a, b rec) bool {
	if len(a) != len(b) {
		return false
	}
	for i := range a {
		if a[i] != b[i] {
			return false
		}
	}
	return true
}

func recsEq(a, b []rec) bool {
	if len(a) != len(b) {
		return false
	}
	for i := range a {
		if !recEq(a[i], b[i]) {
			return false
		}
	}
	return true
}

func recsJSON(rs []rec) string {
	var sb strings.Builder
	for _, r := range rs {
		sb.WriteString(r.json())
		sb.WriteByte('\n')
	}
	return sb.String()
}

func hasDupKeys(r rec) string {
	seen := map[string]bool{}
	for _, f := range r {
		if seen[f.k] {
			return f.k
		}
		seen[f.k] = true
	}
	return ""
}

// sameFieldsAnyOrder: same key->value pairs, order ignored.
func sameFieldsAnyOrder(a, b rec) bool {
	if len(a) != len(b) {
		return false
	}
	x, y := a.clone(), b.clone()
	sort.SliceStable(x, func(i, j int) bool { return x[i].k < x[j].k })
	sort.SliceStable(y, func(i, j int) bool { return y[i].k < y[j].k })
	return recEq(x, y)
}

// ---------------------------------------------------------------- tolerant JSON Lines parser

type jscan struct {
	s string
	p int
}

func (j *jscan) ws() {
	for j.p < len(j.s) && (j.s[j.p] == ' ' || j.s[j.p] == '\t' || j.s[j.p] == '\r' || j.s[j.p] == '\n') {
		j.p++
	}
}

func (j *jscan) str() (string, bool) {
	if j.p >= len(j.s) || j.s[j.p] != '"' {
		return "", false
	}
	q := j.p + 1
	for q < len(j.s) {
		switch j.s[q] {
		case '\\':
			q += 2
			continue
		case '"':
			tok := j.s[j.p : q+1]
			j.p = q + 1
			return tok, true
		}
		q++
	}
	return "", false
}

func (j *jscan) balanced() (string, bool) {
	depth := 0
	q := j.p
	for q < len(j.s) {
		switch j.s[q] {
		case '"':
			save := j.p
			j.p = q
			if _, ok := j.str(); !ok {
				j.p = save
				return "", false
			}
			q = j.p
			j.p = save
			continue
		case '{', '[':
			depth++
		case '}', ']':
			depth--
			if depth == 0 {
				tok := j.s[j.p : q+1]
				j.p = q + 1
				return tok, true
			}
		}
		q++
	}
	return "", false
}

func canonValue(tok string) string {
	tok = strings.TrimSpace(tok)
	if tok == "" {
		return tok
	}
	switch tok[0] {
	case '"':
		var s string
		if json.Unmarshal([]byte(tok), &s) == nil {
			return jstr(s)
		}
	case '{', '[':
		var b bytes.Buffer
		if json.Compact(&b, []byte(tok)) == nil {
			return b.String()
		}
	}
	return tok
}

// parseObject parses one single-line JSON object as Miller writes it. Bare
// non-JSON tokens such as (error) are kept verbatim.
func parseObject(line string) (rec, error) {
	j := &jscan{s: line}
	j.ws()
	if j.p >= len(j.s) || j.s[j.p] != '{' {
		return nil, fmt.Errorf("no object")
	}
	j.p++
	var r rec
	for {
		j.ws()
		if j.p < len(j.s) && j.s[j.p] == '}' {
			j.p++
			break
		}
		ktok, ok := j.str()
		if !ok {
			return nil, fmt.Errorf("bad key at %d", j.p)
		}
		var k string
		if err := json.Unmarshal([]byte(ktok), &k); err != nil {
			return nil, fmt.Errorf("bad key %s", ktok)
		}
		j.ws()
		if j.p >= len(j.s) || j.s[j.p] != ':' {
			return nil, fmt.Errorf("no colon at %d", j.p)
		}
		j.p++
		j.ws()
		if j.p >= len(j.s) {
			return nil, fmt.Errorf("no value")
		}
		var vtok string
		switch j.s[j.p] {
		case '"':
			vtok, ok = j.str()
		case '{', '[':
			vtok, ok = j.balanced()
		default:
			q := j.p
			for q < len(j.s) && j.s[q] != ',' && j.s[q] != '}' {
				q++
			}
			vtok, ok = j.s[j.p:q], true
			j.p = q
		}
		if !ok {
			return nil, fmt.Errorf("bad value at %d", j.p)
		}
		r = append(r, fld{k, canonValue(vtok)})
		j.ws()
		if j.p < len(j.s) && j.s[j.p] == ',' {
			j.p++
			continue
		}
		if j.p < len(j.s) && j.s[j.p] == '}' {
			j.p++
			break
		}
		return nil, fmt.Errorf("expected , or } at %d", j.p)
	}
	j.ws()
	if j.p != len(j.s) {
		return nil, fmt.Errorf("trailing text")
	}
	return r, nil
}

func parseJSONL(out string) ([]rec, error) {
	var rs []rec
	for _, line := range strings.Split(out, "\n") {
		if strings.TrimSpace(line) == "" {
			continue
		}
		r, err := parseObject(line)
		if err != nil {
			return rs, fmt.Errorf("%v in output line %q", err, line)
		}
		rs = append(rs, r)
	}
	return rs, nil
}

// ---------------------------------------------------------------- running

type vb struct {
	w         *vf.Worker
	idx       uint64
	keySuffix string // failure class appended to violation keys (so that a known defect class does not mask another failure of the same arguments)
}

// unit starts the next shard unit; false = not this worker's.
func (b *vb) unit(label string) bool {
	b.idx++
	if !b.w.Mine(b.idx) {
		return false
	}
	b.w.Begin(b.idx)
	b.w.Label(func() string { return label })
	return true
}

type runOut struct {
	recs []rec
	res  vf.MlrResult
	perr error
}

func (b *vb) mlr(args []string, in []rec) runOut {
	input := recsJSON(in)
	full := append([]string{"--ijson", "--ojsonl"}, args...)
	r := vf.RunMlr(full, vf.MlrOpts{Stdin: &input})
	o := runOut{res: r}
	if r.OK() {
		o.recs, o.perr = parseJSONL(r.Stdout)
	}
	return o
}

func shq(s string) string {
	if s != "" && !strings.ContainsAny(s, " \t\n'\"\\$*;()[]{}|&<>?!`~#^") {
		return s
	}
	return "'" + strings.ReplaceAll(s, "'", `'\''`) + "'"
}

func cmdline(args []string, in []rec) string {
	q := make([]string, len(args))
	for i, a := range args {
		q[i] = shq(a)
	}
	return "printf '%s' " + shq(recsJSON(in)) + " | mlr --ijson --ojsonl " + strings.Join(q, " ")
}

// fail reports a violation. group = verb + "-" + oracle; the key carries the
// arguments; the replay carries the first (smallest) failing input.
func (b *vb) fail(group string, args []string, in []rec, got string, want string, why string) {
	key := group + ":" + strings.Join(args, " ") + b.keySuffix
	what := fmt.Sprintf("%s :: mlr %s on %s gives %s, expected %s", why, strings.Join(args, " "), strings.TrimSpace(strings.ReplaceAll(recsJSON(in), "\n", " ")), got, want)
	if lp := os.Getenv("VERIF_C12_LOG"); lp != "" { // debugging aid: every violation key, uncapped
		if f, err := os.OpenFile(lp, os.O_APPEND|os.O_CREATE|os.O_WRONLY, 0644); err == nil {
			fmt.Fprintf(f, "%s\t%s\n", key, strings.ReplaceAll(what, "\n", " "))
			f.Close()
		}
	}
	b.w.Violation(key, what, map[string]any{"layer": "verbs", "args": args, "input_json": recsJSON(in), "got": got, "expected": want, "why": why, "command": cmdline(args, in)})
}

func (b *vb) hit(verb string, flags ...string) {
	b.w.Count("verb:"+verb, 1)
	for _, f := range flags {
		b.w.Count("flag:"+verb+":"+f, 1)
	}
	b.w.AddSet("verbs", verb)
}

func (b *vb) unconstrained(what string, n int64) {
	b.w.Count("unconstrained:"+what, n)
	b.w.AddSet("unconstrained", what)
}

// run11 feeds all records as one stream to a record-by-record verb and calls
// the oracle for every (input, output) pair. oracle returns "" (ok), or
// (expected text, reason). A failing record is re-run alone so that the replay
// is the single record.
func (b *vb) run11(verb string, args []string, recs []rec, oracle func(in, out rec) (want, why string)) {
	o := b.mlr(args, recs)
	b.w.Eval(int64(len(recs)))
	if !o.res.OK() || o.perr != nil || len(o.recs) != len(recs) {
		// find the first record that misbehaves alone
		for _, r := range recs {
			o1 := b.mlr(args, []rec{r})
			if !o1.res.OK() {
				b.fail(verb+"-fails", args, []rec{r}, o1.res.String(), "exit 0", "the verb fails on a well-formed record")
				return
			}
			if o1.perr != nil {
				if strings.Contains(o1.res.Stdout, "(error)") {
					b.unconstrained(verb+": error-valued output cell", 1)
					continue
				}
				b.fail(verb+"-output", args, []rec{r}, o1.res.Stdout, "one JSON record", "output is not one JSON object per line: "+o1.perr.Error())
				return
			}
			if len(o1.recs) != 1 {
				b.fail(verb+"-count", args, []rec{r}, recsJSON(o1.recs), "exactly one output record", "record-by-record verb changed the number of records")
				return
			}
			if want, why := oracle(r, o1.recs[0]); why != "" {
				b.fail(grp(verb, why), args, []rec{r}, o1.recs[0].json(), want, why)
			} else if !recEq(r, o1.recs[0]) {
				b.w.Nontrivial(1)
			}
		}
		if o.res.OK() && o.perr == nil {
			b.fail(verb+"-count", args, recs[:min(len(recs), 3)], fmt.Sprintf("%d records for %d inputs", len(o.recs), len(recs)), "same count", "batched run and single-record runs disagree on the record count")
		}
		return
	}
	for i, r := range recs {
		want, why := oracle(r, o.recs[i])
		if why != "" {
			// confirm alone
			o1 := b.mlr(args, []rec{r})
			if o1.res.OK() && o1.perr == nil && len(o1.recs) == 1 {
				if w1, y1 := oracle(r, o1.recs[0]); y1 != "" {
					b.fail(grp(verb, y1), args, []rec{r}, o1.recs[0].json(), w1, y1)
					continue
				}
			}
			b.fail(verb+"-batch-dependent", args, recs[:i+1], o.recs[i].json(), want, "record "+strconv.Itoa(i+1)+" of a stream is transformed differently than alone: "+why)
		} else if !recEq(r, o.recs[i]) {
			b.w.Nontrivial(1)
		}
	}
}

// grp names a violation group: verb + "-" + oracle kind (the text before the first colon of why).
func grp(verb, why string) string {
	kind := strings.SplitN(why, ":", 2)[0]
	if strings.HasSuffix(verb, "-"+kind) {
		return verb
	}
	return verb + "-" + kind
}

// runStream runs one stream; returns ok=false when the run failed (reported).
func (b *vb) runStream(verb string, args []string, in []rec) ([]rec, bool) {
	o := b.mlr(args, in)
	b.w.Eval(1)
	if !o.res.OK() {
		b.fail(verb+"-fails", args, in, o.res.String(), "exit 0", "the verb fails on a well-formed stream")
		return nil, false
	}
	if o.perr != nil {
		if strings.Contains(o.res.Stdout, "(error)") {
			b.unconstrained(verb+": error-valued output cell", 1)
			return nil, false
		}
		b.fail(verb+"-output", args, in, o.res.Stdout, "JSON records", "output is not one JSON object per line: "+o.perr.Error())
		return nil, false
	}
	return o.recs, true
}

// ---------------------------------------------------------------- bystander law

// bystander checks that the fields of in whose keys are not named keep name,
// value and relative order in out. Fields of out that are not bystanders of in
// are ignored.
func bystander(in, out rec, named func(k string) bool) (want, why string) {
	var by rec
	set := map[string]bool{}
	for _, f := range in {
		if !named(f.k) {
			by = append(by, f)
			set[f.k] = true
		}
	}
	var got rec
	for _, f := range out {
		if set[f.k] {
			got = append(got, f)
		}
	}
	if !recEq(by, got) {
		return "bystander fields " + by.json() + " in this order", "bystander: fields the verb does not name changed name, value or relative order"
	}
	return "", ""
}

// ---------------------------------------------------------------- Miller regex forms

type mregex struct {
	spec string
	re   *regexp.Regexp
}

// compileMillerRegex: plain text, "text", or "text"i (case-insensitive), per
// reference-main-regular-expressions.md.
func compileMillerRegex(spec string) mregex {
	s := spec
	ci := false
	if len(s) >= 3 && s[0] == '"' && strings.HasSuffix(s, `"i`) {
		s = s[1 : len(s)-2]
		ci = true
	} else if len(s) >= 2 && s[0] == '"' && s[len(s)-1] == '"' {
		s = s[1 : len(s)-1]
	}
	if ci {
		s = "(?i)" + s
	}
	return mregex{spec, regexp.MustCompile(s)}
}

// ---------------------------------------------------------------- universes

var K6 = []string{"a", "b", "c", "a.b", "a*", "b c"}

// tracer values: distinct texts covering number, empty, separator look-alike, JSON look-alike
var tracer = []string{"1", S(""), S("x;y"), S(`{"p":1}`), S("v5"), "2.50", S("a b")}

func keyLists(alpha []string, maxLen int, repeats bool) [][]string {
	var out [][]string
	var rec func(cur []string)
	rec = func(cur []string) {
		out = append(out, append([]string(nil), cur...))
		if len(cur) == maxLen {
			return
		}
	next:
		for _, k := range alpha {
			if !repeats {
				for _, c := range cur {
					if c == k {
						continue next
					}
				}
			}
			rec(append(cur, k))
		}
	}
	rec(nil)
	// simplest first: by length, stable
	sort.SliceStable(out, func(i, j int) bool { return len(out[i]) < len(out[j]) })
	return out
}

func wideRec(order int) rec {
	ks := []string{"a", "w04", "b", "w05", "w06", "c", "w07", "a.b", "w08", "w09", "a*", "w10", "b c", "w11"}
	switch order {
	case 1:
		for i, j := 0, len(ks)-1; i < j; i, j = i+1, j-1 {
			ks[i], ks[j] = ks[j], ks[i]
		}
	case 2:
		ks = append(ks[5:], ks[:5]...)
	}
	var r rec
	for i, k := range ks {
		r = append(r, fld{k, tracer[i%len(tracer)]})
	}
	return r
}

// opaqueUniverse: every ordered selection of <= maxF distinct keys of K6 with
// tracer values rotated per record, plus three 14-field records (beyond the
// lazy-index threshold of 12).
func opaqueUniverse(maxF int) []rec {
	var out []rec
	for n, ks := range keyLists(K6, maxF, false) {
		var r rec
		for i, k := range ks {
			r = append(r, fld{k, tracer[(i+n)%len(tracer)]})
		}
		out = append(out, r)
	}
	out = append(out, wideRec(0), wideRec(1), wideRec(2))
	return out
}

func joinc(l []string) string { return strings.Join(l, ",") }

func dedupeFirst(l []string) []string {
	var out []string
	seen := map[string]bool{}
	for _, s := range l {
		if !seen[s] {
			seen[s] = true
			out = append(out, s)
		}
	}
	return out
}

func dedupeLast(l []string) []string {
	var out []string
	for i, s := range l {
		last := true
		for _, t := range l[i+1:] {
			if t == s {
				last = false
			}
		}
		if last {
			out = append(out, s)
		}
	}
	return out
}

func hasRepeats(l []string) bool { return len(dedupeFirst(l)) != len(l) }

func inList(l []string, s string) bool {
	for _, t := range l {
		if t == s {
			return true
		}
	}
	return false
}

func chunk(rs []rec, n int) [][]rec {
	var out [][]rec
	for len(rs) > n {
		out = append(out, rs[:n])
		rs = rs[n:]
	}
	if len(rs) > 0 {
		out = append(out, rs)
	}
	return out
}

// ---------------------------------------------------------------- worker

func verbsWorker(w *vf.Worker) {
	b := &vb{w: w}
	quick := w.Quick()
	onlyVerb := os.Getenv("VERIF_C12_VERB") // debugging aid; unset in normal runs
	for _, v := range []struct {
		name string
		f    func(bool)
	}{{"cut", b.cut}, {"template", b.template}, {"reorder", b.reorder}, {"rename", b.rename}, {"label", b.label}, {"regularize", b.regularize},
		{"sort-within-records", b.sortWithinRecords}, {"unsparsify", b.unsparsify}, {"sparsify", b.sparsify}, {"fill-empty", b.fillEmpty},
		{"nest", b.nest}, {"reshape", b.reshape}, {"flatten", b.flattenUnflatten}, {"json", b.jsonVerbs}, {"sec2gmt", b.sec2gmt},
		{"altkv", b.altkv}, {"case", b.caseVerb}, {"unspace", b.unspace}, {"subs", b.subs}, {"hashmodes", b.hashModes}, {"wide", b.wide}} {
		if onlyVerb != "" && onlyVerb != v.name {
			continue
		}
		t0 := time.Now()
		e0 := w.Rep.Evaluations
		v.f(quick)
		w.Count("wall_ms_in_workers:"+v.name, time.Since(t0).Milliseconds())
		w.Count("evaluations:"+v.name, w.Rep.Evaluations-e0)
	}
	if w.Shard == 0 {
		w.Sample(map[string]any{"verb": "cut", "args": []string{"cut", "-o", "-f", "a*,z,a"}, "input": opaqueUniverse(2)[9].json()})
		w.Sample(map[string]any{"verb": "nest", "args": []string{"nest", "--ivar", ";", "-f", "x"}, "input_stream": `{"x":"p","y":","} {"x":"q","y":","}`})
	}
}

func verbAssumptions(c *vf.Ctx) {
	c.Assume("verbs are driven with JSON input and JSON Lines output so that every key/value text (spaces, dots, regex metacharacters, separator and JSON look-alikes) survives I/O unchanged; other I/O formats are C01/C02's subject")
	c.Assume("field lists with a repeated name under an order-defining option (cut -o, template -f, reorder -f/-e): first-occurrence and last-occurrence placement are both accepted (usage texts do not say)")
	c.Assume("renames/case/unspace whose new key collides with another existing key: only the bystander law and key uniqueness are asserted, except for the one collision the accessor documents (rename a,b with both present: b takes a's value, a disappears)")
	c.Assume("nest explode whose generated keys collide with existing keys, reshape wide-to-long whose -o names collide with other fields, altkv with repeated key texts: not asserted beyond 'no duplicate keys in an output record'")
	c.Assume("inverse-pair laws are asserted on their natural domain: nest/reshape need records whose other-field value tuples are pairwise distinct (else the inverse legitimately merges them), reshape additionally needs the -i fields to be the record's trailing fields in -i order for field-order equality (otherwise equality up to field order); flatten/unflatten needs no empty key pieces, no separator inside keys, no map with keys 1..n (documented arrayification) and no string values \"{}\"/\"[]\"")
	c.Assume("case -t (title case) is asserted only on space-separated ASCII words; sentence/upper/lower on ASCII")
	c.Assume("width families (verbs_w.go): regex lists whose members match disjoint sets of fields (which regex claims a field matching several is documented for reorder -r only); sort-within-records -f / -r {regex}: only 'named keys ascending, others keep their order, nothing lost' (where the sorted block goes is not documented); unflatten: the position of the gathered field is not asserted; sec2gmt on integer inputs against Go's time package (rounding of dropped decimals not asserted); sub/gsub/ssub on a named non-string value not asserted; DKVP-mode outputs are compared after Miller's from-data type inference (ints bare, everything else strings)")
	c.Assume("sub/gsub/ssub verb == DSL function only for string-typed values (the verbs leave numbers alone, the functions' handling of numbers is C15's subject)")
}
