package c12

// unsparsify, sparsify, fill-empty, nest, reshape.

import (
	"fmt"
	"sort"
	"strconv"
	"strings"
)

func genStreams(base []rec, maxN int) [][]rec {
	var streams [][]rec
	var gen func(cur []rec)
	gen = func(cur []rec) {
		if len(cur) > 0 {
			streams = append(streams, append([]rec(nil), cur...))
		}
		if len(cur) == maxN {
			return
		}
		for _, r := range base {
			gen(append(cur, r))
		}
	}
	gen(nil)
	sort.SliceStable(streams, func(i, j int) bool { return len(streams[i]) < len(streams[j]) })
	return streams
}

// valued universe: every ordered selection of <= maxF keys with every value assignment
func valuedUniverse(keys []string, vals []string, maxF int) []rec {
	var out []rec
	for _, ks := range keyLists(keys, maxF, false) {
		n := 1
		for range ks {
			n *= len(vals)
		}
		for c := 0; c < n; c++ {
			var r rec
			x := c
			for _, k := range ks {
				r = append(r, fld{k, vals[x%len(vals)]})
				x /= len(vals)
			}
			out = append(out, r)
		}
	}
	return out
}

// ---------------------------------------------------------------- unsparsify

func (b *vb) unsparsify(quick bool) {
	var base []rec
	keys, maxF := []string{"a", "b c", "a.b"}, 2
	if !quick {
		keys, maxF = []string{"a", "b c", "a.b", "a*"}, 3
	}
	for n, ks := range keyLists(keys, maxF, false) {
		var r rec
		for i, k := range ks {
			r = append(r, fld{k, tracer[(i+n)%len(tracer)]})
		}
		base = append(base, r)
	}
	base = append(base, rec{{"a.b", "7"}, {"a", S("")}, {"b c", S("q")}})
	if quick {
		base = append(base, wideRec(0))
	}
	streams := genStreams(base, 3)
	const per = 48
	for _, fill := range []string{"", "X"} {
		args := []string{"unsparsify"}
		flag := "(none)"
		if fill != "" {
			args = append(args, "--fill-with", fill)
			flag = "--fill-with"
		}
		for c := 0; c < len(streams); c += per {
			if !b.unit(fmt.Sprintf("%s streams %d..", strings.Join(args, " "), c)) {
				continue
			}
			b.hit("unsparsify", flag)
			b.w.Count("law:unsparsify output is rectangular over the union of keys in first-seen order", 1)
			for _, st := range streams[c:min(len(streams), c+per)] {
				out, ok := b.runStream("unsparsify", args, st)
				if !ok {
					continue
				}
				var union []string
				seen := map[string]bool{}
				for _, r := range st {
					for _, f := range r {
						if !seen[f.k] {
							seen[f.k] = true
							union = append(union, f.k)
						}
					}
				}
				bad := len(out) != len(st)
				changed := false
				var wants []rec
				for i, in := range st {
					var wnt rec
					loose := map[string]bool{}
					for _, k := range union {
						if j := in.find(k); j >= 0 {
							wnt = append(wnt, in[j])
						} else {
							wnt = append(wnt, fld{k, S(fill)})
							loose[k] = true
						}
					}
					wants = append(wants, wnt)
					if !bad && !recEqLoose(wnt, out[i], loose) {
						bad = true
					}
					if !bad && !recEq(in, out[i]) {
						changed = true
					}
				}
				if bad {
					b.fail("unsparsify-model", args, st, strings.TrimSpace(recsJSON(out)), strings.TrimSpace(recsJSON(wants)), "model: unsparsify output must be rectangular over the union of keys in first-seen order, present values untouched, absent ones filled")
				} else if changed {
					b.w.Nontrivial(1)
				}
			}
		}
	}
	// -f: streaming, record by record
	U := b.universe(quick)
	for _, F := range keyLists([]string{"a", "a.b", "z", "y y"}, 2, false)[1:] {
		for _, fill := range []string{"", "X"} {
			F, fill := F, fill
			args := []string{"unsparsify", "-f", joinc(F)}
			if fill != "" {
				args = append(args, "--fill-with", fill)
			}
			if !b.unit(strings.Join(args, " ")) {
				continue
			}
			b.hit("unsparsify", "-f")
			b.run11("unsparsify", args, U, func(in, out rec) (string, string) {
				added := map[string]bool{}
				for _, k := range F {
					if !in.has(k) {
						added[k] = true
					}
				}
				if rest := without(out, func(k string) bool { return added[k] }); !recEq(rest, in) {
					return in.json() + " plus the absent -f fields", "bystander: unsparsify -f must not modify the fields that are present"
				}
				if len(out) != len(in)+len(added) {
					return in.json() + " plus the absent -f fields", "model: unsparsify -f must add each absent -f field exactly once"
				}
				for _, f := range out {
					if added[f.k] && text(f.v) != fill {
						return "fill value " + fill, "model: unsparsify -f filled with the wrong value"
					}
				}
				return "", ""
			})
		}
	}
}

// ---------------------------------------------------------------- sparsify / fill-empty

func (b *vb) valued(quick bool) []rec {
	vals := []string{S(""), "1", S("x"), S(" ")}
	if quick {
		return valuedUniverse([]string{"a", "b c", "a*"}, vals, 2)
	}
	return valuedUniverse([]string{"a", "b c", "a*"}, vals, 3)
}

func (b *vb) sparsify(quick bool) {
	U := append(b.valued(quick), wideRec(0))
	type opt struct {
		s string
		F []string
	}
	opts := []opt{{"", nil}, {"x", nil}, {"1", nil}, {" ", nil}}
	for _, F := range keyLists([]string{"a", "a*", "z"}, 2, false)[1:] {
		opts = append(opts, opt{"", F}, opt{"x", F})
	}
	for _, o := range opts {
		o := o
		args := []string{"sparsify"}
		var flags []string
		if o.s != "" {
			args = append(args, "-s", o.s)
			flags = append(flags, "-s")
		}
		if o.F != nil {
			args = append(args, "-f", joinc(o.F))
			flags = append(flags, "-f")
		}
		if len(flags) == 0 {
			flags = []string{"(none)"}
		}
		if !b.unit(strings.Join(args, " ")) {
			continue
		}
		b.hit("sparsify", flags...)
		b.run11("sparsify", args, U, func(in, out rec) (string, string) {
			wnt := without(in, func(k string) bool {
				return (o.F == nil || inList(o.F, k)) && text(in[in.find(k)].v) == o.s
			})
			if !recEq(wnt, out) {
				return wnt.json(), "model: sparsify must remove exactly the (selected) fields whose value is the filler string"
			}
			return "", ""
		})
	}
}

func (b *vb) fillEmpty(quick bool) {
	U := append(b.valued(quick), wideRec(0))
	type opt struct {
		args  []string
		fill  string // expected canonical JSON text of a filled cell ("" = compare text only)
		ftext string
	}
	opts := []opt{
		{[]string{"fill-empty"}, "", "N/A"},
		{[]string{"fill-empty", "-v", "X Y"}, "", "X Y"},
		{[]string{"fill-empty", "-v", "0"}, "0", "0"},
		{[]string{"fill-empty", "-S", "-v", "0"}, S("0"), "0"},
		{[]string{"fill-empty", "-v", "0", "-S"}, S("0"), "0"},
	}
	for _, o := range opts {
		o := o
		if !b.unit(strings.Join(o.args, " ")) {
			continue
		}
		b.hit("fill-empty", strings.Join(o.args[1:], " "))
		b.run11("fill-empty", o.args, U, func(in, out rec) (string, string) {
			wnt := in.clone()
			loose := map[string]bool{}
			for i := range wnt {
				if text(wnt[i].v) == "" {
					if o.fill != "" {
						wnt[i].v = o.fill
					} else {
						wnt[i].v = S(o.ftext)
						loose[wnt[i].k] = true
					}
				}
			}
			if !recEqLoose(wnt, out, loose) {
				return wnt.json(), "model: fill-empty must replace exactly the empty-string values by the fill value (-S: as a string, otherwise type-inferred)"
			}
			return "", ""
		})
	}
}

// ---------------------------------------------------------------- nest

func splitKeep(s, sep string) []string { return strings.Split(s, sep) }

func (b *vb) nest(quick bool) {
	names := []string{"x", "a.b", "a*", "b c", "x(y"}
	pieceAlpha := []string{"p", "q", ""}
	var vals [][]string // piece lists
	for _, l := range keyLists(pieceAlpha, 3, true)[1:] {
		vals = append(vals, l)
	}
	type sepT struct{ fsArg, fs, psArg, ps string }
	seps := []sepT{{"", ";", "", ":"}, {"pipe", "|", "=", "="}}
	for _, name := range names {
		for _, sp := range seps {
			name, sp := name, sp
			// records: [x] [y x] [x y] [y x w] and without x: [y]
			var recs []rec
			for _, pl := range vals {
				xv := S(strings.Join(pl, sp.fs))
				recs = append(recs,
					rec{{name, xv}},
					rec{{"y", "1"}, {name, xv}},
					rec{{name, xv}, {"y", S("v;w")}},
					rec{{"y", S("")}, {name, xv}, {"w", "2"}})
			}
			recs = append(recs, rec{{"y", "1"}}, rec{}, rec{{name, "5"}, {"y", "6"}})
			wide := without(wideRec(0), func(k string) bool { return k == name })
			wide = append(wide[:3:3], append(rec{{name, S("p" + sp.fs + "q")}}, wide[3:]...)...)
			recs = append(recs, wide)
			sepArgs := func() []string {
				var a []string
				if sp.fsArg != "" {
					a = append(a, "--nested-fs", sp.fsArg)
				}
				return a
			}

			// explode values across fields, its inverse, and the round trip
			exF := append([]string{"nest", "--explode", "--values", "--across-fields", "-f", name}, sepArgs()...)
			imF := append([]string{"nest", "--implode", "--values", "--across-fields", "-f", name}, sepArgs()...)
			explodeF := func(in rec) rec {
				i := in.find(name)
				if i < 0 {
					return in
				}
				var wnt rec
				wnt = append(wnt, in[:i]...)
				for n, p := range splitKeep(text(in[i].v), sp.fs) {
					wnt = append(wnt, fld{name + "_" + strconv.Itoa(n+1), S(p)})
				}
				return append(wnt, in[i+1:]...)
			}
			looseAll := func(r rec) map[string]bool {
				m := map[string]bool{}
				for _, f := range r {
					if f.k == name || strings.HasPrefix(f.k, name+"_") {
						m[f.k] = true
					}
				}
				return m
			}
			if b.unit(strings.Join(exF, " ")) {
				b.hit("nest", "--explode --values --across-fields")
				b.run11("nest", exF, recs, func(in, out rec) (string, string) {
					wnt := explodeF(in)
					if !recEqLoose(wnt, out, looseAll(wnt)) {
						return wnt.json(), "model: nest --explode --values --across-fields must replace the field in place by name_1..name_n and touch nothing else"
					}
					return "", ""
				})
			}
			if b.unit(strings.Join(imF, " ")) {
				b.hit("nest", "--implode --values --across-fields")
				var exploded []rec
				for _, r := range recs {
					exploded = append(exploded, explodeF(r))
				}
				// near-miss bystanders: names that only a regex reading of the field name would match
				if near := strings.NewReplacer(".", "x", "*", "", " ", "_").Replace(name); near != name {
					exploded = append(exploded, rec{{"y", "1"}, {near + "_1", S("z")}, {name + "_1", S("p")}, {name + "_2", S("q")}})
				}
				exploded = append(exploded, rec{{name + "_x", S("z")}, {name + "_1", S("p")}, {name + "_", S("q")}, {"_1", S("r")}})
				b.run11("nest", imF, exploded, func(in, out rec) (string, string) {
					// model: the fields name_<digits> are joined, in place of the first one
					var wnt rec
					var parts []string
					at := -1
					for _, f := range in {
						if strings.HasPrefix(f.k, name+"_") && isDigits(f.k[len(name)+1:]) {
							if at < 0 {
								at = len(wnt)
								wnt = append(wnt, fld{name, ""})
							}
							parts = append(parts, text(f.v))
							continue
						}
						wnt = append(wnt, f)
					}
					if at >= 0 {
						wnt[at].v = S(strings.Join(parts, sp.fs))
					}
					if !recEqLoose(wnt, out, map[string]bool{name: true}) {
						return wnt.json(), "model: nest --implode --values --across-fields must join the fields name_1..name_n back into the field, in place, and touch nothing else"
					}
					return "", ""
				})
			}
			rt := append(append(append([]string(nil), exF...), "then"), imF...)
			if b.unit(strings.Join(rt, " ")) {
				b.w.Count("law:nest explode then implode (values across fields) = id", 1)
				b.run11("nest-law", rt, recs, func(in, out rec) (string, string) {
					if !recEqLoose(in, out, map[string]bool{name: true}) {
						return in.json(), "law: nest --explode --values --across-fields then --implode must be the identity"
					}
					return "", ""
				})
			}

			if name == "x(y" || name == "a.b" || name == "b c" {
				continue // the across-records and pairs shapes look the field up by exact name: two names suffice
			}
			// explode values across records (1:n): one invocation per record
			exR := append([]string{"nest", "--explode", "--values", "--across-records", "-f", name}, sepArgs()...)
			explodeR := func(in rec) []rec {
				i := in.find(name)
				if i < 0 {
					return []rec{in}
				}
				var outs []rec
				for _, p := range splitKeep(text(in[i].v), sp.fs) {
					o := in.clone()
					o[i].v = S(p)
					outs = append(outs, o)
				}
				return outs
			}
			recsLoose := func(want, got []rec) bool {
				if len(want) != len(got) {
					return false
				}
				for i := range want {
					if !recEqLoose(want[i], got[i], map[string]bool{name: true}) {
						return false
					}
				}
				return true
			}
			if b.unit(strings.Join(exR, " ")) {
				b.hit("nest", "--explode --values --across-records")
				for _, in := range recs {
					out, ok := b.runStream("nest", exR, []rec{in})
					if !ok {
						continue
					}
					if wnt := explodeR(in); !recsLoose(wnt, out) {
						b.fail("nest-model", exR, []rec{in}, strings.TrimSpace(recsJSON(out)), strings.TrimSpace(recsJSON(wnt)), "model: nest --explode --values --across-records must emit one copy of the record per piece, differing only in the exploded field")
					} else if len(out) != 1 {
						b.w.Nontrivial(1)
					}
				}
			}
			// --evar shorthand == long form
			if b.unit("nest --evar " + name + sp.fs) {
				b.hit("nest", "--evar")
				b.w.Count("law:nest --evar/--ivar == documented long form", 1)
				x := b.mlr([]string{"nest", "--evar", sp.fs, "-f", name}, recs)
				y := b.mlr(append([]string{"nest", "--explode", "--values", "--across-records", "-f", name}, "--nested-fs", sp.fs), recs)
				b.w.Eval(int64(len(recs)))
				if x.res.Stdout != y.res.Stdout || x.res.Exit != y.res.Exit {
					b.fail("nest-shorthand", []string{"nest", "--evar", sp.fs, "-f", name}, recs[:2], "differs from the long form", "same output as --explode --values --across-records --nested-fs", "dsl: documented shorthand differs from its long form")
				}
			}

			if b.unit("nest --ivar " + name + sp.fs) {
				b.hit("nest", "--ivar")
				b.w.Count("law:nest --evar/--ivar == documented long form", 1)
				x := b.mlr([]string{"nest", "--ivar", sp.fs, "-f", name}, recs)
				y := b.mlr(append([]string{"nest", "--implode", "--values", "--across-records", "-f", name}, "--nested-fs", sp.fs), recs)
				b.w.Eval(int64(len(recs)))
				if x.res.Stdout != y.res.Stdout || x.res.Exit != y.res.Exit {
					b.fail("nest-shorthand", []string{"nest", "--ivar", sp.fs, "-f", name}, recs[:2], "differs from the long form", "same output as --implode --values --across-records --nested-fs", "dsl: documented shorthand differs from its long form")
				}
			}
			// implode across records: model + round trip, on streams
			imR := append([]string{"nest", "--implode", "--values", "--across-records", "-f", name}, sepArgs()...)
			b.nestImplodeStreams(quick, name, sp.fs, exR, imR)

			// explode pairs
			var precs []rec
			for _, pl := range keyLists([]string{"p" + sp.ps + "1", "q" + sp.ps + sp.ps + "2", "r"}, 3, false)[1:] {
				xv := S(strings.Join(pl, sp.fs))
				precs = append(precs, rec{{name, xv}}, rec{{"y", "1"}, {name, xv}, {"w", S("")}}, rec{{name, xv}, {"y", "1"}})
			}
			precs = append(precs, rec{{"y", "1"}}, wide)
			pairOf := func(piece string) fld {
				if i := strings.Index(piece, sp.ps); i >= 0 {
					return fld{piece[:i], S(piece[i+len(sp.ps):])}
				}
				return fld{name, S(piece)}
			}
			psArgs := func() []string {
				a := sepArgs()
				if sp.psArg != "" {
					a = append(a, "--nested-ps", sp.psArg)
				}
				return a
			}
			exPF := append([]string{"nest", "--explode", "--pairs", "--across-fields", "-f", name}, psArgs()...)
			if b.unit(strings.Join(exPF, " ")) {
				b.hit("nest", "--explode --pairs --across-fields")
				b.run11("nest", exPF, precs, func(in, out rec) (string, string) {
					i := in.find(name)
					if i < 0 {
						if !recEq(in, out) {
							return in.json(), "model: nest must pass a record without the field through unchanged"
						}
						return "", ""
					}
					var wnt rec
					wnt = append(wnt, in[:i]...)
					loose := map[string]bool{}
					for _, p := range splitKeep(text(in[i].v), sp.fs) {
						f := pairOf(p)
						wnt = append(wnt, f)
						loose[f.k] = true
					}
					wnt = append(wnt, in[i+1:]...)
					if d := hasDupKeys(wnt); d != "" {
						b.unconstrained("nest --explode --pairs: a pair key collides with another field", 1)
						return bystander(in, out, func(k string) bool { return k == name || loose[k] })
					}
					if !recEqLoose(wnt, out, loose) {
						return wnt.json(), "model: nest --explode --pairs --across-fields must replace the field in place by its key:value pairs and touch nothing else"
					}
					return "", ""
				})
			}
			exPR := append([]string{"nest", "--explode", "--pairs", "--across-records", "-f", name}, psArgs()...)
			if b.unit(strings.Join(exPR, " ")) {
				b.hit("nest", "--explode --pairs --across-records")
				for _, in := range precs {
					out, ok := b.runStream("nest", exPR, []rec{in})
					if !ok {
						continue
					}
					i := in.find(name)
					var wnt []rec
					collide := false
					if i < 0 {
						wnt = []rec{in}
					} else {
						for _, p := range splitKeep(text(in[i].v), sp.fs) {
							f := pairOf(p)
							if f.k != name && in.has(f.k) {
								collide = true
							}
							o := in.clone()
							o[i] = f
							wnt = append(wnt, o)
						}
					}
					if collide {
						b.unconstrained("nest --explode --pairs: a pair key collides with another field", 1)
						continue
					}
					okAll := len(wnt) == len(out)
					for j := 0; okAll && j < len(wnt); j++ {
						loose := map[string]bool{}
						if i >= 0 {
							loose[wnt[j][i].k] = true
						}
						okAll = recEqLoose(wnt[j], out[j], loose)
					}
					if !okAll {
						b.fail("nest-model", exPR, []rec{in}, strings.TrimSpace(recsJSON(out)), strings.TrimSpace(recsJSON(wnt)), "model: nest --explode --pairs --across-records must emit one record per pair with the pair in the place of the field")
					} else if len(out) != 1 {
						b.w.Nontrivial(1)
					}
				}
			}
		}
	}
	// -r: regex field selection for explode across fields
	if b.unit("nest -r") {
		b.hit("nest", "-r")
		recs := []rec{
			{{"x", S("p;q")}, {"y", S("r;s")}, {"z", S("t;u")}},
			{{"z", S("t")}, {"y", S("")}, {"xx", S("p;q")}},
			{{"w", "1"}},
		}
		mr := compileMillerRegex(`^[xy]$`)
		b.run11("nest", []string{"nest", "--explode", "--values", "--across-fields", "-r", `^[xy]$`}, recs, func(in, out rec) (string, string) {
			var wnt rec
			loose := map[string]bool{}
			for _, f := range in {
				if !mr.re.MatchString(f.k) {
					wnt = append(wnt, f)
					continue
				}
				for n, p := range strings.Split(text(f.v), ";") {
					k := f.k + "_" + strconv.Itoa(n+1)
					wnt = append(wnt, fld{k, S(p)})
					loose[k] = true
				}
			}
			if !recEqLoose(wnt, out, loose) {
				return wnt.json(), "model: nest -r must explode every field whose name matches, in record order"
			}
			return "", ""
		})
	}
}

// commaClass classifies a stream for the bucketing verbs (nest implode, reshape long-to-wide): do two
// records of one schema have different other-field values whose comma-joined texts coincide?
func commaClass(st []rec, others func(r rec) (rec, bool)) string {
	seen := map[string]string{}
	for _, r := range st {
		o, ok := others(r)
		if !ok {
			continue
		}
		var vs []string
		for _, f := range o {
			vs = append(vs, text(f.v))
		}
		joined := strings.Join(o.keys(), "\x00") + "\x01" + strings.Join(vs, ",")
		exact := o.json()
		if prev, ok := seen[joined]; ok && prev != exact {
			return " [other-field values whose comma-joined texts coincide]"
		}
		seen[joined] = exact
	}
	return " [plain]"
}

func isDigits(s string) bool {
	if s == "" {
		return false
	}
	for _, c := range s {
		if c < '0' || c > '9' {
			return false
		}
	}
	return true
}

// nestImplodeStreams: streams of <= 3 records over a small record set; direct
// model of implode-across-records and the explode/implode round trip.
func (b *vb) nestImplodeStreams(quick bool, name, fs string, exR, imR []string) {
	other := []string{S(""), S(","), "1"}
	var base []rec
	for _, xv := range []string{S("p"), S("q" + fs + "p"), S("")} {
		for _, yv := range other {
			for _, wv := range other[:2] {
				base = append(base, rec{{"y", yv}, {name, xv}, {"w", wv}})
			}
		}
		base = append(base, rec{{name, xv}})
	}
	base = append(base, rec{{"y", "1"}, {"w", S("")}}, rec{{"w", S("")}, {name, S("p")}, {"y", S("")}})
	maxN := 3
	if quick && name != "x" {
		maxN = 2
	}
	streams := genStreams(base, maxN)
	const per = 96
	for c := 0; c < len(streams); c += per {
		if !b.unit(fmt.Sprintf("%s streams %d..", strings.Join(imR, " "), c)) {
			continue
		}
		b.hit("nest", "--implode --values --across-records")
		b.w.Count("law:nest explode then implode (values across records) = id", 1)
		for _, st := range streams[c:min(len(streams), c+per)] {
			b.keySuffix = commaClass(st, func(r rec) (rec, bool) {
				i := r.find(name)
				if i < 0 {
					return nil, false
				}
				return append(r[:i:i].clone(), r[i+1:]...), true
			})
			// direct model. Output order: records of one schema (list of other field names) keep their
			// first-seen order; the interleaving of different schemas is not specified (non-streaming verb).
			looseX := func(a, c rec) bool { return recEqLoose(a, c, map[string]bool{name: true}) }
			out, ok := b.runStream("nest", imR, st)
			if ok {
				var pass []rec
				var classes [][]rec
				classOf := map[string]int{}
				groupOf := map[string][2]int{}
				for _, r := range st {
					i := r.find(name)
					if i < 0 {
						pass = append(pass, r)
						continue
					}
					others := append(r[:i:i].clone(), r[i+1:]...)
					schema := strings.Join(others.keys(), "\x00")
					ci, ok := classOf[schema]
					if !ok {
						ci = len(classes)
						classOf[schema] = ci
						classes = append(classes, nil)
					}
					sig := others.json()
					if g, ok := groupOf[sig]; ok {
						gr := classes[g[0]][g[1]]
						j := gr.find(name)
						gr[j].v = S(text(gr[j].v) + fs + text(r[i].v))
					} else {
						g := r.clone()
						g[i].v = S(text(r[i].v))
						groupOf[sig] = [2]int{ci, len(classes[ci])}
						classes[ci] = append(classes[ci], g)
					}
				}
				all := append([][]rec{pass}, classes...)
				if !matchClasses(all, out, looseX) {
					var flat []rec
					for _, c := range all {
						flat = append(flat, c...)
					}
					b.fail("nest-implode", imR, st, strings.TrimSpace(recsJSON(out)), strings.TrimSpace(recsJSON(flat))+" (records of one schema in this order)", "model: nest --implode --values --across-records must merge exactly the records whose other fields (names, values, order) are identical, joining the field's values in order of appearance, other fields untouched")
				} else if len(out) != len(st) {
					b.w.Nontrivial(1)
				}
			}
			// round trip on the law's domain: other-field tuples pairwise distinct among the records holding the field
			seen := map[string]bool{}
			dom := true
			for _, r := range st {
				i := r.find(name)
				if i < 0 {
					continue
				}
				sig := append(r[:i:i].clone(), r[i+1:]...).json()
				if seen[sig] {
					dom = false
				}
				seen[sig] = true
			}
			if !dom {
				b.w.Count("domain:nest round trip: outside (records with identical other fields)", 1)
				continue
			}
			b.w.Count("domain:nest round trip: inside", 1)
			rt := append(append(append([]string(nil), exR...), "then"), imR...)
			out2, ok := b.runStream("nest-law", rt, st)
			if !ok {
				continue
			}
			var classes [][]rec
			classOf := map[string]int{}
			for _, r := range st {
				schema := strings.Join(r.keys(), "\x00")
				ci, ok := classOf[schema]
				if !ok {
					ci = len(classes)
					classOf[schema] = ci
					classes = append(classes, nil)
				}
				classes[ci] = append(classes[ci], r)
			}
			if !matchClasses(classes, out2, looseX) {
				b.fail("nest-law", rt, st, strings.TrimSpace(recsJSON(out2)), strings.TrimSpace(recsJSON(st)), "law: nest --explode --values --across-records then --implode must give the input records back (records of one schema in their order) when no two records share their other fields")
			}
		}
		b.keySuffix = ""
	}
}

// matchClasses: every class must appear in out as a subsequence (in class order), the
// classes together covering out exactly.
func matchClasses(classes [][]rec, out []rec, eq func(a, c rec) bool) bool {
	used := make([]bool, len(out))
	for _, cl := range classes {
		pos := 0
		for _, want := range cl {
			found := -1
			for j := pos; j < len(out); j++ {
				if !used[j] && eq(want, out[j]) {
					found = j
					break
				}
			}
			if found < 0 {
				return false
			}
			used[found] = true
			pos = found + 1
		}
	}
	for _, u := range used {
		if !u {
			return false
		}
	}
	return true
}

// ---------------------------------------------------------------- reshape

func (b *vb) reshape(quick bool) {
	U := b.universe(quick)
	ilists := keyLists([]string{"a", "b c", "a*", "z"}, 2, false)[1:]
	w2l := func(in rec, sel []string) []rec {
		// sel: the input fields present, in pair order
		if len(sel) == 0 {
			return nil
		}
		others := without(in, func(k string) bool { return inList(sel, k) })
		var outs []rec
		for _, k := range sel {
			o := others.clone()
			o = append(o, fld{"key", S(k)}, fld{"value", in[in.find(k)].v})
			outs = append(outs, o)
		}
		return outs
	}
	checkW2L := func(args []string, in rec, sel []string) {
		out, ok := b.runStream("reshape", args, []rec{in})
		if !ok {
			return
		}
		wnt := w2l(in, sel)
		if wnt == nil {
			// none of the input fields present: usage does not say; unchanged or nothing
			b.unconstrained("reshape wide-to-long: record without any of the input fields", 1)
			if len(out) > 1 || (len(out) == 1 && !recEq(out[0], in)) {
				b.fail("reshape-model", args, []rec{in}, strings.TrimSpace(recsJSON(out)), "the record unchanged (or nothing)", "model: reshape wide-to-long altered a record that has none of the input fields")
			}
			return
		}
		if !recsEq(wnt, out) {
			b.fail("reshape-model", args, []rec{in}, strings.TrimSpace(recsJSON(out)), strings.TrimSpace(recsJSON(wnt)), "model: reshape wide-to-long must emit, per input field present, the other fields unchanged followed by the key and value fields")
		} else {
			b.w.Nontrivial(1)
		}
	}
	for _, F := range ilists {
		F := F
		args := []string{"reshape", "-i", joinc(F), "-o", "key,value"}
		if !b.unit(strings.Join(args, " ")) {
			continue
		}
		b.hit("reshape", "-i -o")
		for _, in := range U {
			var sel []string
			for _, k := range F {
				if in.has(k) {
					sel = append(sel, k)
				}
			}
			checkW2L(args, in, sel)
		}
	}
	for _, R := range [][]string{{`^a`}, {`a*`}, {`^a\*$`, `c`}, {`"B"i`}, {`\.`, `^b`}} {
		R := R
		args := []string{"reshape"}
		var res []mregex
		for _, r := range R {
			args = append(args, "-r", r)
			res = append(res, compileMillerRegex(r))
		}
		args = append(args, "-o", "key,value")
		if !b.unit(strings.Join(args, " ")) {
			continue
		}
		b.hit("reshape", "-r -o")
		for _, in := range U {
			var sel []string
			for _, f := range in {
				for _, r := range res {
					if r.re.MatchString(f.k) {
						sel = append(sel, f.k)
						break
					}
				}
			}
			checkW2L(args, in, sel)
		}
	}
	// long-to-wide model and the round trip, on streams of rectangular wide records
	ov := []string{S(""), S(","), "1"}
	var base []rec
	for _, idv := range ov {
		for _, tv := range ov[:2] {
			for _, xv := range []string{"3", S("")} {
				base = append(base, rec{{"id", idv}, {"t", tv}, {"X", xv}, {"a*", S("y")}})
			}
		}
	}
	maxN := 3
	streams := genStreams(base, maxN)
	const per = 96
	for _, F := range [][]string{{"X", "a*"}, {"a*", "X"}, {"a*"}, {"t", "X"}} {
		F := F
		w2lArgs := []string{"reshape", "-i", joinc(F), "-o", "key,value"}
		l2wArgs := []string{"reshape", "-s", "key,value"}
		rt := append(append(append([]string(nil), w2lArgs...), "then"), l2wArgs...)
		for c := 0; c < len(streams); c += per {
			if !b.unit(fmt.Sprintf("%s streams %d..", strings.Join(rt, " "), c)) {
				continue
			}
			b.hit("reshape", "-s (long-to-wide)")
			b.w.Count("law:reshape wide-to-long then long-to-wide = id", 1)
			for _, st := range streams[c:min(len(streams), c+per)] {
				seen := map[string]bool{}
				dom := true
				for _, r := range st {
					sig := without(r, func(k string) bool { return inList(F, k) }).json()
					if seen[sig] {
						dom = false
					}
					seen[sig] = true
				}
				if !dom {
					b.w.Count("domain:reshape round trip: outside (records with identical other fields)", 1)
					continue
				}
				b.w.Count("domain:reshape round trip: inside", 1)
				b.keySuffix = commaClass(st, func(r rec) (rec, bool) { return without(r, func(k string) bool { return inList(F, k) }), true })
				out, ok := b.runStream("reshape-law", rt, st)
				if !ok {
					continue
				}
				// expected: others in order, then the -i fields in -i order
				var wnt []rec
				for _, r := range st {
					w := without(r, func(k string) bool { return inList(F, k) })
					w = append(w, pick(r, F)...)
					wnt = append(wnt, w)
				}
				if !recsEq(wnt, out) {
					b.fail("reshape-law", rt, st, strings.TrimSpace(recsJSON(out)), strings.TrimSpace(recsJSON(wnt)), "law: reshape wide-to-long then long-to-wide must give the records back (other fields untouched, the reshaped fields after them) when no two records share their other fields")
				} else {
					b.w.Nontrivial(1)
				}
				b.keySuffix = ""
			}
			b.keySuffix = ""
		}
	}
	// long-to-wide direct model on long data (incl. records lacking the key or value field)
	var lbase []rec
	for _, idv := range ov {
		for _, kv := range []string{S("X"), S("b c")} {
			lbase = append(lbase, rec{{"id", idv}, {"key", kv}, {"value", "1"}, {"u", S("")}}, rec{{"key", kv}, {"id", idv}, {"u", S(",")}, {"value", S("v")}})
		}
	}
	// heterogeneous other fields: different order, a subset, none
	lbase = append(lbase, rec{{"u", S("")}, {"id", S("")}, {"key", S("X")}, {"value", "2"}}, rec{{"id", S("")}, {"key", S("b c")}, {"value", "3"}}, rec{{"key", S("X")}, {"value", "4"}})
	lbase = append(lbase, rec{{"id", "1"}, {"key", S("X")}}, rec{{"id", "1"}, {"u", S("")}})
	lstreams := genStreams(lbase, 3)
	l2wArgs := []string{"reshape", "-s", "key,value"}
	for c := 0; c < len(lstreams); c += per {
		if !b.unit(fmt.Sprintf("reshape -s streams %d..", c)) {
			continue
		}
		b.hit("reshape", "-s (long-to-wide)")
		for _, st := range lstreams[c:min(len(lstreams), c+per)] {
			b.keySuffix = commaClass(st, func(r rec) (rec, bool) {
				if !r.has("key") || !r.has("value") {
					return nil, false
				}
				return without(r, func(k string) bool { return k == "key" || k == "value" }), true
			})
			out, ok := b.runStream("reshape", l2wArgs, st)
			if !ok {
				continue
			}
			var pass []rec
			var classes [][]rec
			classOf := map[string]int{}
			groupOf := map[string][2]int{}
			for _, r := range st {
				if !r.has("key") || !r.has("value") {
					pass = append(pass, r)
					continue
				}
				others := without(r, func(k string) bool { return k == "key" || k == "value" })
				schema := strings.Join(others.keys(), "\x00")
				ci, ok := classOf[schema]
				if !ok {
					ci = len(classes)
					classOf[schema] = ci
					classes = append(classes, nil)
				}
				sig := others.json()
				g, ok := groupOf[sig]
				if !ok {
					g = [2]int{ci, len(classes[ci])}
					groupOf[sig] = g
					classes[ci] = append(classes[ci], others.clone())
				}
				nk, nv := text(r[r.find("key")].v), r[r.find("value")].v
				gr := classes[g[0]][g[1]]
				if j := gr.find(nk); j >= 0 {
					gr[j].v = nv
				} else {
					classes[g[0]][g[1]] = append(gr, fld{nk, nv})
				}
			}
			collide := false
			for _, r := range st {
				if i := r.find("key"); i >= 0 && (text(r[i].v) == "id" || text(r[i].v) == "u") {
					collide = true
				}
			}
			if collide {
				b.unconstrained("reshape long-to-wide: a key-field value collides with another field name", 1)
				continue
			}
			all := append([][]rec{pass}, classes...)
			if !matchClasses(all, out, recEq) {
				var flat []rec
				for _, c := range all {
					flat = append(flat, c...)
				}
				b.fail("reshape-l2w", l2wArgs, st, strings.TrimSpace(recsJSON(out)), strings.TrimSpace(recsJSON(flat))+" (records of one schema in this order)", "model: reshape long-to-wide must merge exactly the records whose other fields (names, values, order) are identical into one record = other fields untouched + one field per key/value pair")
			} else if len(out) != len(st) {
				b.w.Nontrivial(1)
			}
		}
		b.keySuffix = ""
	}
	b.keySuffix = ""
}
