package c12

// Layer A: explicit-state search over the real mlrval.Mlrmap. Breadth-first over
// operation sequences; successor = fresh real map + replay of the path + one more
// op; four construction modes in lock-step; reference model = ordered list of
// pairs written from the accessor doc comments.

import (
	"crypto/sha256"
	"fmt"
	"os"
	"sort"
	"strconv"
	"strings"

	"github.com/johnkerl/miller/v6/pkg/mlrval"

	"verif/harness/vf"
)

type opKind int

const (
	opPutCopy opKind = iota
	opPutReference
	opPrependCopy
	opPrependReference
	opPutReferenceAfter
	opPutDedupe
	opRemove
	opRename
	opMoveToHead
	opMoveToTail
	opPutNamePos
	opPutCopyPos
	opRemovePos
	opGetPos
	opGetNamePos
	opLabel
	opSortByKey
	opGet
	opHas
	opUnlinkEntry
	opCopy
	opClear
	opMerge
	nOpKinds
)

var opNames = [...]string{"PutCopy", "PutReference", "PrependCopy", "PrependReference", "PutReferenceAfter", "PutReferenceMaybeDedupe",
	"Remove", "Rename", "MoveToHead", "MoveToTail", "PutNameWithPositionalIndex", "PutCopyWithPositionalIndex", "RemoveWithPositionalIndex",
	"GetWithPositionalIndex", "GetNameAtPositionalIndex", "Label", "SortByKey", "Get", "Has", "Unlink(GetEntry)", "Copy", "Clear", "Merge"}

type mop struct {
	kind  opKind
	k1    string
	k2    string
	pos   int64
	v     int
	names []string
}

func (o mop) String() string {
	n := opNames[o.kind]
	switch o.kind {
	case opPutCopy, opPutReference, opPrependCopy, opPrependReference, opPutDedupe:
		return fmt.Sprintf("%s(%s,%d)", n, o.k1, o.v)
	case opPutReferenceAfter:
		return fmt.Sprintf("%s(GetEntry(%s),%s,%d)", n, o.k1, o.k2, o.v)
	case opRemove, opMoveToHead, opMoveToTail, opGet, opHas, opUnlinkEntry:
		return fmt.Sprintf("%s(%s)", n, o.k1)
	case opRename:
		return fmt.Sprintf("%s(%s,%s)", n, o.k1, o.k2)
	case opPutNamePos:
		return fmt.Sprintf("%s(%d,%s)", n, o.pos, o.k1)
	case opPutCopyPos:
		return fmt.Sprintf("%s(%d,%d)", n, o.pos, o.v)
	case opRemovePos, opGetPos, opGetNamePos:
		return fmt.Sprintf("%s(%d)", n, o.pos)
	case opLabel:
		return fmt.Sprintf("%s([%s])", n, strings.Join(o.names, ","))
	case opMerge:
		return fmt.Sprintf("%s({%s:%d,%s:%d})", n, o.k1, o.v, o.k2, 3-o.v)
	}
	return n + "()"
}

type pair struct{ k, v string }
type model []pair

func (m model) find(k string) int {
	for i, p := range m {
		if p.k == k {
			return i
		}
	}
	return -1
}

func (m model) String() string {
	var sb strings.Builder
	for i, p := range m {
		if i > 0 {
			sb.WriteByte(',')
		}
		sb.WriteString(p.k)
		sb.WriteByte('=')
		sb.WriteString(p.v)
	}
	return sb.String()
}

func (m model) clone() model { return append(model(nil), m...) }

func (m model) removeAt(i int) model { return append(m[:i:i], m[i+1:]...) }

func (m model) insertAt(i int, p pair) model {
	out := make(model, 0, len(m)+1)
	out = append(out, m[:i]...)
	out = append(out, p)
	return append(out, m[i:]...)
}

// posIndex maps a 1-up / negative-alias positional index to a slice index
// (-1 when out of bounds), per the doc comment of findEntryByPositionalIndex.
func (m model) posIndex(pos int64) int {
	n := int64(len(m))
	if pos == 0 || pos > n || pos < -n {
		return -1
	}
	if pos > 0 {
		return int(pos - 1)
	}
	return int(n + pos)
}

// variant classifies an op against the pre-state (used in violation keys).
func (o mop) variant(m model) string {
	pres := func(k string) string {
		if m.find(k) >= 0 {
			return "present"
		}
		return "absent"
	}
	switch o.kind {
	case opRename:
		if o.k1 == o.k2 {
			return "old=" + pres(o.k1) + ",new=same"
		}
		return "old=" + pres(o.k1) + ",new=" + pres(o.k2)
	case opPutNamePos:
		i := m.posIndex(o.pos)
		if i < 0 {
			return "pos=invalid"
		}
		if m[i].k == o.k1 {
			return "pos=valid,name=same"
		}
		return "pos=valid,name=" + pres(o.k1)
	case opPutCopyPos, opRemovePos, opGetPos, opGetNamePos:
		if m.posIndex(o.pos) < 0 {
			return "pos=invalid"
		}
		return "pos=valid"
	case opPutReferenceAfter:
		return "after=" + pres(o.k1)
	case opLabel:
		return fmt.Sprintf("n=%d", len(o.names))
	case opSortByKey, opCopy, opClear:
		return ""
	case opMerge:
		return pres(o.k1) + "," + pres(o.k2)
	}
	return "key=" + pres(o.k1)
}

// applyModel returns the successor, the expected observation and whether the
// op is enabled (its documented precondition holds) in m.
func applyModel(m model, o mop) (model, string, bool) {
	val := strconv.Itoa(o.v)
	switch o.kind {
	case opPutCopy, opPutReference:
		if i := m.find(o.k1); i >= 0 {
			n := m.clone()
			n[i].v = val
			return n, "", true
		}
		return append(m.clone(), pair{o.k1, val}), "", true
	case opPrependCopy, opPrependReference:
		if i := m.find(o.k1); i >= 0 {
			n := m.clone()
			n[i].v = val
			return n, "", true
		}
		return m.insertAt(0, pair{o.k1, val}), "", true
	case opPutReferenceAfter:
		// No existence check in the accessor: callers own key-uniqueness. Enabled only for a new key.
		if m.find(o.k2) >= 0 {
			return m, "", false
		}
		i := m.find(o.k1)
		if i < 0 || i == len(m)-1 {
			return append(m.clone(), pair{o.k2, val}), "", true
		}
		return m.insertAt(i+1, pair{o.k2, val}), "", true
	case opPutDedupe:
		if m.find(o.k1) < 0 {
			return append(m.clone(), pair{o.k1, val}), o.k1, true
		}
		for i := 2; ; i++ {
			nk := o.k1 + "_" + strconv.Itoa(i)
			if m.find(nk) < 0 {
				return append(m.clone(), pair{nk, val}), nk, true
			}
		}
	case opRemove:
		if i := m.find(o.k1); i >= 0 {
			return m.removeAt(i), "true", true
		}
		return m, "false", true
	case opUnlinkEntry:
		if i := m.find(o.k1); i >= 0 {
			return m.removeAt(i), "", true
		}
		return m, "", true
	case opRename:
		i := m.find(o.k1)
		if i < 0 {
			return m, "false", true
		}
		if o.k1 == o.k2 {
			return m, "true", true // renaming a field to its own name leaves the record as it is
		}
		j := m.find(o.k2)
		if j < 0 {
			n := m.clone()
			n[i].k = o.k2
			return n, "true", true
		}
		// both present: old's value goes into the slot of new, old is removed
		n := m.clone()
		n[j].v = n[i].v
		return n.removeAt(i), "true", true
	case opMoveToHead:
		if i := m.find(o.k1); i >= 0 {
			p := m[i]
			return m.removeAt(i).insertAt(0, p), "", true
		}
		return m, "", true
	case opMoveToTail:
		if i := m.find(o.k1); i >= 0 {
			p := m[i]
			return append(m.removeAt(i), p), "", true
		}
		return m, "", true
	case opPutNamePos:
		i := m.posIndex(o.pos)
		if i < 0 {
			return m, "", true
		}
		n := m.clone()
		if j := n.find(o.k1); j >= 0 && j != i {
			// another field already has that name: it goes away (key uniqueness)
			n[i].k = o.k1
			return n.removeAt(j), "", true
		}
		n[i].k = o.k1
		return n, "", true
	case opPutCopyPos:
		i := m.posIndex(o.pos)
		if i < 0 {
			return m, "", true
		}
		n := m.clone()
		n[i].v = val
		return n, "", true
	case opRemovePos:
		i := m.posIndex(o.pos)
		if i < 0 {
			return m, "", true
		}
		return m.removeAt(i), "", true
	case opGetPos:
		i := m.posIndex(o.pos)
		if i < 0 {
			return m, "nil", true
		}
		return m, m[i].v, true
	case opGetNamePos:
		i := m.posIndex(o.pos)
		if i < 0 {
			return m, ",false", true
		}
		return m, m[i].k + ",true", true
	case opLabel:
		var n model
		used := map[string]bool{}
		for i, p := range m {
			if i < len(o.names) {
				n = append(n, pair{o.names[i], p.v})
				used[o.names[i]] = true
			}
		}
		for i, p := range m {
			if i >= len(o.names) && !used[p.k] {
				n = append(n, p)
			}
		}
		return n, "", true
	case opSortByKey:
		n := m.clone()
		sort.SliceStable(n, func(i, j int) bool { return n[i].k < n[j].k })
		return n, "", true
	case opGet:
		if i := m.find(o.k1); i >= 0 {
			return m, m[i].v, true
		}
		return m, "nil", true
	case opHas:
		return m, strconv.FormatBool(m.find(o.k1) >= 0), true
	case opCopy:
		return m, "copy-equal", true
	case opClear:
		return nil, "", true
	case opMerge:
		n := m.clone()
		for _, p := range []pair{{o.k1, val}, {o.k2, strconv.Itoa(3 - o.v)}} {
			if i := n.find(p.k); i >= 0 {
				n[i].v = p.v
			} else {
				n = append(n, p)
			}
		}
		return n, "", true
	}
	panic("unreachable")
}

func listString(m *mlrval.Mlrmap) string {
	var sb strings.Builder
	n := 0
	for pe := m.Head; pe != nil && n < 1000; pe = pe.Next {
		if n > 0 {
			sb.WriteByte(',')
		}
		sb.WriteString(pe.Key)
		sb.WriteByte('=')
		if pe.Value == nil {
			sb.WriteString("<nil>")
		} else {
			sb.WriteString(pe.Value.String())
		}
		n++
	}
	return sb.String()
}

func applyReal(pm **mlrval.Mlrmap, o mop) string {
	m := *pm
	val := func() *mlrval.Mlrval { return mlrval.FromInt(int64(o.v)) }
	vstr := func(v *mlrval.Mlrval) string {
		if v == nil {
			return "nil"
		}
		return v.String()
	}
	switch o.kind {
	case opPutCopy:
		m.PutCopy(o.k1, val())
	case opPutReference:
		m.PutReference(o.k1, val())
	case opPrependCopy:
		m.PrependCopy(o.k1, val())
	case opPrependReference:
		m.PrependReference(o.k1, val())
	case opPutReferenceAfter:
		m.PutReferenceAfter(m.GetEntry(o.k1), o.k2, val())
	case opPutDedupe:
		k, _ := m.PutReferenceMaybeDedupe(o.k1, val(), true)
		return k
	case opRemove:
		return strconv.FormatBool(m.Remove(o.k1))
	case opUnlinkEntry:
		if pe := m.GetEntry(o.k1); pe != nil {
			m.Unlink(pe)
		}
	case opRename:
		return strconv.FormatBool(m.Rename(o.k1, o.k2))
	case opMoveToHead:
		m.MoveToHead(o.k1)
	case opMoveToTail:
		m.MoveToTail(o.k1)
	case opPutNamePos:
		m.PutNameWithPositionalIndex(o.pos, mlrval.FromString(o.k1))
	case opPutCopyPos:
		m.PutCopyWithPositionalIndex(o.pos, val())
	case opRemovePos:
		m.RemoveWithPositionalIndex(o.pos)
	case opGetPos:
		return vstr(m.GetWithPositionalIndex(o.pos))
	case opGetNamePos:
		k, ok := m.GetNameAtPositionalIndex(o.pos)
		return k + "," + strconv.FormatBool(ok)
	case opLabel:
		m.Label(o.names)
	case opSortByKey:
		m.SortByKey()
	case opGet:
		return vstr(m.Get(o.k1))
	case opHas:
		return strconv.FormatBool(m.Has(o.k1))
	case opCopy:
		before := listString(m)
		c := m.Copy()
		after := listString(m)
		cs := listString(c)
		*pm = c // continue on the copy
		if before != after {
			return "copy-changed-the-original:" + after
		}
		if cs != before || c.FieldCount != m.FieldCount {
			return "copy-differs:" + cs
		}
		if !c.Equals(m) || !m.Equals(c) {
			return "copy-not-Equals"
		}
		return "copy-equal"
	case opClear:
		m.Clear()
	case opMerge:
		other := mlrval.NewMlrmap()
		other.PutReference(o.k1, val())
		other.PutReference(o.k2, mlrval.FromInt(int64(3-o.v)))
		m.Merge(other)
	}
	return ""
}

// ---------------------------------------------------------------- modes

const (
	modeLazy = iota
	modeHashed
	modeUnhashed
	modeArena
	nModes
)

var modeNames = [...]string{"lazy", "hashed", "unhashed", "arena-lazy"}

func prefillKeys(n int) []string {
	ks := make([]string, n)
	for i := range ks {
		switch i {
		case 0:
			ks[i] = "a"
		case 1:
			ks[i] = "b"
		case 2:
			ks[i] = "c"
		default:
			ks[i] = fmt.Sprintf("f%02d", i+1)
		}
	}
	return ks
}

func prefillModel(n int) model {
	var m model
	for i, k := range prefillKeys(n) {
		m = append(m, pair{k, "p" + strconv.Itoa(i+1)})
	}
	return m
}

// newReal builds a fresh map of the given mode holding the n-field prefill. It
// sets the process-wide hash-records switch the way that mode runs in mlr
// (Label/SortByKey consult it when they rebuild the record).
func newReal(mode, n int) *mlrval.Mlrmap {
	var m *mlrval.Mlrmap
	ks := prefillKeys(n)
	switch mode {
	case modeLazy:
		mlrval.HashRecords(true)
		m = mlrval.NewMlrmapAsRecord()
	case modeHashed:
		mlrval.HashRecords(true)
		m = mlrval.NewMlrmap()
	case modeUnhashed:
		mlrval.HashRecords(false)
		m = mlrval.NewMlrmapAsRecord()
	case modeArena:
		mlrval.HashRecords(true)
		ar := mlrval.NewRecordArena(n + 1)
		m = ar.NewRecord()
		for i, k := range ks {
			ar.PutDeferred(m, k, "p"+strconv.Itoa(i+1), true)
		}
		return m
	}
	for i, k := range ks {
		m.PutReference(k, mlrval.FromString("p"+strconv.Itoa(i+1)))
	}
	return m
}

// ---------------------------------------------------------------- dump + invariants

type dumpT struct {
	list   model
	index  string // "nil" or sorted key>pos list
	auto   bool
	errs   []string // structural invariant failures: kind:detail
	fcount int64
}

func dumpReal(m *mlrval.Mlrmap) dumpT {
	var d dumpT
	d.fcount = m.FieldCount
	d.auto = mlrval.VerifC12AutoHash(m)
	var ents []*mlrval.MlrmapEntry
	posOf := func(pe *mlrval.MlrmapEntry) int {
		for i, e := range ents {
			if e == pe {
				return i
			}
		}
		return -1
	}
	var prev *mlrval.MlrmapEntry
	i := 0
	for pe := m.Head; pe != nil; pe = pe.Next {
		if i > 64 && posOf(pe) >= 0 {
			d.errs = append(d.errs, "list-cycle:entry "+pe.Key+" reached twice")
			break
		}
		ents = append(ents, pe)
		v := "<nil>"
		if pe.Value != nil {
			v = pe.Value.String()
		}
		d.list = append(d.list, pair{pe.Key, v})
		if pe.Prev != prev {
			d.errs = append(d.errs, fmt.Sprintf("prev-next-asymmetry:entry %d (%s).Prev is not its predecessor", i+1, pe.Key))
		}
		prev = pe
		i++
		if i > 4096 {
			d.errs = append(d.errs, "list-unbounded:")
			break
		}
	}
	if m.Tail != prev {
		d.errs = append(d.errs, "tail-not-last:Tail does not point at the last entry reachable from Head")
	}
	if m.Head != nil && m.Head.Prev != nil {
		d.errs = append(d.errs, "head-has-prev:")
	}
	if m.Tail != nil && m.Tail.Next != nil {
		d.errs = append(d.errs, "tail-has-next:")
	}
	if int64(len(d.list)) != m.FieldCount {
		d.errs = append(d.errs, fmt.Sprintf("fieldcount:FieldCount=%d but %d entries are linked", m.FieldCount, len(d.list)))
	}
	firstOf := func(k string) int {
		for j, p := range d.list {
			if p.k == k {
				return j
			}
		}
		return -1
	}
	for j, p := range d.list {
		if firstOf(p.k) != j {
			d.errs = append(d.errs, "duplicate-key:"+p.k)
		}
	}
	idx := mlrval.VerifC12Index(m)
	if idx == nil {
		d.index = "nil"
		return d
	}
	keys := make([]string, 0, len(idx))
	for k := range idx {
		keys = append(keys, k)
	}
	sort.Strings(keys)
	var sb strings.Builder
	for _, k := range keys {
		pe := idx[k]
		p := posOf(pe)
		sb.WriteString(k)
		sb.WriteByte('>')
		sb.WriteString(strconv.Itoa(p))
		sb.WriteByte(';')
		switch {
		case pe == nil:
			d.errs = append(d.errs, "index-stale:index["+k+"] is nil")
		case p < 0:
			d.errs = append(d.errs, "index-stale:index["+k+"] points at an entry that is not linked in the list")
		case pe.Key != k:
			d.errs = append(d.errs, "index-stale:index["+k+"] points at the entry now named "+pe.Key)
		case firstOf(k) != p:
			d.errs = append(d.errs, "index-not-first:index["+k+"] is not the first entry with that key")
		}
	}
	for j, p := range d.list {
		if firstOf(p.k) == j {
			if _, ok := idx[p.k]; !ok {
				d.errs = append(d.errs, "index-missing:field "+p.k+" is linked but has no index entry")
			}
		}
	}
	d.index = sb.String()
	return d
}

// ---------------------------------------------------------------- menus

var mcKeys = []string{"a", "b", "c", "new"}

// buildMenu: the full menu (values {1,2}); extended adds the key-growing ops
// (PutReferenceMaybeDedupe, Label with 3 names); slim (pre-filled starts, where
// the pre-fill values are distinct from every written value anyway) writes the
// single value 1.
func buildMenu(extended, slim bool) []mop {
	var ops []mop
	vals := []int{1, 2}
	if slim {
		vals = []int{1}
	}
	poss := []int64{-3, -2, -1, 0, 1, 2, 3, 4}
	for _, kind := range []opKind{opPutCopy, opPutReference, opPrependCopy, opPrependReference} {
		for _, k := range mcKeys {
			for _, v := range vals {
				ops = append(ops, mop{kind: kind, k1: k, v: v})
			}
		}
	}
	for _, k1 := range mcKeys {
		for _, k2 := range mcKeys {
			for _, v := range vals {
				ops = append(ops, mop{kind: opPutReferenceAfter, k1: k1, k2: k2, v: v})
			}
		}
	}
	for _, kind := range []opKind{opRemove, opMoveToHead, opMoveToTail, opGet, opHas, opUnlinkEntry} {
		for _, k := range mcKeys {
			ops = append(ops, mop{kind: kind, k1: k})
		}
	}
	for _, k1 := range mcKeys {
		for _, k2 := range mcKeys {
			ops = append(ops, mop{kind: opRename, k1: k1, k2: k2})
		}
	}
	for _, p := range poss {
		for _, k := range mcKeys {
			ops = append(ops, mop{kind: opPutNamePos, pos: p, k1: k})
		}
		for _, v := range vals {
			ops = append(ops, mop{kind: opPutCopyPos, pos: p, v: v})
		}
		ops = append(ops, mop{kind: opRemovePos, pos: p}, mop{kind: opGetPos, pos: p}, mop{kind: opGetNamePos, pos: p})
	}
	// Label: every list of distinct names (the verb rejects duplicates) up to length 2 (3 in the extended menu)
	maxLabel := 2
	if extended {
		maxLabel = 3
	}
	var rec func(cur []string)
	rec = func(cur []string) {
		if len(cur) > 0 {
			ops = append(ops, mop{kind: opLabel, names: append([]string(nil), cur...)})
		}
		if len(cur) == maxLabel {
			return
		}
	next:
		for _, k := range mcKeys {
			for _, c := range cur {
				if c == k {
					continue next
				}
			}
			rec(append(cur, k))
		}
	}
	rec(nil)
	ops = append(ops, mop{kind: opSortByKey}, mop{kind: opCopy}, mop{kind: opClear})
	ops = append(ops, mop{kind: opMerge, k1: "a", k2: "new", v: 1}, mop{kind: opMerge, k1: "c", k2: "b", v: 2})
	if extended {
		for _, k := range mcKeys {
			for _, v := range vals {
				ops = append(ops, mop{kind: opPutDedupe, k1: k, v: v})
			}
		}
	}
	return ops
}

// ---------------------------------------------------------------- explorer

type mcNode struct {
	parent int32
	op     int16
	depth  int8
}

type mcConfig struct {
	name     string
	prefill  int
	extended bool
	maxDepth int // 0 = to fixpoint
}

type mcStats struct {
	states, transitions, traces int64
	maxDepthDone                int
	fixpoint                    bool
	perOp                       [nOpKinds]int64
	perOpChanged                [nOpKinds]int64
	agree                       int64
	indexBuilt                  [nModes]int64 // transitions after which that mode has an index
	readBuiltIndex              int64         // Get/Has on a lazily hashed map that had no index and has one afterwards
}

type explorer struct {
	w     *vf.Worker
	cfg   mcConfig
	menu  []mop
	nodes []mcNode
	seen  map[[16]byte]struct{}
	st    mcStats
	nviol int
}

func (e *explorer) path(n int32) []mop {
	var rev []mop
	for n > 0 {
		nd := e.nodes[n]
		rev = append(rev, e.menu[nd.op])
		n = nd.parent
	}
	for i, j := 0, len(rev)-1; i < j; i, j = i+1, j-1 {
		rev[i], rev[j] = rev[j], rev[i]
	}
	return rev
}

func pathString(p []mop) string {
	s := make([]string, len(p))
	for i, o := range p {
		s[i] = o.String()
	}
	return strings.Join(s, " ; ")
}

type stepResult struct {
	ok    bool
	canon [16]byte
}

// step replays path+op on a fresh real map in every mode, compares with the
// model, evaluates the invariants and returns the canonical successor state.
func (e *explorer) step(pre model, path []mop, o mop) stepResult {
	exp, expObs, _ := applyModel(pre, o)
	expStr := exp.String()
	var canon strings.Builder
	allOK := true
	var obsAll [nModes]string
	var listAll [nModes]string
	for mode := 0; mode < nModes; mode++ {
		var d dumpT
		var obs string
		p, stack := vf.Try(func() {
			m := newReal(mode, e.cfg.prefill)
			for _, po := range path {
				applyReal(&m, po)
			}
			obs = applyReal(&m, o)
			d = dumpReal(m)
		})
		mlrval.HashRecords(true)
		e.st.traces++
		report := func(kind, detail string) {
			allOK = false
			e.nviol++
			key := fmt.Sprintf("mlrmap-%s(%s[%s],mode=%s)", kind, opNames[o.kind], o.variant(pre), modeNames[mode])
			what := fmt.Sprintf("Mlrmap (%s construction, %d-field start): after [%s] the op %s %s; reference ordered list: %s -> %s", modeNames[mode], e.cfg.prefill, pathString(path), o.String(), detail, pre.String(), expStr)
			e.w.Violation(key, what, map[string]any{"layer": "mlrmap", "mode": modeNames[mode], "prefill_fields": e.cfg.prefill, "prefill_keys": prefillKeys(e.cfg.prefill),
				"path": strings.Split(pathString(path), " ; "), "op": o.String(), "model_before": pre.String(), "model_after": expStr, "real_after": d.list.String(), "real_index": d.index, "detail": detail})
		}
		if p != nil {
			report("panic", fmt.Sprintf("PANICS: %v\n%s", p, firstLines(stack, 12)))
			continue
		}
		got := d.list.String()
		obsAll[mode], listAll[mode] = obs, got
		if got != expStr {
			report("model-mismatch", fmt.Sprintf("leaves [%s], expected [%s]", got, expStr))
		} else if obs != expObs {
			report("observation-mismatch", fmt.Sprintf("returns %q, expected %q", obs, expObs))
		}
		for _, er := range d.errs {
			kind, detail, _ := strings.Cut(er, ":")
			if kind == "duplicate-key" && got != expStr {
				continue // already reported as the model mismatch
			}
			report(kind, "breaks a structural invariant: "+kind+" "+detail+fmt.Sprintf(" (list [%s], index %s, FieldCount %d)", got, d.index, d.fcount))
		}
		if d.index != "nil" {
			e.st.indexBuilt[mode]++
			if mode == modeLazy && (o.kind == opGet || o.kind == opHas) {
				// did this read build the index? replay the path alone and look
				var before string
				vf.Try(func() {
					m := newReal(mode, e.cfg.prefill)
					for _, po := range path {
						applyReal(&m, po)
					}
					if mlrval.VerifC12Index(m) == nil {
						before = "nil"
					}
				})
				mlrval.HashRecords(true)
				if before == "nil" {
					e.st.readBuiltIndex++
				}
			}
		}
		canon.WriteString(got)
		canon.WriteByte('|')
		canon.WriteString(d.index)
		if d.auto {
			canon.WriteByte('L')
		}
		canon.WriteString(strconv.FormatInt(d.fcount, 10))
		canon.WriteByte('\n')
	}
	if allOK {
		same := true
		for mode := 1; mode < nModes; mode++ {
			if obsAll[mode] != obsAll[0] || listAll[mode] != listAll[0] {
				same = false
			}
		}
		if same {
			e.st.agree++
		} else {
			allOK = false
			e.w.Violation(fmt.Sprintf("mlrmap-modes-disagree(%s[%s])", opNames[o.kind], o.variant(pre)), fmt.Sprintf("construction modes disagree after [%s] ; %s: %v / %v", pathString(path), o.String(), listAll, obsAll), nil)
		}
	}
	var r stepResult
	r.ok = allOK
	sum := sha256.Sum256([]byte(canon.String()))
	copy(r.canon[:], sum[:16])
	return r
}

func firstLines(s string, n int) string {
	l := strings.Split(s, "\n")
	if len(l) > n {
		l = l[:n]
	}
	return strings.Join(l, "\n")
}

// rootStates runs every enabled op on the start state and returns the ops that
// lead to pairwise distinct new states (the shard units), in menu order.
// When check is false violations/statistics are discarded (another shard owns them).
func (e *explorer) expand(n int32, pre model, path []mop, budgetLeft bool) (succ []int32) {
	for oi, o := range e.menu {
		if _, _, en := applyModel(pre, o); !en {
			continue
		}
		r := e.step(pre, path, o)
		e.st.transitions++
		e.st.perOp[o.kind]++
		if !r.ok {
			continue
		}
		if _, dup := e.seen[r.canon]; dup {
			continue
		}
		e.seen[r.canon] = struct{}{}
		e.st.states++
		e.st.perOpChanged[o.kind]++
		e.nodes = append(e.nodes, mcNode{parent: n, op: int16(oi), depth: e.nodes[n].depth + 1})
		succ = append(succ, int32(len(e.nodes)-1))
	}
	return succ
}

func (e *explorer) modelAt(path []mop) model {
	m := prefillModel(e.cfg.prefill)
	for _, o := range path {
		m, _, _ = applyModel(m, o)
	}
	return m
}

// run explores breadth-first from the nodes in frontier down to cfg.maxDepth.
func (e *explorer) bfs(frontier []int32) {
	for len(frontier) > 0 {
		var next []int32
		d := int(e.nodes[frontier[0]].depth)
		if e.cfg.maxDepth > 0 && d >= e.cfg.maxDepth {
			return
		}
		for _, n := range frontier {
			p := e.path(n)
			next = append(next, e.expand(n, e.modelAt(p), p, true)...)
		}
		e.st.maxDepthDone = d + 1
		frontier = next
	}
	e.st.fixpoint = true
}

func mcConfigs(quick bool) []mcConfig {
	if quick {
		return []mcConfig{
			{name: "empty-closure", prefill: 0, extended: false, maxDepth: 0},
			{name: "empty-extended", prefill: 0, extended: true, maxDepth: 4},
			{name: "prefill-11", prefill: 11, extended: false, maxDepth: 3},
			{name: "prefill-12", prefill: 12, extended: false, maxDepth: 3},
			{name: "prefill-13", prefill: 13, extended: false, maxDepth: 3},
		}
	}
	return []mcConfig{
		{name: "empty-closure", prefill: 0, extended: false, maxDepth: 0},
		{name: "empty-extended", prefill: 0, extended: true, maxDepth: 5},
		{name: "prefill-11", prefill: 11, extended: false, maxDepth: 4},
		{name: "prefill-12", prefill: 12, extended: false, maxDepth: 4},
		{name: "prefill-13", prefill: 13, extended: false, maxDepth: 4},
	}
}

// mcWorker: shard unit = (configuration, distinct depth-1 successor of the start
// state). Every shard recomputes the (cheap) depth-1 layer; unit 0 of each
// configuration owns its statistics and violations.
func mcWorker(w *vf.Worker) {
	if os.Getenv("VERIF_C12_ONLY") == "verbs" {
		return
	}
	if mlrval.VerifHashThreshold() != 12 {
		w.Count("mc:hash_threshold_is_not_12", 1)
	}
	var idx uint64
	for _, cfg := range mcConfigs(w.Quick()) {
		menu := buildMenu(cfg.extended, cfg.prefill > 0)
		// depth-1 layer (not owned: results discarded unless this shard owns unit 0)
		root := &explorer{w: &vf.Worker{Only: -1}, cfg: cfg, menu: menu, seen: map[[16]byte]struct{}{}}
		root.nodes = []mcNode{{parent: -1, op: -1, depth: 0}}
		start := prefillModel(cfg.prefill)
		// canonical start state: a no-op read on the fresh map
		r0 := root.step(start, nil, mop{kind: opGetNamePos, pos: 0})
		root.seen[r0.canon] = struct{}{}
		root.st = mcStats{}
		idx++
		ownsRoot := w.Mine(idx)
		if ownsRoot {
			w.Begin(idx)
			w.Label(func() string { return "mlrmap " + cfg.name + " depth-1 layer" })
			root.w = w
		}
		level1 := root.expand(0, start, nil, true)
		root.st.maxDepthDone = 1
		if ownsRoot {
			root.st.states++ // the start state
			flushStats(w, cfg, &root.st)
		}
		if cfg.maxDepth == 1 {
			continue
		}
		if cfg.maxDepth == 0 {
			// closure to fixpoint: a single unit (the reachable set is small)
			idx++
			if !w.Mine(idx) {
				continue
			}
			w.Begin(idx)
			w.Label(func() string { return "mlrmap " + cfg.name + " closure" })
			e := &explorer{w: w, cfg: cfg, menu: menu, seen: root.seen, nodes: root.nodes}
			e.bfs(level1)
			flushStats(w, cfg, &e.st)
			last := e.path(int32(len(e.nodes) - 1))
			w.Sample(map[string]any{"layer": "mlrmap", "configuration": cfg.name, "menu_size": len(menu), "deepest_new_state_reached_by": strings.Split(pathString(last), " ; "), "its_reference_list": e.modelAt(last).String()})
			w.Count("mc:"+cfg.name+":fixpoint_reached", b2i(e.st.fixpoint))
			continue
		}
		for _, n1 := range level1 {
			idx++
			if !w.Mine(idx) {
				continue
			}
			w.Begin(idx)
			n1 := n1
			w.Label(func() string { return "mlrmap " + cfg.name + " subtree of " + pathString(root.path(n1)) })
			seen := make(map[[16]byte]struct{}, len(root.seen))
			for k := range root.seen {
				seen[k] = struct{}{}
			}
			e := &explorer{w: w, cfg: cfg, menu: menu, seen: seen, nodes: append([]mcNode(nil), root.nodes...)}
			e.bfs([]int32{n1})
			flushStats(w, cfg, &e.st)
		}
	}
	mlrval.HashRecords(true)
}

func b2i(b bool) int64 {
	if b {
		return 1
	}
	return 0
}

func flushStats(w *vf.Worker, cfg mcConfig, st *mcStats) {
	w.Rep.States += st.states
	w.Rep.Transitions += st.transitions
	w.Eval(st.transitions)
	w.Nontrivial(st.states)
	w.Count("mc:traces_replayed_on_real_map", st.traces)
	w.Count("mc:transitions_all_modes_agree", st.agree)
	w.Count("mc:reads_that_built_the_lazy_index", st.readBuiltIndex)
	w.Count("mc:"+cfg.name+":states", st.states)
	w.Count("mc:"+cfg.name+":transitions", st.transitions)
	for i := 0; i < int(nOpKinds); i++ {
		if st.perOp[i] > 0 {
			w.Count("mc:op:"+opNames[i], st.perOp[i])
			w.Count("mc:op-new-state:"+opNames[i], st.perOpChanged[i])
		}
	}
	for m := 0; m < nModes; m++ {
		w.Count("mc:index-present-after-transition:"+modeNames[m], st.indexBuilt[m])
	}
	if int64(st.maxDepthDone) > 0 {
		w.AddSet("mc:depth:"+cfg.name, strconv.Itoa(st.maxDepthDone))
	}
}
