package c12

// cut, template, reorder, rename, label, regularize, sort-within-records.

import (
	"fmt"
	"os"
	"regexp"
	"sort"
	"strconv"
	"strings"
)

var K7 = append(append([]string(nil), K6...), "z") // z is never present

// field-name regexes (no commas): substring, anchored, quoted, case-insensitive,
// dot as wildcard vs escaped dot, star as operator vs escaped star, space.
var fieldRegexes = []string{`a`, `^a$`, `"^a"`, `"B"i`, `a.b`, `a\.b`, `a*`, `^a\*$`, `b c`, `^[bc]$`, `z`}

func (b *vb) universe(quick bool) []rec {
	if quick {
		return opaqueUniverse(3)
	}
	return opaqueUniverse(4)
}

func (b *vb) argLists(quick bool, alpha []string) [][]string {
	if quick {
		// all lists of length <= 2 (with repeats) + all repeat-free lists of length 3
		l := keyLists(alpha, 2, true)[1:]
		for _, t := range keyLists(alpha, 3, false) {
			if len(t) == 3 {
				l = append(l, t)
			}
		}
		return l
	}
	return keyLists(alpha, 3, true)[1:]
}

// recEqLoose: like recEq but the cells named in loose are compared by text only
// (the quoting of verb-created values is not specified).
func recEqLoose(want, got rec, loose map[string]bool) bool {
	if len(want) != len(got) {
		return false
	}
	for i := range want {
		if want[i].k != got[i].k {
			return false
		}
		if want[i].v != got[i].v {
			if !loose[want[i].k] || text(want[i].v) != text(got[i].v) {
				return false
			}
		}
	}
	return true
}

func pick(in rec, names []string) rec {
	var out rec
	for _, n := range names {
		if i := in.find(n); i >= 0 {
			out = append(out, in[i])
		}
	}
	return out
}

func without(in rec, drop func(k string) bool) rec {
	var out rec
	for _, f := range in {
		if !drop(f.k) {
			out = append(out, f)
		}
	}
	return out
}

// ---------------------------------------------------------------- cut

func (b *vb) cut(quick bool) {
	U := b.universe(quick)
	for _, F := range b.argLists(quick, K7) {
		F := F
		set := map[string]bool{}
		for _, k := range F {
			set[k] = true
		}
		for _, o := range []bool{false, true} {
			for _, x := range []bool{false, true} {
				args := []string{"cut"}
				var flags []string
				if o {
					args = append(args, "-o")
					flags = append(flags, "-o")
				}
				if x {
					args = append(args, "-x")
					flags = append(flags, "-x")
				}
				args = append(args, "-f", joinc(F))
				flags = append(flags, "-f")
				if !b.unit("cut " + strings.Join(args, " ")) {
					continue
				}
				b.hit("cut", flags...)
				o, x := o, x
				b.run11("cut", args, U, func(in, out rec) (string, string) {
					var want []rec
					switch {
					case x:
						want = []rec{without(in, func(k string) bool { return set[k] })}
					case o:
						want = []rec{pick(in, dedupeFirst(F)), pick(in, dedupeLast(F))}
					default:
						want = []rec{without(in, func(k string) bool { return !set[k] })}
					}
					for _, wnt := range want {
						if recEq(wnt, out) {
							return "", ""
						}
					}
					return want[0].json(), "model: cut does not output exactly the documented selection/order"
				})
			}
		}
		// complement law, model-free: cut -f F and cut -x -f F split the record
		if !b.unit("cut-law " + joinc(F)) {
			continue
		}
		b.w.Count("law:cut -f / cut -x -f are complementary", 1)
		inc := b.mlr([]string{"cut", "-f", joinc(F)}, U)
		exc := b.mlr([]string{"cut", "--complement", "-f", joinc(F)}, U)
		b.hit("cut", "--complement")
		b.w.Eval(int64(len(U)))
		if !inc.res.OK() || !exc.res.OK() || inc.perr != nil || exc.perr != nil || len(inc.recs) != len(U) || len(exc.recs) != len(U) {
			b.fail("cut-law", []string{"cut", "-f", joinc(F)}, U[:1], "run failed / record count changed", "two runs with one record per input", "complement: cut -f / cut -x -f could not be compared")
			continue
		}
		for i, in := range U {
			// merge the two parts back in input order
			a, c := inc.recs[i], exc.recs[i]
			var merged rec
			ai, ci := 0, 0
			for _, f := range in {
				switch {
				case ai < len(a) && a[ai] == f:
					merged = append(merged, f)
					ai++
				case ci < len(c) && c[ci] == f:
					merged = append(merged, f)
					ci++
				}
			}
			if ai != len(a) || ci != len(c) || !recEq(merged, in) {
				b.fail("cut-law", []string{"cut", "[-x]", "-f", joinc(F)}, []rec{in}, a.json()+" and "+c.json(), "two complementary order-preserving parts of the input", "complement: cut -f F and cut -x -f F do not partition the record")
			}
		}
	}
	// regex forms
	rlists := keyLists(fieldRegexes, 2, false)[1:]
	for _, R := range rlists {
		R := R
		res := make([]mregex, len(R))
		for i, s := range R {
			res[i] = compileMillerRegex(s)
		}
		firstMatch := func(k string) int {
			for i, r := range res {
				if r.re.MatchString(k) {
					return i
				}
			}
			return -1
		}
		nMatch := func(k string) int {
			n := 0
			for _, r := range res {
				if r.re.MatchString(k) {
					n++
				}
			}
			return n
		}
		for _, o := range []bool{false, true} {
			for _, x := range []bool{false, true} {
				args := []string{"cut", "-r"}
				flags := []string{"-r"}
				if o {
					args = append(args, "-o")
					flags = append(flags, "-r -o")
				}
				if x {
					args = append(args, "-x")
					flags = append(flags, "-r -x")
				}
				args = append(args, "-f", joinc(R))
				if !b.unit("cut " + strings.Join(args, " ")) {
					continue
				}
				b.hit("cut", flags...)
				o, x := o, x
				b.run11("cut", args, U, func(in, out rec) (string, string) {
					sel := without(in, func(k string) bool { return (firstMatch(k) >= 0) == x })
					if o && !x {
						multi := false
						for _, f := range sel {
							if nMatch(f.k) > 1 {
								multi = true
							}
						}
						if multi {
							b.unconstrained("cut -r -o: a field matching several regexes (group not specified)", 1)
							if !sameFieldsAnyOrder(sel, out) {
								return sel.json(), "model: cut -r -o selects the wrong fields"
							}
							return "", ""
						}
						sort.SliceStable(sel, func(i, j int) bool { return firstMatch(sel[i].k) < firstMatch(sel[j].k) })
					}
					if !recEq(sel, out) {
						return sel.json(), "model: cut -r does not output exactly the fields whose names match (regex semantics of the usage text)"
					}
					return "", ""
				})
			}
		}
	}
}

// ---------------------------------------------------------------- template

func (b *vb) template(quick bool) {
	U := b.universe(quick)
	for _, F := range b.argLists(quick, K7) {
		F := F
		for _, fill := range []string{"", "X Y"} {
			args := []string{"template", "-f", joinc(F)}
			flags := []string{"-f"}
			if fill != "" {
				args = append(args, "--fill-with", fill)
				flags = append(flags, "--fill-with")
			}
			if !b.unit(strings.Join(args, " ")) {
				continue
			}
			b.hit("template", flags...)
			fill := fill
			b.run11("template", args, U, func(in, out rec) (string, string) {
				mk := func(names []string) (rec, map[string]bool) {
					var r rec
					loose := map[string]bool{}
					for _, n := range names {
						if i := in.find(n); i >= 0 {
							r = append(r, in[i])
						} else {
							r = append(r, fld{n, S(fill)})
							loose[n] = true
						}
					}
					return r, loose
				}
				w1, l1 := mk(dedupeFirst(F))
				w2, l2 := mk(dedupeLast(F))
				if recEqLoose(w1, out, l1) || recEqLoose(w2, out, l2) {
					return "", ""
				}
				return w1.json(), "model: template output is not the listed fields in list order with the fill value for absent ones"
			})
		}
	}
	// -t: header of a CSV file
	if b.unit("template -t") {
		b.hit("template", "-t")
		p := fmt.Sprintf("/dev/shm/verif-c12-template-%d.csv", os.Getpid())
		if err := os.WriteFile(p, []byte("b c,a*,z,a\n1,2,3,4\n"), 0644); err == nil {
			defer os.Remove(p)
			names := []string{"b c", "a*", "z", "a"}
			b.run11("template", []string{"template", "-t", p}, U, func(in, out rec) (string, string) {
				var wnt rec
				loose := map[string]bool{}
				for _, n := range names {
					if i := in.find(n); i >= 0 {
						wnt = append(wnt, in[i])
					} else {
						wnt = append(wnt, fld{n, S("")})
						loose[n] = true
					}
				}
				if !recEqLoose(wnt, out, loose) {
					return wnt.json(), "model: template -t does not use the CSV header as the field list"
				}
				return "", ""
			})
		}
	}
}

// ---------------------------------------------------------------- reorder

func (b *vb) reorder(quick bool) {
	U := b.universe(quick)
	for _, F := range b.argLists(quick, K7) {
		F := F
		set := map[string]bool{}
		for _, k := range F {
			set[k] = true
		}
		for _, e := range []bool{false, true} {
			args := []string{"reorder"}
			flags := []string{"-f"}
			if e {
				args = append(args, "-e")
				flags = append(flags, "-e")
			}
			args = append(args, "-f", joinc(F))
			if !b.unit(strings.Join(args, " ")) {
				continue
			}
			b.hit("reorder", flags...)
			e := e
			b.run11("reorder", args, U, func(in, out rec) (string, string) {
				rest := without(in, func(k string) bool { return set[k] })
				var wants []rec
				for _, names := range [][]string{dedupeFirst(F), dedupeLast(F)} {
					moved := pick(in, names)
					if e {
						wants = append(wants, append(rest.clone(), moved...))
					} else {
						wants = append(wants, append(moved.clone(), rest...))
					}
				}
				if recEq(wants[0], out) || recEq(wants[1], out) {
					return "", ""
				}
				if w, y := bystander(in, out, func(k string) bool { return set[k] }); y != "" {
					return w, y
				}
				return wants[0].json(), "model: reorder does not put the named fields at the record start/end in the listed order"
			})
		}
	}
	// -b / -a
	var centers = []string{"a", "b c", "z"}
	for _, F := range keyLists(K7, 2, false)[1:] {
		F := F
		set := map[string]bool{}
		for _, k := range F {
			set[k] = true
		}
		for _, c := range centers {
			if set[c] {
				continue
			}
			for _, flag := range []string{"-b", "-a"} {
				args := []string{"reorder", flag, c, "-f", joinc(F)}
				if !b.unit(strings.Join(args, " ")) {
					continue
				}
				b.hit("reorder", flag)
				c, flag := c, flag
				b.run11("reorder", args, U, func(in, out rec) (string, string) {
					ci := in.find(c)
					if ci < 0 {
						if !recEq(in, out) {
							return in.json(), "model: reorder -b/-a moved fields although the centre field is absent"
						}
						return "", ""
					}
					moved := pick(in, F)
					var wnt rec
					for _, f := range in {
						if set[f.k] {
							continue
						}
						if f.k == c {
							if flag == "-b" {
								wnt = append(wnt, moved...)
								wnt = append(wnt, f)
							} else {
								wnt = append(wnt, f)
								wnt = append(wnt, moved...)
							}
							continue
						}
						wnt = append(wnt, f)
					}
					if !recEq(wnt, out) {
						return wnt.json(), "model: reorder -b/-a does not put the named fields right before/after the centre field"
					}
					return "", ""
				})
			}
		}
	}
	// -r
	for _, R := range keyLists(fieldRegexes, 2, false)[1:] {
		R := R
		res := make([]mregex, len(R))
		for i, s := range R {
			res[i] = compileMillerRegex(s)
		}
		for _, e := range []bool{false, true} {
			args := []string{"reorder"}
			flags := []string{"-r"}
			if e {
				args = append(args, "-e")
				flags = append(flags, "-r -e")
			}
			args = append(args, "-r", joinc(R))
			if !b.unit(strings.Join(args, " ")) {
				continue
			}
			b.hit("reorder", flags...)
			e := e
			b.run11("reorder", args, U, func(in, out rec) (string, string) {
				// grouped by the order the regexes are given; within each group record order;
				// a field is claimed by the first regex that matches it
				var moved rec
				claimed := map[string]bool{}
				for _, r := range res {
					for _, f := range in {
						if !claimed[f.k] && r.re.MatchString(f.k) {
							moved = append(moved, f)
							claimed[f.k] = true
						}
					}
				}
				rest := without(in, func(k string) bool { return claimed[k] })
				var wnt rec
				if e {
					wnt = append(rest.clone(), moved...)
				} else {
					wnt = append(moved.clone(), rest...)
				}
				if !recEq(wnt, out) {
					return wnt.json(), "model: reorder -r does not group the matched fields by regex order at the record start/end"
				}
				return "", ""
			})
		}
	}
}

// ---------------------------------------------------------------- rename

// millerSub: first-match (or global) replacement with \1..\9 capture references.
func millerSub(name string, re *regexp.Regexp, repl string, global bool) string {
	// translate \N to ${N}, protect $
	var tb strings.Builder
	for i := 0; i < len(repl); i++ {
		c := repl[i]
		if c == '\\' && i+1 < len(repl) && repl[i+1] >= '0' && repl[i+1] <= '9' {
			tb.WriteString("${" + string(repl[i+1]) + "}")
			i++
			continue
		}
		if c == '$' {
			tb.WriteString("$$")
			continue
		}
		tb.WriteByte(c)
	}
	tmpl := tb.String()
	if global {
		return re.ReplaceAllString(name, tmpl)
	}
	loc := re.FindStringSubmatchIndex(name)
	if loc == nil {
		return name
	}
	var dst []byte
	dst = re.ExpandString(dst, tmpl, name, loc)
	return name[:loc[0]] + string(dst) + name[loc[1]:]
}

func (b *vb) rename(quick bool) {
	U := b.universe(quick)
	olds := K7
	news := append(append([]string(nil), K7...), "new")
	for _, old := range olds {
		for _, nw := range news {
			old, nw := old, nw
			args := []string{"rename", old + "," + nw}
			if b.unit(strings.Join(args, " ")) {
				b.hit("rename", "plain")
				b.run11("rename", args, U, func(in, out rec) (string, string) {
					i := in.find(old)
					if i < 0 || old == nw {
						if !recEq(in, out) {
							if old == nw {
								return in.json(), "model: renaming a field to its own name must leave the record unchanged"
							}
							return in.json(), "model: rename of an absent field must leave the record unchanged"
						}
						return "", ""
					}
					j := in.find(nw)
					if j < 0 {
						wnt := in.clone()
						wnt[i].k = nw
						if !recEq(wnt, out) {
							return wnt.json(), "model: rename does not rename the field in place"
						}
						return "", ""
					}
					// both present: the new name ends up with old's value, exactly once; position in either slot
					w1 := in.clone()
					w1[j].v = in[i].v
					w1 = append(w1[:i:i], w1[i+1:]...)
					w2 := in.clone()
					w2[i].k = nw
					w2 = append(w2[:j:j], w2[j+1:]...)
					if recEq(w1, out) || recEq(w2, out) {
						return "", ""
					}
					return w1.json(), "model: rename onto an existing name must leave one field of that name carrying the renamed field's value, bystanders untouched"
				})
			}
			// law: rename a,b then rename b,a is the identity when b is new
			if old != nw && b.unit("rename-law "+old+","+nw) {
				b.w.Count("law:rename a,b then rename b,a = id when b is new", 1)
				var dom []rec
				for _, r := range U {
					if !r.has(nw) {
						dom = append(dom, r)
					}
				}
				args := []string{"rename", old + "," + nw, "then", "rename", nw + "," + old}
				b.run11("rename-law", args, dom, func(in, out rec) (string, string) {
					if !recEq(in, out) {
						return in.json(), "law: rename a,b then rename b,a must be the identity when b is not a field of the record"
					}
					return "", ""
				})
			}
		}
	}
	// two independent pairs in one call == two calls
	for _, p := range [][4]string{{"a", "x", "b c", "y"}, {"a*", "a.b2", "z", "q"}, {"c", "C", "a.b", "a_b"}} {
		args := []string{"rename", strings.Join(p[:], ",")}
		if !b.unit(strings.Join(args, " ")) {
			continue
		}
		b.hit("rename", "two-pairs")
		p := p
		b.run11("rename", args, U, func(in, out rec) (string, string) {
			wnt := in.clone()
			for i := range wnt {
				if wnt[i].k == p[0] {
					wnt[i].k = p[1]
				} else if wnt[i].k == p[2] {
					wnt[i].k = p[3]
				}
			}
			if !recEq(wnt, out) {
				return wnt.json(), "model: rename with two independent pairs"
			}
			return "", ""
		})
	}
	// regex forms
	type rr struct{ re, repl string }
	var rrs []rr
	for _, re := range []string{`^a$`, `a`, `"A"i`, `\.`, `\*`, ` `, `b`, `z`} {
		rrs = append(rrs, rr{re, "X"}, rr{re, "k_"})
	}
	for _, re := range []string{`^(.)$`, `(b)`, `^(a)(.)`, `"(B)"i`} {
		rrs = append(rrs, rr{re, `<\1>`}, rr{re, `\1\1`})
	}
	rrs = append(rrs, rr{`^(a)(.)`, `\2\1`})
	for _, x := range rrs {
		for _, g := range []bool{false, true} {
			x, g := x, g
			args := []string{"rename", "-r"}
			flag := "-r"
			if g {
				args = []string{"rename", "-g"}
				flag = "-g"
			}
			args = append(args, x.re+","+x.repl)
			if !b.unit(strings.Join(args, " ")) {
				continue
			}
			b.hit("rename", flag)
			if strings.Contains(x.repl, `\`) {
				b.hit("rename", flag+" with capture reference")
			}
			mr := compileMillerRegex(x.re)
			b.run11("rename", args, U, func(in, out rec) (string, string) {
				wnt := in.clone()
				for i := range wnt {
					nn := millerSub(wnt[i].k, mr.re, x.repl, g)
					if nn == wnt[i].k {
						continue
					}
					if wnt.find(nn) >= 0 {
						b.unconstrained("rename -r/-g: new name collides with an existing field", 1)
						// named = every field matching the regex or bearing a produced name
						return bystander(in, out, func(k string) bool {
							return mr.re.MatchString(k) || producedBy(in, mr.re, x.repl, g, k)
						})
					}
					wnt[i].k = nn
				}
				if !recEq(wnt, out) {
					return wnt.json(), "model: rename -r/-g does not rename matching fields in place by first-match (or, with -g, global) substitution with \\1..\\9 captures"
				}
				return "", ""
			})
		}
	}
}

func producedBy(in rec, re *regexp.Regexp, repl string, g bool, k string) bool {
	for _, f := range in {
		if millerSub(f.k, re, repl, g) == k {
			return true
		}
	}
	return false
}

// ---------------------------------------------------------------- label

func (b *vb) label(quick bool) {
	U := b.universe(quick)
	alpha := append(append([]string(nil), K6...), "new")
	maxLen := 3
	for _, L := range keyLists(alpha, maxLen, false)[1:] {
		if quick && len(L) == 3 && (L[0] == "a.b" || L[0] == "b c" || L[1] == "c") {
			continue // quick tier: thin the length-3 lists
		}
		L := L
		args := []string{"label", joinc(L)}
		if !b.unit(strings.Join(args, " ")) {
			continue
		}
		b.hit("label", "n="+strconv.Itoa(len(L)))
		b.run11("label", args, U, func(in, out rec) (string, string) {
			var wnt rec
			used := map[string]bool{}
			for i, f := range in {
				if i < len(L) {
					wnt = append(wnt, fld{L[i], f.v})
					used[L[i]] = true
				}
			}
			for i, f := range in {
				if i >= len(L) && !used[f.k] {
					wnt = append(wnt, f)
				}
			}
			if !recEq(wnt, out) {
				return wnt.json(), "model: label must rename the first n fields and leave the fields past the nth alone (a later field whose name was given to an earlier one disappears)"
			}
			return "", ""
		})
	}
}

// ---------------------------------------------------------------- regularize

func (b *vb) regularize(quick bool) {
	// records: all orderings of all subsets of {a, b c, a*}; tracer values differ per record
	var base []rec
	for n, ks := range keyLists([]string{"a", "b c", "a*"}, 3, false) {
		var r rec
		for i, k := range ks {
			r = append(r, fld{k, tracer[(i+n)%len(tracer)]})
		}
		base = append(base, r)
	}
	maxN := 3
	var streams [][]rec
	var gen func(cur []rec)
	gen = func(cur []rec) {
		if len(cur) > 0 {
			streams = append(streams, append([]rec(nil), cur...))
		}
		if len(cur) == maxN {
			return
		}
		for _, r := range base {
			gen(append(cur, r))
		}
	}
	gen(nil)
	sort.SliceStable(streams, func(i, j int) bool { return len(streams[i]) < len(streams[j]) })
	const per = 64
	for c := 0; c < len(streams); c += per {
		if !b.unit(fmt.Sprintf("regularize streams %d..", c)) {
			continue
		}
		b.hit("regularize")
		for _, st := range streams[c:min(len(streams), c+per)] {
			out, ok := b.runStream("regularize", []string{"regularize"}, st)
			if !ok {
				continue
			}
			if len(out) != len(st) {
				b.fail("regularize-count", []string{"regularize"}, st, recsJSON(out), "one record per input", "model: regularize changed the number of records")
				continue
			}
			firstOrder := map[string][]string{}
			changed := false
			for i, in := range st {
				ks := in.keys()
				sorted := append([]string(nil), ks...)
				sort.Strings(sorted)
				sig := strings.Join(sorted, "\x00")
				if _, ok := firstOrder[sig]; !ok {
					firstOrder[sig] = ks
				}
				wnt := pick(in, firstOrder[sig])
				if !recEq(wnt, out[i]) {
					b.fail("regularize-model", []string{"regularize"}, st, recsJSON(out), "record "+strconv.Itoa(i+1)+" = "+wnt.json(), "model: regularize must give records with the same field names the field order of the first such record, changing nothing else")
					break
				}
				if !recEq(in, out[i]) {
					changed = true
				}
			}
			if changed {
				b.w.Nontrivial(1)
			}
		}
	}
}

// ---------------------------------------------------------------- sort-within-records

// sortNested sorts the keys of a compact JSON object text (recursively into map values).
func sortNested(v string) string {
	if len(v) == 0 || v[0] != '{' {
		return v
	}
	r, err := parseObject(v)
	if err != nil {
		return v
	}
	sort.SliceStable(r, func(i, j int) bool { return r[i].k < r[j].k })
	var sb strings.Builder
	sb.WriteByte('{')
	for i, f := range r {
		if i > 0 {
			sb.WriteByte(',')
		}
		sb.WriteString(jstr(f.k))
		sb.WriteByte(':')
		sb.WriteString(sortNested(f.v))
	}
	sb.WriteByte('}')
	return sb.String()
}

func (b *vb) sortWithinRecords(quick bool) {
	U := b.universe(quick)
	nested := []rec{
		{{"c", "1"}, {"b", `{"y":1,"x":{"q":1,"p":2}}`}, {"a", "3"}},
		{{"b c", `{"b":{"b":1,"a":2},"a":{"z":1}}`}, {"a*", S("")}},
		{{"k", `{"2":1,"10":2,"1":3}`}},
	}
	if b.unit("sort-within-records") {
		b.hit("sort-within-records", "(none)")
		b.run11("sort-within-records", []string{"sort-within-records"}, append(append([]rec(nil), U...), nested...), func(in, out rec) (string, string) {
			wnt := in.clone()
			sort.SliceStable(wnt, func(i, j int) bool { return wnt[i].k < wnt[j].k })
			if !recEq(wnt, out) {
				return wnt.json(), "model: sort-within-records must order the fields lexically ascending by key and change nothing else"
			}
			return "", ""
		})
	}
	if b.unit("sort-within-records -r") {
		b.hit("sort-within-records", "-r (recursive)")
		b.run11("sort-within-records", []string{"sort-within-records", "-r"}, append(append([]rec(nil), U...), nested...), func(in, out rec) (string, string) {
			wnt := in.clone()
			sort.SliceStable(wnt, func(i, j int) bool { return wnt[i].k < wnt[j].k })
			for i := range wnt {
				wnt[i].v = sortNested(wnt[i].v)
			}
			if !recEq(wnt, out) {
				return wnt.json(), "model: sort-within-records -r must also sort nested maps"
			}
			return "", ""
		})
	}
	if b.unit("sort-within-records == sort($*, f)") {
		b.w.Count("law:sort-within-records == put $*=sort($*,\"f\") (both documented as lexical by key)", 1)
		x := b.mlr([]string{"sort-within-records"}, U)
		y := b.mlr([]string{"put", `$* = sort($*, "f")`}, U)
		b.w.Eval(int64(len(U)))
		if x.res.Stdout != y.res.Stdout || !x.res.OK() || !y.res.OK() {
			first := U[:1]
			for i := range U {
				if i < len(x.recs) && i < len(y.recs) && !recEq(x.recs[i], y.recs[i]) {
					first = U[i : i+1]
					break
				}
			}
			b.fail("sort-within-records-dsl", []string{"sort-within-records"}, first, "differs from put '$* = sort($*, \"f\")'", "identical output", "dsl: keystroke-saver verb and its DSL equivalent disagree")
		}
	}
	// selective: -f names / -r regex: the named keys come out in sorted order, the others keep their order
	sel := func(args []string, flag string, named func(k string) bool, less func(a, c string) bool) {
		if !b.unit(strings.Join(args, " ")) {
			return
		}
		b.hit("sort-within-records", flag)
		b.run11("sort-within-records", args, U, func(in, out rec) (string, string) {
			if !sameFieldsAnyOrder(in, out) {
				return "a permutation of " + in.json(), "model: sort-within-records changed the set of fields"
			}
			if w, y := bystander(in, out, named); y != "" {
				return w, y
			}
			var prev string
			first := true
			for _, f := range out {
				if !named(f.k) {
					continue
				}
				if !first && less(f.k, prev) {
					return "named keys ascending", "model: the keys selected by -f/-r do not come out sorted"
				}
				prev, first = f.k, false
			}
			return "", ""
		})
	}
	lex := func(a, c string) bool { return a < c }
	for _, F := range keyLists(K7, 2, false)[1:] {
		F := F
		sel([]string{"sort-within-records", "-f", joinc(F)}, "-f", func(k string) bool { return inList(F, k) }, lex)
	}
	sel([]string{"sort-within-records", "-f", "c,a*,a"}, "-f", func(k string) bool { return inList([]string{"c", "a*", "a"}, k) }, lex)
	for _, r := range []string{`^a`, `\.|c`, `"B"i`, `a*`, `^[bc]$`} {
		mr := compileMillerRegex(r)
		sel([]string{"sort-within-records", "-r", r}, "-r {regex}", func(k string) bool { return mr.re.MatchString(k) }, lex)
	}
	// -n natural order on numbered keys
	if b.unit("sort-within-records -n") {
		b.hit("sort-within-records", "-n")
		var recs []rec
		for _, ks := range keyLists([]string{"k2", "k12", "k1", "k10"}, 4, false)[1:] {
			var r rec
			for i, k := range ks {
				r = append(r, fld{k, tracer[i]})
			}
			recs = append(recs, r)
		}
		num := func(k string) int { n, _ := strconv.Atoi(k[1:]); return n }
		b.run11("sort-within-records", []string{"sort-within-records", "-n"}, recs, func(in, out rec) (string, string) {
			wnt := in.clone()
			sort.SliceStable(wnt, func(i, j int) bool { return num(wnt[i].k) < num(wnt[j].k) })
			if !recEq(wnt, out) {
				return wnt.json(), "model: sort-within-records -n must sort names naturally (2 before 12)"
			}
			return "", ""
		})
	}
}
