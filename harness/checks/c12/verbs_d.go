package c12

// Binding of layer A to the command line: every verb of the property (and the
// DSL's positional-name assignment, the CLI face of PutNameWithPositionalIndex)
// is run on records wider than the lazy-index threshold with the default
// (lazily hashed) records and with --no-hash-records; outputs must be identical.

import (
	"strings"

	"verif/harness/vf"
)

func dkvp(rs []rec) string {
	var sb strings.Builder
	for _, r := range rs {
		for i, f := range r {
			if i > 0 {
				sb.WriteByte(',')
			}
			sb.WriteString(f.k + "=" + text(f.v))
		}
		sb.WriteByte('\n')
	}
	return sb.String()
}

func (b *vb) hashModes(quick bool) {
	wide := []rec{wideRec(0), wideRec(1), wideRec(2)}
	for i := range wide {
		wide[i] = append(wide[i], fld{"x", S("p;q")}, fld{"t", "1500000000"}, fld{"n.k.j", "1"}, fld{"n.k.i", "2"})
	}
	cmds := [][]string{
		{"cut", "-f", "a,w07,b c"}, {"cut", "-o", "-f", "w07,a"}, {"cut", "-x", "-f", "a,w07,z"}, {"cut", "-r", "-f", "^w0,a"},
		{"template", "-f", "z,w05,a"}, {"reorder", "-f", "w07,a"}, {"reorder", "-e", "-f", "a,w07"}, {"reorder", "-a", "c", "-f", "a,w11"},
		{"rename", "a,new"}, {"rename", "a,w07"}, {"rename", "w07,a,c,d"}, {"rename", "-r", "^w(.*)$,v_\\1"}, {"rename", "-g", "w,W"},
		{"label", "q,r,s"}, {"label", "w07,c"}, {"sort-within-records"}, {"sort-within-records", "-r"}, {"sort-within-records", "-f", "c,a"},
		{"regularize"}, {"unsparsify"}, {"unsparsify", "-f", "z,a"}, {"sparsify"}, {"sparsify", "-f", "w04,w08"}, {"fill-empty"},
		{"nest", "--explode", "--values", "--across-fields", "-f", "x"}, {"nest", "--explode", "--values", "--across-records", "-f", "x"},
		{"nest", "--explode", "--values", "--across-records", "-f", "x", "then", "nest", "--implode", "--values", "--across-records", "-f", "x"},
		{"nest", "--explode", "--pairs", "--across-fields", "-f", "x"}, {"nest", "--explode", "--values", "--across-fields", "-f", "x", "then", "nest", "--implode", "--values", "--across-fields", "-f", "x"},
		{"reshape", "-i", "a,w07", "-o", "key,value"}, {"reshape", "-i", "a,w07", "-o", "key,value", "then", "reshape", "-s", "key,value"},
		{"unflatten"}, {"unflatten", "then", "flatten"}, {"unflatten", "-f", "n", "then", "json-stringify", "-f", "n"}, {"json-stringify", "then", "json-parse"},
		{"sec2gmt", "t,a"}, {"altkv"}, {"case", "-u", "-k", "-f", "a,w07"}, {"case", "-u"}, {"unspace"}, {"sub", "-f", "b,w09", "x", "Y"}, {"gsub", "-a", "a", "A"}, {"ssub", "-f", "w09", ";", "+"},
		// DSL face of the positional accessors
		{"put", `$z = $b; $[[1]] = "new"; $y = $a`}, {"put", `$z = $b; $[[2]] = "c"; $y = $w04 . "-" . $c`}, {"put", `$z = $b; $[[[3]]] = "V"; unset $[[1]]`},
		{"put", `$z = $a; $[[1]] = "b"; $y = $b`}, {"put", `$z = $a; unset $c; $c = 3; $[[-1]] = "last"`},
	}
	for _, c := range cmds {
		c := c
		if !b.unit("hash-modes " + strings.Join(c, " ")) {
			continue
		}
		b.hit(c[0], "wide record, --no-hash-records vs default")
		b.w.Count("law:output identical with and without --no-hash-records (>= 14 fields)", 1)
		// DKVP input: the DKVP reader builds lazily hashed (or, with --no-hash-records, unhashed) records;
		// the JSON reader always builds hashed ones
		input := dkvp(wide)
		run := func(flags []string, in string) vf.MlrResult {
			return vf.RunMlr(append(append([]string{"--idkvp", "--ojsonl", "--no-auto-unflatten"}, flags...), c...), vf.MlrOpts{Stdin: &in})
		}
		x := run(nil, input)
		y := run([]string{"--no-hash-records"}, input)
		z := run([]string{"--hash-records"}, input)
		b.w.Eval(3)
		if x.Stdout != y.Stdout || x.Exit != y.Exit || x.Stdout != z.Stdout {
			// smallest single record showing it
			in := wide
			for _, r := range wide {
				x1 := run(nil, dkvp([]rec{r}))
				y1 := run([]string{"--no-hash-records"}, dkvp([]rec{r}))
				if x1.Stdout != y1.Stdout {
					in, x, y = []rec{r}, x1, y1
					break
				}
			}
			key := "hashmodes:" + strings.Join(c, " ")
			what := "law: the output must not depend on whether records are hashed (default: lazily, from 12 fields) or not (--no-hash-records) :: mlr --idkvp --ojsonl " + strings.Join(c, " ") + " on " + strings.TrimSpace(dkvp(in)) + " gives " + strings.TrimSpace(x.Stdout) + " but with --no-hash-records " + strings.TrimSpace(y.Stdout)
			b.w.Violation(key, what, map[string]any{"layer": "verbs", "args": c, "input_dkvp": dkvp(in), "default": x.Stdout, "no_hash_records": y.Stdout,
				"command": "printf '%s' " + shq(dkvp(in)) + " | mlr --idkvp --ojsonl [--no-hash-records] " + strings.Join(c, " ")})
		} else if x.OK() {
			b.w.Nontrivial(1)
		}
	}
	// DSL face of PutNameWithPositionalIndex, model-based (reference-dsl-variables.md, "Positional field names"):
	// after $[[1]] = "new" the record has no field of the old name any more.
	U := b.universe(quick)
	for _, k := range []string{"a", "b c"} {
		k := k
		prog := `$[[1]] = "new"; $gone = is_absent(${` + k + `})`
		if !b.unit("put " + prog) {
			continue
		}
		b.hit("put", "$[[1]] = name")
		var dom []rec
		for _, r := range U {
			if len(r) > 0 && r[0].k == k {
				dom = append(dom, r)
			}
		}
		b.run11("put-positional-name", []string{"put", prog}, dom, func(in, out rec) (string, string) {
			wnt := in.clone()
			wnt[0].k = "new"
			wnt = append(wnt, fld{"gone", "true"})
			if !recEq(wnt, out) {
				return wnt.json(), "model: after $[[1]] = \"new\" the first field is named new and the old name is absent"
			}
			return "", ""
		})
	}
}
