// Package c05: check for property C05 (see /verif/DESIGN.md §3 C05).
package c05
