package c05

// Part 2: multi-file bookkeeping. For every input format the harness builds a
// small alphabet of files from (schema, rows) with its own trivial writers, so
// the records every file holds — and therefore NR, FNR, FILENAME, FILENUM and NF
// of every record of every file list — are known by construction.
//
// Oracles per (format, flag variant, file list, batch size):
//   concat    `cat list` == concatenation of `cat file` over the list (law, bytes)
//   records   parsed output of `cat list` == the constructed records
//   counters  put '$nf0=NF;$t1=0;$t2=0;$nf1=NF;unset $t1,$t2;$nf2=NF;$nr=NR;$fnr=FNR;$f=FILENAME;$k=FILENUM'
//             == reference counters (NF mid-expression: n, n+3, n+2)
//   end-nr    put -q 'end{print NR...}' prints the total record count
//   filter    filter 'FNR==1' then put '$nr=NR;$k=FILENUM' == first record of
//             each non-empty file with the counters of the original stream
//   spelling  --from f1 --from f2 / --mfrom f1 f2 -- / positional agree; -n reads nothing
//
// Dimensions of the file alphabet (every reader keeps per-file state - header
// names, header WIDTH, field splitter, line numbers - that must be reset at each
// start of file, so every one of them varies between the files of a list):
//   record count   0 (empty / header-only), 1, 2
//   key names      schema {a,b} vs {a,x}
//   width          1, 2 and 3 columns ({a}, {a,b}, {a,b,c}); under --implicit-csv-header
//                  the width is the ONLY thing that tells two files apart
//   header flags   {default, --implicit-csv-header} x {default, --allow-ragged-csv-input}
//                  (full cross product) for CSV, CSV-lite, TSV, TSV-lite
//   raggedness     (ragged variants only) a file with a too-long row (keys by position,
//                  as documented) and one with a too-short row (the two documents
//                  disagree on the fill: its records are taken from the file read alone,
//                  only the cross-file bookkeeping is asserted)
//   layout         PPRINT is read by three readers: plain, --barred-input, --fixed
//                  left-align (column positions taken from each file's own header
//                  line; one file has the same schema at wider positions)

import (
	"bytes"
	"encoding/json"
	"fmt"
	"strconv"
	"strings"

	"verif/harness/vf"
)

type ffile struct {
	tag      string
	text     string
	recs     []rec // records under the default flags
	implicit []rec // records under --implicit-csv-header (nil: variant not applicable)
	// raggedOnly: the file is not rectangular, it is readable only under
	// --allow-ragged-csv-input and enters the alphabet of those variants only
	raggedOnly bool
	// lawOnly: the documentation does not determine the records of this file
	// (too-short row); they are taken from reading the file alone and only the
	// cross-file laws and counters are asserted on lists containing it
	lawOnly bool
	// thoroughOnly: left out of the quick tier's alphabet
	thoroughOnly bool
}

type fformat struct {
	name     string
	flags    []string
	files    []ffile
	implicit bool // has the --implicit-csv-header variant
	ragged   bool // has the --allow-ragged-csv-input variant (same expectations: the files are rectangular)
}

type schema struct {
	keys []string
	rows [][]string
}

var (
	schemaS1 = schema{[]string{"a", "b"}, [][]string{{"1", "p"}, {"2", "q"}}}
	schemaS2 = schema{[]string{"a", "x"}, [][]string{{"3", "r"}, {"4", "s"}}}
	schemaS3 = schema{[]string{"a", "b", "c"}, [][]string{{"5", "t", "u"}, {"6", "v", "w"}}} // width 3
	schemaS0 = schema{[]string{"a"}, [][]string{{"7"}, {"8"}}}                               // width 1
)

func (s schema) recs(n int, keys []string) []rec {
	var out []rec
	for i := 0; i < n; i++ {
		var r rec
		for j, k := range keys {
			r = append(r, kv{k, s.rows[i][j]})
		}
		out = append(out, r)
	}
	return out
}

func posKeys(n int) []string {
	var k []string
	for i := 1; i <= n; i++ {
		k = append(k, strconv.Itoa(i))
	}
	return k
}

func isNum(s string) bool { _, err := strconv.Atoi(s); return err == nil }

// writers: (schema, n rows) -> text
type fwriter func(s schema, n int) string

func sepWriter(fs string, header bool) fwriter {
	return func(s schema, n int) string {
		var sb strings.Builder
		if header {
			sb.WriteString(strings.Join(s.keys, fs) + "\n")
		}
		for i := 0; i < n; i++ {
			sb.WriteString(strings.Join(s.rows[i], fs) + "\n")
		}
		return sb.String()
	}
}

func pairWriter(ps, fs, rs string, recsep string) fwriter {
	return func(s schema, n int) string {
		var sb strings.Builder
		for i := 0; i < n; i++ {
			if i > 0 {
				sb.WriteString(recsep)
			}
			for j, k := range s.keys {
				if j > 0 {
					sb.WriteString(fs)
				}
				sb.WriteString(k + ps + s.rows[i][j])
			}
			sb.WriteString(rs)
		}
		return sb.String()
	}
}

func jsonRec(s schema, i int) string {
	var p []string
	for j, k := range s.keys {
		v := s.rows[i][j]
		if !isNum(v) {
			v = `"` + v + `"`
		}
		p = append(p, `"`+k+`": `+v)
	}
	return "{" + strings.Join(p, ", ") + "}"
}

func jsonListWriter(s schema, n int) string {
	var p []string
	for i := 0; i < n; i++ {
		p = append(p, jsonRec(s, i))
	}
	return "[\n" + strings.Join(p, ",\n") + "\n]\n"
}

func jsonLinesWriter(s schema, n int) string {
	var sb strings.Builder
	for i := 0; i < n; i++ {
		sb.WriteString(jsonRec(s, i) + "\n")
	}
	return sb.String()
}

func markdownWriter(s schema, n int) string {
	var sb strings.Builder
	sb.WriteString("| " + strings.Join(s.keys, " | ") + " |\n")
	var d []string
	for range s.keys {
		d = append(d, "---")
	}
	sb.WriteString("| " + strings.Join(d, " | ") + " |\n")
	for i := 0; i < n; i++ {
		sb.WriteString("| " + strings.Join(s.rows[i], " | ") + " |\n")
	}
	return sb.String()
}

// barredWriter writes PPRINT with bars, as `mlr --opprint --barred` does.
func barredWriter(s schema, n int) string {
	w := make([]int, len(s.keys))
	for j, k := range s.keys {
		w[j] = len(k)
		for i := 0; i < n; i++ {
			if len(s.rows[i][j]) > w[j] {
				w[j] = len(s.rows[i][j])
			}
		}
	}
	sep := "+"
	for _, x := range w {
		sep += strings.Repeat("-", x+2) + "+"
	}
	sep += "\n"
	line := func(cells []string) string {
		l := "|"
		for j, c := range cells {
			l += " " + c + strings.Repeat(" ", w[j]-len(c)) + " |"
		}
		return l + "\n"
	}
	out := sep + line(s.keys) + sep
	for i := 0; i < n; i++ {
		out += line(s.rows[i])
	}
	if n > 0 {
		out += sep
	}
	return out
}

// fixedWriter writes left-aligned fixed-width columns, every column but the last
// padded to colw characters, so the column positions are a function of (schema
// width, colw): what --fixed left-align derives from the header line of a file.
func fixedWriter(colw int) fwriter {
	return func(s schema, n int) string {
		line := func(cells []string) string {
			l := ""
			for j, c := range cells {
				if j < len(cells)-1 {
					c += strings.Repeat(" ", colw-len(c))
				}
				l += c
			}
			return l + "\n"
		}
		out := line(s.keys)
		for i := 0; i < n; i++ {
			out += line(s.rows[i])
		}
		return out
	}
}

func formats() []fformat {
	var out []fformat
	// build the standard alphabet from a writer
	std := func(name string, flags []string, w fwriter, positional bool, headered bool, noNewlineVariant bool) fformat {
		f := fformat{name: name, flags: flags}
		keysOf := func(s schema) []string {
			if positional {
				return posKeys(len(s.keys))
			}
			return s.keys
		}
		implicitOf := func(s schema, n int) []rec {
			if !headered {
				return nil
			}
			// header line becomes the first data line, keys are positions
			pk := posKeys(len(s.keys))
			var r rec
			for j, k := range pk {
				r = append(r, kv{k, s.keys[j]})
			}
			return append([]rec{r}, s.recs(n, pk)...)
		}
		f.files = append(f.files, ffile{tag: "E", text: "", recs: nil, implicit: []rec{}})
		if headered {
			f.files = append(f.files, ffile{tag: "H1", text: w(schemaS1, 0), recs: nil, implicit: implicitOf(schemaS1, 0)})
		}
		f.files = append(f.files,
			ffile{tag: "A1", text: w(schemaS1, 1), recs: schemaS1.recs(1, keysOf(schemaS1)), implicit: implicitOf(schemaS1, 1)},
			ffile{tag: "A2", text: w(schemaS1, 2), recs: schemaS1.recs(2, keysOf(schemaS1)), implicit: implicitOf(schemaS1, 2)},
			ffile{tag: "B1", text: w(schemaS2, 1), recs: schemaS2.recs(1, keysOf(schemaS2)), implicit: implicitOf(schemaS2, 1)},
			ffile{tag: "B2", text: w(schemaS2, 2), recs: schemaS2.recs(2, keysOf(schemaS2)), implicit: implicitOf(schemaS2, 2)},
			// width dimension: 3 columns (1 and 2 records) and 1 column
			ffile{tag: "D1", text: w(schemaS3, 1), recs: schemaS3.recs(1, keysOf(schemaS3)), implicit: implicitOf(schemaS3, 1)},
			ffile{tag: "D2", thoroughOnly: true, text: w(schemaS3, 2), recs: schemaS3.recs(2, keysOf(schemaS3)), implicit: implicitOf(schemaS3, 2)},
			ffile{tag: "W1", text: w(schemaS0, 1), recs: schemaS0.recs(1, keysOf(schemaS0)), implicit: implicitOf(schemaS0, 1)},
		)
		if noNewlineVariant {
			f.files = append(f.files, ffile{tag: "N1", text: strings.TrimSuffix(w(schemaS1, 1), "\n"), recs: schemaS1.recs(1, keysOf(schemaS1)), implicit: implicitOf(schemaS1, 1)})
		}
		return f
	}
	dk := std("dkvp", []string{"--idkvp"}, pairWriter("=", ",", "\n", ""), false, false, true)
	out = append(out, dk)
	dx := std("dkvpx", []string{"-i", "dkvpx"}, pairWriter("=", ",", "\n", ""), false, false, true)
	out = append(out, dx)
	out = append(out, std("nidx", []string{"--inidx", "--ifs", " "}, sepWriter(" ", false), true, false, true))
	// files that are not rectangular (ragged variants only). R2: the second data
	// row is too long ("use integer field labels as in the implicit-header case");
	// Q1: the data row is too short (flag help: filled with empty strings;
	// record-heterogeneity.md: left short - not determined, law only).
	raggedFiles := func(fs string) []ffile {
		j := func(c ...string) string { return strings.Join(c, fs) + "\n" }
		return []ffile{
			{tag: "R2", raggedOnly: true, text: j("a", "b") + j("5", "t") + j("6", "u", "v"),
				recs:     []rec{{kv{"a", "5"}, kv{"b", "t"}}, {kv{"a", "6"}, kv{"b", "u"}, kv{"3", "v"}}},
				implicit: []rec{{kv{"1", "a"}, kv{"2", "b"}}, {kv{"1", "5"}, kv{"2", "t"}}, {kv{"1", "6"}, kv{"2", "u"}, kv{"3", "v"}}}},
			{tag: "Q1", raggedOnly: true, lawOnly: true, text: j("a", "b", "c") + j("5", "t"), recs: []rec{}, implicit: []rec{}},
		}
	}
	csv := std("csv", []string{"--icsv"}, sepWriter(",", true), false, true, true)
	csv.implicit, csv.ragged = true, true
	csv.files = append(csv.files, raggedFiles(",")...)
	out = append(out, csv)
	cl := std("csvlite", []string{"--icsvlite"}, sepWriter(",", true), false, true, true)
	cl.implicit, cl.ragged = true, true
	cl.files = append(cl.files, raggedFiles(",")...)
	// csvlite schema change inside one file: blank line, then a new header
	cl.files = append(cl.files, ffile{tag: "M2", text: sepWriter(",", true)(schemaS1, 1) + "\n" + sepWriter(",", true)(schemaS2, 1),
		recs: append(schemaS1.recs(1, schemaS1.keys), schemaS2.recs(1, schemaS2.keys)...)})
	out = append(out, cl)
	tsv := std("tsv", []string{"--itsv"}, sepWriter("\t", true), false, true, true)
	tsv.implicit, tsv.ragged = true, true
	tsv.files = append(tsv.files, raggedFiles("\t")...)
	out = append(out, tsv)
	tl := std("tsvlite", []string{"--itsvlite"}, sepWriter("\t", true), false, true, true)
	tl.implicit, tl.ragged = true, true
	tl.files = append(tl.files, raggedFiles("\t")...)
	out = append(out, tl)
	js := std("json", []string{"--ijson"}, jsonListWriter, false, false, true)
	// format-specific variants: empty list, concatenated objects without the outer list
	js.files = append(js.files,
		ffile{tag: "L0", text: "[]\n", recs: nil},
		ffile{tag: "C2", text: jsonLinesWriter(schemaS2, 2), recs: schemaS2.recs(2, schemaS2.keys)})
	js.files[0].implicit = nil
	out = append(out, js)
	jl := std("jsonl", []string{"--ijsonl"}, jsonLinesWriter, false, false, true)
	out = append(out, jl)
	out = append(out, std("xtab", []string{"--ixtab"}, pairWriter(" ", "\n", "\n", "\n"), false, false, true))
	pp := std("pprint", []string{"--ipprint"}, sepWriter(" ", true), false, true, true)
	pp.files = append(pp.files, ffile{tag: "M2", text: sepWriter(" ", true)(schemaS1, 1) + "\n" + sepWriter(" ", true)(schemaS2, 1),
		recs: append(schemaS1.recs(1, schemaS1.keys), schemaS2.recs(1, schemaS2.keys)...)})
	out = append(out, pp)
	// the two other PPRINT readers
	out = append(out, std("pprint-barred", []string{"--ipprint", "--barred-input"}, barredWriter, false, true, false))
	pf := std("pprint-fixed", []string{"--ipprint", "--fixed", "left-align"}, fixedWriter(3), false, true, true)
	// same schema as A1, columns at other positions
	pf.files = append(pf.files, ffile{tag: "AW1", text: fixedWriter(6)(schemaS1, 1), recs: schemaS1.recs(1, schemaS1.keys)})
	out = append(out, pf)
	out = append(out, std("markdown", []string{"--imd"}, markdownWriter, false, true, false))
	out = append(out, std("yaml", []string{"--iyaml"}, pairWriter(": ", "\n", "\n", "---\n"), false, false, false))
	out = append(out, std("dcf", []string{"--idcf"}, pairWriter(": ", "\n", "\n", "\n"), false, false, false))
	out = append(out, std("recutils", []string{"--irecutils"}, pairWriter(": ", "\n", "\n", "\n"), false, false, false))
	return out
}

// ---------------------------------------------------------------- output parsing

// parseJSONL parses Miller's --ojsonl output into ordered records with values as text.
func parseJSONL(out string) ([]rec, error) {
	var recs []rec
	for _, line := range strings.Split(out, "\n") {
		if line == "" {
			continue
		}
		dec := json.NewDecoder(bytes.NewReader([]byte(line)))
		dec.UseNumber()
		t, err := dec.Token()
		if err != nil || t != json.Delim('{') {
			return nil, fmt.Errorf("not an object: %q", line)
		}
		var r rec
		for dec.More() {
			kt, err := dec.Token()
			if err != nil {
				return nil, fmt.Errorf("bad key in %q: %v", line, err)
			}
			k, ok := kt.(string)
			if !ok {
				return nil, fmt.Errorf("bad key in %q", line)
			}
			vt, err := dec.Token()
			if err != nil {
				return nil, fmt.Errorf("bad value in %q: %v", line, err)
			}
			switch v := vt.(type) {
			case string:
				r = append(r, kv{k, v})
			case json.Number:
				r = append(r, kv{k, v.String()})
			case bool:
				r = append(r, kv{k, strconv.FormatBool(v)})
			default:
				return nil, fmt.Errorf("unexpected value %v in %q", vt, line)
			}
		}
		recs = append(recs, r)
	}
	return recs, nil
}

func recsEqual(a, b []rec) bool {
	if len(a) != len(b) {
		return false
	}
	for i := range a {
		if len(a[i]) != len(b[i]) {
			return false
		}
		for j := range a[i] {
			if a[i][j] != b[i][j] {
				return false
			}
		}
	}
	return true
}

func recsString(rs []rec) string {
	var p []string
	for _, r := range rs {
		var f []string
		for _, x := range r {
			f = append(f, x.k+"="+x.v)
		}
		p = append(p, strings.Join(f, ","))
	}
	return strings.Join(p, " / ")
}

// ---------------------------------------------------------------- worker

const countersProgram = `$nf0=NF;$t1=0;$t2=0;$nf1=NF;unset $t1,$t2;$nf2=NF;$nr=NR;$fnr=FNR;$f=FILENAME;$k=FILENUM`

type fvariant struct {
	name   string
	flags  []string
	impl   bool
	ragged bool
}

// variantsOf: the full cross product {explicit, implicit header} x {strict, ragged}
// of the flags the format documents.
func variantsOf(f fformat) []fvariant {
	vs := []fvariant{{"default", nil, false, false}}
	if f.implicit {
		vs = append(vs, fvariant{"implicit-header", []string{"--implicit-csv-header"}, true, false})
	}
	if f.ragged {
		vs = append(vs, fvariant{"allow-ragged", []string{"--allow-ragged-csv-input"}, false, true})
	}
	if f.implicit && f.ragged {
		vs = append(vs, fvariant{"implicit-header+allow-ragged", []string{"--implicit-csv-header", "--allow-ragged-csv-input"}, true, true})
	}
	return vs
}

func fileName(f fformat, ff ffile) string { return "/vfs/" + ff.tag + "." + f.name }

func filesWorker(w *vf.Worker) {
	F := formats()
	maxFiles := 3
	batches := []string{"1", "2", "3", "500"}
	if !w.Quick() {
		maxFiles = 4
	}
	var idx uint64
	for _, f := range F {
		for _, va := range variantsOf(f) {
			// applicable files
			var files []ffile
			for _, ff := range f.files {
				if va.impl && ff.implicit == nil {
					continue
				}
				if ff.raggedOnly && !va.ragged {
					continue
				}
				if ff.thoroughOnly && w.Quick() {
					continue
				}
				files = append(files, ff)
			}
			vfs := vf.VFS{}
			for _, ff := range files {
				vfs[fileName(f, ff)] = ff.text
			}
			base := append(append([]string{}, f.flags...), va.flags...)
			base = append(base, "--ojsonl")
			// every file read alone (default batch size): one side of the concatenation
			// law, and the records of the files the documentation leaves open
			const failed = "\x00FAILED"
			perFile := map[string]string{}
			perFileRecs := map[string][]rec{}
			single := func(ff ffile) string {
				nm := fileName(f, ff)
				o, ok := perFile[nm]
				if ok {
					return o
				}
				r := vf.RunMlr(append(append([]string{}, base...), "cat", nm), vf.MlrOpts{Files: vfs})
				o = r.Stdout
				if !r.OK() {
					w.Violation(fmt.Sprintf("files[single-file-fails;%s]:%s:%s", f.name, va.name, ff.tag), "cat of a single generated file fails: "+r.String(), map[string]any{"file": ff.text, "args": strings.Join(base, " ") + " cat " + nm})
					o = failed
				} else if ff.lawOnly {
					rs, err := parseJSONL(o)
					if err != nil {
						w.Violation(fmt.Sprintf("files[single-file-unparsable;%s]:%s:%s", f.name, va.name, ff.tag), "cat of a single generated file prints something that is not JSON Lines: "+err.Error(), map[string]any{"file": ff.text, "stdout": o})
						o = failed
					}
					perFileRecs[nm] = rs
				}
				perFile[nm] = o
				return o
			}
			exp := func(ff ffile) []rec {
				if ff.lawOnly {
					single(ff)
					return perFileRecs[fileName(f, ff)]
				}
				if va.impl {
					return ff.implicit
				}
				return ff.recs
			}
			// enumerate lists of 1..maxFiles files, shortest first
			for n := 1; n <= maxFiles; n++ {
				if va.ragged && n > maxFiles-1 {
					break // the ragged variants (largest alphabet) stop one file short: quick <= 2, thorough <= 3 files
				}
				total := 1
				for i := 0; i < n; i++ {
					total *= len(files)
				}
				for code := 0; code < total; code++ {
					idx++
					if !w.Mine(idx) {
						continue
					}
					w.Begin(idx)
					list := make([]ffile, n)
					c := code
					for i := n - 1; i >= 0; i-- {
						list[i] = files[c%len(files)]
						c /= len(files)
					}
					var names, tags []string
					nrecs := 0
					for _, ff := range list {
						names = append(names, fileName(f, ff))
						tags = append(tags, ff.tag)
						nrecs += len(exp(ff))
					}
					w.Label(func() string { return f.name + " " + va.name + " " + strings.Join(tags, ",") })
					for _, ff := range list {
						w.Count("files_tag:"+f.name+":"+ff.tag, 1)
					}
					w.Count("files_variant:"+f.name+":"+va.name, 1)
					// reference
					var wantCat, wantCnt, wantFlt []rec
					nr := 0
					for fi, ff := range list {
						for ri, r := range exp(ff) {
							nr++
							wantCat = append(wantCat, r)
							n0 := len(r)
							cr := append(rec{}, r...)
							cr = append(cr, kv{"nf0", strconv.Itoa(n0)}, kv{"nf1", strconv.Itoa(n0 + 3)}, kv{"nf2", strconv.Itoa(n0 + 2)},
								kv{"nr", strconv.Itoa(nr)}, kv{"fnr", strconv.Itoa(ri + 1)}, kv{"f", names[fi]}, kv{"k", strconv.Itoa(fi + 1)})
							wantCnt = append(wantCnt, cr)
							if ri == 0 {
								fr := append(rec{}, r...)
								fr = append(fr, kv{"nr", strconv.Itoa(nr)}, kv{"k", strconv.Itoa(fi + 1)})
								wantFlt = append(wantFlt, fr)
							}
						}
					}
					keyOf := func(cause, b string) string {
						return fmt.Sprintf("files[%s;%s]:nfiles=%d,nrecs=%d:%s:b=%s:%s", cause, f.name, n, nrecs, va.name, b, strings.Join(tags, ","))
					}
					run := func(b string, verbArgs ...string) vf.MlrResult {
						args := append(append([]string{}, base...), "--records-per-batch", b)
						args = append(args, verbArgs...)
						args = append(args, names...)
						return vf.RunMlr(args, vf.MlrOpts{Files: vfs})
					}
					replay := func(b string, prog string, r vf.MlrResult) map[string]any {
						fl := map[string]string{}
						for _, ff := range list {
							fl[fileName(f, ff)] = ff.text
						}
						return map[string]any{"args": strings.Join(base, " ") + " --records-per-batch " + b + " " + prog + " " + strings.Join(names, " "), "files": fl, "stdout": r.Stdout, "exit": r.Exit, "stderr": firstLine(r.Stderr + r.Err + r.Panic)}
					}
					// per-file cat outputs for the concatenation law (default batch size)
					concat := ""
					concatOK := true
					for _, ff := range list {
						o := single(ff)
						if o == failed {
							concatOK = false
						}
						concat += o
					}
					if !concatOK {
						continue
					}
					for _, b := range batches {
						w.Count("files_cases", 1)
						w.Count("files_format:"+f.name, 1)
						w.Count("files_batch:"+b, 1)
						if n >= 2 || nrecs >= 1 {
							w.Nontrivial(1)
						}
						// cat: concatenation law + constructed records
						r := run(b, "cat")
						w.Eval(1)
						if !r.OK() {
							w.Violation(keyOf("fails", b), "cat over the list fails although each file reads alone: "+r.String(), replay(b, "cat", r))
							continue
						}
						if r.Stdout != concat {
							w.Violation(keyOf("concat", b), fmt.Sprintf("cat over the list prints %q, concatenation of per-file cat is %q", r.Stdout, concat), replay(b, "cat", r))
						}
						got, err := parseJSONL(r.Stdout)
						if err != nil || !recsEqual(got, wantCat) {
							w.Violation(keyOf("records", b), fmt.Sprintf("records read: %s (parse error %v); constructed: %s", recsString(got), err, recsString(wantCat)), replay(b, "cat", r))
						}
						// counters
						r = run(b, "put", countersProgram)
						w.Eval(1)
						got, err = parseJSONL(r.Stdout)
						if !r.OK() || err != nil || !recsEqual(got, wantCnt) {
							cause := "counters"
							if r.OK() && err == nil && len(got) == len(wantCnt) {
								// name the first counter that is off
							find:
								for i := range got {
									if len(got[i]) != len(wantCnt[i]) {
										break
									}
									for j := range got[i] {
										if got[i][j] != wantCnt[i][j] {
											cause = "counters-" + wantCnt[i][j].k
											break find
										}
									}
								}
							}
							w.Violation(keyOf(cause, b), fmt.Sprintf("got %s (exit %d, %v); reference %s", recsString(got), r.Exit, err, recsString(wantCnt)), replay(b, "put '"+countersProgram+"'", r))
						}
						// end block
						r = run(b, "put", "-q", `end{print NR.":".FNR.":".FILENAME.":".FILENUM}`)
						w.Eval(1)
						line := strings.TrimSuffix(r.Stdout, "\n")
						parts := strings.SplitN(line, ":", 2)
						if !r.OK() || parts[0] != strconv.Itoa(nrecs) {
							w.Violation(keyOf("end-nr", b), fmt.Sprintf("end block prints NR:FNR:FILENAME:FILENUM = %q (exit %d), final NR is %d", line, r.Exit, nrecs), replay(b, `put -q 'end{print NR.":".FNR.":".FILENAME.":".FILENUM}'`, r))
						} else if len(parts) == 2 {
							// unconstrained by the docs: record the shape of the outcome only
							lastNonEmpty, lastFile := "none", "last-file"
							for fi := len(list) - 1; fi >= 0; fi-- {
								if len(exp(list[fi])) > 0 {
									lastNonEmpty = strconv.Itoa(len(exp(list[fi]))) + ":" + names[fi] + ":" + strconv.Itoa(fi+1)
									break
								}
							}
							switch {
							case parts[1] == lastNonEmpty:
								lastFile = "context-of-last-record"
							case strings.HasSuffix(parts[1], ":"+strconv.Itoa(n)):
								lastFile = "context-of-last-file"
							default:
								lastFile = "other"
							}
							w.AddSet("end-block-FNR-FILENAME-FILENUM(unconstrained)", lastFile)
						}
						// filter on FNR then put: counters of the original stream survive the chain
						r = run(b, "filter", "FNR==1", "then", "put", "$nr=NR;$k=FILENUM")
						w.Eval(1)
						got, err = parseJSONL(r.Stdout)
						if !r.OK() || err != nil || !recsEqual(got, wantFlt) {
							w.Violation(keyOf("filter-fnr", b), fmt.Sprintf("got %s (exit %d, %v); reference %s", recsString(got), r.Exit, err, recsString(wantFlt)), replay(b, "filter 'FNR==1' then put '$nr=NR;$k=FILENUM'", r))
						}
					}
					// spellings of the file list (default batch size)
					if n <= 3 {
						ref := run("500", "put", countersProgram)
						spell := func(name string, args []string) {
							r := vf.RunMlr(args, vf.MlrOpts{Files: vfs})
							w.Eval(1)
							w.Count("files_spelling:"+name, 1)
							if r.Stdout != ref.Stdout || r.Exit != ref.Exit {
								w.Violation(keyOf("spelling-"+name, "500"), fmt.Sprintf("%s gives exit=%d %q; positional file names give exit=%d %q", name, r.Exit, r.Stdout, ref.Exit, ref.Stdout), map[string]any{"args": args})
							}
						}
						a1 := append([]string{}, base...)
						for _, nm := range names {
							a1 = append(a1, "--from", nm)
						}
						spell("from", append(a1, "put", countersProgram))
						a2 := append(append([]string{}, base...), "--mfrom")
						a2 = append(a2, names...)
						a2 = append(a2, "--", "put", countersProgram)
						spell("mfrom", a2)
						// -n: no input at all
						a3 := append(append([]string{}, base...), "-n", "put", "-q", "end{print NR}")
						a3 = append(a3, names...)
						r := vf.RunMlr(a3, vf.MlrOpts{Files: vfs})
						w.Eval(1)
						w.Count("files_spelling:-n", 1)
						if !r.OK() || r.Stdout != "0\n" {
							w.Violation(keyOf("dash-n", "500"), fmt.Sprintf("-n documented to read no input; end block printed NR=%q exit=%d", r.Stdout, r.Exit), map[string]any{"args": a3})
						}
					}
					// standard input instead of files: one-file lists only
					if n == 1 {
						text := list[0].text
						args := append(append([]string{}, base...), "put", countersProgram)
						r := vf.RunMlr(args, vf.MlrOpts{Stdin: &text})
						w.Eval(1)
						w.Count("files_stdin", 1)
						got, err := parseJSONL(r.Stdout)
						// FILENAME / FILENUM for standard input are not fixed by the docs: compare everything else
						var g2, w2 []rec
						strip := func(rs []rec) []rec {
							var out []rec
							for _, r := range rs {
								var q rec
								for _, x := range r {
									if x.k == "f" || x.k == "k" {
										continue
									}
									q = append(q, x)
								}
								out = append(out, q)
							}
							return out
						}
						g2, w2 = strip(got), strip(wantCnt)
						if !r.OK() || err != nil || !recsEqual(g2, w2) {
							w.Violation(keyOf("stdin-counters", "500"), fmt.Sprintf("same bytes on standard input: got %s (exit %d, %v); reference %s", recsString(g2), r.Exit, err, recsString(w2)), map[string]any{"args": args, "stdin": text})
						}
						for _, r := range got {
							for _, x := range r {
								if x.k == "f" || x.k == "k" {
									w.AddSet("stdin-FILENAME-FILENUM(unconstrained)", x.k+"="+x.v)
								}
							}
						}
					}
				}
			}
		}
	}
	w.Sample(map[string]any{"files": "csv: E,H1,A1,A2,B1,B2,D1,D2,W1,N1 (+R2,Q1 under --allow-ragged-csv-input)", "program": countersProgram})
}
