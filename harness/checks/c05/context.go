package c05

// Part 4: the stream context seen by begin and end blocks, for every input
// SOURCE x every reader x every chain position of the observing put/filter.
//
// Why a part of its own: every record reader has its own Read() with three
// branches (no input at all: -n; standard input; a list of file names) and builds
// the END-OF-STREAM marker itself, after the branch, from its running context;
// every verb then hands that marker on (some rebuild it: tac, put, the chain
// driver). Records carry their own copy of the context, so per-record counters
// (part 2) and the records themselves (part 3) say nothing about the marker. Part 2
// asserted the end block's NR for file arguments only, with the put first in the
// chain. Here the marker is observed
//
//	reader   the 17 reader configurations of part 2 (+ --implicit-csv-header
//	         variants) + the --gen-* pseudo reader
//	content  empty, header-only, 1 record, 2 records, no final newline (+ format
//	         specials), and every list of 2 files over {empty, 1 record, 2 records}
//	source   file argument, --from, --mfrom, standard input (whole / 1 byte per
//	         read), .gz / .z by extension, --gzin on a neutral name, --gzin / --zin on
//	         standard input, -n; lists: positional, --from x2, --mfrom, .gz x2, .gz+plain;
//	         plain binary: redirect, pipe, --prepipe, --prepipex, --prepipe-gunzip,
//	         --prepipe on standard input
//	position put first, filter first, put then put (both observed), and the put
//	         after every verb that does not end the stream early (pos 2) and after
//	         every ordered pair of a core verb set (pos 3)
//	batch    --records-per-batch 1 and 500 (thorough: 1,2,3,500)
//
// The reader builds the marker, the verbs hand it on: two mechanisms. The five
// cheap forms meet every content x source x batch; in the quick tier the long verb
// alphabets (pos 2, pos 3) meet contents {empty, 2 records} x sources {file, stdin}
// and the 2-file lists as file arguments (core verbs: every list source); the
// thorough tier runs the full cross product.
//
// Oracle (documented; reference values come from how the harness built the files):
//
//	end-nr     "in an end statement ... you will find NR to be the total number of
//	           records ingested" (reference-dsl-variables.md): NR == constructed count,
//	           at every chain position (verbs that stop the reader early - head - or
//	           ignore their input - seqgen - are left out)
//	begin-nr   "in a begin statement ... you will find NR=1": asserted for the first
//	           verb of the chain when there is at least one record
//	const      M_PI, M_E "do not change"
//	end-ctx    FNR/FILENUM/FILENAME in an end block are not spelled out; two readings
//	           are compatible with "their values change from one record to the next as
//	           Miller scans through the input": the context of the LAST RECORD read,
//	           or the context of the LAST FILE opened. Either is accepted, anything
//	           else (e.g. an untouched initial context) is a violation. For standard
//	           input and the pseudo reader FILENAME/FILENUM are not documented: the
//	           values the RECORDS of the same source saw are used (law: the end block
//	           continues the records' context).
//	rec-ctx    the last record's FNR/FILENUM/FILENAME as seen by the main block
//	           (put first in chain) == construction
//	ojson      `--ojson cat` of a source is byte-identical to the same bytes given as
//	           file arguments (the JSON writer's outer brackets depend on a flag carried
//	           by the same context)
//	fails      a form that succeeds on the file argument succeeds on every source

import (
	"bytes"
	"fmt"
	"io"
	"math"
	"os"
	"path/filepath"
	"strconv"
	"strings"

	"verif/harness/vf"
)

var (
	ctxPi = strconv.FormatFloat(math.Pi, 'f', -1, 64)
	ctxE  = strconv.FormatFloat(math.E, 'f', -1, 64)
)

// ctxProbe: the observing DSL program; tag tells several probes of one chain apart.
func ctxProbe(tag string) string {
	return `begin{print "B` + tag + `:".NR.":".M_PI.":".M_E} @c+=1;@r=FNR;@k=FILENUM;@f=FILENAME; end{print "E` + tag + `:".NR.":".FNR.":".FILENUM.":".M_PI.":".M_E.":".@c.":".@r.":".@k.":".FILENAME."|".@f}`
}

// ---------------------------------------------------------------- verbs in front of the probe

// ctxExtraVerbs: verbs outside the then==pipe alphabet (random output, other
// formats of output...) whose OUTPUT is irrelevant here: only the end-of-stream
// marker they hand on is observed.
func ctxExtraVerbs() []verb {
	return []verb{
		mkVerb("bootstrap"),
		mkVerb("shuffle"),
		mkVerb("sample", "-k", "1"),
		mkVerb("clean-whitespace"),
		mkVerb("flatten"),
		mkVerb("unflatten"),
		mkVerb("format-values"),
		mkVerb("fraction", "-f", "x"),
		mkVerb("gsub", "-f", "a", "p", "P"),
		mkVerb("ssub", "-f", "a", "p", "P"),
		mkVerb("histogram", "-f", "x", "--lo", "0", "--hi", "10", "--nbins", "2"),
		mkVerb("json-parse"),
		mkVerb("json-stringify"),
		mkVerb("join", "--np", "--ul", "--ur", "-i", "dkvp", "-j", "a", "-f", ctxLeftName),
		mkVerb("join", "-u", "-i", "dkvp", "-j", "a", "-f", ctxLeftName),
		mkVerb("latin1-to-utf8"),
		mkVerb("utf8-to-latin1"),
		mkVerb("least-frequent", "-f", "a"),
		mkVerb("remove-empty-columns"),
		mkVerb("skip-trivial-records"),
		mkVerb("summary"),
		mkVerb("unspace"),
		mkVerb("tail", "-n", "1", "-g", "a"),
		mkVerb("filter", "false"),
		mkVerb("filter", "-x", "false"),
		mkVerb("put", "-q", `tee > "/dev/null", $*`),
		mkVerb("put", `end{emit {"n":NR}}`),
	}
}

const (
	ctxLeftName = "/vfs/ctx-left.dkvp"
	ctxLeftText = "a=1,l=9\na=zz,l=8\n"
)

// endsEarly: verbs that stop the reader before the end of the input (head) or
// ignore their input and produce their own stream and marker (seqgen): what an end
// block downstream of them owes is not this property's business (C04).
func endsEarly(v verb) bool { return v.args[0] == "head" || v.args[0] == "seqgen" }

func ctxVerbs() []verb {
	var out []verb
	for _, v := range append(allVerbs(), ctxExtraVerbs()...) {
		if !endsEarly(v) {
			out = append(out, v)
		}
	}
	return out
}

// ctxCore: the pos-3 alphabet (all ordered pairs) and the verbs put in front of the
// probe on two-file lists: pass-through, the two verbs that rebuild the marker
// (tac, put), retain-until-end, record-amplifying, record-dropping, emit-at-end.
func ctxCore(quick bool) []verb {
	c := []verb{
		mkVerb("cat"),
		mkVerb("tac"),
		mkVerb("nothing"),
		mkVerb("repeat", "-n", "2"),
		mkVerb("put", "-q", `@c["k".$a]=$x; end{emit @c,"a"}`),
	}
	if !quick {
		c = append(c, mkVerb("sort", "-f", "a"), mkVerb("group-by", "a"), mkVerb("filter", "false"), mkVerb("count-similar", "-g", "a"), mkVerb("put", "$z=1"))
	}
	return c
}

// ---------------------------------------------------------------- forms

type ctxForm struct {
	name  string
	verbs []string // full verb chain, "then" included
	tags  []string // probes in chain order
	first bool     // tags[0] is the first verb of the chain (records' view and begin NR asserted)
	cheap bool     // F1: run on every content, source and batch size
	wide  bool     // quick tier: run on every source (else on the file-argument and plain-stdin sources only)
}

func chainArgs(vs ...[]string) []string {
	var out []string
	for i, v := range vs {
		if i > 0 {
			out = append(out, "then")
		}
		out = append(out, v...)
	}
	return out
}

func ctxFormsF1() []ctxForm {
	p1, p2 := []string{"put", "-q", ctxProbe("1")}, []string{"put", "-q", ctxProbe("2")}
	return []ctxForm{
		{name: "put", verbs: chainArgs(p1), tags: []string{"1"}, first: true, cheap: true},
		{name: "filter", verbs: chainArgs([]string{"filter", "-q", ctxProbe("1")}), tags: []string{"1"}, first: true, cheap: true},
		{name: "put then put", verbs: chainArgs(p1, p2), tags: []string{"1", "2"}, first: true, cheap: true},
		{name: "cat then put", verbs: chainArgs([]string{"cat"}, p2), tags: []string{"2"}, cheap: true},
		{name: "tac then put", verbs: chainArgs([]string{"tac"}, p2), tags: []string{"2"}, cheap: true},
	}
}

func ctxFormsPos2(vs []verb) []ctxForm {
	p2 := []string{"put", "-q", ctxProbe("2")}
	var out []ctxForm
	for _, v := range vs {
		out = append(out, ctxForm{name: v.name + " then put", verbs: chainArgs(v.args, p2), tags: []string{"2"}})
	}
	return out
}

func ctxFormsPos3(core []verb) []ctxForm {
	p3 := []string{"put", "-q", ctxProbe("3")}
	var out []ctxForm
	for _, a := range core {
		for _, b := range core {
			out = append(out, ctxForm{name: a.name + " then " + b.name + " then put", verbs: chainArgs(a.args, b.args, p3), tags: []string{"3"}})
		}
	}
	return out
}

// ---------------------------------------------------------------- reference and oracle

type ctxTuple struct{ fnr, filenum, filename string }

// ctxRef: what the construction says about one (content list, source).
type ctxRef struct {
	nrecs     int
	none      bool       // -n: no input read
	stdinLike bool       // FILENAME/FILENUM of the source are not documented: taken from the records' view
	lastRec   ctxTuple   // context of the last record read (nrecs >= 1; for stdinLike only fnr is by construction)
	allowed   []ctxTuple // readings accepted for the end block (nrecs >= 1); nil: not asserted
}

func ctxReference(counts []int, names []string, stdinLike, none bool) ctxRef {
	r := ctxRef{none: none, stdinLike: stdinLike}
	if none {
		return r
	}
	for _, c := range counts {
		r.nrecs += c
	}
	if r.nrecs == 0 {
		return r
	}
	n := len(counts)
	for i := n - 1; i >= 0; i-- {
		if counts[i] > 0 {
			r.lastRec = ctxTuple{strconv.Itoa(counts[i]), strconv.Itoa(i + 1), names[i]}
			break
		}
	}
	if !stdinLike {
		r.allowed = []ctxTuple{r.lastRec, {strconv.Itoa(counts[n-1]), strconv.Itoa(n), names[n-1]}}
	}
	return r
}

// ctxJudge evaluates the probe lines of one run. It returns (cause, detail) pairs
// and, for a first-in-chain probe on a stdin-like source, completes ref.allowed
// from the records' view.
func ctxJudge(stdout string, f ctxForm, ref *ctxRef) (bad [][2]string) {
	add := func(cause, format string, a ...any) { bad = append(bad, [2]string{cause, fmt.Sprintf(format, a...)}) }
	lines := strings.Split(strings.TrimSuffix(stdout, "\n"), "\n")
	if stdout == "" {
		lines = nil
	}
	if len(lines) != 2*len(f.tags) {
		add("shape", "expected %d probe lines, got %q", 2*len(f.tags), stdout)
		return
	}
	for ti, tag := range f.tags {
		var bl, el string
		nb, ne := 0, 0
		for _, l := range lines {
			if strings.HasPrefix(l, "B"+tag+":") {
				bl = l
				nb++
			}
			if strings.HasPrefix(l, "E"+tag+":") {
				el = l
				ne++
			}
		}
		if nb != 1 || ne != 1 {
			add("shape", "probe %s: %d begin lines and %d end lines in %q", tag, nb, ne, stdout)
			continue
		}
		first := f.first && ti == 0
		bp := strings.Split(bl, ":")
		if len(bp) != 4 {
			add("shape", "begin line %q", bl)
			continue
		}
		if bp[2] != ctxPi || bp[3] != ctxE {
			add("const", "begin block: M_PI=%s M_E=%s", bp[2], bp[3])
		}
		if first && ref.nrecs >= 1 && bp[1] != "1" {
			add("begin-nr", "begin block of the first verb sees NR=%s with %d records in the input; documented: NR=1", bp[1], ref.nrecs)
		}
		i := strings.LastIndex(el, "|")
		ep := strings.SplitN(el[:maxInt(i, 0)], ":", 10)
		if i < 0 || len(ep) != 10 {
			add("shape", "end line %q", el)
			continue
		}
		nr, fnr, filenum, pi, e, cnt, rfnr, rk, fname, rf := ep[1], ep[2], ep[3], ep[4], ep[5], ep[6], ep[7], ep[8], ep[9], el[i+1:]
		if pi != ctxPi || e != ctxE {
			add("const", "end block: M_PI=%s M_E=%s", pi, e)
		}
		if nr != strconv.Itoa(ref.nrecs) {
			add("end-nr", "end block %s sees NR=%s (FNR=%s FILENUM=%s FILENAME=%s); records ingested: %d", tag, nr, fnr, filenum, fname, ref.nrecs)
		}
		if ref.nrecs == 0 {
			continue
		}
		if first {
			if cnt != strconv.Itoa(ref.nrecs) {
				add("rec-count", "main block ran %s times, %d records constructed", cnt, ref.nrecs)
			}
			if rfnr != ref.lastRec.fnr || (!ref.stdinLike && (rk != ref.lastRec.filenum || rf != ref.lastRec.filename)) {
				add("rec-ctx", "last record saw FNR=%s FILENUM=%s FILENAME=%s; constructed: %+v", rfnr, rk, rf, ref.lastRec)
			}
			if ref.stdinLike && ref.allowed == nil {
				// one source: the last record and the last file coincide
				ref.allowed = []ctxTuple{{strconv.Itoa(ref.nrecs), rk, rf}}
			}
		}
		if ref.allowed != nil {
			got := ctxTuple{fnr, filenum, fname}
			ok := false
			for _, t := range ref.allowed {
				if t == got {
					ok = true
				}
			}
			if !ok {
				add("end-ctx", "end block %s sees FNR=%s FILENUM=%s FILENAME=%s; accepted readings (last record / last file): %+v", tag, fnr, filenum, fname, ref.allowed)
			}
		}
	}
	return
}

func maxInt(a, b int) int {
	if a > b {
		return a
	}
	return b
}

// ---------------------------------------------------------------- configurations, contents, sources

type ctxConfig struct {
	f   fformat
	va  fvariant
	gen bool
}

func ctxConfigs() []ctxConfig {
	var out []ctxConfig
	for _, f := range formats() {
		for _, va := range variantsOf(f) {
			if va.ragged {
				continue // raggedness is a per-line matter (part 2)
			}
			out = append(out, ctxConfig{f: f, va: va})
		}
	}
	// the pseudo reader: a source of its own
	g := fformat{name: "gen", flags: []string{"--igen"}}
	for n := 0; n <= 2; n++ {
		var rs []rec
		for i := 1; i <= n; i++ {
			rs = append(rs, rec{kv{"i", strconv.Itoa(i)}})
		}
		g.files = append(g.files, ffile{tag: "G" + strconv.Itoa(n), recs: rs})
	}
	out = append(out, ctxConfig{f: g, va: fvariant{name: "default"}, gen: true})
	return out
}

func (c ctxConfig) count(ff ffile) int {
	if c.va.impl {
		return len(ff.implicit)
	}
	return len(ff.recs)
}

// contents: the files of the part-2 alphabet that differ in what the end of the
// stream looks like (how many records, header only, no final newline, format specials).
func (c ctxConfig) contents() []ffile {
	keep := map[string]bool{"E": true, "H1": true, "A1": true, "A2": true, "N1": true, "L0": true, "C2": true, "M2": true, "G0": true, "G1": true, "G2": true}
	var out []ffile
	for _, ff := range c.f.files {
		if !keep[ff.tag] || ff.raggedOnly || ff.lawOnly || (c.va.impl && ff.implicit == nil) {
			continue
		}
		out = append(out, ff)
	}
	return out
}

func (c ctxConfig) listAlphabet(quick bool) []ffile {
	keep := map[string]bool{"E": true, "A1": true, "A2": true}
	if !quick {
		keep["H1"], keep["B1"] = true, true
	}
	var out []ffile
	for _, ff := range c.f.files {
		if keep[ff.tag] && !(c.va.impl && ff.implicit == nil) {
			out = append(out, ff)
		}
	}
	return out
}

type ctxSrc struct {
	name      string
	flags     []string
	files     []string
	stdin     []byte // non-nil: standard input
	chunk     int    // > 0: bytes per read of standard input
	stdinLike bool
	none      bool
}

func (s ctxSrc) opts(vfs vf.VFS) vf.MlrOpts {
	o := vf.MlrOpts{Files: vfs}
	if s.stdin != nil {
		b := s.stdin
		if s.chunk > 0 {
			k := s.chunk
			o.Reader = func() io.ReadCloser { return &chunkReader{append([]byte{}, b...), k} }
		} else {
			t := string(b)
			o.Stdin = &t
		}
	}
	return o
}

func ctxGz(b []byte) []byte                { o, _ := codecs()[0].enc(b); return o }
func ctxZ(b []byte) []byte                 { o, _ := codecs()[1].enc(b); return o }
func ctxName(c ctxConfig, ff ffile) string { return "/vfs/" + ff.tag + "." + c.f.name }

// ---------------------------------------------------------------- in-process worker

func contextWorker(w *vf.Worker) {
	q := w.Quick()
	batches := []string{"500", "1"}
	if !q {
		batches = []string{"500", "1", "2", "3"}
	}
	f1 := ctxFormsF1()
	pos2 := ctxFormsPos2(ctxVerbs())
	pos3 := ctxFormsPos3(ctxCore(q))
	coreNames := map[string]bool{}
	for _, f := range ctxFormsPos2(ctxCore(q)) {
		coreNames[f.name] = true
	}
	var idx uint64
	for _, c := range ctxConfigs() {
		base := append(append([]string{}, c.f.flags...), c.va.flags...)
		// one evaluation unit: a content list (1 or 2 files) with its sources
		type unit struct {
			list []ffile
			deep bool // run the pos-2 / pos-3 forms
		}
		var units []unit
		for _, ff := range c.contents() {
			deep := !q || ff.tag == "E" || ff.tag == "A2" || ff.tag == "G0" || ff.tag == "G2"
			units = append(units, unit{[]ffile{ff}, deep})
		}
		if !c.gen {
			la := c.listAlphabet(q)
			for _, a := range la {
				for _, b := range la {
					units = append(units, unit{[]ffile{a, b}, true})
				}
			}
		}
		for _, u := range units {
			idx++
			if !w.Mine(idx) {
				continue
			}
			w.Begin(idx)
			var tags, names []string
			var counts []int
			for _, ff := range u.list {
				tags = append(tags, ff.tag)
				names = append(names, ctxName(c, ff))
				counts = append(counts, c.count(ff))
			}
			w.Label(func() string { return "context " + c.f.name + " " + c.va.name + " " + strings.Join(tags, ",") })
			vfs := vf.VFS{ctxLeftName: ctxLeftText}
			var gzNames []string
			for i, ff := range u.list {
				vfs[names[i]] = ff.text
				vfs[names[i]+".gz"] = string(ctxGz([]byte(ff.text)))
				vfs[names[i]+".z"] = string(ctxZ([]byte(ff.text)))
				gzNames = append(gzNames, names[i]+".gz")
			}
			var srcs []ctxSrc
			switch {
			case c.gen:
				srcs = []ctxSrc{{name: "gen", flags: []string{"--gen-start", "1", "--gen-stop", strconv.Itoa(counts[0])}, stdinLike: true}}
			case len(u.list) == 1:
				text := []byte(u.list[0].text)
				if text == nil {
					text = []byte{}
				}
				bin := "/vfs/" + tags[0] + "-" + c.f.name + "-gz.bin"
				vfs[bin] = vfs[names[0]+".gz"]
				srcs = []ctxSrc{
					{name: "file", files: names},
					{name: "from", flags: []string{"--from", names[0]}},
					{name: "mfrom", flags: []string{"--mfrom", names[0], "--"}},
					{name: "stdin", stdin: text, stdinLike: true},
					{name: "stdin-chunk=1", stdin: text, chunk: 1, stdinLike: true},
					{name: "ext-gz", files: gzNames},
					{name: "ext-z", files: []string{names[0] + ".z"}},
					{name: "flag-gz", flags: []string{"--gzin"}, files: []string{bin}},
					{name: "flag-gz+stdin", flags: []string{"--gzin"}, stdin: ctxGz(text), stdinLike: true},
					{name: "flag-z+stdin", flags: []string{"--zin"}, stdin: ctxZ(text), stdinLike: true},
					{name: "dash-n", flags: []string{"-n"}, files: names, none: true},
				}
			default:
				srcs = []ctxSrc{
					{name: "files", files: names},
					{name: "from-from", flags: []string{"--from", names[0], "--from", names[1]}},
					{name: "mfrom", flags: []string{"--mfrom", names[0], names[1], "--"}},
					{name: "ext-gz,ext-gz", files: gzNames},
					{name: "ext-gz,file", files: []string{gzNames[0], names[1]}},
				}
			}
			// The reader builds the marker, the verbs hand it on: two mechanisms. The F1 forms
			// (and, on lists, the core verbs) meet every source; in the quick tier the long
			// verb alphabets meet the file-argument and plain-stdin sources only (thorough:
			// full cross product).
			var forms []ctxForm
			for _, f := range f1 {
				f.wide = true
				forms = append(forms, f)
			}
			if u.deep {
				if len(u.list) == 1 {
					forms = append(forms, pos2...)
					forms = append(forms, pos3...)
				} else {
					for _, f := range pos2 {
						f.wide = coreNames[f.name]
						forms = append(forms, f)
					}
				}
			}
			outOfDomain := map[string]bool{} // form fails on the plain file argument(s)
			var ojsonRef *vf.MlrResult
			for si, s := range srcs {
				srcNames := s.files
				if len(srcNames) != len(counts) {
					srcNames = names // --from / stdin: names by position; stdin-like names are not used
				}
				keyOf := func(cause, form, b string) string {
					return fmt.Sprintf("context[%s;%s]:%s:%s:%s:b=%s:%s", cause, c.f.name, c.va.name, s.name, form, b, strings.Join(tags, ","))
				}
				o := s.opts(vfs)
				for _, b := range batches {
					ref := ctxReference(counts, srcNames, s.stdinLike, s.none)
					for _, f := range forms {
						if !f.cheap && b != "500" {
							continue
						}
						if q && !f.wide && !(s.name == "file" || s.name == "files" || s.name == "stdin" || s.name == "gen") {
							continue
						}
						if outOfDomain[f.name] {
							continue
						}
						if len(s.flags) > 0 && (s.flags[0] == "--gzin" || s.flags[0] == "--zin") && strings.HasPrefix(f.name, "join ") {
							continue // the main decompression flags apply to join's (plain) left file as well
						}
						args := append(append([]string{}, base...), "--ojsonl", "--records-per-batch", b)
						args = append(args, s.flags...)
						args = append(args, f.verbs...)
						args = append(args, s.files...)
						r := vf.RunMlr(args, o)
						w.Eval(1)
						replay := func() map[string]any {
							fl := map[string]string{}
							for i, ff := range u.list {
								fl[names[i]] = ff.text
							}
							return map[string]any{"args": args, "files": fl, "stdin": s.stdin != nil, "stdout": r.Stdout, "exit": r.Exit, "stderr": firstLine(r.Stderr + r.Err + r.Panic)}
						}
						if !r.OK() {
							if si == 0 && !f.cheap {
								outOfDomain[f.name] = true
								w.Count("ctx_out_of_domain(form fails on the file argument)", 1)
								continue
							}
							w.Violation(keyOf("fails", f.name, b), "the chain fails on this source although it succeeds on the file argument: "+r.String(), replay())
							continue
						}
						w.Count("ctx_cases", 1)
						w.Count("ctx_source:"+s.name, 1)
						w.Count("ctx_config:"+c.f.name+":"+c.va.name, 1)
						if b == "500" {
							w.Count("ctx_form:"+f.name, 1)
						}
						if ref.nrecs >= 1 || len(u.list) > 1 {
							w.Nontrivial(1)
						}
						for _, bd := range ctxJudge(r.Stdout, f, &ref) {
							w.Violation(keyOf(bd[0], f.name, b), bd[1], replay())
						}
					}
				}
				// --ojson cat: source transparency of the whole output, outer brackets included
				if !s.none {
					args := append(append([]string{}, base...), "--ojson")
					args = append(args, s.flags...)
					args = append(args, "cat")
					args = append(args, s.files...)
					r := vf.RunMlr(args, o)
					w.Eval(1)
					w.Count("ctx_ojson_cases", 1)
					if si == 0 {
						ojsonRef = &r
					} else if ojsonRef != nil && ojsonRef.OK() && (!r.OK() || r.Stdout != ojsonRef.Stdout) {
						w.Violation(keyOf("ojson", "cat", "500"), fmt.Sprintf("--ojson cat prints %q (exit %d); the same bytes as file arguments: %q", r.Stdout, r.Exit, ojsonRef.Stdout), map[string]any{"args": args})
					}
				}
			}
		}
	}
	w.Sample(map[string]any{"context": "mlr --icsv --ojsonl tac then put -q '" + ctxProbe("2") + "' < A2.csv", "expect": "E2:2:..."})
}

// ---------------------------------------------------------------- plain binary worker

func contextExternalWorker(w *vf.Worker) {
	bin := vf.MlrBin()
	if bin == "" {
		w.Broken("VERIF_BIN_MLR is not set: the external context part needs the plain mlr binary")
		return
	}
	forms := []ctxForm{ctxFormsF1()[0], ctxFormsF1()[4]} // put ; tac then put
	var idx uint64
	for _, c := range ctxConfigs() {
		if c.gen || c.va.name != "default" {
			continue
		}
		for _, ff := range c.contents() {
			if ff.tag != "E" && ff.tag != "A2" { // the missing final newline (N1) meets every source in-process
				continue
			}
			idx++
			if !w.Mine(idx) {
				continue
			}
			w.Begin(idx)
			w.Label(func() string { return "external context sources of " + c.f.name + " " + ff.tag })
			dir, err := os.MkdirTemp("/dev/shm", "verif-c05-ctx-")
			if err != nil {
				w.Broken("cannot create temp dir: %v", err)
				return
			}
			func() {
				defer os.RemoveAll(dir)
				base := append(append([]string{}, c.f.flags...), "--ojsonl")
				P := filepath.Join(dir, ff.tag+"."+c.f.name)
				G := P + ".gz"
				B := filepath.Join(dir, ff.tag+"-gz.bin")
				gz := ctxGz([]byte(ff.text))
				for p, b := range map[string][]byte{P: []byte(ff.text), G: gz, B: gz} {
					if err := os.WriteFile(p, b, 0644); err != nil {
						w.Broken("cannot write fixture: %v", err)
						return
					}
				}
				type esrc struct {
					name      string
					flags     []string
					files     []string
					redirect  string // stdin: the file itself (redirect)
					pipe      []byte // stdin: a pipe fed by the harness
					isPipe    bool
					stdinLike bool
					none      bool
				}
				srcs := []esrc{
					{name: "file", files: []string{P}},
					{name: "from", flags: []string{"--from", P}},
					{name: "stdin-redirect", redirect: P, stdinLike: true},
					{name: "stdin-pipe", pipe: []byte(ff.text), isPipe: true, stdinLike: true},
					{name: "ext-gz", files: []string{G}},
					{name: "flag-gz", flags: []string{"--gzin"}, files: []string{B}},
					{name: "flag-gz+stdin-redirect", flags: []string{"--gzin"}, redirect: G, stdinLike: true},
					{name: "flag-gz+stdin-pipe", flags: []string{"--gzin"}, pipe: gz, isPipe: true, stdinLike: true},
					{name: "prepipe-gunzip", flags: []string{"--prepipe", "gunzip"}, files: []string{G}},
					{name: "prepipex-gunzip-lt", flags: []string{"--prepipex", "gunzip <"}, files: []string{G}},
					{name: "prepipe-gunzip-flag", flags: []string{"--prepipe-gunzip"}, files: []string{G}},
					{name: "prepipe-gunzip+stdin-redirect", flags: []string{"--prepipe", "gunzip"}, redirect: G, stdinLike: true},
					{name: "prepipe-gunzip+stdin-pipe", flags: []string{"--prepipe", "gunzip"}, pipe: gz, isPipe: true, stdinLike: true},
					{name: "dash-n", flags: []string{"-n"}, files: []string{P}, none: true},
				}
				for _, s := range srcs {
					fname := P // --from; unused for stdin
					if len(s.files) > 0 {
						fname = s.files[0]
					}
					ref := ctxReference([]int{c.count(ff)}, []string{fname}, s.stdinLike, s.none)
					for _, f := range forms {
						args := append(append([]string{}, base...), s.flags...)
						args = append(args, f.verbs...)
						args = append(args, s.files...)
						var r binRun
						for try := 0; try < 3; try++ {
							r = runBinStdin(bin, args, s.redirect, s.pipe, s.isPipe)
							if !r.timedOut {
								break
							}
						}
						if r.timedOut {
							w.Count("ctx_timeouts", 1)
							continue // never a verdict
						}
						w.Eval(1)
						w.Count("ctx_binary_cases", 1)
						w.Count("ctx_binary_source:"+s.name, 1)
						w.Nontrivial(1)
						keyOf := func(cause string) string {
							return fmt.Sprintf("context[%s;%s;binary]:%s:%s:%s", cause, c.f.name, s.name, f.name, ff.tag)
						}
						replay := map[string]any{"args": args, "stdin_redirect": s.redirect, "stdin_pipe": s.isPipe, "file": ff.text, "stdout": clip(r.stdout), "exit": r.exit, "stderr": firstLine(r.stderr)}
						if r.exit != 0 {
							w.Violation(keyOf("fails"), fmt.Sprintf("mlr %s: exit %d, stderr %q", strings.Join(args, " "), r.exit, firstLine(r.stderr)), replay)
							continue
						}
						for _, bd := range ctxJudge(r.stdout, f, &ref) {
							w.Violation(keyOf(bd[0]), "mlr "+strings.Join(args, " ")+": "+bd[1], replay)
						}
					}
				}
			}()
			w.Heartbeat()
		}
	}
}

// runBinStdin: runBin with standard input either redirected from a file (the
// child inherits the descriptor of a regular file) or fed through a pipe.
func runBinStdin(bin string, args []string, redirect string, pipe []byte, isPipe bool) binRun {
	if !isPipe {
		return runBin(bin, args, redirect)
	}
	return runBinReader(bin, args, bytes.NewReader(pipe))
}
