package c05

// Part 1: `mlr A then B [then C [then D]]` == `mlr A | mlr B [| mlr C [| mlr D]]`.
//
// then-side: one in-process invocation `--ijson --ojsonl A then B ...`.
// pipe-side: one in-process invocation per verb, joined through text in the
// intermediate format M; the last stage writes JSON Lines as the then-side does
// (JSON Lines shows the string/number distinction and, unlike --ojson, prints
// nothing format-dependent for an empty stream). Oracle: byte equality of the
// final output, asserted only when M is lossless for the stream at every cut.

import (
	"fmt"
	"sort"
	"strings"

	"verif/harness/vf"
)

// ---------------------------------------------------------------- verbs

type verb struct {
	name string
	args []string
}

func mkVerb(args ...string) verb {
	return verb{name: strings.Join(args, " "), args: args}
}

// verbList is the chain alphabet. None of these consults NR/FNR/FILENAME/
// FILENUM of the original stream; `cat -n` counts its own input; NF is the
// current field count and is allowed.
func verbList() []verb {
	return []verb{
		mkVerb("cat"),
		mkVerb("cat", "-n", "-g", "a"),
		mkVerb("tac"),
		mkVerb("head", "-n", "2"),
		mkVerb("head", "-n", "1", "-g", "a"),
		mkVerb("tail", "-n", "1"),
		mkVerb("sort", "-f", "a"),
		mkVerb("sort", "-nr", "x"),
		mkVerb("uniq", "-g", "a"),
		mkVerb("uniq", "-a", "-c"),
		mkVerb("count-distinct", "-f", "a"),
		mkVerb("cut", "-f", "a,x"),
		mkVerb("cut", "-x", "-f", "a"),
		mkVerb("rename", "a,b"),
		mkVerb("reorder", "-f", "x"),
		mkVerb("regularize"),
		mkVerb("unsparsify"),
		mkVerb("sparsify"),
		mkVerb("template", "-f", "x,a,q"),
		mkVerb("fill-down", "-f", "x"),
		mkVerb("fill-empty"),
		mkVerb("label", "p,q"),
		mkVerb("sec2gmt", "x"),
		mkVerb("nest", "--ivar", ";", "-f", "x"),
		mkVerb("nest", "--evar", ";", "-f", "x"),
		mkVerb("group-by", "a"),
		mkVerb("group-like"),
		mkVerb("having-fields", "--at-least", "x"),
		mkVerb("decimate", "-n", "2"),
		mkVerb("sort-within-records"),
		mkVerb("stats1", "-a", "sum,count", "-f", "x", "-g", "a"),
		mkVerb("merge-fields", "-k", "-a", "sum", "-f", "a,x", "-o", "s"),
		mkVerb("count-similar", "-g", "a"),
		mkVerb("top", "-f", "x", "-g", "a", "-a"),
		mkVerb("step", "-a", "delta", "-f", "x"),
		mkVerb("put", "$z=$x.$a"),
		mkVerb("put", "$nf=NF"),
		mkVerb("put", "-q", "@c[\"k\".$a]=$x; end{emit @c,\"a\"}"),
		mkVerb("filter", "$x>1"),
		// type observer: makes the in-memory type of every field at this point of the chain visible in the output
		mkVerb("put", `for(k,v in $*){$[k."_t"]=typeof(v)}`),
		mkVerb("seqgen", "--start", "1", "--stop", "2"),
		mkVerb("nothing"),
	}
}

// extVerbList: further verbs, exercised in pairs only (with every verb of
// verbList and with each other, both orders).
func extVerbList() []verb {
	return []verb{
		mkVerb("most-frequent", "-f", "a"),
		mkVerb("count", "-g", "a"),
		mkVerb("repeat", "-n", "2"),
		mkVerb("reshape", "-i", "x", "-o", "k,v"),
		mkVerb("reshape", "-s", "a,x"),
		mkVerb("sec2gmtdate", "x"),
		mkVerb("altkv"),
		mkVerb("case", "-u", "-f", "a"),
		mkVerb("top", "-f", "x", "-g", "a"),
		mkVerb("stats1", "-a", "min,max,mode,antimode,distinct_count", "-f", "x", "-g", "a"),
		mkVerb("grep", "-i", "p"),
		mkVerb("sub", "-f", "a,x", "p", "P"),
		mkVerb("gap", "-n", "1"),
		mkVerb("fill-down", "-a", "-f", "x"),
		mkVerb("uniq", "-g", "a", "-c"),
		mkVerb("fill-empty", "-v", "0"),
		mkVerb("unsparsify", "--fill-with", "0"),
	}
}

func allVerbs() []verb { return append(verbList(), extVerbList()...) }

// quadVerbs: the 4-chain family (thorough) uses the stateful / reordering / restructuring core.
func quadVerbs() []int {
	want := []string{"cat -n -g a", "tac", "head -n 1 -g a", "sort -nr x", "uniq -g a", "unsparsify", "fill-down -f x",
		"nest --ivar ; -f x", "stats1 -a sum,count -f x -g a", "step -a delta -f x", "put $z=$x.$a", "filter $x>1", "count-similar -g a", "label p,q", `put for(k,v in $*){$[k."_t"]=typeof(v)}`}
	var out []int
	for i, v := range verbList() {
		for _, w := range want {
			if v.name == w {
				out = append(out, i)
			}
		}
	}
	return out
}

// ---------------------------------------------------------------- inputs

type kv struct{ k, v string }
type rec []kv
type stream []rec

func (s stream) nfields() int {
	n := 0
	for _, r := range s {
		n += len(r)
	}
	return n
}

// jsonText renders the stream as JSON: 1 and 2 are numbers, "" and p strings.
func (s stream) jsonText() string {
	var sb strings.Builder
	sb.WriteString("[\n")
	for i, r := range s {
		if i > 0 {
			sb.WriteString(",\n")
		}
		sb.WriteString("{")
		for j, f := range r {
			if j > 0 {
				sb.WriteString(", ")
			}
			sb.WriteString(`"` + f.k + `": `)
			if f.v == "1" || f.v == "2" {
				sb.WriteString(f.v)
			} else {
				sb.WriteString(`"` + f.v + `"`)
			}
		}
		sb.WriteString("}")
	}
	sb.WriteString("\n]\n")
	return sb.String()
}

func (s stream) label() string {
	var parts []string
	for _, r := range s {
		var fs []string
		for _, f := range r {
			fs = append(fs, f.k+"="+f.v)
		}
		parts = append(parts, strings.Join(fs, ","))
	}
	return strings.Join(parts, "/")
}

var familyCache []stream

// inputFamily: one representative per (key-list shape) x (tie pattern of a) x
// (order/void/string pattern of x), bounds: keys {a,b,x}, values {1,2,"",p},
// <= 3 fields, <= 3 records. The homogeneous shape [a,x]^n gets the full cross
// product of the a- and x-patterns; every other shape a diagonal through it.
func inputFamily() []stream {
	if familyCache != nil {
		return familyCache
	}
	K := func(s string) []string { return strings.Split(s, "") }
	shapes := map[int][][][]string{
		1: {{K("ax")}, {K("abx")}, {K("xa")}, {K("a")}, {K("x")}, {K("bx")}},
		2: {{K("ax"), K("ax")}, {K("abx"), K("abx")}, {K("ax"), K("xa")}, {K("ax"), K("abx")}, {K("abx"), K("ax")},
			{K("ax"), K("a")}, {K("a"), K("ax")}, {K("x"), K("ax")}, {K("ax"), K("x")}, {K("ax"), K("b")}},
		3: {{K("ax"), K("ax"), K("ax")}, {K("abx"), K("abx"), K("abx")}, {K("ax"), K("abx"), K("ax")}, {K("ax"), K("xa"), K("ax")},
			{K("ax"), K("a"), K("ax")}, {K("ax"), K("x"), K("ax")}, {K("a"), K("ax"), K("ax")}, {K("xa"), K("ax"), K("bx")}},
	}
	P := func(s string) []string { // "1,2,_" -> values, _ = empty
		p := strings.Split(s, ",")
		for i := range p {
			if p[i] == "_" {
				p[i] = ""
			}
		}
		return p
	}
	apats := map[int][][]string{
		1: {P("1"), P("_"), P("p")},
		2: {P("1,1"), P("1,2"), P("2,1"), P("1,_"), P("p,1"), P("_,_")},
		3: {P("1,1,1"), P("1,2,1"), P("1,1,2"), P("2,1,1"), P("1,2,p"), P("1,_,1")},
	}
	xpats := map[int][][]string{
		1: {P("1"), P("2"), P("_"), P("p")},
		2: {P("1,2"), P("2,1"), P("1,1"), P("2,_"), P("_,2"), P("p,2"), P("2,p")},
		3: {P("1,2,1"), P("2,1,2"), P("2,2,1"), P("1,_,2"), P("_,1,2"), P("2,p,1"), P("2,2,2")},
	}
	bpat := []string{"2", "", "p"}
	seen := map[string]bool{}
	var out []stream
	add := func(shape [][]string, ap, xp []string) {
		var s stream
		for i, keys := range shape {
			var r rec
			for _, k := range keys {
				switch k {
				case "a":
					r = append(r, kv{"a", ap[i]})
				case "x":
					r = append(r, kv{"x", xp[i]})
				case "b":
					r = append(r, kv{"b", bpat[i%3]})
				}
			}
			s = append(s, r)
		}
		l := s.label()
		if !seen[l] {
			seen[l] = true
			out = append(out, s)
		}
	}
	out = append(out, stream{}) // the empty stream
	seen[""] = true
	for n := 1; n <= 3; n++ {
		for si, shape := range shapes[n] {
			if si == 0 {
				for _, ap := range apats[n] {
					for _, xp := range xpats[n] {
						add(shape, ap, xp)
					}
				}
				continue
			}
			for i := 0; i < len(xpats[n]); i++ {
				add(shape, apats[n][(i+si)%len(apats[n])], xpats[n][i])
			}
		}
	}
	sort.SliceStable(out, func(i, j int) bool {
		if len(out[i]) != len(out[j]) {
			return len(out[i]) < len(out[j])
		}
		return out[i].nfields() < out[j].nfields()
	})
	familyCache = out
	return out
}

// exhaustiveSmall (thorough, pairs only): every stream of <= 2 records over
// key lists {[a,x],[x,a],[a],[x]} and values {1,2,"",p}: 40 records, 1641 streams.
func exhaustiveSmall() []stream {
	vals := []string{"1", "2", "", "p"}
	var recs []rec
	for _, va := range vals {
		recs = append(recs, rec{{"a", va}})
	}
	for _, vx := range vals {
		recs = append(recs, rec{{"x", vx}})
	}
	for _, va := range vals {
		for _, vx := range vals {
			recs = append(recs, rec{{"a", va}, {"x", vx}})
			recs = append(recs, rec{{"x", vx}, {"a", va}})
		}
	}
	out := []stream{{}}
	for _, r := range recs {
		out = append(out, stream{r})
	}
	for _, r1 := range recs {
		for _, r2 := range recs {
			out = append(out, stream{r1, r2})
		}
	}
	return out
}

func thinInputs(in []stream, stride int) []stream {
	if stride <= 1 {
		return in
	}
	var out []stream
	for i, s := range in {
		if i%stride == 0 || len(s) == 0 {
			out = append(out, s)
		}
	}
	return out
}

func tripleStride(quick bool) int {
	if quick {
		return 16
	}
	return 2
}

// ---------------------------------------------------------------- intermediates

type mid struct {
	name   string
	oflags []string
	iflags []string
}

var (
	midJSON = mid{"json", []string{"--ojson"}, []string{"--ijson"}}
	allMids = []mid{
		midJSON,
		{"jsonl", []string{"--ojsonl"}, []string{"--ijsonl"}},
		{"dkvp", []string{"--odkvp"}, []string{"--idkvp"}},
		{"csv", []string{"--ocsv"}, []string{"--icsv"}},
		{"csvlite", []string{"--ocsvlite"}, []string{"--icsvlite"}},
		{"tsv", []string{"--otsv"}, []string{"--itsv"}},
		{"xtab", []string{"--oxtab"}, []string{"--ixtab"}},
		{"pprint", []string{"--opprint"}, []string{"--ipprint"}},
		{"markdown", []string{"--omd"}, []string{"--imd"}},
		{"yaml", []string{"--oyaml"}, []string{"--iyaml"}},
	}
)

func pairMids() []mid { return allMids }

func midNames(ms []mid) []string {
	var out []string
	for _, m := range ms {
		out = append(out, m.name)
	}
	return out
}

// ---------------------------------------------------------------- stage cache

type stageKey struct {
	v       int // verb index, -1 = cat (round trip)
	in, out string
	text    string
}
type stageRes struct {
	out string
	ok  bool
	err string
}

type chainEnv struct {
	w     *vf.Worker
	V     []verb
	cache map[stageKey]stageRes
	plain map[string]string // input json -> `cat` rendering as jsonl
	runs  int64
}

func newChainEnv(w *vf.Worker) *chainEnv {
	return &chainEnv{w: w, V: allVerbs(), cache: map[stageKey]stageRes{}, plain: map[string]string{}}
}

var outJSONL = mid{"jsonl-final", []string{"--ojsonl"}, nil}

func (e *chainEnv) stage(v int, in mid, out mid, text string) stageRes {
	k := stageKey{v, in.name, out.name, text}
	if r, ok := e.cache[k]; ok {
		return r
	}
	if len(e.cache) > 400000 {
		e.cache = map[stageKey]stageRes{}
	}
	args := append([]string{}, in.iflags...)
	args = append(args, out.oflags...)
	if v < 0 {
		args = append(args, "cat")
	} else {
		args = append(args, e.V[v].args...)
	}
	r := vf.RunMlr(args, vf.MlrOpts{Stdin: &text})
	e.runs++
	res := stageRes{out: r.Stdout, ok: r.OK(), err: firstLine(r.Stderr + r.Err + r.Panic)}
	e.cache[k] = res
	return res
}

func firstLine(s string) string {
	s = strings.TrimSpace(s)
	if i := strings.IndexByte(s, '\n'); i >= 0 {
		s = s[:i]
	}
	if len(s) > 200 {
		s = s[:200]
	}
	return s
}

// cut: the stream produced by running verb v on `text` (format `in`), handed on
// in format m. Returns the text for the next stage, whether the stage itself
// succeeded, and whether m is lossless for this stream.
func (e *chainEnv) cut(v int, in mid, m mid, text string) (next string, stageOK bool, lossless bool) {
	direct := e.stage(v, in, outJSONL, text) // the stream as the chain's next verb would see it, types visible
	if !direct.ok {
		return "", false, false
	}
	sm := e.stage(v, in, m, text)
	if !sm.ok {
		return "", true, false // the writer of m refuses this stream (e.g. CSV schema change): outside m's domain
	}
	rt := e.stage(-1, m, outJSONL, sm.out)
	return sm.out, true, rt.ok && rt.out == direct.out
}

func (e *chainEnv) thenSide(chain []int, text string, extra ...string) vf.MlrResult {
	args := []string{"--ijson", "--ojsonl"}
	args = append(args, extra...)
	for i, v := range chain {
		if i > 0 {
			args = append(args, "then")
		}
		args = append(args, e.V[v].args...)
	}
	e.runs++
	return vf.RunMlr(args, vf.MlrOpts{Stdin: &text})
}

func (e *chainEnv) chainName(chain []int, sep string) string {
	var p []string
	for _, v := range chain {
		p = append(p, e.V[v].name)
	}
	return strings.Join(p, sep)
}

func (e *chainEnv) plainOf(text string) string {
	if p, ok := e.plain[text]; ok {
		return p
	}
	r := e.stage(-1, midJSON, outJSONL, text)
	e.plain[text] = r.out
	return r.out
}

// evalCase compares the then-side result T of `chain` on input s with the pipe
// side through m. Returns whether the case was in domain.
func (e *chainEnv) evalCase(chain []int, s stream, text string, m mid, T vf.MlrResult, variant string) bool {
	w := e.w
	in := midJSON
	cur := text
	for i := 0; i < len(chain)-1; i++ {
		next, stageOK, lossless := e.cut(chain[i], in, m, cur)
		if !stageOK {
			// A stage that fails alone: the pipe side has no well-defined output and what
			// exit status the chain owes is property C17's business (observed on this tree:
			// `put -q '@c[$a]=$x;end{emit @c,"a"}' then seqgen --start 1 --stop 2` on a=,x=1 exits 0
			// in ~2% of runs and occasionally hangs). Counted, not asserted.
			w.Count("chain_stage_fails:"+e.V[chain[i]].name, 1)
			if T.OK() {
				w.Count("chain_stage_fails_but_chain_exits_0(unasserted)", 1)
			}
			return false
		}
		if !lossless {
			w.Count("cut_lossy:"+m.name, 1)
			return false
		}
		w.Count("cut_lossless:"+m.name, 1)
		cur, in = next, m
	}
	last := e.stage(chain[len(chain)-1], in, outJSONL, cur)
	w.Eval(1)
	w.Count("chain_in_domain", 1)
	key := func(cause string) string {
		return fmt.Sprintf("chain%d[%s;M=%s%s]:n=%d,f=%d:%s:%s", len(chain), cause, m.name, variant, len(s), s.nfields(), e.chainName(chain, " | "), s.label())
	}
	replay := func() map[string]any {
		return map[string]any{"then": "mlr --ijson --ojsonl" + variant + " " + e.chainName(chain, " then "), "pipe": "mlr --ijson --o" + m.name + " " + e.chainName(chain, " | mlr --i"+m.name+" --o"+m.name+" ") + "   (last stage --ojsonl)",
			"input_json": text, "then_stdout": T.Stdout, "then_exit": T.Exit, "then_err": firstLine(T.Stderr + T.Err + T.Panic), "pipe_stdout": last.out, "pipe_ok": last.ok, "pipe_err": last.err, "last_stage_input": cur}
	}
	switch {
	case T.Panic != "":
		w.Violation(key("panic"), fmt.Sprintf("then-chain panics: %s", firstLine(T.Panic)), replay())
	case T.OK() && last.ok:
		if T.Stdout != last.out {
			w.Violation(key("differs"), fmt.Sprintf("`%s` prints %q, piped through %s prints %q; input %s", e.chainName(chain, " then "), T.Stdout, m.name, last.out, s.label()), replay())
		} else {
			w.Count("chain_agree", 1)
			if T.Stdout != e.plainOf(text) {
				w.Nontrivial(1)
			}
			if T.Stdout == "" {
				w.Count("chain_agree_empty_output", 1)
			}
		}
	case !T.OK() && !last.ok:
		w.Count("chain_agree_both_fail", 1)
	default:
		w.Violation(key("fails-one-sided"), fmt.Sprintf("`%s`: then-side exit=%d (%s), pipe-side last stage ok=%v (%s); input %s", e.chainName(chain, " then "), T.Exit, firstLine(T.Stderr+T.Err), last.ok, last.err, s.label()), replay())
	}
	return true
}

// effective: the verb changed this stream (vacuity guard per verb).
func (e *chainEnv) noteEffective(v int, text string) {
	r := e.stage(v, midJSON, outJSONL, text)
	if r.ok && r.out != e.plainOf(text) {
		e.w.Count("verb_effective:"+e.V[v].name, 1)
	}
}

// ---------------------------------------------------------------- workers

// pairsWorker: one case index per first verb A; inside: every B x every input x every intermediate.
func pairsWorker(w *vf.Worker) {
	e := newChainEnv(w)
	fam := inputFamily()
	mids := pairMids()
	quick := w.Quick()
	var small []stream
	if !quick {
		small = exhaustiveSmall()
	}
	for a := range e.V {
		idx := uint64(a)
		if !w.Mine(idx) {
			continue
		}
		w.Begin(idx)
		w.Label(func() string { return "pairs with first verb " + e.V[a].name })
		nCore := len(verbList())
		for b := range e.V {
			chain := []int{a, b}
			ext := a >= nCore || b >= nCore
			for si, s := range fam {
				if ext && quick && si%4 != 0 && a != b {
					continue // extended alphabet, quick: every 4th input
				}
				text := s.jsonText()
				T := e.thenSide(chain, text)
				if a == b {
					e.noteEffective(a, text)
				}
				any := false
				for mi, m := range mids {
					// quick: json, jsonl, dkvp on every input; the other intermediates on every 4th input
					if quick && mi >= 3 && si%4 != 0 {
						continue
					}
					if ext && mi >= 3 {
						continue // extended alphabet: json, jsonl, dkvp
					}
					if e.evalCase(chain, s, text, m, T, "") {
						any = true
					}
				}
				if any {
					w.Count("verb_pos1:"+e.V[a].name, 1)
					w.Count("verb_pos2:"+e.V[b].name, 1)
					w.AddSet("distinct-final-outputs", fmt.Sprintf("%08x", fnv(T.Stdout)))
				}
				// the same chain, one record per batch, and the documented spellings of `then`
				if ext {
					continue
				}
				if !quick || si%3 == 0 {
					T1 := e.thenSide(chain, text, "--records-per-batch", "1")
					e.evalCase(chain, s, text, midJSON, T1, " --records-per-batch 1")
				}
				if si%10 == 0 {
					e.spellings(chain, s, text, T)
				}
			}
			for _, s := range small {
				if ext {
					break
				}
				text := s.jsonText()
				T := e.thenSide(chain, text)
				e.evalCase(chain, s, text, midJSON, T, "")
				w.Count("pairs_exhaustive_small_cases", 1)
			}
			w.Heartbeat()
		}
		if a == 0 {
			w.Sample(map[string]any{"then": "mlr --ijson --ojsonl sort -nr x then step -a delta -f x", "pipe": "mlr --ijson --odkvp sort -nr x | mlr --idkvp --ojsonl step -a delta -f x", "input": fam[len(fam)/2].label()})
		}
	}
	w.Count("mlr_runs", e.runs)
}

// spellings: `A + B` and `then A then B` are documented to mean `A then B`.
func (e *chainEnv) spellings(chain []int, s stream, text string, T vf.MlrResult) {
	for _, sp := range []string{"+", "leading-then"} {
		args := []string{"--ijson", "--ojsonl"}
		if sp == "leading-then" {
			args = append(args, "then")
		}
		for i, v := range chain {
			if i > 0 {
				if sp == "+" {
					args = append(args, "+")
				} else {
					args = append(args, "then")
				}
			}
			args = append(args, e.V[v].args...)
		}
		r := vf.RunMlr(args, vf.MlrOpts{Stdin: &text})
		e.runs++
		e.w.Eval(1)
		e.w.Count("then_spelling:"+sp, 1)
		if r.Stdout != T.Stdout || r.Exit != T.Exit {
			e.w.Violation(fmt.Sprintf("then-spelling[%s]:n=%d:%s:%s", sp, len(s), e.chainName(chain, " then "), s.label()),
				fmt.Sprintf("spelling %q of `%s` gives exit=%d %q, `then` gives exit=%d %q", sp, e.chainName(chain, " then "), r.Exit, r.Stdout, T.Exit, T.Stdout),
				map[string]any{"args": args, "input_json": text})
		}
	}
}

// triplesWorker: one case index per (A,B); inside: every C x inputs, JSON intermediate.
func triplesWorker(w *vf.Worker) {
	e := newChainEnv(w)
	fam := thinInputs(inputFamily(), tripleStride(w.Quick()))
	n := len(verbList())
	for a := 0; a < n; a++ {
		for b := 0; b < n; b++ {
			idx := uint64(a*n + b)
			if !w.Mine(idx) {
				continue
			}
			w.Begin(idx)
			w.Label(func() string { return "triples starting " + e.V[a].name + " then " + e.V[b].name })
			for c := 0; c < n; c++ {
				chain := []int{a, b, c}
				for _, s := range fam {
					text := s.jsonText()
					T := e.thenSide(chain, text)
					if e.evalCase(chain, s, text, midJSON, T, "") {
						w.Count("verb_pos3:"+e.V[c].name, 1)
					}
				}
			}
			w.Heartbeat()
		}
	}
	w.Count("mlr_runs", e.runs)
	w.Count("triple_inputs", int64(len(fam)))
}

// quadsWorker (thorough): 4-chains over the stateful core, JSON intermediate.
func quadsWorker(w *vf.Worker) {
	e := newChainEnv(w)
	Q := quadVerbs()
	fam := thinInputs(inputFamily(), 3)
	for ai, a := range Q {
		for bi, b := range Q {
			idx := uint64(ai*len(Q) + bi)
			if !w.Mine(idx) {
				continue
			}
			w.Begin(idx)
			w.Label(func() string { return "quads starting " + e.V[a].name + " then " + e.V[b].name })
			for _, c := range Q {
				for _, d := range Q {
					chain := []int{a, b, c, d}
					for _, s := range fam {
						text := s.jsonText()
						T := e.thenSide(chain, text)
						e.evalCase(chain, s, text, midJSON, T, "")
						w.Count("quad_cases", 1)
					}
				}
				w.Heartbeat()
			}
		}
	}
	w.Count("mlr_runs", e.runs)
}

func fnv(s string) uint32 {
	h := uint32(2166136261)
	for i := 0; i < len(s); i++ {
		h ^= uint32(s[i])
		h *= 16777619
	}
	return h
}
