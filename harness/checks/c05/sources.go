package c05

// Part 3: the same bytes must yield the same records whatever the input source.
//
// srcin (in-process, virtual files / controlled stdin): file, stdin (whole and
// delivered in chunks of 1,2,3,7,64,4096 bytes), --from, by-extension
// .gz/.bz2/.z/.zst, --gzin/--bz2in/--zin/--zstdin on a neutral name, the flags on
// (chunked) stdin, flag + agreeing extension, a mixed multi-file list.
//
// srcext (plain mlr binary, real files under /dev/shm): all of the above plus
// --prepipe / --prepipex / --prepipe-gunzip / --prepipe-zcat / --prepipe-zstdcat,
// the documented precedence of --prepipe over extension and flag, file names
// with a space or quotes, file://, --files.
//
// Oracle: byte equality of `--ojsonl cat` (and of a FILENAME/NR probe) with the
// plain-file baseline (law on the real code; nothing golden).

import (
	"bytes"
	"compress/gzip"
	"compress/zlib"
	"context"
	"fmt"
	"io"
	"os"
	"os/exec"
	"path/filepath"
	"strconv"
	"strings"
	"time"

	"verif/harness/vf"
)

type corpus struct {
	name  string
	flags []string
	ext   string
	text  string
	big   bool
}

func corpora() []corpus {
	var big strings.Builder
	for i := 1; i <= 12000; i++ {
		fmt.Fprintf(&big, "i=%d,b=%d,c=abcdefghij\n", i, i*7)
	}
	var bigcsv strings.Builder
	bigcsv.WriteString("i,s,t\n")
	for i := 1; i <= 3000; i++ {
		if i%5 == 0 {
			fmt.Fprintf(&bigcsv, "%d,\"x,%d\",\"line1\nline2\"\n", i, i)
		} else {
			fmt.Fprintf(&bigcsv, "%d,y%d,plain\n", i, i)
		}
	}
	return []corpus{
		{name: "dkvp", flags: []string{"--idkvp"}, ext: "dkvp", text: "a=1,b=p\na=2,b=q\na=3,b=\n"},
		{name: "csv", flags: []string{"--icsv"}, ext: "csv", text: "a,b\n1,p\n2,q\n3,\n"},
		{name: "csv-quoted-crlf", flags: []string{"--icsv"}, ext: "csv", text: "a,b\r\n1,\"p,q\"\r\n2,\"two\r\nlines\"\r\n"},
		{name: "csv-bom", flags: []string{"--icsv"}, ext: "csv", text: "\xef\xbb\xbfa,b\n1,p\n2,q\n"},
		{name: "tsv", flags: []string{"--itsv"}, ext: "tsv", text: "a\tb\n1\tp\n2\tq\\tr\n"},
		{name: "json", flags: []string{"--ijson"}, ext: "json", text: "[\n  {\"a\": 1, \"b\": {\"c\": \"p\"}},\n  {\"a\": 2, \"b\": [1, 2]}\n]\n"},
		{name: "jsonl", flags: []string{"--ijsonl"}, ext: "jsonl", text: "{\"a\": 1, \"b\": \"p\"}\n{\"a\": 2, \"b\": \"q\"}\n"},
		{name: "nidx", flags: []string{"--inidx", "--ifs", " "}, ext: "nidx", text: "1 p\n2  q\n"},
		{name: "xtab", flags: []string{"--ixtab"}, ext: "xtab", text: "a 1\nb p\n\na 2\nb q\n"},
		{name: "pprint", flags: []string{"--ipprint"}, ext: "pprint", text: "a b\n1 p\n2 q\n\na x\n3 r\n"},
		{name: "markdown", flags: []string{"--imd"}, ext: "md", text: "| a | b |\n| --- | --- |\n| 1 | p |\n"},
		{name: "no-final-newline", flags: []string{"--idkvp"}, ext: "dkvp", text: "a=1\na=2"},
		{name: "empty", flags: []string{"--idkvp"}, ext: "dkvp", text: ""},
		{name: "big-dkvp", flags: []string{"--idkvp"}, ext: "dkvp", text: big.String(), big: true},
		{name: "big-csv", flags: []string{"--icsv"}, ext: "csv", text: bigcsv.String(), big: true},
	}
}

type codec struct {
	name string // gz bz2 z zst
	flag string
	ext  string
	enc  func(b []byte) ([]byte, error)
}

func viaBinary(name string, args ...string) func(b []byte) ([]byte, error) {
	return func(b []byte) ([]byte, error) {
		p, err := exec.LookPath(name)
		if err != nil {
			return nil, err
		}
		cmd := exec.Command(p, args...)
		cmd.Stdin = bytes.NewReader(b)
		var out bytes.Buffer
		cmd.Stdout = &out
		if err := cmd.Run(); err != nil {
			return nil, err
		}
		return out.Bytes(), nil
	}
}

func codecs() []codec {
	return []codec{
		{"gz", "--gzin", ".gz", func(b []byte) ([]byte, error) {
			var o bytes.Buffer
			zw := gzip.NewWriter(&o)
			zw.Write(b)
			zw.Close()
			return o.Bytes(), nil
		}},
		{"z", "--zin", ".z", func(b []byte) ([]byte, error) {
			var o bytes.Buffer
			zw := zlib.NewWriter(&o)
			zw.Write(b)
			zw.Close()
			return o.Bytes(), nil
		}},
		// the Go standard library has no bzip2 or zstd writer: fixtures come from the system tools when present
		{"bz2", "--bz2in", ".bz2", viaBinary("bzip2", "-c")},
		{"zst", "--zstdin", ".zst", viaBinary("zstd", "-c", "-q")},
	}
}

// chunkReader hands out at most k bytes per Read.
type chunkReader struct {
	b []byte
	k int
}

func (c *chunkReader) Read(p []byte) (int, error) {
	if len(c.b) == 0 {
		return 0, io.EOF
	}
	n := c.k
	if n > len(p) {
		n = len(p)
	}
	if n > len(c.b) {
		n = len(c.b)
	}
	copy(p, c.b[:n])
	c.b = c.b[n:]
	return n, nil
}
func (c *chunkReader) Close() error { return nil }

// ---------------------------------------------------------------- in-process

func sourcesInprocWorker(w *vf.Worker) {
	var idx uint64
	for _, c := range corpora() {
		idx++
		if !w.Mine(idx) {
			continue
		}
		w.Begin(idx)
		w.Label(func() string { return "in-process sources of corpus " + c.name })
		plain := "/vfs/c." + c.ext
		vfs := vf.VFS{plain: c.text}
		enc := map[string][]byte{}
		for _, cd := range codecs() {
			b, err := cd.enc([]byte(c.text))
			if err != nil {
				w.Count("src_codec_unavailable:"+cd.name, 1)
				continue
			}
			enc[cd.name] = b
			vfs[plain+cd.ext] = string(b)
			vfs["/vfs/c-"+cd.name+".bin"] = string(b)
		}
		batches := []string{"500", "1"}
		if c.big {
			batches = []string{"500"}
		}
		for _, b := range batches {
			base := append(append([]string{}, c.flags...), "--ojsonl", "--records-per-batch", b)
			ref := vf.RunMlr(append(append([]string{}, base...), "cat", plain), vf.MlrOpts{Files: vfs})
			if !ref.OK() {
				w.Violation(fmt.Sprintf("source[baseline-fails]:%s:b=%s", c.name, b), "the corpus does not read as a plain file: "+ref.String(), nil)
				continue
			}
			nrec := strings.Count(ref.Stdout, "\n")
			check := func(src string, args []string, o vf.MlrOpts, times int) {
				o.Files = vfs
				r := vf.RunMlr(args, o)
				w.Eval(1)
				w.Count("src_cases", 1)
				w.Count("src_inproc:"+strings.SplitN(src, "=", 2)[0], 1)
				w.Nontrivial(1)
				want := strings.Repeat(ref.Stdout, times)
				if !r.OK() || r.Stdout != want {
					w.Violation(fmt.Sprintf("source[%s;inproc]:nrec=%d:%s:b=%s:%s", symptom(r.Exit, r.Stdout, want, r.Stderr+r.Err, false), nrec, c.name, b, src),
						fmt.Sprintf("source %s: exit=%d %d bytes %s; plain file: %d bytes %s (%s)", src, r.Exit, len(r.Stdout), clip(r.Stdout), len(want), clip(want), firstLine(r.Stderr+r.Err+r.Panic)),
						map[string]any{"args": args, "corpus": clip(c.text)})
				}
			}
			cat := func(extra ...string) []string {
				a := append([]string{}, base...)
				return append(a, extra...)
			}
			text := c.text
			check("stdin", cat("cat"), vf.MlrOpts{Stdin: &text}, 1)
			check("from", cat("--from", plain, "cat"), vf.MlrOpts{}, 1)
			chunks := []int{1, 2, 3, 7, 64, 4096}
			if c.big {
				chunks = []int{1, 4096, 65537}
			}
			for _, k := range chunks {
				k := k
				check("stdin-chunk="+strconv.Itoa(k), cat("cat"), vf.MlrOpts{Reader: func() io.ReadCloser { return &chunkReader{[]byte(c.text), k} }}, 1)
			}
			for _, cd := range codecs() {
				eb, ok := enc[cd.name]
				if !ok {
					continue
				}
				check("ext-"+cd.name, cat("cat", plain+cd.ext), vf.MlrOpts{}, 1)
				check("flag-"+cd.name, cat(cd.flag, "cat", "/vfs/c-"+cd.name+".bin"), vf.MlrOpts{}, 1)
				check("flag+ext-"+cd.name, cat(cd.flag, "cat", plain+cd.ext), vf.MlrOpts{}, 1)
				es := string(eb)
				check("flag+stdin-"+cd.name, cat(cd.flag, "cat"), vf.MlrOpts{Stdin: &es}, 1)
				for _, k := range []int{1, 7} {
					if c.big && k == 1 {
						continue
					}
					k := k
					check("flag+stdin-"+cd.name+"-chunk="+strconv.Itoa(k), cat(cd.flag, "cat"), vf.MlrOpts{Reader: func() io.ReadCloser { return &chunkReader{append([]byte{}, eb...), k} }}, 1)
				}
			}
			// a mixed list: every file is detected on its own
			mixed := []string{plain}
			for _, cd := range codecs() {
				if _, ok := enc[cd.name]; ok {
					mixed = append(mixed, plain+cd.ext)
				}
			}
			mixed = append(mixed, plain)
			check("mixed-list", cat(append([]string{"cat"}, mixed...)...), vf.MlrOpts{}, len(mixed))
			w.Heartbeat()
		}
	}
}

func clip(s string) string {
	if len(s) > 160 {
		return fmt.Sprintf("%q...(%d bytes)...%q", s[:80], len(s), s[len(s)-60:])
	}
	return fmt.Sprintf("%q", s)
}

// ---------------------------------------------------------------- external

type binRun struct {
	stdout   string
	stderr   string
	exit     int
	timedOut bool
	err      string
}

type capWriter struct {
	buf bytes.Buffer
	cap int
}

func (c *capWriter) Write(p []byte) (int, error) {
	if c.buf.Len() < c.cap {
		c.buf.Write(p)
	}
	return len(p), nil
}

func runBin(bin string, args []string, stdinPath string) binRun {
	if stdinPath != "" {
		f, err := os.Open(stdinPath)
		if err != nil {
			return binRun{err: err.Error(), exit: -1}
		}
		defer f.Close()
		return runBinReader(bin, args, f) // an *os.File is inherited as is: a redirect
	}
	return runBinReader(bin, args, nil)
}

// runBinReader: stdin nil = /dev/null; an *os.File is handed to the child as its
// descriptor 0 (redirect); any other reader is fed through a pipe by os/exec.
func runBinReader(bin string, args []string, stdin io.Reader) binRun {
	ctx, cancel := context.WithTimeout(context.Background(), 120*time.Second)
	defer cancel()
	cmd := exec.CommandContext(ctx, bin, args...)
	cmd.Env = append(os.Environ(), "MLRRC=__none__")
	if stdin != nil {
		cmd.Stdin = stdin
	}
	out := &capWriter{cap: 64 << 20}
	errw := &capWriter{cap: 1 << 16}
	cmd.Stdout, cmd.Stderr = out, errw
	err := cmd.Run()
	r := binRun{stdout: out.buf.String(), stderr: errw.buf.String()}
	if ctx.Err() != nil {
		r.timedOut = true
	}
	if err != nil {
		if ee, ok := err.(*exec.ExitError); ok {
			r.exit = ee.ExitCode()
		} else {
			r.exit = -1
			r.err = err.Error()
		}
	}
	return r
}

type extSource struct {
	name   string
	flags  []string // main flags
	files  []string
	stdin  string
	times  int  // expected = baseline repeated
	repeat int  // run this many times (race exposure); every run must agree
	fname  bool // also probe FILENAME
}

func sourcesExternalWorker(w *vf.Worker) {
	bin := vf.MlrBin()
	if bin == "" {
		w.Broken("VERIF_BIN_MLR is not set: the external input-source part needs the plain mlr binary")
		return
	}
	have := func(tool string) bool { _, err := exec.LookPath(tool); return err == nil }
	var idx uint64
	for _, c := range corpora() {
		idx++
		if !w.Mine(idx) {
			continue
		}
		w.Begin(idx)
		w.Label(func() string { return "external sources of corpus " + c.name })
		dir, err := os.MkdirTemp("/dev/shm", "verif-c05-src-")
		if err != nil {
			w.Broken("cannot create temp dir: %v", err)
			return
		}
		func() {
			defer os.RemoveAll(dir)
			write := func(name string, b []byte) string {
				p := filepath.Join(dir, name)
				if err := os.WriteFile(p, b, 0644); err != nil {
					w.Broken("cannot write fixture: %v", err)
				}
				return p
			}
			P := write("c."+c.ext, []byte(c.text))
			encPath := map[string]string{}
			binPath := map[string]string{}
			for _, cd := range codecs() {
				b, err := cd.enc([]byte(c.text))
				if err != nil {
					w.Count("src_codec_unavailable:"+cd.name, 1)
					continue
				}
				encPath[cd.name] = write("c."+c.ext+cd.ext, b)
				binPath[cd.name] = write("c-"+cd.name+".bin", b)
				if cd.name == "gz" {
					write("sp ace."+c.ext+".gz", b)
					write("quo'te."+c.ext+".gz", b)
					write("dq\"uote."+c.ext+".gz", b)
					write("me$ta;ch&ar."+c.ext+".gz", b)
				}
			}
			plainNamedGz := write("plain-named."+c.ext+".gz", []byte(c.text))
			listFile := write("list.txt", []byte(P+"\n"+encPath["gz"]+"\n"))

			var S []extSource
			add := func(s extSource) {
				if s.times == 0 {
					s.times = 1
				}
				if s.repeat == 0 {
					s.repeat = 1
				}
				S = append(S, s)
			}
			add(extSource{name: "stdin", stdin: P})
			add(extSource{name: "from", flags: []string{"--from", P}})
			add(extSource{name: "file-uri", files: []string{"file://" + P}})
			for _, cd := range codecs() {
				ep, ok := encPath[cd.name]
				if !ok {
					continue
				}
				add(extSource{name: "ext-" + cd.name, files: []string{ep}, fname: true})
				add(extSource{name: "flag-" + cd.name, flags: []string{cd.flag}, files: []string{binPath[cd.name]}, fname: true})
				add(extSource{name: "flag+ext-" + cd.name, flags: []string{cd.flag}, files: []string{ep}})
				add(extSource{name: "flag+stdin-" + cd.name, flags: []string{cd.flag}, stdin: ep})
			}
			rep := 4 // --prepipe runs are repeated: its failure mode on this tree is a race

			if gz, ok := encPath["gz"]; ok {
				add(extSource{name: "prepipe-gunzip", flags: []string{"--prepipe", "gunzip"}, files: []string{gz}, repeat: rep, fname: true})
				add(extSource{name: "prepipe-gunzip-neutral-name", flags: []string{"--prepipe", "gunzip"}, files: []string{binPath["gz"]}})
				add(extSource{name: "prepipe-gunzip-b1", flags: []string{"--records-per-batch", "1", "--prepipe", "gunzip"}, files: []string{gz}, repeat: rep})
				add(extSource{name: "prepipex-gunzip-lt", flags: []string{"--prepipex", "gunzip <"}, files: []string{gz}, fname: true})
				add(extSource{name: "prepipex-gzip-dc", flags: []string{"--prepipex", "gzip -dc"}, files: []string{gz}})
				add(extSource{name: "prepipe-gunzip-flag", flags: []string{"--prepipe-gunzip"}, files: []string{gz}})
				if have("zcat") {
					add(extSource{name: "prepipe-zcat-flag", flags: []string{"--prepipe-zcat"}, files: []string{gz}})
				}
				add(extSource{name: "prepipe-two-files", flags: []string{"--prepipe", "gunzip"}, files: []string{gz, binPath["gz"]}, times: 2})
				add(extSource{name: "prepipe-name-space", flags: []string{"--prepipe", "gunzip"}, files: []string{filepath.Join(dir, "sp ace."+c.ext+".gz")}})
				add(extSource{name: "prepipe-name-squote", flags: []string{"--prepipe", "gunzip"}, files: []string{filepath.Join(dir, "quo'te."+c.ext+".gz")}})
				add(extSource{name: "prepipe-name-dquote", flags: []string{"--prepipe", "gunzip"}, files: []string{filepath.Join(dir, "dq\"uote."+c.ext+".gz")}})
				add(extSource{name: "prepipe-name-metachar", flags: []string{"--prepipe", "gunzip"}, files: []string{filepath.Join(dir, "me$ta;ch&ar."+c.ext+".gz")}})
				add(extSource{name: "prepipe-gunzip+stdin", flags: []string{"--prepipe", "gunzip"}, stdin: gz})
				add(extSource{name: "ext-name-space", files: []string{filepath.Join(dir, "sp ace."+c.ext+".gz")}})
				add(extSource{name: "ext-name-squote", files: []string{filepath.Join(dir, "quo'te."+c.ext+".gz")}})
				add(extSource{name: "files-flag", flags: []string{"--files", listFile}, times: 2})
			}
			if bz, ok := encPath["bz2"]; ok && have("bzip2") {
				add(extSource{name: "prepipe-bzip2-dc", flags: []string{"--prepipe", "bzip2 -dc"}, files: []string{bz}})
			}
			if zs, ok := encPath["zst"]; ok && have("zstd") {
				add(extSource{name: "prepipe-zstd-dc", flags: []string{"--prepipe", "zstd -dc"}, files: []string{zs}})
				if have("zstdcat") {
					add(extSource{name: "prepipe-zstdcat-flag", flags: []string{"--prepipe-zstdcat"}, files: []string{zs}})
				}
			}
			// documented precedence: --prepipe replaces extension autodetection and makes --gzin ignored
			add(extSource{name: "prepipe-cat-plain", flags: []string{"--prepipe", "cat"}, files: []string{P}})
			add(extSource{name: "prepipe-cat+gzin-ignored", flags: []string{"--gzin", "--prepipe", "cat"}, files: []string{P}})
			add(extSource{name: "prepipe-cat-overrides-ext", flags: []string{"--prepipe", "cat"}, files: []string{plainNamedGz}})
			mixed := []string{P}
			for _, cd := range codecs() {
				if ep, ok := encPath[cd.name]; ok {
					mixed = append(mixed, ep)
				}
			}
			add(extSource{name: "mixed-list", files: mixed, times: len(mixed)})

			base := append(append([]string{}, c.flags...), "--ojsonl")
			ref := runBin(bin, append(append([]string{}, base...), "cat", P), "")
			if ref.timedOut {
				w.Broken("baseline run timed out (machine load?) for corpus %s", c.name)
				return
			}
			if ref.exit != 0 {
				w.Violation(fmt.Sprintf("source[baseline-fails;binary]:%s", c.name), fmt.Sprintf("the corpus does not read as a plain file: exit=%d %s", ref.exit, firstLine(ref.stderr)), nil)
				return
			}
			nrec := strings.Count(ref.stdout, "\n")
			// bind the in-process harness to the binary
			ip := vf.RunMlr(append(append([]string{}, base...), "cat", "/vfs/c."+c.ext), vf.MlrOpts{Files: vf.VFS{"/vfs/c." + c.ext: c.text}})
			w.Eval(1)
			if ip.Stdout != ref.stdout {
				w.Violation(fmt.Sprintf("source[inproc-vs-binary]:%s", c.name), fmt.Sprintf("in-process run prints %s, the binary prints %s", clip(ip.Stdout), clip(ref.stdout)), nil)
			}
			for _, s := range S {
				args := append(append([]string{}, base...), s.flags...)
				args = append(args, "cat")
				args = append(args, s.files...)
				want := strings.Repeat(ref.stdout, s.times)
				bad, runs := 0, 0
				var firstBad binRun
				for k := 0; k < s.repeat; k++ {
					r := runBin(bin, args, s.stdin)
					if r.timedOut {
						w.Count("src_timeouts", 1)
						continue // never a verdict
					}
					runs++
					w.Eval(1)
					if r.exit != 0 || r.stdout != want {
						if bad == 0 {
							firstBad = r
						}
						bad++
					}
				}
				w.Count("src_cases", 1)
				w.Count("src_binary:"+s.name, 1)
				w.Nontrivial(1)
				if runs == 0 {
					w.Broken("source %s of corpus %s: every run timed out", s.name, c.name)
					continue
				}
				if bad > 0 {
					// believe it only after seeing it again: 3 re-runs
					again, total := 0, 0
					for k := 0; k < 3; k++ {
						r := runBin(bin, args, s.stdin)
						if r.timedOut {
							continue
						}
						total++
						if r.exit != 0 || r.stdout != want {
							again++
						}
					}
					det := "always"
					if bad < runs || again < total {
						det = "sometimes"
					}
					usesPrepipe := strings.Contains(strings.Join(s.flags, " "), "--prepipe")
					w.Violation(fmt.Sprintf("source[%s;binary]:nrec=%d:%s:%s:%s", symptom(firstBad.exit, firstBad.stdout, want, firstBad.stderr, usesPrepipe), nrec, c.name, s.name, det),
						fmt.Sprintf("mlr %s%s: %d of %d runs (re-run: %d of %d) differ from the plain file; first bad run: exit=%d, %d bytes %s, plain file gives %d bytes; stderr %q",
							strings.Join(args, " "), stdinNote(s.stdin), bad, runs, again, total, firstBad.exit, len(firstBad.stdout), clip(firstBad.stdout), len(want), firstLine(firstBad.stderr)),
						map[string]any{"args": args, "stdin_file": s.stdin, "corpus": clip(c.text), "bad_runs": bad, "runs": runs, "rerun_bad": again, "rerun_total": total})
					continue
				}
				if s.fname && len(s.files) == 1 && nrec > 0 && !c.big {
					pargs := append(append([]string{}, base...), s.flags...)
					pargs = append(pargs, "put", "-q", "print FILENAME.\":\".FILENUM.\":\".NR.\":\".FNR")
					pargs = append(pargs, s.files...)
					r := runBin(bin, pargs, "")
					w.Eval(1)
					var wantP strings.Builder
					for i := 1; i <= nrec; i++ {
						fmt.Fprintf(&wantP, "%s:1:%d:%d\n", s.files[0], i, i)
					}
					if !r.timedOut && (r.exit != 0 || r.stdout != wantP.String()) {
						// --prepipe is racy (see source[prepipe...]) so a short answer here is the same defect: label it
						w.Violation(fmt.Sprintf("source-context[%s;binary]:nrec=%d:%s:%s", symptom(r.exit, r.stdout, wantP.String(), r.stderr, strings.Contains(strings.Join(s.flags, " "), "--prepipe")), nrec, c.name, s.name),
							fmt.Sprintf("FILENAME:FILENUM:NR:FNR per record: got %s (exit %d), expected %s", clip(r.stdout), r.exit, clip(wantP.String())), map[string]any{"args": pargs})
					}
				}
			}
		}()
		w.Heartbeat()
	}
	w.Sample(map[string]any{"external": "mlr --icsv --ojsonl --prepipe gunzip cat c.csv.gz == mlr --icsv --ojsonl cat c.csv"})
}

// symptom names the observable failure shape, so that one root cause lands in one violation group.
func symptom(exit int, got, want, stderr string, prepipe bool) string {
	switch {
	case strings.Contains(stderr, "Unterminated quoted string") || strings.Contains(stderr, "Syntax error") || strings.Contains(stderr, "cannot open") || strings.Contains(stderr, "not found") || strings.Contains(stderr, "No such file"):
		return "prepipe-filename-quoting"
	case exit != 0 && strings.Contains(stderr, "file already closed"):
		return "prepipe-read-after-close-error"
	case exit == 0 && prepipe && len(got) < len(want):
		return "prepipe-truncated-exit0"
	case strings.Contains(got, "\ufeff") && strings.ReplaceAll(got, "\ufeff", "") == want:
		return "bom-kept"
	case exit != 0:
		return "fails"
	}
	return "differs"
}

func stdinNote(p string) string {
	if p == "" {
		return ""
	}
	return " < " + p
}
