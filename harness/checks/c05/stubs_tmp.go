package c05

import "verif/harness/vf"

func filesWorker(w *vf.Worker)           { w.Count("files_cases", 1) }
func sourcesInprocWorker(w *vf.Worker)   { w.Count("src_cases", 1) }
func sourcesExternalWorker(w *vf.Worker) {}
