package c08

// Assignment skipping: an assignment whose right-hand side is absent leaves
// the record, the out-of-stream variables and the locals exactly as if the
// statement were not there (law evaluated on the real code on both sides);
// compound assignments mean "lhs = lhs op rhs" with the same skipping; the
// documented accumulation idiom @sum[$a] += $x folds exactly the present
// values.

import (
	"encoding/json"
	"fmt"
	"os"
	"strings"

	"verif/harness/vf"
)

type lval struct {
	id       string
	setup    string                  // statements before the assignment
	stmt     func(rhs string) string // the assignment under test
	base     string                  // what "not assigning" looks like (default: no statement)
	locals   []string                // locals to observe afterwards
	mayAbort bool                    // a fatal (type) error instead of a skip is also acceptable
}

func asg(target string) func(string) string {
	return func(rhs string) string { return target + " = " + rhs + ";" }
}

func lvalues() []lval {
	return []lval{
		{id: "$new", stmt: asg("$y")},
		{id: "$existing", stmt: asg("$i")},
		{id: "${new}", stmt: asg("${y}")},
		{id: `$*["new"]`, stmt: asg(`$*["y"]`)},
		{id: `$*["existing"]`, stmt: asg(`$*["i"]`)},
		{id: `$["new"]`, stmt: asg(`$["y"]`)},
		{id: `$[[1]] (positional name)`, stmt: asg(`$[[1]]`)},
		{id: `$[[[1]]] (positional value)`, stmt: asg(`$[[[1]]]`)},
		{id: `$new["k"]`, stmt: asg(`$y["k"]`)},
		{id: `$new[1]`, stmt: asg(`$y[1]`), mayAbort: true},
		{id: `$map["newkey"]`, stmt: asg(`$m["b"]`)},
		{id: `$map["oldkey"]`, stmt: asg(`$m["a"]`)},
		{id: `$array[1]`, stmt: asg(`$arr[1]`)},
		{id: "$*", stmt: asg("$*"), mayAbort: true},
		{id: "$* via mapsum", stmt: func(r string) string { return `$* = mapsum($*, {"y": ` + r + `});` }, base: `$* = mapsum($*, {});`},
		{id: "@new", stmt: asg("@v")},
		{id: "@existing", stmt: asg("@om")},
		{id: `@map["newkey"]`, stmt: asg(`@om["q"]`)},
		{id: `@map["oldkey"]`, stmt: asg(`@om["p"]`)},
		{id: "@new[1][2]", stmt: asg("@v[1][2]")},
		{id: `@new["a"]["b"]`, stmt: asg(`@v["a"]["b"]`)},
		{id: `@*["new"]`, stmt: asg(`@*["v"]`)},
		{id: `@["new"]`, stmt: asg(`@["v"]`)},
		{id: "@*", stmt: asg("@*"), mayAbort: true},
		{id: "local new", stmt: asg("x"), locals: []string{"x"}},
		{id: "local existing", setup: "x = 1;", stmt: asg("x"), locals: []string{"x"}},
		{id: "var local", stmt: asg("var x"), locals: []string{"x"}},
		{id: "str local", stmt: asg("str x"), locals: []string{"x"}, mayAbort: true},
		{id: "num local", stmt: asg("num x"), locals: []string{"x"}, mayAbort: true},
		{id: "map local", stmt: asg("map x"), locals: []string{"x"}, mayAbort: true},
		{id: "funct local", stmt: asg("funct x"), locals: []string{"x"}, mayAbort: true},
		{id: `local map["newkey"]`, setup: "lm = {};", stmt: asg(`lm["k"]`), locals: []string{"lm"}},
		{id: `local map["oldkey"]`, setup: `lm = {"k": 1};`, stmt: asg(`lm["k"]`), locals: []string{"lm"}},
		{id: "local new[1][2]", stmt: asg("lm[1][2]"), locals: []string{"lm"}},
		{id: "map literal value", stmt: func(r string) string { return `lm = {"k": ` + r + `, "z": 2};` }, base: `lm = {"z": 2};`, locals: []string{"lm"}},
		{id: "nested map literal value", stmt: func(r string) string { return `@v = {"o": {"k": ` + r + `}};` }, base: `@v = {"o": {}};`},
		{id: "ENV", stmt: asg(`ENV["C08_ENV_PROBE"]`), locals: []string{`ENV["C08_ENV_PROBE"]`}},
	}
}

// statements whose KEY is absent: skipped as well ("absent-valued keys or values result in
// a skipped assignment")
func keyLvalues() []lval {
	return []lval{
		{id: "@map[absent]", stmt: func(k string) string { return "@om[" + k + "] = 1;" }},
		{id: "@map[1][absent]", stmt: func(k string) string { return "@v[1][" + k + "] = 1;" }},
		{id: "local map[absent]", setup: "lm = {};", stmt: func(k string) string { return "lm[" + k + "] = 1;" }, locals: []string{"lm"}},
		{id: "$*[absent]", stmt: func(k string) string { return "$*[" + k + "] = 1;" }},
		{id: "$map[absent]", stmt: func(k string) string { return "$m[" + k + "] = 1;" }},
		{id: "$[absent]", stmt: func(k string) string { return "$[" + k + "] = 1;" }, mayAbort: true},
		{id: "@[absent]", stmt: func(k string) string { return "@[" + k + "] = 1;" }, mayAbort: true},
		{id: "map literal key", stmt: func(k string) string { return "lm = {" + k + `: 1, "z": 2};` }, base: `lm = {"z": 2};`, locals: []string{"lm"}, mayAbort: true},
	}
}

func absentRHS(thorough bool) []string {
	l := []string{
		"$nosuch", "@nosuch", "nosuchlocal", `$*["nosuch"]`, `$m["zz"]`, `@om["zz"]`, `{}["k"]`, "$arr[9]", "$[[99]]", "$[[[99]]]",
		"fabsent()", "asserting_absent($nosuch)", "$nosuch + @nosuch", "$nosuch . @nosuch", "min($nosuch, @nosuch)", "log10($nosuch)",
		"-$nosuch", "$nosuch ?? @nosuch", "(true ? $nosuch : 1)", "$nosuch && @nosuch",
	}
	if thorough {
		l = append(l, "abs(@nosuch)", "$nosuch * @nosuch", "$nosuch .+ @nosuch", "$nosuch & @nosuch", "max(@nosuch)", "$nosuch ** @nosuch",
			"$nosuch ??? @nosuch", "(false ? 1 : @nosuch)", "$nosuch || @nosuch", `@om["zz"]["yy"]`, "~$nosuch", "$nosuch // @nosuch", "bitcount($nosuch)", "$nosuch == @nosuch")
	}
	return l
}

func observeProg(l *lval, stmt string) string {
	var b strings.Builder
	b.WriteString(l.setup + "\n" + stmt + "\n")
	b.WriteString(`print "REC=" . json_stringify($*);` + "\n")
	b.WriteString(`print "OOS=" . json_stringify(@*);` + "\n")
	for _, x := range l.locals {
		fmt.Fprintf(&b, "print \"LOC=\" . show(%s);\n", x)
	}
	return b.String()
}

type obs struct {
	exit int
	out  string
	err  string
}

func observe(prog string) obs {
	os.Unsetenv("C08_ENV_PROBE")
	r := runDSL(prog)
	os.Unsetenv("C08_ENV_PROBE")
	o := obs{exit: r.Exit, out: r.Stdout, err: failText(r)}
	if r.Panic != "" {
		o.exit = 99
	}
	return o
}

func assignWorker(w *vf.Worker) {
	thorough := !w.Quick()
	rhs := absentRHS(thorough)
	var idx uint64

	// which right-hand sides are absent at all (premise; the cells pass asserts them by rule)
	isAbsentRHS := map[string]bool{}
	premise := func() {
		if len(isAbsentRHS) > 0 {
			return
		}
		for _, r := range rhs {
			o := runDSL("print is_absent(" + r + ");\n")
			isAbsentRHS[r] = o.OK() && strings.TrimSpace(o.Stdout) == "true"
		}
	}

	doLvals := func(group string, ls []lval, present string) {
		for li := range ls {
			l := &ls[li]
			idx++
			if !w.Mine(idx) {
				continue
			}
			w.Begin(idx)
			w.Label(func() string { return group + " " + l.id })
			premise()
			base := observe(observeProg(l, l.base))
			live := observe(observeProg(l, l.stmt(present)))
			w.Eval(2)
			if base.exit != 0 {
				w.Broken("assignment baseline for %s fails: %s", l.id, base.err)
				continue
			}
			if live.exit == base.exit && live.out == base.out {
				w.Broken("lvalue form %s is not observable: assigning %s changes nothing", l.id, present)
				continue
			}
			for _, r := range rhs {
				if !isAbsentRHS[r] {
					w.Count("rhs-not-absent-skipped", 1)
					w.AddSet("rhs-not-absent", r)
					continue
				}
				stmt := l.stmt(r)
				o := observe(observeProg(l, stmt))
				w.Eval(1)
				w.Nontrivial(1)
				w.Count("asserted:A."+group, 1)
				w.Count("rhs:"+r, 1)
				w.Count("lvalue:"+l.id, 1)
				ok := o.exit == 0 && o.out == base.out
				if !ok && l.mayAbort && o.exit != 0 && o.exit != 99 {
					ok = true
					w.Count("accepted-abort:"+l.id, 1)
				}
				if !ok {
					w.Count("violated:A."+group, 1)
					viol(w, fmt.Sprintf("A.%s:%s:%s", group, l.id, r),
						fmt.Sprintf("`%s` with an absent %s is not skipped: state afterwards %q (%s), without the statement %q",
							stmt, map[string]string{"skip-absent-rhs": "right-hand side", "skip-absent-key": "key"}[group], o.out, o.err, base.out),
						map[string]any{"record": dslRecord, "program": observeProg(l, stmt), "baseline_program": observeProg(l, l.base), "got": o.out, "expected": base.out})
				}
			}
		}
	}
	doLvals("skip-absent-rhs", lvalues(), "7")
	doLvals("skip-absent-key", keyLvalues(), `"kk"`)

	// ---- compound assignments: lhs op= rhs  ==  lhs = lhs op rhs, skipped when that is absent
	compound := []string{"||", "^^", "&&", "??", "???", "|", "&", "^", "<<", ">>", ">>>", "+", ".", "-", "*", "/", "//", "%", "**"}
	lhsVals := []string{"", "3", `""`, `"abc"`, "true", "2.5"}
	rhsVals := []string{"$nosuch", "5", `""`, "true", "@nosuch", `"s"`}
	targets := []string{"@v", "$y", "lv"}
	var names map[string]K
	for _, op := range compound {
		op := op
		idx++
		if !w.Mine(idx) {
			continue
		}
		w.Begin(idx)
		w.Label(func() string { return "compound assignment " + op + "=" })
		if names == nil {
			names = learnTypeNames(w, false)
			if names == nil {
				return
			}
		}
		for _, tgt := range targets {
			for _, a := range lhsVals {
				for _, b := range rhsVals {
					var p strings.Builder
					if a != "" {
						fmt.Fprintf(&p, "%s = %s; @w = %s;\n", tgt, a, a)
					}
					fmt.Fprintf(&p, "%s %s= %s;\n", tgt, op, b)
					fmt.Fprintf(&p, "print show(%s);\nprint show((@w) %s (%s));\nprint show(@w);\n", tgt, op, b)
					r := runDSL(p.String())
					w.Eval(1)
					w.Count("op:"+op+"=", 1)
					lines := outLines(r)
					key := fmt.Sprintf("A.compound:%s_assign:target=%s,lhs=%s,rhs=%s", opName(op), tgt, map[bool]string{true: "unset", false: a}[a == ""], b)
					if !r.OK() || len(lines) != 3 {
						// a fatal error of the expanded form is not an assignment question; count it
						w.Count("compound-run-failed", 1)
						w.AddSet("compound-run-failed", op+"=: "+failText(r))
						continue
					}
					got, ok1 := parseShown(lines[0], names)
					viaOp, ok2 := parseShown(lines[1], names)
					old, ok3 := parseShown(lines[2], names)
					if !ok1 || !ok2 || !ok3 {
						w.Broken("compound assignment output unparseable: %q", r.Stdout)
						continue
					}
					exp := viaOp
					if viaOp.k == kAbsent {
						exp = old
					}
					w.Nontrivial(1)
					w.Count("asserted:A.compound", 1)
					if !same(got, exp) {
						w.Count("violated:A.compound", 1)
						viol(w, key, fmt.Sprintf("after `%s` the target is %s; `lhs %s rhs` = %s and the old value is %s, so %s was expected", strings.ReplaceAll(p.String(), "\n", " "), got, op, viaOp, old, exp),
							map[string]any{"program": p.String(), "record": dslRecord})
					}
				}
			}
		}
	}

	// ---- the accumulation idiom over all short record sequences
	alphabet := []struct {
		line string
		a    string // "" = absent
		x    string // "absent", "empty" or a number
	}{
		{"a=p,x=1", "p", "1"}, {"a=p", "p", "absent"}, {"a=q,x=2.5", "q", "2.5"}, {"a=p,x=", "p", "empty"}, {"x=4", "", "4"}, {"a=q,x=-3", "q", "-3"},
	}
	maxLen := 3
	if thorough {
		maxLen = 5
	}
	prog := `@sum[$a] += $x; @count[$a] += 1; @n += 1; @first[$a] ??= $x;
end { print show(@sum); print show(@count); print show(@n); print show(@first); }`
	var seqs [][]int
	var gen func(cur []int)
	gen = func(cur []int) {
		seqs = append(seqs, append([]int{}, cur...))
		if len(cur) == maxLen {
			return
		}
		for i := range alphabet {
			gen(append(cur, i))
		}
	}
	gen(nil)
	const block = 64
	for s0 := 0; s0 < len(seqs); s0 += block {
		idx++
		if !w.Mine(idx) {
			continue
		}
		w.Begin(idx)
		w.Label(func() string { return fmt.Sprintf("accumulation sequences from #%d", s0) })
		for si := s0; si < s0+block && si < len(seqs); si++ {
			seq := seqs[si]
			var in strings.Builder
			sum, cnt, first := map[string]float64{}, map[string]float64{}, map[string]string{}
			n := 0
			for _, ri := range seq {
				rec := alphabet[ri]
				in.WriteString(rec.line + "\n")
				n++
				if rec.a == "" {
					continue // absent key: skipped
				}
				cnt[rec.a]++
				switch rec.x {
				case "absent":
				case "empty":
					// (+) table: absent + empty = absent (skipped); number + empty = number
					if _, ok := first[rec.a]; !ok {
						first[rec.a] = "empty"
					}
				default:
					var f float64
					fmt.Sscan(rec.x, &f)
					sum[rec.a] += f
					if _, ok := first[rec.a]; !ok {
						first[rec.a] = rec.x
					}
				}
			}
			text := in.String()
			r := vf.RunMlr([]string{"put", "-q", dslPrelude + prog}, vf.MlrOpts{Stdin: &text})
			w.Eval(1)
			w.Nontrivial(1)
			w.Count("asserted:A.accumulate", 1)
			lines := outLines(r)
			bad := ""
			if !r.OK() || len(lines) != 4 {
				bad = "run failed: " + failText(r)
			} else {
				if e := cmpNumMap(lines[0], sum); e != "" {
					bad = "@sum: " + e
				} else if e := cmpNumMap(lines[1], cnt); e != "" {
					bad = "@count: " + e
				} else if e := cmpScalar(lines[2], n); e != "" {
					bad = "@n: " + e
				} else if e := cmpFirst(lines[3], first); e != "" {
					bad = "@first: " + e
				}
			}
			if bad != "" {
				w.Count("violated:A.accumulate", 1)
				viol(w, "A.accumulate:"+strings.ReplaceAll(strings.TrimSpace(text), "\n", ";"), fmt.Sprintf("input %q: %s (output %q)", text, bad, r.Stdout),
					map[string]any{"stdin": text, "args": []string{"put", "-q", prog}, "stdout": r.Stdout})
			}
		}
	}
	if w.Mine(1) {
		w.Sample(map[string]any{"assignment_program": observeProg(&lval{locals: []string{"x"}}, "x = $nosuch;"), "accumulation_program": prog})
	}
}

// cmpNumMap compares a shown map ("map:{...}" or "absent:" when never assigned) with the reference fold
func cmpNumMap(line string, want map[string]float64) string {
	if len(want) == 0 {
		if line != "absent:" {
			return "expected absent (never assigned), got " + line
		}
		return ""
	}
	if !strings.HasPrefix(line, "map:") {
		return "expected a map, got " + line
	}
	var got map[string]float64
	if err := json.Unmarshal([]byte(line[4:]), &got); err != nil {
		return "not a map of numbers: " + line
	}
	if len(got) != len(want) {
		return fmt.Sprintf("expected %v, got %s", want, line)
	}
	for k, v := range want {
		if g, ok := got[k]; !ok || g != v {
			return fmt.Sprintf("expected %v, got %s", want, line)
		}
	}
	return ""
}

func cmpScalar(line string, n int) string {
	if n == 0 {
		if line != "absent:" {
			return "expected absent, got " + line
		}
		return ""
	}
	i := strings.IndexByte(line, ':')
	if i < 0 || line[i+1:] != fmt.Sprint(n) {
		return fmt.Sprintf("expected %d, got %s", n, line)
	}
	return ""
}

// @first[$a] ??= $x keeps the first present $x per key (empty counts as present for ??)
func cmpFirst(line string, want map[string]string) string {
	if len(want) == 0 {
		if line != "absent:" {
			return "expected absent, got " + line
		}
		return ""
	}
	if !strings.HasPrefix(line, "map:") {
		return "expected a map, got " + line
	}
	var got map[string]any
	if err := json.Unmarshal([]byte(line[4:]), &got); err != nil {
		return "not a map: " + line
	}
	if len(got) != len(want) {
		return fmt.Sprintf("expected %v, got %s", want, line)
	}
	for k, v := range want {
		g, ok := got[k]
		if !ok {
			return fmt.Sprintf("expected %v, got %s", want, line)
		}
		gs := fmt.Sprint(g)
		if v == "empty" {
			if gs != "" {
				return fmt.Sprintf("expected %v, got %s", want, line)
			}
			continue
		}
		var f float64
		fmt.Sscan(v, &f)
		if gf, isf := g.(float64); !isf || gf != f {
			return fmt.Sprintf("expected %v, got %s", want, line)
		}
	}
	return ""
}
