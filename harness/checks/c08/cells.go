package c08

// Direct evaluation of every cell through the real BIFs.

import (
	"fmt"
	"math"
	"reflect"
	"sort"
	"strings"

	"github.com/johnkerl/miller/v6/pkg/bifs"
	"github.com/johnkerl/miller/v6/pkg/dsl/cst"
	"github.com/johnkerl/miller/v6/pkg/mlrval"
	"github.com/johnkerl/miller/v6/pkg/verifrt"

	"verif/harness/vf"
)

func kindsOf(args []wit) string {
	s := make([]string, len(args))
	for i, a := range args {
		s[i] = a.k.String()
	}
	return strings.Join(s, ",")
}

func idsOf(args []wit) string {
	s := make([]string, len(args))
	for i, a := range args {
		s[i] = a.id
	}
	return strings.Join(s, " , ")
}

// tally records one evaluated cell and its verdicts; violations are keyed
// rule:function(kinds) so that the direct and the DSL route of one defect
// share a key.
func tally(w *vf.Worker, route, fn, dsl string, args []wit, r res, vs []verdict) {
	w.Eval(1)
	cell := fn + "(" + kindsOf(args) + ")"
	w.AddSet("cells", cell)
	w.AddSet("outcomes", cell+"->"+r.k.String())
	w.Count("route:"+route, 1)
	if r.panic != "" {
		w.AddSet("panics", cell+": "+r.panic)
	}
	if len(vs) == 0 {
		w.Count("unconstrained_evaluations", 1)
		w.AddSet("unconstrained-cells", cell)
		return
	}
	w.AddSet("asserted-cells", cell)
	for _, v := range vs {
		w.Count("asserted:"+v.rule, 1)
		if !v.ok {
			w.Count("violated:"+v.rule, 1)
			key := fmt.Sprintf("%s:%s(%s)", v.rule, opName(fn), kindsOf(args))
			what := fmt.Sprintf("[%s] %s( %s ) = %s, expected %s", route, fn, idsOf(args), r, v.exp)
			viol(w, key, what, map[string]any{"route": route, "function": fn, "args": idsOf(args), "dsl": dsl, "got": r.String(), "expected": v.exp, "rule": v.rule})
		}
	}
}

func evalTry(f func() *mlrval.Mlrval) res {
	var r res
	verifrt.TrapExits(true) // a library os.Exit becomes a panic value instead of killing the worker
	p, _ := vf.Try(func() { r = describe(f()) })
	if p != nil {
		s := fmt.Sprint(p)
		if e, ok := p.(verifrt.ExitPanic); ok {
			s = fmt.Sprintf("library os.Exit(%d)", e.Code)
		}
		if len(s) > 120 {
			s = s[:120]
		}
		return res{k: K(-1), panic: s}
	}
	return r
}

// commutativity of the result kind (and of scalar values) over a full matrix
func checkCommutative(w *vf.Worker, route string, op *binop, W []wit, R [][]res) {
	for i := range W {
		for j := i + 1; j < len(W); j++ {
			a, b := W[i], W[j]
			rab, rba := R[i][j], R[j][i]
			if a.dsl == "" && route == "dsl" || b.dsl == "" && route == "dsl" {
				continue
			}
			w.Count("asserted:R5.commutative-kind", 1)
			w.AddSet("asserted-cells", op.tok+"("+a.k.String()+","+b.k.String()+")")
			w.AddSet("asserted-cells", op.tok+"("+b.k.String()+","+a.k.String()+")")
			lo, hi := a, b
			if hi.k < lo.k {
				lo, hi = hi, lo
			}
			if rab.k != rba.k || rab.panic != "" || rba.panic != "" {
				w.Count("violated:R5.commutative-kind", 1)
				key := fmt.Sprintf("R5.commutative-kind:%s(%s,%s)", opName(op.tok), lo.k, hi.k)
				viol(w, key, fmt.Sprintf("[%s] %s( %s , %s ) = %s but %s( %s , %s ) = %s: a commutative operator must give the same result kind both ways",
					route, op.tok, a.id, b.id, rab, op.tok, b.id, a.id, rba),
					map[string]any{"route": route, "function": op.tok, "a": a.id, "b": b.id, "ab": rab.String(), "ba": rba.String()})
				continue
			}
			if isOneOf(rab.k, kInt, kFloat, kBool, kString) {
				w.Count("asserted:R5v.commutative-value", 1)
				if !same(rab, rba) {
					w.Count("violated:R5v.commutative-value", 1)
					key := fmt.Sprintf("R5v.commutative-value:%s(%s,%s)", opName(op.tok), lo.k, hi.k)
					viol(w, key, fmt.Sprintf("[%s] %s( %s , %s ) = %s but %s( %s , %s ) = %s", route, op.tok, a.id, b.id, rab, op.tok, b.id, a.id, rba),
						map[string]any{"route": route, "function": op.tok, "a": a.id, "b": b.id, "ab": rab.String(), "ba": rba.String()})
				}
			}
		}
	}
}

func fptr(f any) uintptr {
	v := reflect.ValueOf(f)
	if v.Kind() != reflect.Func || v.IsNil() {
		return 0
	}
	return v.Pointer()
}

var skipFunctions = map[string]bool{
	// side effects or randomness: not cells of a kind algebra
	"system": true, "exec": true, "stat": true, "os": true, "hostname": true, "version": true,
	"urand": true, "urandint": true, "urandrange": true, "urand32": true, "urandelement": true,
}

// position-dependent witness of a kind, so that "returns the other operand" is visible
func pick(byKind map[K][]wit, k K, pos int) wit {
	l := byKind[k]
	return l[pos%len(l)]
}

func cellsWorker(w *vf.Worker) {
	W := witnesses(!w.Quick())
	byKind := map[K][]wit{}
	for _, x := range W {
		byKind[x.k] = append(byKind[x.k], x)
	}
	ops := binops()
	table := cst.VerifC08BuiltinTable()
	byName := map[string]cst.VerifC08Builtin{}
	for _, e := range table {
		if _, dup := byName[e.Name]; !dup {
			byName[e.Name] = e
		}
	}
	var idx uint64

	// ---- 1. binary operators: full witness x witness matrix
	for oi := range ops {
		op := &ops[oi]
		if op.fn == nil {
			continue
		}
		idx++
		if !w.Mine(idx) {
			continue
		}
		w.Begin(idx)
		w.Label(func() string { return "direct matrix of " + op.tok })
		R := make([][]res, len(W))
		for i, a := range W {
			R[i] = make([]res, len(W))
			for j, b := range W {
				r := evalTry(func() *mlrval.Mlrval { return op.fn(a.mk(), b.mk()) })
				R[i][j] = r
				w.Count("op:"+op.tok, 1)
				w.Count("kind:"+a.k.String(), 1)
				w.Count("kind:"+b.k.String(), 1)
				tally(w, "direct", op.tok, "", []wit{a, b}, r, judgeBinary(op, a, b, r))
			}
		}
		if op.comm {
			checkCommutative(w, "direct", op, W, R)
		}
		if oi == 0 {
			w.Sample(map[string]any{"route": "direct", "cell": "+( " + W[len(W)-1].id + " , " + W[0].id + " )", "got": R[len(W)-1][0].String()})
		}
	}

	// ---- 2. the builtin-function table: tokens are bound to the BIFs evaluated above; nothing
	// of class arithmetic/math is outside the scope
	idx++
	if w.Mine(idx) {
		w.Begin(idx)
		w.Label(func() string { return "function-table binding" })
		listed := map[string]bool{}
		for oi := range ops {
			op := &ops[oi]
			if op.table == "-" {
				continue
			}
			listed[op.tok] = true
			e, ok := byName[op.tok]
			w.Eval(1)
			good := ok
			switch {
			case !ok:
			case op.fn == nil:
				good = e.ShortCircuit
			case op.tok == "min":
				good = fptr(e.Variadic) == fptr(bifs.BIF_min_variadic)
			case op.tok == "max":
				good = fptr(e.Variadic) == fptr(bifs.BIF_max_variadic)
			default:
				good = fptr(e.Binary) == fptr(op.fn)
			}
			w.Count("asserted:B.table-binding", 1)
			if !good {
				viol(w, "B.table-binding:"+opName(op.tok), fmt.Sprintf("the function table does not bind %q to the expected BIF", op.tok), nil)
			}
		}
		for _, e := range table {
			if e.Binary == nil || listed[e.Name] || skipFunctions[e.Name] {
				continue
			}
			if e.Class == "arithmetic" || e.Class == "math" {
				w.AddSet("unclassified-arithmetic-binary", e.Name)
			}
			w.AddSet("unscoped-binary-functions", e.Name)
			for ka := K(0); ka < nKinds; ka++ {
				for kb := K(0); kb < nKinds; kb++ {
					a, b := pick(byKind, ka, 0), pick(byKind, kb, 1)
					r := evalTry(func() *mlrval.Mlrval { return e.Binary(a.mk(), b.mk()) })
					tally(w, "direct", e.Name, "", []wit{a, b}, r, nil)
				}
			}
		}
	}

	// ---- 3. unary functions of the table on every witness
	UW := append(append([]wit{}, W...), unaryExtras()...)
	seenUnary := map[string]bool{}
	for _, e := range table {
		e := e
		if e.Unary == nil || skipFunctions[e.Name] || seenUnary[e.Name] {
			continue
		}
		seenUnary[e.Name] = true
		idx++
		if !w.Mine(idx) {
			continue
		}
		w.Begin(idx)
		w.Label(func() string { return "direct unary " + e.Name })
		if strings.HasPrefix(e.Name, "is_") {
			if _, ok := isDefs[e.Name]; !ok {
				w.AddSet("unmodelled-is-predicates", e.Name)
			}
		}
		name := e.Name
		if e.HasMultipleArities && (name == "+" || name == "-") {
			name = "unary" + name
		}
		for _, a := range UW {
			r := evalTry(func() *mlrval.Mlrval { return e.Unary(a.mk()) })
			w.Count("kind:"+a.k.String(), 1)
			w.Count("class:"+e.Class, 1)
			if e.Name == "typeof" && r.k == kString {
				w.AddSet("typeof", a.k.String()+"="+r.s)
			}
			tally(w, "direct", name, "", []wit{a}, r, judgeUnary(e.Name, e.Class, a, r))
			if a.k == kAbsent {
				w.AddSet("unary-of-absent", fmt.Sprintf("%s[%s]->%s", e.Name, e.Class, r.k))
			}
		}
	}

	// ---- 4. variadic min/max: arity 0, 1 and all kind triples
	for _, vfn := range []struct {
		name string
		fn   bifs.VariadicFunc
		min  bool
	}{{"min", bifs.BIF_min_variadic, true}, {"max", bifs.BIF_max_variadic, false}} {
		vfn := vfn
		idx++
		if !w.Mine(idx) {
			continue
		}
		w.Begin(idx)
		w.Label(func() string { return "variadic " + vfn.name })
		r0 := evalTry(func() *mlrval.Mlrval { return vfn.fn(nil) })
		tally(w, "direct", vfn.name, "", nil, r0, nil)
		for _, a := range W {
			r := evalTry(func() *mlrval.Mlrval { return vfn.fn([]*mlrval.Mlrval{a.mk()}) })
			tally(w, "direct", vfn.name, "", []wit{a}, r, judgeVariadic(vfn.name, vfn.min, []wit{a}, r, nil))
		}
		for ka := K(0); ka < nKinds; ka++ {
			for kb := K(0); kb < nKinds; kb++ {
				for kc := K(0); kc < nKinds; kc++ {
					args := []wit{pick(byKind, ka, 0), pick(byKind, kb, 1), pick(byKind, kc, 2)}
					call := func(ws []wit) res {
						return evalTry(func() *mlrval.Mlrval {
							ms := make([]*mlrval.Mlrval, len(ws))
							for i, x := range ws {
								ms[i] = x.mk()
							}
							return vfn.fn(ms)
						})
					}
					r := call(args)
					w.Count("op:"+vfn.name+"/3", 1)
					tally(w, "direct", vfn.name, "", args, r, judgeVariadic(vfn.name, vfn.min, args, r, call))
				}
			}
		}
	}

	// ---- 5. the documented (+) table, direct
	idx++
	if w.Mine(idx) {
		w.Begin(idx)
		w.Label(func() string { return "documented (+) table, direct" })
		tabs, err := loadDocTables()
		if err != nil {
			w.Broken("cannot read the null-data reference: %v", err)
		}
		for ti := range tabs {
			t := &tabs[ti]
			if t.op != "+" {
				continue
			}
			for i, rl := range t.rows {
				for j, cl := range t.cols {
					_, _, mka, ok1 := docOperand(rl)
					_, _, mkb, ok2 := docOperand(cl)
					if !ok1 || !ok2 {
						w.Broken("doc table (+): unknown operand label %q / %q", rl, cl)
						continue
					}
					r := evalTry(func() *mlrval.Mlrval { return bifs.BIF_plus_binary(mka(), mkb()) })
					w.Eval(1)
					w.Count("asserted:T.doc-table", 1)
					w.AddSet("asserted-cells", "doc+("+rl+","+cl+")")
					if !docCellMatches(t.cell[i][j], r) {
						w.Count("violated:T.doc-table", 1)
						viol(w, docKey(t, i, j), fmt.Sprintf("[direct] %s + %s = %s, the null-data reference tabulates %s", rl, cl, r, t.cell[i][j]),
							map[string]any{"route": "direct", "op": "+", "a": rl, "b": cl, "got": r.String(), "documented": t.cell[i][j]})
					}
				}
			}
		}
	}
}

// judgeVariadic: rules for min/max of 1 or 3 arguments. call evaluates the
// same function on another argument list (for the absent-elimination law).
func judgeVariadic(name string, isMin bool, args []wit, r res, call func([]wit) res) []verdict {
	var out []verdict
	add := func(rule string, ok bool, exp string) { out = append(out, verdict{rule, ok && r.panic == "", exp}) }
	ordered := func(k K) bool { return isOneOf(k, kInt, kFloat, kBool, kVoid, kString) }
	if len(args) == 1 {
		a := args[0]
		switch {
		case ordered(a.k) || a.k == kAbsent:
			add("V.single-argument", isWit(r, a), a.id)
		case a.k == kError:
			add("R3.error-absorbs", r.k == kError, "error")
		}
		return out
	}
	nErr, nAbs, nOther := 0, 0, 0
	var present []wit
	for _, a := range args {
		switch {
		case a.k == kError:
			nErr++
		case a.k == kAbsent:
			nAbs++
		case ordered(a.k):
			present = append(present, a)
		default:
			nOther++
		}
	}
	switch {
	case nErr > 0:
		// error with scalars only (bytes are scalars too but min/max of bytes is undocumented)
		if nAbs == 0 && nOther == 0 {
			add("R3.error-absorbs", r.k == kError, "error")
		}
	case nOther > 0:
	case nAbs == len(args):
		add("R1a.absent-absent", r.k == kAbsent, "absent")
	case nAbs > 0:
		// absent arguments are ignored  [OP1]
		if len(present) == 1 {
			add("R1b.absent-unit", isWit(r, present[0]), present[0].id)
		} else if call != nil {
			r2 := call(present)
			add("R1b.absent-ignored", same(r, r2), fmt.Sprintf("%s( %s ) = %s", name, idsOf(present), r2))
		}
	default:
		// all present and ordered: "min/max of n numbers; null (empty) loses"
		var nums, bools, strs []wit
		for _, a := range present {
			switch a.k {
			case kInt, kFloat:
				nums = append(nums, a)
			case kBool:
				bools = append(bools, a)
			case kString:
				strs = append(strs, a)
			}
		}
		if len(strs) == 0 && len(bools) == 0 && len(nums) > 0 {
			best := nums[0].num
			for _, n := range nums[1:] {
				if isMin {
					best = math.Min(best, n.num)
				} else {
					best = math.Max(best, n.num)
				}
			}
			add("V.numbers-null-loses", isNumRes(r, best), fmt.Sprint(best))
		} else if len(strs) == 0 && len(nums) == 0 && len(bools) == 1 {
			add("R2.empty-loses", isWit(r, bools[0]), bools[0].id)
		}
	}
	return out
}

func sortedKeys(m map[string]bool) []string {
	var out []string
	for k := range m {
		out = append(out, k)
	}
	sort.Strings(out)
	return out
}
