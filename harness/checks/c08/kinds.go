package c08

// The 12 operand kinds and their witness values. Every witness exists twice:
// as a constructor of a real *mlrval.Mlrval (direct BIF calls) and as a DSL
// expression (evaluated on the one-record JSON input below), so that a cell
// can be evaluated both ways and the two compared.

import (
	"encoding/hex"
	"errors"
	"fmt"
	"math"
	"os"
	"strconv"
	"strings"

	"github.com/johnkerl/miller/v6/pkg/mlrval"

	"verif/harness/vf"
)

type K int

const (
	kInt K = iota
	kFloat
	kBool
	kVoid
	kString
	kBytes
	kArray
	kMap
	kFunc
	kError
	kNull
	kAbsent
	nKinds
)

// our own labels (the DSL's typeof names are observed, not assumed)
var kname = [nKinds]string{"int", "float", "bool", "empty", "string", "bytes", "array", "map", "func", "error", "null", "absent"}

func (k K) String() string {
	if k >= 0 && k < nKinds {
		return kname[k]
	}
	return fmt.Sprintf("kind%d", int(k))
}

func kindOf(m *mlrval.Mlrval) K {
	switch m.Type() {
	case mlrval.MT_INT:
		return kInt
	case mlrval.MT_FLOAT:
		return kFloat
	case mlrval.MT_BOOL:
		return kBool
	case mlrval.MT_VOID:
		return kVoid
	case mlrval.MT_STRING:
		return kString
	case mlrval.MT_BYTES:
		return kBytes
	case mlrval.MT_ARRAY:
		return kArray
	case mlrval.MT_MAP:
		return kMap
	case mlrval.MT_FUNC:
		return kFunc
	case mlrval.MT_ERROR:
		return kError
	case mlrval.MT_NULL:
		return kNull
	case mlrval.MT_ABSENT:
		return kAbsent
	}
	return K(-1)
}

// The input record of every DSL run (JSON, so that null, maps and arrays can
// come from data).
const dslRecord = `{"i":5,"f":0.25,"e":"","s":"xyz","j":null,"m":{"a":1},"arr":[1,2],"t":true,"i2":-7,"f2":-1.5,"ts":"true","m0":{},"a0":[]}` + "\n"

// Prelude of every DSL program: a printer that renders kind and value on one
// line, an absent-returning function and a function-typed local.
const dslPrelude = `
func show(x) {
  if (is_map(x) || is_array(x)) { return typeof(x) . ":" . json_stringify(x); }
  if (is_absent(x)) { return "absent:"; }
  if (is_error(x)) { return "error:"; }
  if (is_bytes(x)) { return "bytes:" . hex_encode(x); }
  return typeof(x) . ":" . string(x);
}
func fabsent() { }
f = func(a) { return a };
@om = {"p": 1};
`

type wit struct {
	id   string // unique, used in violation keys
	k    K
	mk   func() *mlrval.Mlrval
	dsl  string // DSL expression ("" = direct only)
	num  float64
	str  string // string form of scalars
	len  int    // collections: element count
	tier int    // 0 = quick and thorough, 1 = thorough only
}

func (w wit) isNum() bool { return w.k == kInt || w.k == kFloat }

func mkmap(kv ...any) *mlrval.Mlrval {
	m := mlrval.NewMlrmap()
	for i := 0; i+1 < len(kv); i += 2 {
		m.PutReference(kv[i].(string), kv[i+1].(*mlrval.Mlrval))
	}
	return mlrval.FromMap(m)
}

func witnesses(thorough bool) []wit {
	I, F := mlrval.FromInt, mlrval.FromFloat
	D := mlrval.FromDeferredType // what record readers produce: type inferred on first use
	all := []wit{
		// INT
		{id: "int:3", k: kInt, mk: func() *mlrval.Mlrval { return I(3) }, dsl: "3", num: 3},
		{id: "int:$i=5", k: kInt, mk: func() *mlrval.Mlrval { return D("5") }, dsl: "$i", num: 5},
		{id: "int:-7", k: kInt, mk: func() *mlrval.Mlrval { return I(-7) }, dsl: "(-7)", num: -7, tier: 1},
		{id: "int:$i2=-7", k: kInt, mk: func() *mlrval.Mlrval { return D("-7") }, dsl: "$i2", num: -7, tier: 1},
		{id: "int:11", k: kInt, mk: func() *mlrval.Mlrval { return I(11) }, dsl: "11", num: 11, tier: 1},
		// FLOAT
		{id: "float:2.5", k: kFloat, mk: func() *mlrval.Mlrval { return F(2.5) }, dsl: "2.5", num: 2.5},
		{id: "float:$f=0.25", k: kFloat, mk: func() *mlrval.Mlrval { return D("0.25") }, dsl: "$f", num: 0.25},
		{id: "float:-1.5", k: kFloat, mk: func() *mlrval.Mlrval { return F(-1.5) }, dsl: "(-1.5)", num: -1.5, tier: 1},
		{id: "float:$f2=-1.5", k: kFloat, mk: func() *mlrval.Mlrval { return D("-1.5") }, dsl: "$f2", num: -1.5, tier: 1},
		{id: "float:6.75", k: kFloat, mk: func() *mlrval.Mlrval { return F(6.75) }, dsl: "6.75", num: 6.75, tier: 1},
		// BOOL
		{id: "bool:true", k: kBool, mk: func() *mlrval.Mlrval { return mlrval.FromBool(true) }, dsl: "true", str: "true"},
		{id: "bool:false", k: kBool, mk: func() *mlrval.Mlrval { return mlrval.FromBool(false) }, dsl: "false", str: "false"},
		{id: "bool:$t", k: kBool, mk: func() *mlrval.Mlrval { return mlrval.TRUE }, dsl: "$t", str: "true", tier: 1},
		// VOID (empty)
		{id: `empty:""`, k: kVoid, mk: func() *mlrval.Mlrval { return mlrval.VOID }, dsl: `""`},
		{id: "empty:$e", k: kVoid, mk: func() *mlrval.Mlrval { return D("") }, dsl: "$e"},
		{id: "empty:FromString", k: kVoid, mk: func() *mlrval.Mlrval { return mlrval.FromString("") }, tier: 1},
		// STRING
		{id: `string:"abc"`, k: kString, mk: func() *mlrval.Mlrval { return mlrval.FromString("abc") }, dsl: `"abc"`, str: "abc"},
		{id: "string:$s=xyz", k: kString, mk: func() *mlrval.Mlrval { return D("xyz") }, dsl: "$s", str: "xyz"},
		{id: "string:$ts=true", k: kString, mk: func() *mlrval.Mlrval { return D("true") }, dsl: "$ts", str: "true", tier: 1},
		{id: `string:"p q"`, k: kString, mk: func() *mlrval.Mlrval { return mlrval.FromString("p q") }, dsl: `"p q"`, str: "p q", tier: 1},
		// BYTES
		{id: "bytes:01ff", k: kBytes, mk: func() *mlrval.Mlrval { return mlrval.FromBytes([]byte{1, 255}) }, dsl: `b"\x01\xff"`, str: "01ff", len: 2},
		{id: "bytes:empty", k: kBytes, mk: func() *mlrval.Mlrval { return mlrval.FromBytes([]byte{}) }, dsl: `b""`, str: "", tier: 1},
		// ARRAY
		{id: "array:[]", k: kArray, mk: func() *mlrval.Mlrval { return mlrval.FromEmptyArray() }, dsl: "[]", str: "[]"},
		{id: "array:[1,2]", k: kArray, mk: func() *mlrval.Mlrval { return mlrval.FromArray([]*mlrval.Mlrval{I(1), I(2)}) }, dsl: "[1,2]", str: "[1,2]", len: 2},
		{id: "array:$arr", k: kArray, mk: func() *mlrval.Mlrval { return mlrval.FromArray([]*mlrval.Mlrval{D("1"), D("2")}) }, dsl: "$arr", str: "[1,2]", len: 2, tier: 1},
		// MAP
		{id: "map:{}", k: kMap, mk: func() *mlrval.Mlrval { return mlrval.FromEmptyMap() }, dsl: "{}", str: "{}"},
		{id: `map:{"a":1}`, k: kMap, mk: func() *mlrval.Mlrval { return mkmap("a", I(1)) }, dsl: `{"a":1}`, str: `{"a":1}`, len: 1},
		{id: "map:$m", k: kMap, mk: func() *mlrval.Mlrval { return mkmap("a", D("1")) }, dsl: "$m", str: `{"a":1}`, len: 1, tier: 1},
		// FUNC
		{id: "func:f", k: kFunc, mk: func() *mlrval.Mlrval { return mlrval.FromFunction(nil, "f") }, dsl: "f"},
		// ERROR
		{id: "error:anon", k: kError, mk: func() *mlrval.Mlrval { return mlrval.FromAnonymousError() }, dsl: `asserting_error("a" + 1)`},
		{id: "error:msg", k: kError, mk: func() *mlrval.Mlrval { return mlrval.FromError(errors.New("c08 witness")) }, dsl: `(!3)`, tier: 1},
		// NULL (JSON null)
		{id: "null:null", k: kNull, mk: func() *mlrval.Mlrval { return mlrval.NULL }, dsl: "null", str: "null"},
		{id: "null:$j", k: kNull, mk: func() *mlrval.Mlrval { return mlrval.NULL }, dsl: "$j", str: "null"},
		// ABSENT
		{id: "absent:$nosuch", k: kAbsent, mk: func() *mlrval.Mlrval { return mlrval.ABSENT }, dsl: "$nosuch"},
		{id: "absent:@nosuch", k: kAbsent, mk: func() *mlrval.Mlrval { return mlrval.ABSENT }, dsl: "@nosuch"},
		{id: "absent:local", k: kAbsent, mk: func() *mlrval.Mlrval { return mlrval.ABSENT }, dsl: "nosuchlocal"},
		{id: `absent:$m["zz"]`, k: kAbsent, mk: func() *mlrval.Mlrval { return mlrval.ABSENT }, dsl: `$m["zz"]`, tier: 1},
		{id: "absent:$arr[9]", k: kAbsent, mk: func() *mlrval.Mlrval { return mlrval.ABSENT }, dsl: `$arr[9]`, tier: 1},
		{id: "absent:fabsent()", k: kAbsent, mk: func() *mlrval.Mlrval { return mlrval.ABSENT }, dsl: `fabsent()`, tier: 1},
	}
	var out []wit
	for _, w := range all {
		if w.tier == 0 || thorough {
			if w.isNum() {
				w.str = strconv.FormatFloat(w.num, 'f', -1, 64)
			}
			out = append(out, w)
		}
	}
	return out
}

// extra unary-only witnesses (value-dependent predicates)
func unaryExtras() []wit {
	return []wit{
		{id: "float:NaN", k: kFloat, mk: func() *mlrval.Mlrval { return mlrval.FromFloat(math.NaN()) }, num: math.NaN()},
		{id: "float:+Inf", k: kFloat, mk: func() *mlrval.Mlrval { return mlrval.FromFloat(math.Inf(1)) }, num: math.Inf(1)},
		{id: "int:0", k: kInt, mk: func() *mlrval.Mlrval { return mlrval.FromInt(0) }, dsl: "0", num: 0, str: "0"},
		{id: "string:NaN-text", k: kString, mk: func() *mlrval.Mlrval { return mlrval.FromString("abc NaN") }, dsl: `"abc NaN"`, str: "abc NaN"},
		{id: "map:$m0", k: kMap, mk: func() *mlrval.Mlrval { return mlrval.FromEmptyMap() }, dsl: "$m0", str: "{}"},
		{id: "array:$a0", k: kArray, mk: func() *mlrval.Mlrval { return mlrval.FromEmptyArray() }, dsl: "$a0", str: "[]"},
	}
}

// one representative per kind, first witness of the kind
func firstOfKind(ws []wit) [nKinds]wit {
	var out [nKinds]wit
	var seen [nKinds]bool
	for _, w := range ws {
		if !seen[w.k] {
			seen[w.k] = true
			out[w.k] = w
		}
	}
	return out
}

// ---------------------------------------------------------------- results

// res is the observable outcome of one evaluation: kind and a canonical value.
type res struct {
	k     K
	num   float64 // int and float
	s     string  // bool/string/bytes(hex)/array/map(whitespace-free JSON)
	panic string
}

func (r res) String() string {
	if r.panic != "" {
		return "PANIC(" + r.panic + ")"
	}
	switch r.k {
	case kInt, kFloat:
		return fmt.Sprintf("%s:%v", r.k, r.num)
	case kBool, kString, kBytes, kArray, kMap:
		return fmt.Sprintf("%s:%s", r.k, r.s)
	}
	return r.k.String()
}

func stripWS(s string) string {
	var b strings.Builder
	inq := false
	for i := 0; i < len(s); i++ {
		c := s[i]
		if c == '"' && (i == 0 || s[i-1] != '\\') {
			inq = !inq
		}
		if !inq && (c == ' ' || c == '\n' || c == '\t' || c == '\r') {
			continue
		}
		b.WriteByte(c)
	}
	return b.String()
}

func describe(m *mlrval.Mlrval) res {
	if m == nil {
		return res{k: K(-1), panic: "nil result"}
	}
	r := res{k: kindOf(m)}
	switch r.k {
	case kInt:
		v, _ := m.GetIntValue()
		r.num = float64(v)
	case kFloat:
		r.num, _ = m.GetFloatValue()
	case kBool, kString:
		r.s = m.String()
	case kBytes:
		r.s = hex.EncodeToString(m.AcquireBytesValue())
	case kArray, kMap:
		r.s = stripWS(m.String())
	}
	return r
}

// parseShown parses one line printed by the DSL show() helper. names maps the
// DSL's typeof names (learned in the calibration run) to kinds.
func parseShown(line string, names map[string]K) (res, bool) {
	i := strings.IndexByte(line, ':')
	if i < 0 {
		return res{}, false
	}
	k, ok := names[line[:i]]
	if !ok {
		return res{}, false
	}
	rest := line[i+1:]
	r := res{k: k}
	switch k {
	case kInt, kFloat:
		if v, err := strconv.ParseInt(rest, 0, 64); err == nil {
			r.num = float64(v)
		} else if f, err := strconv.ParseFloat(strings.TrimPrefix(rest, "+"), 64); err == nil {
			r.num = f
		} else {
			return r, false
		}
	case kBool, kString, kBytes:
		r.s = rest
	case kArray, kMap:
		r.s = stripWS(rest)
	}
	return r, true
}

func numEq(a, b float64) bool {
	if math.IsNaN(a) && math.IsNaN(b) {
		return true
	}
	return a == b
}

// same reports whether two outcomes are the same kind and value. Function
// values compare by kind only (their names are generated).
func same(a, b res) bool {
	if a.panic != "" || b.panic != "" {
		return false
	}
	if a.k != b.k {
		return false
	}
	switch a.k {
	case kInt, kFloat:
		return numEq(a.num, b.num)
	case kBool, kString, kBytes, kArray, kMap:
		return a.s == b.s
	}
	return true
}

// isWit reports whether outcome r is exactly the witness value w.
func isWit(r res, w wit) bool {
	if r.panic != "" || r.k != w.k {
		return false
	}
	switch w.k {
	case kInt, kFloat:
		return numEq(r.num, w.num)
	case kBool, kString, kBytes, kArray, kMap:
		return r.s == w.str
	}
	return true
}

// viol records a violation; with VERIF_C08_LOG=<file> every violation is also
// appended to that file (triage aid: the framework prints only a few per group).
func viol(w *vf.Worker, key, what string, replay any) {
	w.Violation(key, what, replay)
	if p := os.Getenv("VERIF_C08_LOG"); p != "" {
		if f, err := os.OpenFile(p, os.O_APPEND|os.O_CREATE|os.O_WRONLY, 0644); err == nil {
			fmt.Fprintf(f, "%s :: %s\n", strings.ReplaceAll(key, "\n", "\\n"), strings.ReplaceAll(what, "\n", "\\n"))
			f.Close()
		}
	}
}

// operator tokens spelled out, so that violation keys survive file-name sanitising
var opNames = map[string]string{"+": "plus", "-": "minus", "*": "times", "/": "divide", "//": "int_divide", "%": "mod", "**": "pow_op",
	".+": "dot_plus", ".-": "dot_minus", ".*": "dot_times", "./": "dot_divide", "&": "bit_and", "|": "bit_or", "^": "bit_xor",
	"<<": "lsh", ">>": "rsh", ">>>": "ursh", ".": "dot", "==": "eq", "!=": "ne", ">": "gt", ">=": "ge", "<": "lt", "<=": "le", "<=>": "cmp",
	"^^": "logical_xor", "&&": "logical_and", "||": "logical_or", "??": "absent_coalesce", "???": "empty_coalesce",
	"unary+": "unary_plus", "unary-": "unary_minus", "~": "bit_not", "!": "logical_not"}

func opName(tok string) string {
	if n, ok := opNames[tok]; ok {
		return n
	}
	return tok
}
