package c08

// The oracle: rule predicates written from the property statement and the
// shipped documentation (reference-main-null-data.md, reference-dsl-operators.md,
// function help). It is NOT a copy of the disposition matrices: a cell that no
// rule speaks about yields no verdict and is counted as unconstrained.
//
// Sources, quoted:
//  [ND1] "Functions of *absent* variables (e.g. log10($nonesuch)) evaluate to absent, and
//        arithmetic/bitwise/boolean operators with both operands being absent evaluate to
//        absent. Arithmetic operators with one absent operand return the other operand. More
//        specifically, absent values act like zero for addition/subtraction, and one for
//        multiplication"
//  [ND2] "empty works like 0 for addition and subtraction, and like 1 for multiplication"
//        (example: x=,y=3: $x+$y=3, $x-$y=-3, $x*$y=3)
//  [ND3] "Most functions/operators which have one or more *empty* arguments produce empty
//        output" (example log("") = "") "... min and max functions are special: if one
//        argument is non-null, it wins"
//  [ND4] the (+), (&&), (||) tables printed on that page (checked cell by cell in table.go)
//  [OP1] reference-dsl-operators.md: "for min and max, by contrast, if one argument is
//        absent-null, the other is returned. Empty-null loses min or max against numeric or
//        boolean; empty-null is less than any other string."  help: "min/max of n numbers;
//        null loses"
//  [P]   property C08: "absent op x and x op absent equal x and absent op absent is absent
//        (arithmetic, bitwise, dot, min, max)"; "empty with a number yields the number for
//        + - * min max"; "an error operand combined with any scalar yields an error";
//        "commutative operators give the same result kind for (a,b) and (b,a)".

import (
	"fmt"

	"github.com/johnkerl/miller/v6/pkg/bifs"
	"github.com/johnkerl/miller/v6/pkg/mlrval"
)

type opclass int

const (
	cArith opclass = iota
	cBitw
	cMinMax
	cDot
	cCmp
	cLogic    // ^^ (plain BIF) and && || (short-circuit nodes, DSL only)
	cMathBin  // atan2 roundm
	cCoalesce // ?? ???
)

type binop struct {
	tok   string
	infix bool
	fn    bifs.BinaryFunc // nil: DSL only
	class opclass
	comm  bool   // commutative operator: R5 applies
	table string // name in the builtin-function table ("" = tok); "-" = helper that is not in the table
	noDSL bool
}

func variadic2(f bifs.VariadicFunc) bifs.BinaryFunc {
	return func(a, b *mlrval.Mlrval) *mlrval.Mlrval { return f([]*mlrval.Mlrval{a, b}) }
}

func binops() []binop {
	return []binop{
		{tok: "+", infix: true, fn: bifs.BIF_plus_binary, class: cArith, comm: true},
		{tok: "-", infix: true, fn: bifs.BIF_minus_binary, class: cArith},
		{tok: "*", infix: true, fn: bifs.BIF_times, class: cArith, comm: true},
		{tok: "/", infix: true, fn: bifs.BIF_divide, class: cArith},
		{tok: "//", infix: true, fn: bifs.BIF_int_divide, class: cArith},
		{tok: "%", infix: true, fn: bifs.BIF_modulus, class: cArith},
		{tok: "**", infix: true, fn: bifs.BIF_pow, class: cArith},
		{tok: "pow", fn: bifs.BIF_pow, class: cArith},
		{tok: ".+", infix: true, fn: bifs.BIF_dot_plus, class: cArith, comm: true},
		{tok: ".-", infix: true, fn: bifs.BIF_dot_minus, class: cArith},
		{tok: ".*", infix: true, fn: bifs.BIF_dot_times, class: cArith, comm: true},
		{tok: "./", infix: true, fn: bifs.BIF_dot_divide, class: cArith},
		{tok: "&", infix: true, fn: bifs.BIF_bitwise_and, class: cBitw, comm: true},
		{tok: "|", infix: true, fn: bifs.BIF_bitwise_or, class: cBitw, comm: true},
		{tok: "^", infix: true, fn: bifs.BIF_bitwise_xor, class: cBitw, comm: true},
		{tok: "<<", infix: true, fn: bifs.BIF_left_shift, class: cBitw},
		{tok: ">>", infix: true, fn: bifs.BIF_signed_right_shift, class: cBitw},
		{tok: ">>>", infix: true, fn: bifs.BIF_unsigned_right_shift, class: cBitw},
		{tok: "min", fn: variadic2(bifs.BIF_min_variadic), class: cMinMax, comm: true},
		{tok: "max", fn: variadic2(bifs.BIF_max_variadic), class: cMinMax, comm: true},
		// the binary helpers behind min/max, used directly by stats1/merge-fields/step
		{tok: "min_binary", fn: bifs.BIF_min_binary, class: cMinMax, comm: true, table: "-", noDSL: true},
		{tok: "max_binary", fn: bifs.BIF_max_binary, class: cMinMax, comm: true, table: "-", noDSL: true},
		{tok: ".", infix: true, fn: bifs.BIF_dot, class: cDot},
		{tok: "==", infix: true, fn: bifs.BIF_equals, class: cCmp, comm: true},
		{tok: "!=", infix: true, fn: bifs.BIF_not_equals, class: cCmp, comm: true},
		{tok: ">", infix: true, fn: bifs.BIF_greater_than, class: cCmp},
		{tok: ">=", infix: true, fn: bifs.BIF_greater_than_or_equals, class: cCmp},
		{tok: "<", infix: true, fn: bifs.BIF_less_than, class: cCmp},
		{tok: "<=", infix: true, fn: bifs.BIF_less_than_or_equals, class: cCmp},
		{tok: "<=>", infix: true, fn: bifs.BIF_cmp, class: cCmp},
		{tok: "^^", infix: true, fn: bifs.BIF_logical_XOR, class: cLogic, comm: true},
		{tok: "&&", infix: true, class: cLogic},
		{tok: "||", infix: true, class: cLogic},
		{tok: "??", infix: true, class: cCoalesce},
		{tok: "???", infix: true, class: cCoalesce},
		{tok: "atan2", fn: bifs.BIF_atan2, class: cMathBin},
		{tok: "roundm", fn: bifs.BIF_roundm, class: cMathBin},
	}
}

func (o *binop) dslExpr(a, b string) string {
	if o.infix {
		return fmt.Sprintf("(%s) %s (%s)", a, o.tok, b)
	}
	return fmt.Sprintf("%s(%s, %s)", o.tok, a, b)
}

type verdict struct {
	rule string
	ok   bool
	exp  string
}

func isOneOf(k K, ks ...K) bool {
	for _, x := range ks {
		if k == x {
			return true
		}
	}
	return false
}

// scalar kinds for "error combined with any scalar" (reference-main-data-types.md lists
// string, float, int, boolean, bytes as the scalars; empty is the empty string)
func isScalar(k K) bool { return isOneOf(k, kInt, kFloat, kBool, kVoid, kString, kBytes) }

func isNumRes(r res, v float64) bool {
	return r.panic == "" && (r.k == kInt || r.k == kFloat) && numEq(r.num, v)
}

// textOf: the text a scalar outcome prints as (for the string-concatenation rules)
func textIs(r res, w wit) bool {
	if r.panic != "" {
		return false
	}
	switch r.k {
	case kInt, kFloat:
		return w.isNum() && numEq(r.num, w.num)
	case kString, kBool, kBytes:
		if w.isNum() {
			return r.s == w.str
		}
		return r.s == w.str
	case kVoid:
		return w.k == kVoid
	}
	return false
}

// judgeBinary returns the verdicts of every rule that speaks about op(a,b)=r.
func judgeBinary(op *binop, a, b wit, r res) []verdict {
	var out []verdict
	add := func(rule string, ok bool, exp string) { out = append(out, verdict{rule, ok && r.panic == "", exp}) }
	ka, kb := a.k, b.k
	cl := op.class
	algebra := cl == cArith || cl == cBitw || cl == cMinMax || cl == cDot

	// ---- R7: coalescing operators (help text of ?? and ???): the right operand when the
	// left is absent (or, for ???, empty), else the left operand. Left operands of kind
	// error/null/func are not described.
	if cl == cCoalesce {
		switch {
		case ka == kAbsent, ka == kVoid && op.tok == "???":
			add("R7.coalesce", isWit(r, b), b.id)
		case isOneOf(ka, kInt, kFloat, kBool, kString, kArray, kMap, kBytes), ka == kVoid && op.tok == "??":
			add("R7.coalesce", isWit(r, a), a.id)
		}
		return out
	}

	// ---- R1a: both operands absent -> absent  [ND1][P]
	if ka == kAbsent && kb == kAbsent {
		add("R1a.absent-absent", r.k == kAbsent, "absent")
		return out
	}

	// ---- R1b: one operand absent -> the other operand  [ND1][OP1][P]
	if ka == kAbsent || kb == kAbsent {
		x, absentLeft := b, true
		if kb == kAbsent {
			x, absentLeft = a, false
		}
		switch cl {
		case cArith:
			if x.isNum() {
				ok := isWit(r, x)
				exp := x.id
				// documented latitude: [ND1] also says absent "acts like zero for addition/subtraction,
				// and one for multiplication", which for a left-hand absent gives -x (resp. 1/x)
				if absentLeft && (op.tok == "-" || op.tok == ".-") {
					ok = ok || isNumRes(r, -x.num)
					exp += " (or its negation: absent acts like zero)"
				}
				if absentLeft && (op.tok == "/" || op.tok == "./") {
					ok = ok || isNumRes(r, 1/x.num)
					exp += " (or its reciprocal: absent acts like one)"
				}
				add("R1b.absent-unit", ok, exp)
			}
		case cBitw:
			if x.k == kInt {
				add("R1b.absent-unit", isWit(r, x), x.id)
			}
		case cMinMax:
			if isOneOf(x.k, kInt, kFloat, kBool, kVoid, kString) {
				add("R1b.absent-unit", isWit(r, x), x.id)
			}
		case cDot:
			if isOneOf(x.k, kString, kVoid, kBytes) {
				add("R1b.absent-unit", isWit(r, x), x.id)
			} else if isOneOf(x.k, kInt, kFloat, kBool) {
				add("R1b.absent-unit", textIs(r, x), "the text of "+x.id)
			}
		}
		// error with absent: only the documented (+) table speaks (table.go)
		return out
	}

	// ---- R3: error absorbs  [P][ND4]
	if ka == kError || kb == kError {
		other := b
		if kb == kError {
			other = a
		}
		if (isScalar(other.k) || other.k == kError) && (algebra || cl == cCmp || cl == cMathBin || (cl == cLogic && op.fn != nil)) {
			add("R3.error-absorbs", r.k == kError, "error")
		}
		return out
	}

	// ---- R2: empty operands  [ND2][ND3][OP1][P]
	if ka == kVoid && kb == kVoid {
		if algebra {
			add("R2.empty-empty", r.k == kVoid, "empty")
		}
		return out
	}
	if ka == kVoid || kb == kVoid {
		x, voidLeft := b, true
		if kb == kVoid {
			x, voidLeft = a, false
		}
		isVoid := r.panic == "" && r.k == kVoid
		switch cl {
		case cArith:
			if !x.isNum() {
				break
			}
			switch op.tok {
			case "+", "*":
				add("R2.empty-number", isWit(r, x), x.id)
			case "-":
				if voidLeft {
					add("R2.empty-number", isNumRes(r, -x.num), fmt.Sprintf("%v (empty acts like 0)", -x.num))
				} else {
					add("R2.empty-number", isWit(r, x), x.id)
				}
			case ".+", ".*":
				add("R2.empty-number-lenient", isVoid || isWit(r, x), "empty or "+x.id)
			case ".-":
				if voidLeft {
					add("R2.empty-number-lenient", isVoid || isNumRes(r, -x.num) || isWit(r, x), fmt.Sprintf("empty or %v", -x.num))
				} else {
					add("R2.empty-number-lenient", isVoid || isWit(r, x), "empty or "+x.id)
				}
			default: // / // % ** pow ./ : [ND3] "most ... produce empty output", [ND4] "similar to +"
				add("R2.empty-number-lenient", isVoid || isWit(r, x), "empty or "+x.id)
			}
		case cBitw:
			if x.isNum() {
				add("R2.empty-number-lenient", isVoid || isWit(r, x), "empty or "+x.id)
			}
		case cMinMax:
			switch {
			case isOneOf(x.k, kInt, kFloat, kBool):
				add("R2.empty-loses", isWit(r, x), x.id)
			case x.k == kString && (op.tok == "min" || op.tok == "min_binary"):
				add("R2.empty-least-string", isVoid, "empty")
			case x.k == kString:
				add("R2.empty-least-string", isWit(r, x), x.id)
			}
		case cDot:
			if isOneOf(x.k, kString, kBytes) {
				add("R2.empty-concat", isWit(r, x), x.id)
			} else if isOneOf(x.k, kInt, kFloat, kBool) {
				add("R2.empty-concat", textIs(r, x), "the text of "+x.id)
			}
		}
		return out
	}
	return out
}

// ---------------------------------------------------------------- unary

// isDef: the is_* predicates, defined from their help texts over (kind, value).
var isDefs = map[string]func(w wit) bool{
	"is_absent":       func(w wit) bool { return w.k == kAbsent },
	"is_present":      func(w wit) bool { return w.k != kAbsent },
	"is_error":        func(w wit) bool { return w.k == kError },
	"is_bool":         func(w wit) bool { return w.k == kBool },
	"is_boolean":      func(w wit) bool { return w.k == kBool },
	"is_bytes":        func(w wit) bool { return w.k == kBytes },
	"is_empty":        func(w wit) bool { return w.k == kVoid },
	"is_not_empty":    func(w wit) bool { return w.k != kAbsent && w.k != kVoid },
	"is_empty_map":    func(w wit) bool { return w.k == kMap && w.len == 0 },
	"is_nonempty_map": func(w wit) bool { return w.k == kMap && w.len > 0 },
	"is_float":        func(w wit) bool { return w.k == kFloat },
	"is_int":          func(w wit) bool { return w.k == kInt },
	"is_numeric":      func(w wit) bool { return w.k == kInt || w.k == kFloat },
	"is_map":          func(w wit) bool { return w.k == kMap },
	"is_not_map":      func(w wit) bool { return w.k != kMap },
	"is_array":        func(w wit) bool { return w.k == kArray },
	"is_not_array":    func(w wit) bool { return w.k != kArray },
	"is_null":         func(w wit) bool { return isOneOf(w.k, kVoid, kAbsent, kNull) },
	"is_not_null":     func(w wit) bool { return !isOneOf(w.k, kVoid, kAbsent, kNull) },
	"is_string":       func(w wit) bool { return w.k == kString || w.k == kVoid },
	"is_nan":          func(w wit) bool { return w.k == kFloat && w.num != w.num },
}

var arithUnary = map[string]bool{"+": true, "-": true, "~": true, "bitcount": true}

func judgeUnary(name, class string, a wit, r res) []verdict {
	var out []verdict
	add := func(rule string, ok bool, exp string) { out = append(out, verdict{rule, ok && r.panic == "", exp}) }
	if def, ok := isDefs[name]; ok {
		want := def(a)
		add("R6.is-predicate", r.k == kBool && r.s == fmt.Sprint(want), fmt.Sprintf("bool:%v", want))
		return out
	}
	mathlib := class == "math" && name != "urandelement"
	if mathlib || arithUnary[name] {
		switch a.k {
		case kAbsent:
			add("R4.unary-absent", r.k == kAbsent, "absent")
		case kError:
			add("R4.unary-error", r.k == kError, "error")
		case kVoid:
			if mathlib {
				add("R4.unary-empty", r.k == kVoid, "empty")
			}
		}
	}
	return out
}
