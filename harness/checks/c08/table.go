package c08

// The (+), (&&), (||) tables printed in docs/src/reference-main-null-data.md
// ("mlr help type-arithmetic-info-extended"). They are read from the shipped
// documentation of the tree under test at run time and checked cell by cell.

import (
	"fmt"
	"os"
	"path/filepath"
	"strconv"
	"strings"

	"github.com/johnkerl/miller/v6/pkg/mlrval"

	"verif/harness/vf"
)

type docTable struct {
	op   string
	cols []string
	rows []string
	cell [][]string
}

func loadDocTables() ([]docTable, error) {
	p := filepath.Join(vf.RepoRoot(), "docs", "src", "reference-main-null-data.md")
	b, err := os.ReadFile(p)
	if err != nil {
		return nil, err
	}
	text := strings.NewReplacer("&amp;", "&", "&lt;", "<", "&gt;", ">").Replace(string(b))
	lines := strings.Split(text, "\n")
	var out []docTable
	for i := 0; i < len(lines); i++ {
		l := strings.TrimSpace(lines[i])
		if !strings.HasPrefix(l, "(") || !strings.Contains(l, "|") {
			continue
		}
		f := strings.Fields(l)
		if len(f) < 3 || f[1] != "|" || !strings.HasSuffix(f[0], ")") {
			continue
		}
		t := docTable{op: strings.Trim(f[0], "()"), cols: f[2:]}
		if i+1 >= len(lines) || !strings.HasPrefix(strings.TrimSpace(lines[i+1]), "---") {
			continue
		}
		for j := i + 2; j < len(lines); j++ {
			g := strings.Fields(lines[j])
			if len(g) != len(t.cols)+2 || g[1] != "|" {
				break
			}
			t.rows = append(t.rows, g[0])
			t.cell = append(t.cell, g[2:])
		}
		if len(t.rows) > 0 {
			out = append(out, t)
		}
	}
	return out, nil
}

// operand label -> (kind, DSL expression, direct constructor)
func docOperand(label string) (K, string, func() *mlrval.Mlrval, bool) {
	switch label {
	case "(empty)":
		return kVoid, `""`, func() *mlrval.Mlrval { return mlrval.VOID }, true
	case "(absent)":
		return kAbsent, `@nosuch`, func() *mlrval.Mlrval { return mlrval.ABSENT }, true
	case "(error)":
		return kError, `("a" + 1)`, func() *mlrval.Mlrval { return mlrval.FromAnonymousError() }, true
	case "true", "false":
		v := label == "true"
		return kBool, label, func() *mlrval.Mlrval { return mlrval.FromBool(v) }, true
	}
	if i, err := strconv.ParseInt(label, 10, 64); err == nil {
		return kInt, label, func() *mlrval.Mlrval { return mlrval.FromInt(i) }, true
	}
	if f, err := strconv.ParseFloat(label, 64); err == nil {
		return kFloat, label, func() *mlrval.Mlrval { return mlrval.FromFloat(f) }, true
	}
	return 0, "", nil, false
}

// docCellMatches: does outcome r equal what the documentation prints in the cell?
func docCellMatches(cell string, r res) bool {
	if r.panic != "" {
		return false
	}
	switch cell {
	case "(empty)":
		return r.k == kVoid
	case "(absent)":
		return r.k == kAbsent
	case "(error)":
		return r.k == kError
	case "true", "false":
		return r.k == kBool && r.s == cell
	}
	if f, err := strconv.ParseFloat(cell, 64); err == nil {
		return (r.k == kInt || r.k == kFloat) && numEq(r.num, f)
	}
	return false
}

func docKey(t *docTable, i, j int) string {
	lab := strings.NewReplacer("(", "", ")", "").Replace
	return fmt.Sprintf("T.doc-table:%s(%s,%s)", opName(t.op), lab(t.rows[i]), lab(t.cols[j]))
}
