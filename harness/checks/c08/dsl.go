package c08

// Evaluation of the same cells through the DSL (in-process mlr put), so that
// operator tokens, short-circuit nodes and the dot node are covered, and the
// direct results are bound to what a user sees.

import (
	"fmt"
	"strings"

	"github.com/johnkerl/miller/v6/pkg/bifs"
	"github.com/johnkerl/miller/v6/pkg/dsl/cst"
	"github.com/johnkerl/miller/v6/pkg/mlrval"

	"verif/harness/vf"
)

func runDSL(body string) vf.MlrResult {
	in := dslRecord
	return vf.RunMlr([]string{"--ijson", "--ojson", "put", "-q", dslPrelude + body}, vf.MlrOpts{Stdin: &in})
}

func outLines(r vf.MlrResult) []string {
	s := strings.TrimSuffix(r.Stdout, "\n")
	if s == "" {
		return nil
	}
	return strings.Split(s, "\n")
}

func failText(r vf.MlrResult) string {
	t := strings.TrimSpace(r.Stderr + " " + r.Err + " " + r.Panic)
	if len(t) > 160 {
		t = t[:160]
	}
	return fmt.Sprintf("exit %d: %s", r.Exit, t)
}

// canonical literal per kind for learning the typeof names
var typeofProbe = [nKinds]string{"3", "2.5", "true", `""`, `"abc"`, `b"\x01"`, "[]", "{}", "f", `("a" + 1)`, "null", "@nosuch"}

// learnTypeNames maps the DSL's typeof names to kinds; the names must be
// distinct per kind (otherwise typeof cannot classify values).
func learnTypeNames(w *vf.Worker, report bool) map[string]K {
	var b strings.Builder
	for _, e := range typeofProbe {
		fmt.Fprintf(&b, "print typeof(%s);\n", e)
	}
	r := runDSL(b.String())
	lines := outLines(r)
	if !r.OK() || len(lines) != int(nKinds) {
		w.Broken("typeof calibration run failed: %s", r.String())
		return nil
	}
	names := map[string]K{}
	for k, n := range lines {
		if prev, dup := names[n]; dup {
			if report {
				viol(w, fmt.Sprintf("R6.typeof-distinct:%s,%s", prev, K(k)), fmt.Sprintf("typeof gives %q for both %s and %s values", n, prev, K(k)), nil)
			}
			continue
		}
		names[n] = K(k)
	}
	return names
}

// evalExprs evaluates DSL expressions in one run (falling back to one run per
// expression when the batch does not complete).
func evalExprs(exprs []string, names map[string]K) []res {
	var b strings.Builder
	for _, e := range exprs {
		fmt.Fprintf(&b, "print show(%s);\n", e)
	}
	r := runDSL(b.String())
	lines := outLines(r)
	out := make([]res, len(exprs))
	if r.OK() && len(lines) == len(exprs) {
		good := true
		for i, l := range lines {
			x, ok := parseShown(l, names)
			if !ok {
				good = false
				break
			}
			out[i] = x
		}
		if good {
			return out
		}
	}
	for i, e := range exprs {
		r := runDSL("print show(" + e + ");\n")
		lines := outLines(r)
		if !r.OK() || len(lines) != 1 {
			out[i] = res{k: K(-1), panic: failText(r)}
			continue
		}
		x, ok := parseShown(lines[0], names)
		if !ok {
			out[i] = res{k: K(-1), panic: "unparseable output " + lines[0]}
			continue
		}
		out[i] = x
	}
	return out
}

func dslOnly(W []wit) []wit {
	var out []wit
	for _, x := range W {
		if x.dsl != "" {
			out = append(out, x)
		}
	}
	return out
}

func lawDSLEqualsDirect(w *vf.Worker, fn, expr string, args []wit, rd, rx res) {
	w.Count("asserted:L.dsl-equals-direct", 1)
	if !same(rd, rx) {
		w.Count("violated:L.dsl-equals-direct", 1)
		viol(w, fmt.Sprintf("L.dsl-equals-direct:%s(%s)", opName(fn), kindsOf(args)),
			fmt.Sprintf("DSL `%s` = %s but the BIF called directly on ( %s ) = %s", expr, rd, idsOf(args), rx),
			map[string]any{"dsl": expr, "dsl_result": rd.String(), "direct_result": rx.String(), "args": idsOf(args)})
	}
}

// prefix operators and functions are both written name(arg)
func unaryDSLExpr(name, a string) string { return name + "(" + a + ")" }

func dslWorker(w *vf.Worker) {
	thorough := !w.Quick()
	W := dslOnly(witnesses(thorough))
	byKind := map[K][]wit{}
	for _, x := range W {
		byKind[x.k] = append(byKind[x.k], x)
	}
	ops := binops()
	table := cst.VerifC08BuiltinTable()
	var idx uint64
	var names map[string]K
	getNames := func(report bool) map[string]K {
		if names == nil {
			names = learnTypeNames(w, report)
		}
		return names
	}

	// ---- 0. calibration: typeof names are distinct; every witness expression has its kind and value
	idx++
	if w.Mine(idx) {
		w.Begin(idx)
		w.Label(func() string { return "DSL witness calibration" })
		if nm := getNames(true); nm != nil {
			all := append(append([]wit{}, W...), dslOnly(unaryExtras())...)
			exprs := make([]string, len(all))
			for i, x := range all {
				exprs[i] = x.dsl
			}
			rs := evalExprs(exprs, nm)
			for i, x := range all {
				w.Eval(1)
				w.Count("asserted:W.witness", 1)
				if !isWit(rs[i], x) {
					viol(w, "W.witness:"+x.id, fmt.Sprintf("DSL expression `%s` evaluates to %s, expected %s", x.dsl, rs[i], x.id), map[string]any{"dsl": x.dsl})
				}
			}
		}
	}

	// ---- 1. binary operators
	for oi := range ops {
		op := &ops[oi]
		if op.noDSL {
			continue
		}
		idx++
		if !w.Mine(idx) {
			continue
		}
		w.Begin(idx)
		w.Label(func() string { return "DSL matrix of " + op.tok })
		nm := getNames(false)
		if nm == nil {
			return
		}
		R := make([][]res, len(W))
		for i, a := range W {
			exprs := make([]string, len(W))
			for j, b := range W {
				exprs[j] = op.dslExpr(a.dsl, b.dsl)
			}
			R[i] = evalExprs(exprs, nm)
			for j, b := range W {
				r := R[i][j]
				w.Count("op:"+op.tok, 1)
				if op.tok == "." && a.k == kMap {
					// documented second meaning of the dot: map traversal (reference-dsl-operators.md)
					w.Count("excluded:dot-with-map-left-is-traversal", 1)
					continue
				}
				tally(w, "dsl", op.tok, exprs[j], []wit{a, b}, r, judgeBinary(op, a, b, r))
				if op.fn != nil {
					rx := evalTry(func() *mlrval.Mlrval { return op.fn(a.mk(), b.mk()) })
					lawDSLEqualsDirect(w, op.tok, exprs[j], []wit{a, b}, r, rx)
				}
			}
		}
		if op.comm {
			checkCommutative(w, "dsl", op, W, R)
		}
		if oi == 1 {
			w.Sample(map[string]any{"route": "dsl", "program": "print show(" + op.dslExpr(W[0].dsl, W[len(W)-1].dsl) + ")", "got": R[0][len(W)-1].String()})
		}
	}

	// ---- 2. unary functions (arithmetic/math/typing/boolean classes)
	UW := append(append([]wit{}, W...), dslOnly(unaryExtras())...)
	seen := map[string]bool{}
	for _, e := range table {
		e := e
		if e.Unary == nil || skipFunctions[e.Name] || seen[e.Name] {
			continue
		}
		seen[e.Name] = true
		if !(e.Class == "math" || e.Class == "typing" || e.Class == "arithmetic" || e.Name == "!") {
			continue
		}
		idx++
		if !w.Mine(idx) {
			continue
		}
		w.Begin(idx)
		w.Label(func() string { return "DSL unary " + e.Name })
		nm := getNames(false)
		if nm == nil {
			return
		}
		exprs := make([]string, len(UW))
		for i, a := range UW {
			exprs[i] = unaryDSLExpr(e.Name, a.dsl)
		}
		rs := evalExprs(exprs, nm)
		name := e.Name
		if e.HasMultipleArities && (name == "+" || name == "-") {
			name = "unary" + name
		}
		for i, a := range UW {
			r := rs[i]
			w.Count("class:"+e.Class, 1)
			tally(w, "dsl", name, exprs[i], []wit{a}, r, judgeUnary(e.Name, e.Class, a, r))
			rx := evalTry(func() *mlrval.Mlrval { return e.Unary(a.mk()) })
			if a.k != kFunc || e.Name != "typeof" {
				lawDSLEqualsDirect(w, name, exprs[i], []wit{a}, r, rx)
			}
		}
	}

	// ---- 3. asserting_*: aborts exactly when the is_* predicate is false (function help)
	for _, e := range table {
		e := e
		if !strings.HasPrefix(e.Name, "asserting_") {
			continue
		}
		idx++
		if !w.Mine(idx) {
			continue
		}
		w.Begin(idx)
		w.Label(func() string { return "DSL " + e.Name })
		nm := getNames(false)
		if nm == nil {
			return
		}
		def, ok := isDefs["is_"+strings.TrimPrefix(e.Name, "asserting_")]
		if !ok {
			w.AddSet("unmodelled-is-predicates", e.Name)
			continue
		}
		for _, a := range UW {
			expr := e.Name + "(" + a.dsl + ")"
			r := runDSL("print show(" + expr + ");\n")
			w.Eval(1)
			w.Count("asserted:R6.asserting", 1)
			w.AddSet("asserted-cells", e.Name+"("+a.k.String()+")")
			w.AddSet("cells", e.Name+"("+a.k.String()+")")
			want := def(a)
			ok := false
			got := failText(r)
			if want {
				lines := outLines(r)
				if r.OK() && len(lines) == 1 {
					x, pok := parseShown(lines[0], nm)
					ok = pok && isWit(x, a)
					got = x.String()
				}
			} else {
				ok = r.Exit != 0 && r.Panic == ""
				if r.OK() {
					got = "no abort, printed " + strings.TrimSpace(r.Stdout)
				}
			}
			if !ok {
				w.Count("violated:R6.asserting", 1)
				exp := "an abort (non-zero exit)"
				if want {
					exp = "its argument " + a.id
				}
				viol(w, fmt.Sprintf("R6.asserting:%s(%s)", e.Name, a.k), fmt.Sprintf("[dsl] `%s`: %s, expected %s", expr, got, exp), map[string]any{"dsl": expr})
			}
		}
	}

	// ---- 4. variadic min/max: arity 0 and 1 plus kind triples
	tripleKinds := []K{kInt, kFloat, kBool, kVoid, kString, kError, kAbsent}
	if thorough {
		tripleKinds = nil
		for k := K(0); k < nKinds; k++ {
			tripleKinds = append(tripleKinds, k)
		}
	}
	for _, vfn := range []struct {
		name string
		fn   bifs.VariadicFunc
		min  bool
	}{{"min", bifs.BIF_min_variadic, true}, {"max", bifs.BIF_max_variadic, false}} {
		vfn := vfn
		direct := func(ws []wit) res {
			return evalTry(func() *mlrval.Mlrval {
				ms := make([]*mlrval.Mlrval, len(ws))
				for i, x := range ws {
					ms[i] = x.mk()
				}
				return vfn.fn(ms)
			})
		}
		for _, ka := range tripleKinds {
			ka := ka
			idx++
			if !w.Mine(idx) {
				continue
			}
			w.Begin(idx)
			w.Label(func() string { return fmt.Sprintf("DSL %s(%s,*,*)", vfn.name, ka) })
			nm := getNames(false)
			if nm == nil {
				return
			}
			var exprs []string
			var argl [][]wit
			if ka == tripleKinds[0] {
				exprs = append(exprs, vfn.name+"()")
				argl = append(argl, nil)
				for _, a := range W {
					exprs = append(exprs, vfn.name+"("+a.dsl+")")
					argl = append(argl, []wit{a})
				}
			}
			for _, kb := range tripleKinds {
				for _, kc := range tripleKinds {
					args := []wit{pick(byKind, ka, 0), pick(byKind, kb, 1), pick(byKind, kc, 2)}
					exprs = append(exprs, fmt.Sprintf("%s(%s, %s, %s)", vfn.name, args[0].dsl, args[1].dsl, args[2].dsl))
					argl = append(argl, args)
				}
			}
			rs := evalExprs(exprs, nm)
			for i, args := range argl {
				r := rs[i]
				w.Count(fmt.Sprintf("op:%s/%d", vfn.name, len(args)), 1)
				var vs []verdict
				if len(args) > 0 {
					vs = judgeVariadic(vfn.name, vfn.min, args, r, func(ws []wit) res {
						es := make([]string, len(ws))
						for i, x := range ws {
							es[i] = x.dsl
						}
						return evalExprs([]string{vfn.name + "(" + strings.Join(es, ", ") + ")"}, nm)[0]
					})
				}
				tally(w, "dsl", vfn.name, exprs[i], args, r, vs)
				lawDSLEqualsDirect(w, vfn.name, exprs[i], args, r, direct(args))
			}
		}
	}

	// ---- 5. the documented (+), (&&), (||) tables through the DSL
	idx++
	if w.Mine(idx) {
		w.Begin(idx)
		w.Label(func() string { return "documented tables, DSL" })
		nm := getNames(false)
		if nm == nil {
			return
		}
		tabs, err := loadDocTables()
		if err != nil {
			w.Broken("cannot read the null-data reference: %v", err)
		}
		seenOps := map[string]bool{}
		for ti := range tabs {
			t := &tabs[ti]
			seenOps[t.op] = true
			for i, rl := range t.rows {
				_, ea, _, ok1 := docOperand(rl)
				var exprs []string
				for _, cl := range t.cols {
					_, eb, _, ok2 := docOperand(cl)
					if !ok1 || !ok2 {
						w.Broken("doc table (%s): unknown operand label %q / %q", t.op, rl, cl)
						return
					}
					exprs = append(exprs, fmt.Sprintf("(%s) %s (%s)", ea, t.op, eb))
				}
				rs := evalExprs(exprs, nm)
				for j, cl := range t.cols {
					w.Eval(1)
					w.Count("asserted:T.doc-table", 1)
					w.Count("op:"+t.op, 1)
					w.AddSet("asserted-cells", "doc"+t.op+"("+rl+","+cl+")")
					if !docCellMatches(t.cell[i][j], rs[j]) {
						w.Count("violated:T.doc-table", 1)
						viol(w, docKey(t, i, j), fmt.Sprintf("[dsl] `%s` = %s, the null-data reference tabulates %s", exprs[j], rs[j], t.cell[i][j]),
							map[string]any{"route": "dsl", "dsl": exprs[j], "got": rs[j].String(), "documented": t.cell[i][j]})
					}
				}
			}
		}
		for _, o := range []string{"+", "&&", "||"} {
			if !seenOps[o] {
				w.Broken("the null-data reference no longer contains the (%s) table (parser out of date?)", o)
			}
		}
		w.Sample(map[string]any{"doc_tables": len(tabs), "source": "docs/src/reference-main-null-data.md"})
	}
}
