// Package c08: check for property C08 (see /verif/DESIGN.md §3 C08).
package c08
