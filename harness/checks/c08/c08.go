// Package c08: absent and empty values obey the documented null-data algebra
// (see /verif/DESIGN.md §3 C08).
//
// The space is finite: 12 operand kinds (several witness values each) x every
// binary operator, every unary function of the builtin table, min/max on all
// kind triples, and every assignment-target form x every absent-producing
// right-hand side. Every cell is evaluated by calling the real BIF and again
// through the DSL; the oracle is a set of rule predicates written from the
// documentation (rules.go), the tables printed in the null-data reference
// (table.go) and laws evaluated on the real code on both sides.
package c08

import (
	"fmt"
	"strings"

	"verif/harness/vf"
)

func init() {
	vf.Register(&vf.CheckDef{ID: "C08", Level: "model_checking", Run: run,
		Workers: map[string]vf.WorkerFunc{"cells": cellsWorker, "dsl": dslWorker, "assign": assignWorker}})
}

func run(c *vf.Ctx) {
	c.Rule = "cells = (function, operand-kind tuple): every binary operator x all ordered pairs of witnesses of the 12 kinds, every unary function of the builtin table x all witnesses, min/max x all kind triples, each evaluated by direct BIF call and through `mlr put`; plus every assignment-target form x every absent right-hand side, every compound assignment x operand kinds, and the accumulation idiom over all record sequences up to the length bound. distinct_nontrivial = number of distinct (function, kind tuple) cells on which at least one documented rule was asserted + assignment/compound/accumulation cases (each distinct by construction)"
	c.Assume("cells no documented rule speaks about (e.g. array + map, string with absent, JSON null with anything) are evaluated and counted as unconstrained, never asserted")
	c.Assume("absent - x and absent .- x may be x or -x, absent / x and absent ./ x may be x or 1/x: the null-data reference says both 'return the other operand' and 'absent acts like zero/one'")
	c.Assume("empty with a number for / // % ** ./ .+ .- .* and the bitwise operators: either the number or empty is accepted ('most functions of empty produce empty' vs 'similar to +'); only + - * min max are asserted exactly")
	c.Assume("the dot operator with a map on the left is map traversal in the DSL (documented) and is excluded from the algebra")
	c.Assume("functions with side effects or randomness (system exec stat os hostname version urand*) and ternary functions are not evaluated; NaN/Inf/overflow values belong to C07")
	c.Assume("typed local declarations (str/num/map/funct x = absent), `$* = absent`, `@* = absent`, `$[absent] = ..`, `@[absent] = ..` and a map literal with an absent key may abort with an error instead of being skipped; either way no key may appear")
	c.Assume("error combined with absent is asserted only where the (+), (&&), (||) tables of the null-data reference print it")

	rc := c.RunPool(vf.PoolSpec{Worker: "cells", Shards: 48})
	rd := c.RunPool(vf.PoolSpec{Worker: "dsl", Shards: 64})
	c.RunPool(vf.PoolSpec{Worker: "assign", Shards: 64})

	union := func(name string) map[string]bool {
		m := map[string]bool{}
		for k := range rc.Sets[name] {
			m[k] = true
		}
		for k := range rd.Sets[name] {
			m[k] = true
		}
		return m
	}
	cells, asserted, uncon := union("cells"), union("asserted-cells"), union("unconstrained-cells")
	for k := range asserted {
		delete(uncon, k)
	}
	// DistinctNontrivial was summed from the assign worker's Nontrivial(); add the asserted cells
	c.DistinctNontrivial += int64(len(asserted))
	c.Extra["distinct_cells_evaluated"] = len(cells)
	c.Extra["distinct_cells_asserted"] = len(asserted)
	c.Extra["distinct_cells_unconstrained"] = len(uncon)
	c.Extra["distinct_outcomes"] = len(union("outcomes"))
	c.Extra["witnesses"] = len(witnesses(!c.Quick()))

	// typeof classifies: one name per kind, names distinct (direct route)
	byKind, byName := map[string]map[string]bool{}, map[string]map[string]bool{}
	for m := range rc.Sets["typeof"] {
		kv := strings.SplitN(m, "=", 2)
		if byKind[kv[0]] == nil {
			byKind[kv[0]] = map[string]bool{}
		}
		if byName[kv[1]] == nil {
			byName[kv[1]] = map[string]bool{}
		}
		byKind[kv[0]][kv[1]] = true
		byName[kv[1]][kv[0]] = true
	}
	if len(byKind) != int(nKinds) {
		c.Broken("typeof was exercised on %d of %d kinds", len(byKind), nKinds)
	}
	for k, ns := range byKind {
		if len(ns) != 1 {
			c.Violation("R6.typeof-stable:"+k, fmt.Sprintf("typeof names %s values %v", k, sortedKeys(ns)), nil)
		}
	}
	for n, ks := range byName {
		if len(ks) != 1 {
			c.Violation("R6.typeof-distinct:"+n, fmt.Sprintf("typeof gives %q for the distinct kinds %v", n, sortedKeys(ks)), nil)
		}
	}
	c.Extra["typeof_names"] = sortedKeys(rc.Sets["typeof"])

	// vacuity guards: every operator, kind and rule was exercised
	var missing []string
	for _, op := range binops() {
		if c.Counters["op:"+op.tok] == 0 {
			missing = append(missing, "op:"+op.tok)
		}
	}
	for k := K(0); k < nKinds; k++ {
		if c.Counters["kind:"+k.String()] == 0 {
			missing = append(missing, "kind:"+k.String())
		}
	}
	for _, r := range []string{"R1a.absent-absent", "R1b.absent-unit", "R1b.absent-ignored", "R2.empty-number", "R2.empty-number-lenient", "R2.empty-loses", "R2.empty-least-string", "R2.empty-empty", "R2.empty-concat",
		"R3.error-absorbs", "R4.unary-absent", "R4.unary-empty", "R4.unary-error", "R5.commutative-kind", "R5v.commutative-value", "R6.is-predicate", "R6.asserting", "R7.coalesce",
		"T.doc-table", "L.dsl-equals-direct", "B.table-binding", "W.witness", "V.single-argument", "V.numbers-null-loses", "A.skip-absent-rhs", "A.skip-absent-key", "A.compound", "A.accumulate"} {
		if c.Counters["asserted:"+r] == 0 {
			missing = append(missing, "rule:"+r)
		}
	}
	if len(missing) > 0 {
		c.Extra["never_exercised"] = missing
		if c.NumViolations() == 0 {
			// with violations present a premise may legitimately have failed everywhere (e.g. is_absent broken)
			c.Broken("never exercised: %s", strings.Join(missing, " "))
		}
	}

	// regroup the flat counters for the evidence file
	group := func(prefix string) map[string]int64 {
		m := map[string]int64{}
		for k, v := range c.Counters {
			if strings.HasPrefix(k, prefix) {
				m[strings.TrimPrefix(k, prefix)] = v
				delete(c.Counters, k)
			}
		}
		return m
	}
	c.Extra["hits_per_operator"] = group("op:")
	c.Extra["hits_per_kind"] = group("kind:")
	c.Extra["hits_per_function_class"] = group("class:")
	c.Extra["hits_per_lvalue_form"] = group("lvalue:")
	c.Extra["hits_per_absent_rhs"] = group("rhs:")
	c.Extra["assertions_per_rule"] = group("asserted:")
	c.Extra["violations_per_rule"] = group("violated:")
	c.Extra["evaluations_per_route"] = group("route:")
	c.Extra["accepted_aborts"] = group("accepted-abort:")
	for _, s := range []string{"unscoped-binary-functions", "unclassified-arithmetic-binary", "unmodelled-is-predicates", "panics", "rhs-not-absent", "unary-of-absent", "compound-run-failed"} {
		l := sortedKeys(union(s))
		if s == "unary-of-absent" {
			// summary: how many unary functions outside the asserted classes return absent for absent
			n, abs := 0, 0
			for _, e := range l {
				n++
				if strings.HasSuffix(e, "->absent") {
					abs++
				}
			}
			c.Extra["unary_functions_of_absent"] = map[string]int{"functions": n, "returning_absent": abs}
			var others []string
			for _, e := range l {
				if !strings.HasSuffix(e, "->absent") {
					others = append(others, e)
				}
			}
			c.Extra["unary_functions_of_absent_not_absent"] = others
			continue
		}
		if len(l) > 60 {
			l = append(l[:60], fmt.Sprintf("... %d more", len(l)-60))
		}
		c.Extra[strings.ReplaceAll(s, "-", "_")] = l
	}
	if l, _ := c.Extra["unclassified_arithmetic_binary"].([]string); len(l) > 0 {
		c.Exhaustive = false
		c.Extra["inexhaustive"] = []string{"arithmetic/math binary functions of the builtin table that the rule table does not classify: " + strings.Join(l, " ")}
	}
	if l, _ := c.Extra["unmodelled_is_predicates"].([]string); len(l) > 0 {
		c.Exhaustive = false
	}
}
