package c14

// Family "coll": collections and lvalues. Every combination of
// container (local untyped/typed, out-of-stream variable, field, $*) x base
// value x index path (1 or 2 levels, indices -4..5 and string keys) x action
// (assign scalar / assign map / unset / read / slice), optionally followed by a
// second action; a copy taken before the action (y = x) is observed too, so a
// by-reference store shows up.
// Family "fields": sequences of record-level assignments (new fields appended,
// reassigned fields keep their position, positional names, $* assignment, unset).
// Family "copy": by-value semantics between every pair of source and destination kinds.

import "fmt"

type collBase struct {
	name string
	e    expr // nil: never assigned
	kind kind
	n    int // array length
}

func collBases(level int) []collBase {
	b := []collBase{
		{"unset", nil, kAbsent, 0},
		{"{}", mapLit(), kMap, 0},
		{"map", mapLit(lit("k"), lit(1), lit("3"), lit(2), lit("m"), mapLit(lit("n"), lit(5))), kMap, 0},
		{"[]", arrLit(), kArr, 0},
		{"arr3", arrLit(lit(1), lit(2), lit(3)), kArr, 3},
		{"nested", arrLit(arrLit(lit(1), lit(2)), mapLit(lit("k"), lit(3))), kArr, 2},
	}
	return b
}

func collIndices(level int) []expr {
	ix := []expr{lit(-4), lit(-3), lit(-1), lit(0), lit(1), lit(2), lit(3), lit(4), lit(5), lit("k"), lit("z")}
	if level >= 1 {
		ix = append(ix, lit(-2), lit(6), lit("m"), oos("nosuch"))
	}
	return ix
}

type container struct {
	name    string
	lv      expr
	typ     string // typed local declaration
	okBase  func(k kind) bool
	inMain  bool // needs a record
	observe func(alias expr) []stmt
}

func collContainers() []container {
	any := func(k kind) bool { return true }
	pr1 := func(tag string, e expr) stmt { return sPrint{args: []expr{e}} }
	_ = pr1
	obsLocal := func(alias expr) []stmt {
		return []stmt{pr(lit("x:")), pr(loc("x")), pr(lit("alias:")), pr(alias)}
	}
	return []container{
		{"local", loc("x"), "", any, false, obsLocal},
		{"local-var", loc("x"), "var", func(k kind) bool { return k != kAbsent }, false, obsLocal},
		{"local-map", loc("x"), "map", func(k kind) bool { return k == kMap }, false, obsLocal},
		{"local-arr", loc("x"), "arr", func(k kind) bool { return k == kArr }, false, obsLocal},
		{"oosvar", oos("v"), "", any, false, func(alias expr) []stmt { return []stmt{sDump{}, pr(lit("alias:")), pr(alias)} }},
		{"field", fld("f"), "", any, true, func(alias expr) []stmt { return []stmt{pr(lit("alias:")), pr(alias)} }},
	}
}

func (c *container) setup(b collBase) []stmt {
	if b.e == nil {
		return nil
	}
	if c.typ != "" {
		return []stmt{sAssign{typ: c.typ, lhs: c.lv, rhs: b.e}}
	}
	return []stmt{asg(c.lv, b.e)}
}

var oneRecText = "a=1,b=pan,c=3\n"

func oneRec() []*omap { return fixedInput()[:1] }

func wrapColl(c *container, body []stmt) *progCase {
	if c.inMain {
		return &progCase{family: "coll", top: body, input: oneRec(), stdin: oneRecText}
	}
	return &progCase{family: "coll", top: []stmt{sEnd{body}}, noInput: true}
}

func genCollFamily(a progArgs, emit func(func() *progCase)) {
	bases := collBases(a.Level)
	ixs := collIndices(a.Level)
	conts := collContainers()
	rvals := []expr{lit(9), mapLit(lit("z"), lit(1))}
	if a.Level >= 1 {
		rvals = append(rvals, arrLit(lit(7)))
	}
	// index paths
	var paths [][]expr
	for _, i := range ixs {
		paths = append(paths, []expr{i})
	}
	for _, i := range ixs {
		for _, j := range ixs {
			paths = append(paths, []expr{i, j})
		}
	}
	type action struct {
		name string
		mk   func(lv expr, p []expr) stmt
	}
	var actions []action
	for ri, r := range rvals {
		r := r
		actions = append(actions, action{fmt.Sprintf("assign%d", ri), func(lv expr, p []expr) stmt { return asg(idx(lv, p...), r) }})
	}
	actions = append(actions,
		action{"unset", func(lv expr, p []expr) stmt { return sUnset{[]expr{idx(lv, p...)}} }},
		action{"read", func(lv expr, p []expr) stmt { return pr(lit("read:"), idx(lv, p...)) }},
		action{"opassign", func(lv expr, p []expr) stmt { return opasg(idx(lv, p...), "+", lit(100)) }},
	)
	alias := loc("y")
	for ci := range conts {
		c := &conts[ci]
		for _, b := range bases {
			if !c.okBase(b.kind) {
				continue
			}
			b := b
			for _, act := range actions {
				act := act
				for _, p := range paths {
					p := p
					if act.name == "read" && len(p) == 2 && a.Level == 0 && b.name != "nested" && b.name != "map" {
						continue
					}
					if risky := extendsNonFinal(b, p) && act.name != "read" && act.name != "unset"; risky != a.Risky {
						continue
					}
					if a.Risky && a.Level == 0 && !riskyQuick(b, p) {
						continue
					}
					if a.Risky && !((c.name == "oosvar" || (c.name == "local" && a.Level > 0)) && act.name == "assign0") {
						// growing an array through a non-final index currently overwrites a process-wide
						// constant and mostly ends in a stack overflow that kills the worker: two
						// containers and one right-hand side keep the run time bounded
						continue
					}
					emit(func() *progCase {
						body := append([]stmt{}, c.setup(b)...)
						body = append(body, asg(alias, c.lv))
						body = append(body, act.mk(c.lv, p))
						body = append(body, c.observe(alias)...)
						pc := wrapColl(c, body)
						pc.size = len(p)
						pc.always = a.Risky
						if a.Risky {
							pc.family = "coll-risky"
						}
						return pc
					})
					if a.Size < 2 || act.name == "read" || a.Risky {
						continue
					}
					// a second action on a one-level path
					for _, act2 := range actions {
						if act2.name == "read" || act2.name == "opassign" {
							continue
						}
						act2 := act2
						for _, q := range paths[:len(ixs)] {
							q := q
							if extendsNonFinal(b, p) {
								continue
							}
							emit(func() *progCase {
								body := append([]stmt{}, c.setup(b)...)
								body = append(body, act.mk(c.lv, p), asg(alias, c.lv), act2.mk(c.lv, q))
								body = append(body, c.observe(alias)...)
								pc := wrapColl(c, body)
								pc.size = len(p) + 10
								return pc
							})
						}
					}
				}
			}
		}
	}
	if a.Risky {
		return
	}
	// slices (rvalues only)
	bounds := []expr{nil, lit(-4), lit(-3), lit(-2), lit(-1), lit(0), lit(1), lit(2), lit(3), lit(4), lit(5)}
	for _, b := range bases {
		if b.kind != kArr {
			continue
		}
		b := b
		for _, lo := range bounds {
			for _, hi := range bounds {
				lo, hi := lo, hi
				emit(func() *progCase {
					body := []stmt{asg(loc("x"), b.e), pr(eSlice{loc("x"), lo, hi}), pr(loc("x"))}
					return &progCase{family: "coll", size: 1, top: []stmt{sEnd{body}}, noInput: true}
				})
			}
		}
	}
}

// the quick tier's representatives: one and two past the end, next index 1, 2, "k"
func riskyQuick(b collBase, p []expr) bool {
	i := p[0].(eLit).v.i
	if i != int64(b.n)+1 && i != int64(b.n)+2 {
		return false
	}
	j, ok := p[1].(eLit)
	return ok && ((j.v.k == kInt && (j.v.i == 1 || j.v.i == 2)) || (j.v.k == kStr && j.v.s == "k"))
}

func extendsNonFinal(b collBase, p []expr) bool {
	if b.kind != kArr || len(p) < 2 {
		return false
	}
	l, ok := p[0].(eLit)
	return ok && l.v.k == kInt && l.v.i > int64(b.n)
}

// ---------------------------------------------------------------- fields

func genFieldsFamily(a progArgs, emit func(func() *progCase)) {
	var alpha []stmt
	for _, n := range []int{-1, 0, 1, 2, 3, 4} {
		alpha = append(alpha, asg(ePosNam{lit(n)}, lit(phStr)), asg(ePosVal{lit(n)}, lit(phInt)))
	}
	alpha = append(alpha,
		asg(fld("a"), lit(phInt)),
		asg(fld("b"), lit(phInt)),
		asg(fld("new"), lit(phInt)),
		asg(fld("new2"), lit(phInt)),
		asg(eFieldX{lit("c")}, lit(phInt)),
		asg(eFieldX{bin(".", lit("n"), lit("ew"))}, lit(phInt)),
		asg(fld("new"), fld("nosuch")), // absent: assignment skipped
		asg(fld("a"), mapLit(lit("p"), lit(phInt))),
		sUnset{[]expr{fld("a")}},
		sUnset{[]expr{fld("b"), fld("c")}},
		sUnset{[]expr{eFieldX{lit("c")}}},
		sUnset{[]expr{eSrec{}}},
		asg(eSrec{}, mapLit(lit("z"), lit(phInt), lit("a"), lit(phInt))),
		asg(eSrec{}, call("mapsum", eSrec{}, mapLit(lit("new"), lit(phInt)))),
		asg(idx(eSrec{}, lit("a")), lit(phInt)),
		asg(idx(eSrec{}, lit("new")), lit(phInt)),
		asg(fld("nf"), eCtx{"NF"}),
		asg(fld("n2"), ePosNam{lit(2)}),
		asg(fld("v2"), ePosVal{lit(2)}),
		asg(fld("v9"), ePosVal{lit(9)}),
		opasg(fld("a"), "+", lit(100)),
		opasg(fld("cnt"), "+", lit(1)),
		opasg(fld("b"), ".", lit("x")),
	)
	if a.Level >= 1 {
		alpha = append(alpha,
			asg(fld("a"), fld("b")),
			asg(idx(fld("m"), lit("k")), lit(phInt)),
			asg(idx(fld("a"), lit("k")), lit(phInt)), // $a holds a scalar: unconstrained
			sUnset{[]expr{idx(fld("m"), lit("k"))}},
			asg(loc("t"), eSrec{}),
			asg(eSrec{}, loc("t")),
			asg(idx(loc("t"), lit("q")), lit(phInt)),
		)
	}
	var rec func(n int, prefix []stmt)
	rec = func(n int, prefix []stmt) {
		if len(prefix) > 0 {
			p := append([]stmt(nil), prefix...)
			emit(func() *progCase {
				return &progCase{family: "fields", size: len(p), top: numberProgram(p, nil, false)}
			})
		}
		if n == 0 {
			return
		}
		for _, s := range alpha {
			rec(n-1, append(prefix[:len(prefix):len(prefix)], s))
		}
	}
	rec(a.Size, nil)
}

// ---------------------------------------------------------------- copy semantics

func genCopyFamily(a progArgs, emit func(func() *progCase)) {
	type src struct {
		name  string
		setup func(v expr) []stmt
		rd    expr
		mut   func() stmt // mutate the source afterwards
	}
	srcs := []src{
		{"local", func(v expr) []stmt { return []stmt{asg(loc("r"), v)} }, loc("r"), func() stmt { return asg(idx(loc("r"), lit("z")), lit(2)) }},
		{"oosvar", func(v expr) []stmt { return []stmt{asg(oos("r"), v)} }, oos("r"), func() stmt { return asg(idx(oos("r"), lit("z")), lit(2)) }},
		{"field", func(v expr) []stmt { return []stmt{asg(fld("r"), v)} }, fld("r"), func() stmt { return asg(idx(fld("r"), lit("z")), lit(2)) }},
		{"srec", func(v expr) []stmt { return []stmt{asg(eSrec{}, v)} }, eSrec{}, func() stmt { return asg(fld("z"), lit(2)) }},
	}
	type dst struct {
		name string
		st   func(rd expr) []stmt
		mut  func() stmt
		obs  []stmt
	}
	dsts := []dst{
		{"local", func(rd expr) []stmt { return []stmt{asg(loc("d"), rd)} }, func() stmt { return asg(idx(loc("d"), lit("z")), lit(3)) }, []stmt{pr(loc("d"))}},
		{"local-indexed", func(rd expr) []stmt { return []stmt{asg(idx(loc("d"), lit("in")), rd)} }, func() stmt { return asg(idx(loc("d"), lit("in"), lit("z")), lit(3)) }, []stmt{pr(loc("d"))}},
		{"oosvar", func(rd expr) []stmt { return []stmt{asg(oos("d"), rd)} }, func() stmt { return asg(idx(oos("d"), lit("z")), lit(3)) }, []stmt{pr(oos("d"))}},
		{"oosvar-indexed", func(rd expr) []stmt { return []stmt{asg(idx(oos("d"), lit(1)), rd)} }, func() stmt { return asg(idx(oos("d"), lit(1), lit("z")), lit(3)) }, []stmt{pr(oos("d"))}},
		{"field", func(rd expr) []stmt { return []stmt{asg(fld("d"), rd)} }, func() stmt { return asg(idx(fld("d"), lit("z")), lit(3)) }, []stmt{pr(fld("d"))}},
		{"map-literal", func(rd expr) []stmt { return []stmt{asg(loc("d"), mapLit(lit("in"), rd))} }, func() stmt { return asg(idx(loc("d"), lit("in"), lit("z")), lit(3)) }, []stmt{pr(loc("d"))}},
		{"array-literal", func(rd expr) []stmt { return []stmt{asg(loc("d"), arrLit(rd))} }, func() stmt { return asg(idx(loc("d"), lit(1), lit("z")), lit(3)) }, []stmt{pr(loc("d"))}},
		{"udf-arg", func(rd expr) []stmt { return []stmt{asg(loc("d"), call("f", rd))} }, func() stmt { return asg(idx(loc("d"), lit("z")), lit(3)) }, []stmt{pr(loc("d"))}},
		{"subr-arg", func(rd expr) []stmt { return []stmt{sCall{"s", []expr{rd}}} }, func() stmt { return asg(loc("unused"), lit(0)) }, nil},
		{"for-bound", func(rd expr) []stmt {
			return []stmt{sFor2{"k", "v", mapLit(lit("only"), rd), []stmt{asg(idx(loc("v"), lit("z")), lit(4)), pr(loc("v"))}}}
		}, func() stmt { return asg(loc("unused"), lit(0)) }, nil},
		{"for-over", func(rd expr) []stmt {
			return []stmt{sFor2{"k", "v", rd, []stmt{pr(loc("k"), loc("v"))}}}
		}, func() stmt { return asg(loc("unused"), lit(0)) }, nil},
	}
	udfs := []stmt{
		sFunc{"f", []param{{"m", "map"}}, "map", []stmt{asg(idx(loc("m"), lit("z")), lit(5)), asg(idx(loc("m"), lit("added")), lit(6)), sReturn{loc("m")}}},
		sSubr{"s", []param{{"m", ""}}, []stmt{asg(idx(loc("m"), lit("z")), lit(5)), pr(loc("m"))}},
	}
	vals := []expr{mapLit(lit("z"), lit(1), lit("w"), lit(7))}
	if a.Level >= 1 {
		vals = append(vals, mapLit(lit("z"), lit(1), lit("deep"), mapLit(lit("q"), lit(8))))
	}
	for _, v := range vals {
		for _, s := range srcs {
			for _, d := range dsts {
				for order := 0; order < 2; order++ {
					v, s, d, order := v, s, d, order
					emit(func() *progCase {
						body := append([]stmt{}, s.setup(v)...)
						body = append(body, d.st(s.rd)...)
						if order == 0 {
							body = append(body, s.mut(), d.mut())
						} else {
							body = append(body, d.mut(), s.mut())
						}
						body = append(body, pr(lit("src:")), pr(s.rd), pr(lit("dst:")))
						body = append(body, d.obs...)
						top := append(append([]stmt{}, udfs...), body...)
						return &progCase{family: "copy", size: 1, top: top, input: oneRec(), stdin: oneRecText, opts: runOpts{q: true}}
					})
				}
			}
		}
	}
}
