// Package c14: put/filter programs mean what the language reference says
// (see /verif/DESIGN.md §3 C14). Three layers: an explicit-state search over
// the real runtime.Stack against a naive stack; grammar-bounded exhaustive
// program families run through the real parser/CST in-process and compared
// with an independent reference interpreter written from docs/src/reference-dsl-*.md;
// laws on the real code (emit-by-names vs the grouping verb).
package c14

import (
	"os"
	"strings"

	"verif/harness/vf"
)

func init() {
	vf.Register(&vf.CheckDef{ID: "C14", Level: "model_checking", Run: run,
		Workers: map[string]vf.WorkerFunc{"stack": stackWorker, "prog": progWorker}})
}

type progArgs struct {
	Family string
	Level  int
	Size   int
	Depth  int
}

const mineBlock = 64

// progWorker enumerates one family; cases are sharded in blocks of mineBlock programs.
func progWorker(w *vf.Worker) {
	var a progArgs
	_ = jsonUnmarshal(w.Args, &a)
	cr := newCaseRunner(w)
	defer cr.flush()
	var n uint64
	mine := false
	only := os.Getenv("VERIF_C14_ONLY") // debug: substring of the program text
	emit := func(pc *progCase) {
		if n%mineBlock == 0 {
			idx := n/mineBlock + 1
			mine = w.Mine(idx)
			if mine {
				w.Begin(idx)
			}
		}
		n++
		if !mine {
			return
		}
		if only != "" && !strings.Contains(unparse(pc.top, nil), only) {
			return
		}
		w.Label(func() string { return pc.family + ": " + unparse(pc.top, nil) })
		cr.run(pc)
	}
	switch a.Family {
	case "scope":
		genScopeFamily(a, emit)
	}
	w.Count("family:"+a.Family+":enumerated", int64(n)/int64(1)) // every shard enumerates everything; divided by shards in run()
}

func genScopeFamily(a progArgs, emit func(*progCase)) {
	g := scopeGen(a.Level)
	obs := []expr{loc("x"), loc("y")}
	for n := 0; n <= a.Size; n++ {
		g.seqs(n, a.Depth, false, nil, func(b []stmt) {
			top := numberProgram(b, obs, true)
			emit(&progCase{family: "scope", size: n, top: top, opts: runOpts{q: true}})
		})
	}
}

func run(c *vf.Ctx) {
	c.Rule = "TODO"
	type sa struct{ Level, Depth int }
	if os.Getenv("VERIF_C14_SKIP_STACK") == "" {
		if c.Quick() {
			c.RunPool(vf.PoolSpec{Worker: "stack", Shards: 64, Args: sa{0, 7}})
			c.RunPool(vf.PoolSpec{Worker: "stack", Shards: 64, Args: sa{1, 6}})
		} else {
			c.RunPool(vf.PoolSpec{Worker: "stack", Shards: 64, Args: sa{0, 9}})
			c.RunPool(vf.PoolSpec{Worker: "stack", Shards: 64, Args: sa{2, 7}})
		}
	}
	if c.Quick() {
		c.RunPool(vf.PoolSpec{Worker: "prog", Shards: 64, Args: progArgs{"scope", 0, 3, 2}})
	} else {
		c.RunPool(vf.PoolSpec{Worker: "prog", Shards: 64, Args: progArgs{"scope", 1, 4, 3}})
	}
	c.DistinctNontrivial = c.Evaluations
}
